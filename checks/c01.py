CONFIG = {
    "rule": "case = one small module (1-3 statements) of the expression/assignment fragment, rendered WITHOUT redundant parentheses, every operand a probe ev(i, v) that logs its source position i; "
            "families: E1/E2 = all expression trees of depth <=2 (outer: every constructor and operator, inner: reduced alphabet) x payload patterns (distinct primes; falsy/str/None mixes) x a raising probe at every position; "
            "P2/P3 = every pair (all groupings) and triple (quick: seeded sample, thorough: all 24^3 x 5 groupings) of infix operators, plus unary/ifexp/lambda/chain mixes; "
            "S1-S3/A1/Q = single, multiple, tuple, subscript, attribute targets; augmented assignment on name/subscript/attribute x all 12 operators; R = seeded random trees of depth 3-4; "
            "compared per case: (a) byte code of the module instruction for instruction (R column), (b) log of probe/container/call events, final values of r,x,y,z,u,v and the exception class (V column) between gpython, the model VM and the reference semantics; "
            "non-trivial = at least two logged events; distinct = distinct input lines",
    "trusted_base": [
        "Lean 4.33.0 kernel; axioms allowed: propext, Classical.choice, Quot.sound (audited per theorem on every run)",
        "lean/GPy/C01/Spec.lean: my transcription of Python's evaluation rules (language reference 6.x, 7.1, 7.2) as a definitional interpreter over abstract primitive operations",
        "lean/GPy/C01/Model.lean: hand transliteration of compile/compile.go (Expr, Stmt Assign/AugAssign/ExprStmt, tupleOrList, subscript, slice, callHelper) and vm/eval.go (do_* of the 35 opcodes used, RunFrame fetch loop); tied to /repo by the correspondence run only (compile tie: byte code equality; VM tie: same log/values/exception)",
        "lean/GPy/C01/Concrete.lean: Python's builtin operations on small ints/strs/tuples/lists/dicts and the probe prelude of harness/c01.go; operations it does not vouch for are marked UNSPEC and such programs are compared at byte-code level only",
        "parser: grouping is checked through the real parser (source has no redundant parentheses and the byte code must equal that of the intended tree); the grammar itself belongs to C06",
        "harness/c01.go (prelude, disassembler, value rendering) and checks/common.py",
    ],
    "assumptions": [
        "gpython user classes do not dispatch __add__/__lt__/__bool__/__call__: operand order is observed through ev(i, v) calls and through __getitem__/__setitem__/__getattr__/__setattr__/__contains__ of probe classes",
        "fragment: no keyword/star arguments, no starred targets, no 3-argument slices, no comprehensions, lambdas are created but not called, no del; these forms are neither modelled nor generated",
        "programs whose reference value would involve floats, bool arithmetic (C07-K01), tuple/list concatenation or ordering (C13/C17 territory), str %, 'is' on non-singletons, int-keyed dicts, sets' contents are compile-tie only",
        "py/arithmetic.go dispatch (dispatch_spec) is a separate small model tied by C07's correspondence run, not by this one",
    ],
    "exhaustive": True,
    "dist_tokens": 2,
    "group": lambda r: r["input"].split(" ")[0] + " " + " ".join(r["input"].split(" ")[3:5]),
}
