CONFIG = {
    "rule": "case = one small module (1-3 statements) of the expression/assignment fragment, rendered WITHOUT redundant parentheses, every operand a probe ev(i, v) that logs its source position i; "
            "families: E1/E2 = all expression trees of depth <=2 (outer: every constructor and operator, inner: reduced alphabet) x payload patterns (distinct primes; falsy/str/None mixes) x a raising probe at every position; "
            "P2/P3 = every pair (all groupings) and triple (quick: seeded sample, thorough: all 24^3 x 5 groupings) of infix operators, plus unary/ifexp/lambda/chain mixes; "
            "S1-S3/A1/Q = single, multiple, tuple, subscript, attribute targets; augmented assignment on name/subscript/attribute x all 12 operators; R = seeded random trees of depth 3-4; "
            "second round: L1-L4 = lambda/def with positional and keyword-only defaults (12 signatures incl. *args/**kw, every default a probe or a short-circuit form) created, created inside larger expressions, called with 15 argument shapes (positional, keyword, *, **), every depth-1 form as a function body evaluated at call time, two calls of one function object; "
            "K1/K2 = calls with keyword, * and ** arguments (6 callees x 3 positional x 4 keyword x 5 star x 5 double-star shapes, sampled in quick) alone and inside larger expressions / targets; U1 = starred targets (UNPACK_EX) x 10 right-hand sides; X1/X2 = 3-bound slices in load/store/augmented/del context and 216 literal bound triples on a str; DL = del of names, subscripts, attributes, tuples, pairs and sequences; R2 = seeded random programs over the extended fragment; "
            "compared per case: (a) byte code of the module instruction for instruction (R column), nested code objects (lambda/def bodies) are listed recursively with their parameter lists, (b) log of probe/container/call events, final values of r,x,y,z,u,v and the exception class (V column) between gpython, the model VM and the reference semantics; "
            "non-trivial = at least two logged events; distinct = distinct input lines",
    "trusted_base": [
        "Lean 4.33.0 kernel; axioms allowed: propext, Classical.choice, Quot.sound (audited per theorem on every run)",
        "lean/GPy/C01/Spec.lean: my transcription of Python's evaluation rules (language reference 6.x, 7.1, 7.2) as a definitional interpreter over abstract primitive operations",
        "lean/GPy/C01/Model.lean: hand transliteration of compile/compile.go (Expr, Stmt Assign/AugAssign/ExprStmt/Delete/FunctionDef, compileFunc + makeClosure without free variables, tupleOrList incl. UNPACK_EX, subscript, slice/buildSlice, callHelper incl. keywords/*/**, NameOp at module level and - for function bodies - LOAD_FAST/LOAD_GLOBAL) and vm/eval.go (do_* of the 38 model instructions = 64 opcodes used incl. _make_function, Vm.Call stack slicing, do_CALL_FUNCTION_VAR/KW/VAR_KW, do_UNPACK_EX, do_DELETE_*, do_BUILD_SLICE 2/3, RunFrame fetch loop); tied to /repo by the correspondence run only (compile tie: byte code equality; VM tie: same log/values/exception)",
        "lean/GPy/C01/Concrete.lean: Python's builtin operations on small ints/strs/tuples/lists/dicts (incl. extended slicing), Python's binding of call arguments to parameters (positional, keyword, *args, **kw, defaults; merging of * and ** at the call site), and the probe prelude of harness/c01.go; operations it does not vouch for are marked UNSPEC and such programs are compared at byte-code level only",
        "parser: grouping is checked through the real parser (source has no redundant parentheses and the byte code must equal that of the intended tree); the grammar itself belongs to C06",
        "harness/c01.go (prelude, disassembler, value rendering) and checks/common.py",
    ],
    "assumptions": [
        "gpython user classes do not dispatch __add__/__lt__/__bool__/__call__: operand order is observed through ev(i, v) calls and through __getitem__/__setitem__/__getattr__/__setattr__/__contains__ of probe classes",
        "fragment: no comprehensions, no closures (a nested function capturing a parameter: LOAD_CLOSURE/LOAD_DEREF/MAKE_CLOSURE), no decorators/annotations, def bodies are a single return, no ExtSlice (a[i, j:k]), no list-syntax targets; these forms are neither modelled nor generated",
        "a function call is one abstract primitive in the proofs (binding arguments to parameters, creating the frame); that the body of a called lambda/def is evaluated by the same rules is proved for its code object on its own (lambdaBody_correct) and tied by the run (model side runs the model VM on the body's code object, reference side the definitional interpreter)",
        "the qualified-name constant pushed before MAKE_FUNCTION is modelled by its last component only (harness strips '<outer>.<locals>.')",
        "programs whose reference value would involve floats, bool arithmetic (C07-K01), tuple/list concatenation or ordering (C13/C17 territory), str %, 'is' on non-singletons, int-keyed dicts, sets' contents are compile-tie only",
        "py/arithmetic.go dispatch (dispatch_spec) is a separate small model tied by C07's correspondence run, not by this one",
    ],
    "exhaustive": True,
    "dist_tokens": 2,
    "group": lambda r: r["input"].split(" ")[0] + " " + " ".join(r["input"].split(" ")[3:5]),
}
