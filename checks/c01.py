import os
import common

# the handlers of vm/eval.go that lean/GPy/C01/Model.lean `exec` transliterates (+ the helpers and stack macros they use)
HANDLERS = """do_POP_TOP do_ROT_TWO do_ROT_THREE do_DUP_TOP do_DUP_TOP_TWO do_UNARY_POSITIVE do_UNARY_NEGATIVE do_UNARY_NOT
do_UNARY_INVERT do_BINARY_POWER do_BINARY_MULTIPLY do_BINARY_FLOOR_DIVIDE do_BINARY_TRUE_DIVIDE do_BINARY_MODULO do_BINARY_ADD do_BINARY_SUBTRACT
do_BINARY_SUBSCR do_BINARY_LSHIFT do_BINARY_RSHIFT do_BINARY_AND do_BINARY_XOR do_BINARY_OR do_INPLACE_POWER do_INPLACE_MULTIPLY
do_INPLACE_FLOOR_DIVIDE do_INPLACE_TRUE_DIVIDE do_INPLACE_MODULO do_INPLACE_ADD do_INPLACE_SUBTRACT do_INPLACE_LSHIFT do_INPLACE_RSHIFT do_INPLACE_AND
do_INPLACE_XOR do_INPLACE_OR do_STORE_SUBSCR do_DELETE_SUBSCR do_UNPACK_EX do_RETURN_VALUE do_STORE_NAME do_DELETE_NAME
do_UNPACK_SEQUENCE do_STORE_ATTR do_DELETE_ATTR do_LOAD_CONST do_LOAD_NAME do_BUILD_TUPLE do_BUILD_SET do_BUILD_LIST
do_BUILD_MAP do_LOAD_ATTR do_COMPARE_OP do_JUMP_FORWARD do_POP_JUMP_IF_TRUE do_POP_JUMP_IF_FALSE do_JUMP_IF_TRUE_OR_POP do_JUMP_IF_FALSE_OR_POP
do_LOAD_GLOBAL do_STORE_MAP do_LOAD_FAST do_STORE_FAST do_CALL_FUNCTION do_MAKE_FUNCTION do_BUILD_SLICE do_CALL_FUNCTION_VAR
do_CALL_FUNCTION_KW do_CALL_FUNCTION_VAR_KW _make_function Vm.Call unpack_iterable Vm.setTopAndCheckErr Vm.POP Vm.PUSH
Vm.TOP Vm.SECOND Vm.THIRD Vm.SET_TOP Vm.SET_SECOND Vm.SET_THIRD Vm.DROP Vm.DROPN
Vm.EXTEND Vm.EXTEND_REVERSED Vm.STACK_LEVEL""".split()


def pre(run):
    """regenerate lean/GPy/C01/Generated.lean (stack operations of the modelled opcode handlers) from the working tree"""
    exdir = os.path.join(common.ROOT, "extract", "stackops")
    os.makedirs(common.WORK, exist_ok=True)
    binp = os.path.join(common.WORK, "stackops")
    rc, out = common.sh(["go", "build", "-o", binp, "."], cwd=exdir, env=common.GOENV, timeout=600)
    if rc != 0:
        run.notes.append("stackops build failed: " + out[-300:])
        run.cov["handler_table"] = "EXTRACTOR BUILD FAILED: " + out[-300:]
        return
    rc, out = common.sh([binp, common.REPO, os.path.join(common.LEAN, "GPy", "C01", "Generated.lean")] + HANDLERS, timeout=600)
    rows = [l[4:] for l in out.splitlines() if l.startswith("ROW ")]
    run.cov["handler_table"] = {"handlers": len(rows), "missing": [r.split(" ")[0] for r in rows if r.endswith(" MISSING")],
                                "sample_rows": rows[:12]} if rc == 0 else "EXTRACTOR FAILED: " + out[-300:]


CONFIG = {
    "rule": "case = one small module (1-3 statements) of the expression/assignment fragment, rendered WITHOUT redundant parentheses, every operand a probe ev(i, v) that logs its source position i; "
            "families: E1/E2 = all expression trees of depth <=2 (outer: every constructor and operator, inner: reduced alphabet) x payload patterns (distinct primes; falsy/str/None mixes) x a raising probe at every position; "
            "P2/P3 = every pair (all groupings) and triple (quick: seeded sample, thorough: all 24^3 x 5 groupings) of infix operators, plus unary/ifexp/lambda/chain mixes; "
            "S1-S3/A1/Q = single, multiple, tuple, subscript, attribute targets; augmented assignment on name/subscript/attribute x all 12 operators; R = seeded random trees of depth 3-4; "
            "second round: L1-L4 = lambda/def with positional and keyword-only defaults (12 signatures incl. *args/**kw, every default a probe or a short-circuit form) created, created inside larger expressions, called with 15 argument shapes (positional, keyword, *, **), every depth-1 form as a function body evaluated at call time, two calls of one function object; "
            "K1/K2 = calls with keyword, * and ** arguments (6 callees x 3 positional x 4 keyword x 5 star x 5 double-star shapes, sampled in quick) alone and inside larger expressions / targets; U1 = starred targets (UNPACK_EX) x 10 right-hand sides; X1/X2 = 3-bound slices in load/store/augmented/del context and 216 literal bound triples on a str; DL = del of names, subscripts, attributes, tuples, pairs and sequences; R2 = seeded random programs over the extended fragment; "
            "third round: I1 = both operands slices of ONE object (tuple, bytes, list, str of length 0..3; all (start, stop) pairs, negative / out-of-range / reversed bounds) against the object, its alias, t[:] and every other slice, each pair under is / is not / == / !=; "
            "I2 = every comparison position (3- and 4-link chains mixing is / is not / == , under not, and, or, conditional expression, in / not in a display); I3 = 29 derivations of one object (alias, whole/partial/stepped slices, slices of slices, t+empty, empty+t, t*1, t*0, re-concatenation, a fresh equal display, *args round trip, argument passing, container round trip, or/and/conditional results) x 29; "
            "I4 = inside a function on the *args tuple (LOAD_FAST operands, all slice pairs), two calls, parameters aliased; I5 = ints, strs, singletons, functions, instances, empty displays (28 x 28); X3 = extended slices a[i, lo:hi:st] in load/store/augmented/del context; "
            "compared per case: (a) byte code of the module instruction for instruction (R column), nested code objects (lambda/def bodies) are listed recursively with their parameter lists, (b) log of probe/container/call events, final values of r,x,y,z,u,v and the exception class (V column) between gpython, the model VM and the reference semantics; "
            "non-trivial = at least two logged events, or a case of the identity families I1-I5 (their observable is the value of the comparison); distinct = distinct input lines",
    "trusted_base": [
        "Lean 4.33.0 kernel; axioms allowed: propext, Classical.choice, Quot.sound (audited per theorem on every run)",
        "lean/GPy/C01/Spec.lean: my transcription of Python's evaluation rules (language reference 6.x, 7.1, 7.2) as a definitional interpreter over abstract primitive operations",
        "lean/GPy/C01/Model.lean: hand transliteration of compile/compile.go (Expr, Stmt Assign/AugAssign/ExprStmt/Delete/FunctionDef, compileFunc + makeClosure without free variables, tupleOrList incl. UNPACK_EX, subscript, slice/buildSlice, callHelper incl. keywords/*/**, NameOp at module level and - for function bodies - LOAD_FAST/LOAD_GLOBAL) and vm/eval.go (do_* of the 38 model instructions = 64 opcodes used incl. _make_function, Vm.Call stack slicing, do_CALL_FUNCTION_VAR/KW/VAR_KW, do_UNPACK_EX, do_DELETE_*, do_BUILD_SLICE 2/3, RunFrame fetch loop); tied to /repo by the correspondence run only (compile tie: byte code equality; VM tie: same log/values/exception)",
        "lean/GPy/C01/Concrete.lean: Python's builtin operations on small ints/strs/tuples/lists/dicts (incl. extended slicing), Python's binding of call arguments to parameters (positional, keyword, *args, **kw, defaults; merging of * and ** at the call site), and the probe prelude of harness/c01.go; operations it does not vouch for are marked UNSPEC and such programs are compared at byte-code level only",
        "lean/GPy/C01/Ident.lean: transliteration of vm/eval.go objectIs, of Go's slice expression s[i:j] on a slice header (pointer not advanced when the new capacity is 0) and of make (zero-size allocations share runtime.zerobase), and my reading of Python's object identity (language reference 3.1, 6.10.3) as the three-valued specIs; the places that create or share storage (BUILD_TUPLE, Tuple/Bytes + and *, step-1 slices returning sub-slices, stepped slices, the *args copy in function calls, bytes literals as headers into the lexer's buffer and constants shared per code object) are written into Concrete.lean by hand and tied by the run",
        "lean/GPy/C01/Generated.lean is REGENERATED on every run by extract/stackops (go/ast: value-stack operations and py calls of the 83 modelled opcode handlers / stack macros of vm/eval.go in source order, locals renamed in binding order); lean/GPy/C01/HandlerFacts.lean holds the rows the model was written from; theorem handler_table_pinned equates them",
        "parser: grouping is checked through the real parser (source has no redundant parentheses and the byte code must equal that of the intended tree); the grammar itself belongs to C06",
        "harness/c01.go (prelude, disassembler, value rendering) and checks/common.py",
    ],
    "assumptions": [
        "gpython user classes do not dispatch __add__/__lt__/__bool__/__call__: operand order is observed through ev(i, v) calls and through __getitem__/__setitem__/__getattr__/__setattr__/__contains__ of probe classes",
        "fragment: no comprehensions, no closures (a nested function capturing a parameter: LOAD_CLOSURE/LOAD_DEREF/MAKE_CLOSURE), no decorators/annotations, def bodies are a single return (no STORE_FAST), no list-syntax targets; these forms are neither modelled nor generated",
        "a function call is one abstract primitive in the proofs (binding arguments to parameters, creating the frame); that the body of a called lambda/def is evaluated by the same rules is proved for its code object on its own (lambdaBody_correct) and tied by the run (model side runs the model VM on the body's code object, reference side the definitional interpreter)",
        "the qualified-name constant pushed before MAKE_FUNCTION is modelled by its last component only (harness strips '<outer>.<locals>.')",
        "programs whose reference value would involve floats, bool arithmetic (C07-K01), list concatenation/repetition, tuple/list/bytes ordering (C13/C17 territory), str %, 'is' on function objects created by lambda/def, slice objects, sets or ints beyond int64 (*py.BigInt), int-keyed dicts, sets' contents are compile-tie only",
        "identity: where Python leaves `a is b` to the implementation (two immutable objects of separate creation events with equal type and value: t[:] is t, t[1:] is t[1:], () is (), 5 is 2+3, 'ab' is 'a'+'b') the reference side takes the model's answer, so there the run compares implementation and model only; literal constants have unknown provenance for the reference (x = 5; x is 5 is implementation-defined); bytes literals are generated at module level only (constants are shared per code object); floats are outside the value universe (x is x for NaN was repaired by a fix commit and is asserted in vm/tests/ops.py)",
        "ExtSlice: dimensions that are indices or 3-bound slices (a[i, lo:hi:st]) are inside the proved fragment as tuple-of-slice-objects and go through the real parser's ExtSlice path in the run; a 2-bound slice dimension (a[i, lo:hi], BUILD_SLICE 2 inside BUILD_TUPLE) is not generated",
        "py/arithmetic.go dispatch (dispatch_spec) is a separate small model tied by C07's correspondence run, not by this one",
    ],
    "exhaustive": True,
    "dist_tokens": 2,
    "group": lambda r: r["input"].split(" ")[0] + " " + " ".join(r["input"].split(" ")[3:5]),
}
