CONFIG = {
    "rule": "cases = (a) generated programs `def f(): <body>; r = f()` over the statement fragment {if/elif/else, while(+else), for(+else) over a probe iterator, "
            "break, continue, return, raise C / raise C(k) / raise C from D / raise <int> / bare raise, try/except (1-2 handlers, builtin classes, tuples, `as e`), try/finally, try/except/else/finally, with (probe context manager), pass, probe calls ev(i)}: "
            "every nesting of 30 one-hole contexts (6 of them handler-in-handler / finally-in-handler shapes ending in a bare raise or catching an exception that passed through finally / with / a raising handler) to depth 2 x 19 leaves "
            "(which probe raises which class / returns / breaks / continues / re-raises / falls through), depth 3: 1500 uniform + 4500 samples weighted towards handler and finally contexts (quick) or complete (thorough); "
            "per program three ties: decoded bytecode of f == Model.compS, hook-H2 instruction trace (pc, stack depth, block kinds/levels/handlers) == Model.step trace, "
            "path log + result / exception class + traceback (function, line) == Spec.execT;  (b) ExceptionGivenMatches on all pairs of 12 builtin classes and on tuples;  "
            "(c) Lnotab()/Addr2Line on instruction streams with line/byte gaps > 255.  "
            "non-trivial = the leaf is not a plain fall-through (program raises/returns/breaks/continues/has a raising condition), a match with caught != raised, a line table with a gap > 255 or several lines; distinct = distinct input lines",
    "trusted_base": [
        "Lean 4.33.0 kernel; axioms allowed: propext, Classical.choice, Quot.sound (audited per theorem on every run)",
        "lean/GPy/C02/Spec.lean: my transcription of Python 3.4's control-flow semantics (execT), of the subclass relation (Sub, documented builtin hierarchy `ancestors`), of the block-stack rule (Selects/resumeState) and of 'line of the instruction containing an address' (lineAtByte)",
        "lean/GPy/C02/Model.lean: hand transliteration of vm/eval.go (RunFrame unwinding loop, END_FINALLY, WITH_CLEANUP, SETUP_WITH, POP_EXCEPT, FOR_ITER, jumps, EXC_MATCH, RAISE_VARARGS), py/frame.go, py/exception.go ExceptionGivenMatches / py/type.go IsSubtype, "
        "compile/compile.go Stmt/tryExcept/tryFinally/with, compile/instructions.go Lnotab, py/code.go Addr2Line; tied to /repo by the correspondence run only",
        "the model machine works on instruction indices: byte encoding / EXTENDED_ARG / jump-offset resolution are decoded by harness/c02.go (and belong to property C12)",
        "probe builtins ev/it/cm are Go objects of the harness (M__next__, M__enter__, M__exit__); locals (STORE_FAST/DELETE_FAST) are not modelled beyond their stack effect",
        "harness/c02.go and checks/common.py (case transport, decoding, canonical text)",
    ],
    "assumptions": [
        "proved for all inputs (Props.lean): unwind_spec (incl. the handled exception restored by every popped EXCEPT_HANDLER block), unwind_exits_unchanged, finally_preserves_reason, handled_exception_restored_unwind, exc_match_iff_ancestor, builtin_ancestors_spec, addr2line_lnotab, lnotab_bytes, traceback_line (+ traceback_line_old_witness), "
        "compS_correct (whole statement fragment incl. try/finally, try/except, with, bare raise and the handled-exception state vm.exc), handled_exception_restored, bare_raise_reraises_handled, frame_correct, no_exception_lost, finally_runs_once, exit_called_once, handler_first_match, exc_match_iff_ancestor_c3 (multiple inheritance, over the C3 tables of C16: imports GPy.C16.Props), traceback_chain, module_frame, traceback_names_every_call; "
        "the link Lean model <-> Go code is the correspondence run (bytecode, H2 trace, end-to-end), not a proof",
        "exception chaining (__context__/__cause__ are not observed: `raise C from D` is checked for the class and traceback it raises only), sys.exc_info, generators (whyYield) and iterators that raise (C05) are outside the fragment",
        "the handled exception is modelled per frame (vm.exc is a field of the Vm value RunFrame creates): a bare `raise` in a function CALLED from a handler is outside the fragment (every generated function is called from module level, outside any handler)",
        "calling frames (`def g(): return f()` wrappers, the module-level `r = f()`) are model frames of their own (Model.wrapperCode / moduleCode run by Model.run; LOAD_NAME/STORE_NAME abstracted to their stack effect); theorems traceback_chain / traceback_names_every_call; only f's frame is traced by hook H2",
        "probe context managers and iterators do not raise themselves",
    ],
    "exhaustive": False,
    "dist_tokens": 1,
    "group": lambda r: r["input"].split(" ")[0].rsplit("/", 1)[-1] if r["input"][:2] in ("d1", "d2", "d3", "x:") else r["input"][:2],
}


def extra(run):
    """distribution of the generated cases, measured from the case file of this run"""
    import os, collections, re
    from common import WORK
    path = os.path.join(WORK, "C02.cases")
    if not os.path.exists(path):
        return
    kinds = collections.Counter()
    leaves = collections.Counter()
    ctxs = collections.Counter()
    outcomes = collections.Counter()
    feats = collections.Counter()
    depth = collections.Counter()
    maxtrace = 0
    for line in open(path):
        f = line.rstrip("\n").split("\t")
        inp, mR, sV = f[0], (f[2] if len(f) > 2 else ""), (f[3] if len(f) > 3 else "")
        if inp.startswith("xm="):
            kinds["exception-match"] += 1
            outcomes["match:" + sV] += 1
            continue
        if inp.startswith("ln="):
            kinds["line-table"] += 1
            if re.search(r"(^| )255\.0|\.255", mR):
                feats["lnotab with a 255 split"] += 1
            continue
        kinds["program"] += 1
        label = inp.split(" ")[0]
        parts = label.split(":", 1)[1].split("/") if ":" in label else [label]
        depth[label.split(":")[0]] += 1
        leaves[parts[-1]] += 1
        for c in parts[:-1]:
            ctxs[c] += 1
        out = sV.split("|")[-1]
        out = re.sub(r"@.*", "", out)
        out = re.sub(r"R:-?\d+", "R:int", out)
        outcomes[out] += 1
        code, _, trace = mR.partition("|")
        steps = trace.split(" ") if trace else []
        maxtrace = max(maxtrace, len(steps))
        if any(".H" in s or ":H" in s for s in steps):
            feats["enters an except/finally handler with an exception (EXCEPT_HANDLER block)"] += 1
        if "CONTINUE_LOOP" in code and any(s.split(":")[0] == str(i) for i, ins in enumerate(code.split(" ")) if ins.startswith("CONTINUE_LOOP") for s in steps):
            feats["executes CONTINUE_LOOP (continue through try/with)"] += 1
        if "WITH_CLEANUP" in code:
            feats["contains with"] += 1
        if re.search(r"ex\d+:(?!None)", sV):
            feats["__exit__ called with an exception"] += 1
        if len([s for s in steps if s.split(":")[2].count("F") + s.split(":")[2].count("E") >= 2]) > 0:
            feats["two or more try/with blocks active at once"] += 1
    run.cov["distribution"] = {
        "case kinds": dict(kinds), "program depth": dict(depth), "leaf": dict(leaves), "contexts used": dict(ctxs),
        "features": dict(feats), "longest instruction trace": maxtrace,
    }
    run.cov["spec_error_kinds"] = dict(outcomes)
