CONFIG = {
    "rule": "cases = (a) generated programs `def f(): <body>; r = f()` over the statement fragment {if/elif/else, while(+else), for(+else) over a probe iterator, "
            "break, continue, return, raise C / raise C(k) / raise C from D / raise <int> / bare raise, try/except (1-2 handlers, builtin classes, tuples, `as e`), try/finally, try/except/else/finally, with (probe context manager), pass, probe calls ev(i)}: "
            "every nesting of 30 one-hole contexts (6 of them handler-in-handler / finally-in-handler shapes ending in a bare raise or catching an exception that passed through finally / with / a raising handler) to depth 2 x 19 leaves "
            "(which probe raises which class / returns / breaks / continues / re-raises / yields / falls through), depth 3: 1500 uniform + 4500 samples weighted towards handler and finally contexts (quick) or complete (thorough); "
            "COMPOSITE family `c<d>:outer/park/P|FIN`: 4 outer contexts (function body, for+else, while+else, generator already resumed once + for) x 10 park contexts (1-2 try/finally / with / try-except-finally statements being left, which of them owns the finally body) "
            "x 6 parked leaves P (return, continue, break, raise, yield, fall-through) x finally bodies FIN = 8 leaves (ok, continue, break, return, raise, yield, handled exception, probe raising on its 2nd call) under d = 0, 1 (complete: 32 640 programs) or 2 (7000 seeded samples in quick; complete for 4 park contexts in thorough) "
            "of 16 one-hole contexts (for / for+else / for-else part, while likewise, try/finally body and finally part, try/except body / handler / named handler / else, with (plain, suppressing, __exit__ running a Python loop), if); a function containing a yield is a generator driven by the harness builtin drive(); "
            "per program three ties: decoded bytecode of f == Model.compS, hook-H2 instruction trace (pc, stack depth, block kinds/levels/handlers) == Model.step trace, "
            "path log + result / exception class + traceback (function, line) == Spec.execT;  (b) ExceptionGivenMatches on all pairs of 12 builtin classes and on tuples;  "
            "(c) Lnotab()/Addr2Line on instruction streams with line/byte gaps > 255.  "
            "non-trivial = the leaf is not a plain fall-through (program raises/returns/breaks/continues/has a raising condition), a match with caught != raised, a line table with a gap > 255 or several lines; distinct = distinct input lines",
    "trusted_base": [
        "Lean 4.33.0 kernel; axioms allowed: propext, Classical.choice, Quot.sound (audited per theorem on every run)",
        "lean/GPy/C02/Spec.lean: my transcription of Python 3.4's control-flow semantics (execT), of the subclass relation (Sub, documented builtin hierarchy `ancestors`), of the block-stack rule (Selects/resumeState) and of 'line of the instruction containing an address' (lineAtByte)",
        "lean/GPy/C02/Model.lean: hand transliteration of vm/eval.go (RunFrame unwinding loop, END_FINALLY, WITH_CLEANUP, SETUP_WITH, POP_EXCEPT, FOR_ITER, jumps, EXC_MATCH, RAISE_VARARGS), py/frame.go, py/exception.go ExceptionGivenMatches / py/type.go IsSubtype, "
        "compile/compile.go Stmt/tryExcept/tryFinally/with, compile/instructions.go Lnotab, py/code.go Addr2Line; tied to /repo by the correspondence run only",
        "the model machine works on instruction indices: byte encoding / EXTENDED_ARG / jump-offset resolution are decoded by harness/c02.go (and belong to property C12)",
        "probe builtins ev/it/cm are Go objects of the harness (M__next__, M__enter__, M__exit__); locals (STORE_FAST/DELETE_FAST) are not modelled beyond their stack effect",
        "harness/c02.go and checks/common.py (case transport, decoding, canonical text)",
    ],
    "assumptions": [
        "proved for all inputs (Props.lean): unwind_spec (incl. the handled exception restored by every popped EXCEPT_HANDLER block), unwind_exits_unchanged, finally_preserves_reason, handled_exception_restored_unwind, exc_match_iff_ancestor, builtin_ancestors_spec, addr2line_lnotab, lnotab_bytes, traceback_line (+ traceback_line_old_witness), "
        "compS_correct (whole statement fragment incl. try/finally, try/except, with, bare raise and the handled-exception state vm.exc), handled_exception_restored, bare_raise_reraises_handled, frame_correct, no_exception_lost, finally_runs_once, exit_called_once, handler_first_match, exc_match_iff_ancestor_c3 (multiple inheritance, over the C3 tables of C16: imports GPy.C16.Props), traceback_chain, module_frame, traceback_names_every_call; "
        "the link Lean model <-> Go code is the correspondence run (bytecode, H2 trace, end-to-end), not a proof",
        "exception chaining (__context__/__cause__ are not observed: `raise C from D` is checked for the class and traceback it raises only), sys.exc_info and iterators that raise (C05) are outside the fragment",
        "generators: `yield ev(i)` as an expression statement only (YIELD_VALUE; POP_TOP); the consumer always resumes with next() (sends None) until exhaustion - send(value), throw(), close() and `yield from` belong to C05; the model glues 'yield, hand the value to the consumer, be resumed in a fresh Vm' into one transition (Model.resumeGen)",
        "register fact table: extract/c02regs (go/ast) regenerates lean/GPy/C02/Generated.lean from vm/eval.go on every run; theorem regfacts_pinned (by decide) compares it with the model's table, modelRegFacts_sound ties that table to exec/unwind1/frameExit for all states; the syntactic region finder itself (which if/case of eval.go is which region) is trusted",
        "the handled exception is modelled per frame (vm.exc is a field of the Vm value RunFrame creates): a bare `raise` in a function CALLED from a handler is outside the fragment (every generated function is called from module level, outside any handler)",
        "calling frames (`def g(): return f()` wrappers, the module-level `r = f()`) are model frames of their own (Model.wrapperCode / moduleCode run by Model.run; LOAD_NAME/STORE_NAME abstracted to their stack effect); theorems traceback_chain / traceback_names_every_call; only f's frame is traced by hook H2",
        "probe context managers and iterators do not raise themselves",
    ],
    "exhaustive": False,
    "dist_tokens": 1,
    "group": lambda r: (r["input"].split(" ")[0].split(":", 1)[1].split("|")[0].rsplit("/", 1)[-1] + "|" + r["input"].split(" ")[0].rsplit("/", 1)[-1].split("|")[-1]) if (r["input"][:1] == "c" and r["input"][1:2].isdigit())
             else (r["input"].split(" ")[0].rsplit("/", 1)[-1] if r["input"][:2] in ("d1", "d2", "d3", "x:") else r["input"][:2]),
}


def pre(run):
    """regenerate lean/GPy/C02/Generated.lean (register fact table) from the working tree's vm/eval.go"""
    import os
    import common
    exdir = os.path.join(common.ROOT, "extract", "c02regs")
    os.makedirs(common.WORK, exist_ok=True)
    binp = os.path.join(common.WORK, "c02regs")
    rc, out = common.sh(["go", "build", "-o", binp, "."], cwd=exdir, env=common.GOENV, timeout=600)
    if rc != 0:
        run.cov["register_fact_table"] = "EXTRACTOR BUILD FAILED: " + out[-300:]
        return
    rc, out = common.sh([binp, common.REPO, os.path.join(common.LEAN, "GPy", "C02", "Generated.lean")], timeout=600)
    run.cov["register_fact_table"] = [l[5:] for l in out.splitlines() if l.startswith("FACT ")] if rc == 0 else "EXTRACTOR FAILED: " + out[-300:]


def extra(run):
    """distribution of the generated cases, measured from the case file of this run"""
    import os, collections, re
    from common import WORK
    path = os.path.join(WORK, "C02.cases")
    if not os.path.exists(path):
        return
    kinds = collections.Counter()
    leaves = collections.Counter()
    ctxs = collections.Counter()
    outcomes = collections.Counter()
    feats = collections.Counter()
    depth = collections.Counter()
    maxtrace = 0
    matrix = collections.defaultdict(collections.Counter)      # parked leaf -> finally-body action -> programs
    clob = collections.defaultdict(collections.Counter)        # same, only programs that write vm.retval while a return/continue is parked
    for line in open(path):
        f = line.rstrip("\n").split("\t")
        inp, mR, sV = f[0], (f[2] if len(f) > 2 else ""), (f[3] if len(f) > 3 else "")
        tags = f[4].split(",") if len(f) > 4 else []
        if "clob" in tags:
            feats["writes vm.retval (CONTINUE_LOOP/RETURN_VALUE/YIELD_VALUE) while a return/continue is parked on the value stack"] += 1
        if "gen" in tags:
            feats["generator function (driven by next() until exhausted)"] += 1
        if inp.startswith("c") and inp[1:2].isdigit() and "|" in inp.split(" ")[0]:
            lab = inp.split(" ")[0]
            park, fin = lab.split(":", 1)[1].split("|", 1)
            pleaf = park.split("/")[-1]
            fparts = fin.split("/")
            # finally-body action: its leaf, qualified by the innermost kind of construct it sits in
            inner = fparts[-2].split(".")[0] if len(fparts) > 1 else "-"
            inner = {"forE": "for", "forElse": "for-else", "whileE": "while", "whileElse": "while-else", "withT": "with", "withL": "with"}.get(inner, inner)
            act = fparts[-1] + ("@" + inner if inner != "-" else "")
            through = any(x.split(".")[0] in ("tryF", "tryE", "with", "withT", "withL") for x in fparts[:-1]) and any(x.startswith(("for", "while")) for x in fparts[:-1])
            if fparts[-1] == "continue" and through:
                act = "continue(CONTINUE_LOOP)@loop"
            matrix[pleaf][act] += 1
            if "clob" in tags:
                clob[pleaf][act] += 1
        if inp.startswith("xm="):
            kinds["exception-match"] += 1
            outcomes["match:" + sV] += 1
            continue
        if inp.startswith("ln="):
            kinds["line-table"] += 1
            if re.search(r"(^| )255\.0|\.255", mR):
                feats["lnotab with a 255 split"] += 1
            continue
        kinds["program"] += 1
        label = inp.split(" ")[0]
        parts = label.split(":", 1)[1].replace("|", "/|/").split("/") if ":" in label else [label]
        depth[label.split(":")[0]] += 1
        leaves[parts[-1]] += 1
        for c in parts[:-1]:
            ctxs[c] += 1
        out = sV.split("|")[-1]
        out = re.sub(r"@.*", "", out)
        out = re.sub(r"R:-?\d+", "R:int", out)
        outcomes[out] += 1
        code, _, trace = mR.partition("|")
        steps = trace.split(" ") if trace else []
        maxtrace = max(maxtrace, len(steps))
        if any(".H" in s or ":H" in s for s in steps):
            feats["enters an except/finally handler with an exception (EXCEPT_HANDLER block)"] += 1
        if "CONTINUE_LOOP" in code and any(s.split(":")[0] == str(i) for i, ins in enumerate(code.split(" ")) if ins.startswith("CONTINUE_LOOP") for s in steps):
            feats["executes CONTINUE_LOOP (continue through try/with)"] += 1
        if "WITH_CLEANUP" in code:
            feats["contains with"] += 1
        if re.search(r"ex\d+:(?!None)", sV):
            feats["__exit__ called with an exception"] += 1
        if len([s for s in steps if s.split(":")[2].count("F") + s.split(":")[2].count("E") >= 2]) > 0:
            feats["two or more try/with blocks active at once"] += 1
    run.cov["distribution"] = {
        "case kinds": dict(kinds), "program depth": dict(depth), "leaf": dict(leaves), "contexts used": dict(ctxs),
        "features": dict(feats), "longest instruction trace": maxtrace,
    }
    run.cov["spec_error_kinds"] = dict(outcomes)
    run.cov["parked_reason_x_finally_action"] = {k: dict(sorted(v.items())) for k, v in sorted(matrix.items())}
    run.cov["parked_reason_x_finally_action_with_retval_clobbered"] = {k: dict(sorted(v.items())) for k, v in sorted(clob.items())}
    acts = sorted({a for v in matrix.values() for a in v})
    run.cov["parked_reason_x_finally_action_empty_cells"] = [f"{p} x {a}" for p in sorted(matrix) for a in acts if matrix[p][a] == 0]
