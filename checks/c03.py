import os, collections

CONFIG = {
    "rule": "case = one scope tree (module body with nested def/lambda/class/comprehension blocks, nesting <= 3; operations bind/use/global/nonlocal/del "
            "on names from {x, y, abs, __class__}; parameters of every kind incl. duplicates and defaults that read an enclosing name) rendered as Python source; "
            "systematic part = (a) every chain module>b1>b2 (>b3) x placement patterns of the operations of one name before/after the nested block x parameter variants, "
            "(b) sibling families: every parent block (module; function binding x before/after its children or by a positional/default/*/kw-only/** parameter; class; function or class nested in a function binding x) x every ORDERED pair and triple of child scopes, "
            "each child drawn independently from the full alphabet def/class/lambda/comprehension x use/bind/global/nonlocal/del sequences x a nested grandchild scope (class bodies with methods and comprehensions using the name the class binds); "
            "(c) outer-declaration chains (round 3): chains of depth 2, 3 and 4 in which every level draws its operations on the name independently from the level alphabet (nothing/bind/global/global+bind/nonlocal/use/parameter/bind after the nested block/class/lambda/comprehension ...), the innermost block reads the name, and one extra sibling scope (def or class with `global x`, `global x; x = ..`, `x = ..`) stands before or after the chain's block at any one level incl. module level, x 5 module-level patterns (nothing, bind, `global x`, `global x; x = ..`, bind after); depth 2 complete, depth 3 and 4 sampled by a VERIF_SEED-dependent stride in quick (thorough: depth 3 every 3rd, larger alphabet); every third of these renders bindings as `for x in (v,): pass` instead of `x = v` (tag forstyle); "
            "random part = VERIF_SEED-derived trees with several children per block, plus a dense profile (1-2 names, 2-4 child scopes per block); "
            "tag cpsens = the model without `temp_bound := bound.Copy()` gives a different table on this case (measured sensitivity to sibling aliasing of the bound set); every program is analysed 8 times by symtable.NewSymTable (Go map order varies) and then compiled and run; "
            "V = per-block scope classification of every name + the values every `use` printed + final exception class (or E:SyntaxError), R = def-use flags, exact scope, Varnames, NeedsClassClosure; "
            "non-trivial = the spec rejects the program, or some name is a cell/free/explicit-global, or the run ends in NameError/UnboundLocalError; distinct = distinct source text",
    "trusted_base": [
        "Lean 4.33.0 kernel; axioms allowed: propext, Classical.choice, Quot.sound (audited per theorem on every run)",
        "lean/GPy/C03/Spec.lean: my transcription of Python's scoping rules (language reference 4.1, 7.12, 7.13, 8.7; CPython's reading for `global` in an intermediate function) and of the run-time store (one location per variable per activation, class namespace dictionaries, defaults evaluated at def time)",
        "lean/GPy/C03/Model.lean: hand transliteration of symtable/symtable.go (Parse/AddDef, AnalyzeName, AnalyzeCells, DropClassFree, Symbols.Update, AnalyzeBlock, AnalyzeChildBlock, Find), compile.go (NameOp scope->opcode table, slot arithmetic, getRefType, makeClosure, Cellvars/Freevars) and vm/eval.go (EvalCode cell set-up, LOAD/STORE/DELETE_{FAST,DEREF,GLOBAL,NAME}, LOAD_CLASSDEREF, LOAD_CLOSURE); Go maps are total functions, every `range` over a map is a fold over an arbitrarily permuted key list; the three sets AnalyzeBlock hands to AnalyzeChildBlock are threaded through the children loop as state with `temp_bound := bound.Copy()` an explicit step; tied to the repo by the correspondence run only",
        "extract/symfacts (go/ast, ~450 lines): reads (*SymTable).AnalyzeName and AnalyzeChildBlock of the working tree into lean/GPy/C03/Generated/AnalyzeNameFacts.lean on every run (order of the if-tests on flags/sets, per branch the scope constant, Add/Discard/Contains on bound/local/free/global, the SyntaxError by its message, return; anything else = `unknown`); Props.lean proves the model's AnalyzeName equal to the interpretation of the same table (analyzeName_is_table) and pins the extracted table against it by `decide` (analyzeName_decision_pinned, childBlock_copies_pinned); trusted: the extractor's reading of these statement forms and `Prog.exec` as their meaning",
        "the rendering scope tree -> Python text (Gen.lean) and the gpython parser (parser.ParseString) producing the AST that text denotes",
        "harness/c03.go and checks/common.py (case transport, canonical dumps)",
    ],
    "assumptions": [
        "the model's universe of names (every name of the program plus __class__, .0, _[1]) contains every key of every symbol table map; st.Free/st.ChildFree/Generator/ReturnsValue flags are not modelled (the compiler does not read the first two)",
        "name mangling, exec/eval/locals(), import(-as) (DefImport), except-as, with-as targets and augmented assignment are outside the modelled fragment; for-targets are covered as a surface form of `bind` (same symtable event: Name in Store context) (locals() is used by two corpus cases only)",
        "run-time protocol of a generated program: every def is called (without arguments) right after its definition and once more at the end of the enclosing body; classes/lambdas/comprehensions run once where they stand",
    ],
    "exhaustive": False,
    "dist_tokens": 1,
    "case_timeout": 30.0,
    "group": lambda r: r["impl"].split(" # ")[-1][-24:] + "|" + r["spec"].split(" # ")[-1][-24:],
}


def pre(run):
    """regenerate lean/GPy/C03/Generated/AnalyzeNameFacts.lean from symtable/symtable.go of the working tree (extract/symfacts):
    the decision sequence of (*SymTable).AnalyzeName and the Copy() calls of AnalyzeChildBlock; Props.lean pins them against the model
    (analyzeName_decision_pinned, childBlock_copies_pinned)"""
    import common
    out_lean = os.path.join(common.LEAN, "GPy", "C03", "Generated", "AnalyzeNameFacts.lean")
    before = open(out_lean).read() if os.path.exists(out_lean) else ""
    rc, out = common.sh(["go", "run", ".", common.REPO, out_lean], cwd=os.path.join(common.ROOT, "extract", "symfacts"),
                        env=common.GOENV, timeout=600)
    after = open(out_lean).read() if os.path.exists(out_lean) else ""
    run.cov["symfacts"] = {"cmd": "cd extract/symfacts && go run . <repo> lean/GPy/C03/Generated/AnalyzeNameFacts.lean", "exit": rc,
                           "output": out.strip()[-300:], "unknown_constructs": after.count("unknown"),
                           "generated_file_differs_from_committed_baseline": after != before and before != ""}
    if rc != 0:
        run.violation({"kind": "extractor", "broken": "extract/symfacts cannot read (*SymTable).AnalyzeName of the working tree any more: "
                       "analyzeName_decision_pinned is no longer about the current code", "output": out[-2000:]}, nofail=True)


def extra(run):
    """tag distribution of the generated cases (the generator labels every case)"""
    p = os.path.join(os.path.dirname(os.path.dirname(os.path.abspath(__file__))), "work", "C03.cases")
    tags = collections.Counter()
    try:
        for line in open(p):
            f = line.rstrip("\n").split("\t")
            if len(f) >= 5:
                for t in f[4].split(","):
                    if t:
                        tags[t] += 1
    except OSError:
        return
    run.cov["tag_distribution"] = dict(tags)
    run.say("C03 case tags: " + ", ".join(f"{k}={v}" for k, v in sorted(tags.items())))
