CONFIG = {
    "rule": "case = (signature, call expression) run end-to-end from Python source: `def f(<sig>): return (<all parameters>)` then the call, "
            "or (Go callable signature, route, call expression) on callables registered by the harness that report (receiver, args, kwargs); "
            "exhaustive product of the 168 signatures over <=2 positional (each with/without default), <=2 keyword-only (each with/without default), +-*s, +-**d "
            "x calls with 0..3 explicit positionals, every subset of keyword names (all parameter names + one unknown), *seq in {absent,[],[x],[x,y]}, "
            "**map in {absent,{},one key for each name of the universe + a 2nd unknown, a two-key map}, plus non-iterable * / non-mapping ** operands "
            "(quick: full product for <=1 positional and <=1 keyword-only parameter, VERIF_SEED-derived 10% of the rest; thorough: all); "
            "4 Go signatures x {module function, via instance, via class with the receiver first, via class without receiver (TypeError cases)} x 256 calls; "
            "non-trivial = anything but a plain positional call of a positional-only signature with the exact count; distinct = distinct input lines",
    "trusted_base": [
        "Lean 4.33.0 kernel; axioms allowed: propext, Classical.choice, Quot.sound (audited per theorem on every run)",
        "lean/GPy/C04/Spec.lean: my transcription of the binding rules of the Language Reference 6.3.4 (Calls) as conditions + per-parameter values",
        "lean/GPy/C04/Model.lean: hand transliteration of EvalCode's argument parsing, Vm.Call, callHelper, compileFunc/_make_function operand packing, "
        "py/method.go + py/boundmethod.go dispatch (incl. the unbound method Method.M__get__(None, cls) makes); tied to the repo by the correspondence run only (every case parsed, compiled and run by the real packages)",
        "lean/GPy/C10/Model.lean (py/args.go ParseTupleAndKeywords), imported for the Go-callable boundary theorem native_parse_delivery; its tie to the repo is C10's correspondence run",
        "parser, symtable (order of co_varnames: positional, keyword-only, *name, **name), LOAD_FAST/BUILD_TUPLE/RETURN_VALUE and dict/list/tuple display "
        "evaluation are exercised end to end but not modelled: a defect there shows up as a model/implementation disagreement",
        "harness/c04.go and checks/common.py (case transport, canonical text of tuples and sorted dicts)",
    ],
    "assumptions": [
        "values are opaque tokens (small ints); the binder never inspects a value",
        "a Go map is iterated in an arbitrary order: the model iterates in insertion order, theorem bind_perm shows the result is order independent, and the "
        "implementation runs with Go's randomised order on every case",
        "py.Iterate on the *operand and user-defined mappings as **operand are outside the model (C05 / not supported by gpython)",
        "error messages are not compared, only the exception class",
    ],
    "exhaustive": False,
    "dist_tokens": 1,
    "group": lambda r: r["input"].split(" | ")[0].split("/")[0],
}


def replay(rec):
    """print a self-contained Python program reproducing the case, and re-run it through the harness"""
    import common, os
    inp = rec["input"]
    body = inp.split(" | ", 1)[1]
    if " ## " in body:
        d, c = body.split(" ## ")
        prog = f"{d}\ntry:\n    print({c})\nexcept Exception as e:\n    print(type(e).__name__, e)\n"
    else:
        prog = f"# Go callables registered by harness/c04.go (module c04m, type T, instance o)\nprint({body})\n"
    print("program:\n" + prog)
    ok, out, hbin = common.build_harness(overlay=CONFIG.get("overlay"))
    if not ok:
        print(out)
        return 2
    res = common.run_impl_sharded(hbin, ["C04"], [inp], workers=1)
    iv = res[0].split("\t")[0]
    print(f"input: {inp}\nimpl now: {iv}\nspec: {rec['spec']}\nmodel: {rec['model']}")
    if iv != rec["spec"]:
        print(f"VIOLATION property=C04 replay={rec.get('replay_cmd','')}")
        return 1
    print("no longer reproduces")
    return 0
