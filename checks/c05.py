import os, subprocess
import common

CONFIG = {
    "rule": "cases = (consumer, producer kind, script) rendered to Python source and run end-to-end (compile + VM + stdlib), (generator templates, interleaved next/send/throw/close history), and (generator body of a small statement language, history); "
            "iterator cases: 40 consumers (round 2 adds list.extend, list +=, set.update, dict.update, slice assignment, sorted key=, min/max key= and default=) x {user __next__ class, generator, map() over a builtin list iterator, __getitem__ sequence, generator expression, builtin list iterator} x EVERY script of length <=4 (quick) / <=5 (thorough) over "
            "{item, raise StopIteration, raise StopIteration(), StopIteration(v)/return v, raise KeyError}, adapters enumerate/map/filter/zip under 7 outer consumers, plus VERIF_SEED-derived scripts up to length 8 with 7 exception classes; "
            "generator cases: all next/send sequences of length <=4 (quick) / <=5 (thorough) over a 9-operation alphabet and all next/send/throw/close sequences of length <=3 / <=4 over an 11-operation alphabet on 4 sets of 3 live generators (loops with locals, try/finally, early return, raise, yield from, a handler that re-raises after a yield) plus seeded histories up to 12 operations; "
            "body cases: the family {break, continue, return, raise, fall-through, yield} crossing a finally clause that yields (with/without a loop, nested, under a handler, loops inside the finally clause, handlers for the thrown exception and for GeneratorExit; 61 bodies) x all next/send/throw/close histories of length <=4, and EVERY valid body of nesting depth <=1 over 7 atoms x all histories of length <=3 (148 distinct bodies in the quick tier; thorough: histories <=4 and one more nesting level, 627 distinct bodies); each body case is run three ways: compiled body on the RunFrame model, reference coroutine, real compiler+VM; "
            "return-value cases (round 3): generator templates {yield 1; return v / the same inside try-finally / return v before any yield / bare return / falling off the end / return inside for+try-finally+try-except / return from an except handler reached by throw()} under 0..3 delegating generators (r = yield from x; return r) x readers {value of yield from (next-driven, send-driven, throw-driven) with identity test, StopIteration.args, StopIteration.value, next(g, default)} x 33 return values (None, ints, strs, (), 1-/2-/3-tuples, nested tuples, tuples holding None / exception instances / classes, lists, dicts, exception instances incl. StopIteration instances with 0/1/tuple args, GeneratorExit instance, exception classes, a non-exception class, a generator object) plus VERIF_SEED-derived nested values; the same generators (depth 0..1) under each of the 40 consumers; "
            "throw cases: generator.throw(type[, value]) over 14 first arguments (classes, instances, non-exceptions) x 15 values (absent, None, scalars, tuples, instances of sub-/unrelated classes, a class, a list) seen inside the generator (class, args, identity with type/value), propagating out of it, and thrown into a never-started generator, plus seeded pairs; "
            "non-trivial = the script contains a stop or raise step (iterator cases) / the history has >= 2 operations (generator and body cases); distinct = distinct input lines",
    "trusted_base": [
        "Lean 4.33.0 kernel; axioms allowed: propext, Classical.choice, Quot.sound (audited per theorem on every run)",
        "lean/GPy/C05/Spec.lean: my transcription of Python's iterator protocol (items up to the first StopIteration raised as class/instance/with value, other exceptions propagate), of each consumer's own result, and of the generator methods next/send/throw/close over a coroutine (`specOps`); `Runs` = what it means for a Go iterator object to realise a script",
        "lean/GPy/C05/Body.lean: reference semantics of generator bodies (yield inside loops, try/finally, try/except; break/continue/return/raise crossing them) as a coroutine in continuation-passing style",
        "lean/GPy/C05/Model.lean: hand transliteration of py.Iterate, SequenceTuple/List/Set, List.ExtendSequence, SequenceContains, String.Join, do_FOR_ITER, unpack_iterable, Vm.Call star-args, builtin all/any/sum/min_max (key=, default=)/sorted/next, Zip/Map/Filter/EnumerateIterator.M__next__, Iterator.M__next__, Generator.resume/Send/Throw/Close/M__next__, do_YIELD_FROM; "
        "lean/GPy/C05/Frame.lean: transliteration of vm.RunFrame (fetch/dispatch, exception on entry through Frame.Throw, the unwinding loop, YIELD_VALUE/RETURN_VALUE/END_FINALLY/POP_EXCEPT/FOR_ITER/SETUP_*/BREAK_LOOP/CONTINUE_LOOP) for the instruction subset generator bodies compile to, with the split between what lives in *py.Frame (survives a suspension) and the per-call Vm fields; "
        "the form of the error test of every py.Next call site and of every call of the helpers built on it (py.Iterate, SequenceList/Tuple/Set, ExtendSequence) is NOT hand-written: it is read from lean/GPy/C05/Generated.lean, regenerated from the Go sources by extract/itersites on every run",
        "lean/GPy/C05/Ret.lean: value universe (tuples, lists, dicts, exception instances/classes, generator objects, with identities) and Go error values (*Type, *Exception{Base,Args}, ExceptionInfo); transliteration of exceptionNew / IsException / MakeException / Exception.M__getattr__, the tail of Generator.resume after RETURN_VALUE, the (type, value) parsing of Generator.Throw, stopIterationValue, the StopIteration branch of do_YIELD_FROM / throwYieldFrom, RunFrame's conversion of an instruction error to curexc, builtin_next's default; spec = my reading of CPython 3.4 genobject.c gen_send_ex (StopIteration() for None, the instance StopIteration(result) otherwise), StopIteration.__init__, PEP 380, gen_throw + PyErr_NormalizeException; the constructor used at each site of generator.go is read from the regenerated table Generated.excSites",
        "extract/itersites (go/ast classification of the test applied to the error of py.Next / of a derived helper), harness/c05.go, checks/common.py",
    ],
    "assumptions": [
        "per-item operations (truth test, ==, +, <=/>=, sort, key function) are parameters of the theorems (they hold for every behaviour, including raising); the correspondence run instantiates them with ints/strs",
        "generator.throw(): the third argument (traceback) is outside the model: gpython ignores it (CPython raises TypeError for a non-traceback)",
        "return-value model: the generator templates are modelled by what RunFrame hands to Generator.resume at RETURN_VALUE (res = v, or None for a bare return / falling off the end); that the compiled templates do so is tied by the run",
        "that the bytecode of an arbitrary generator body run by RunFrame implements the reference coroutine (compiler + VM correctness for bodies) is tied by the correspondence run over the enumerated bodies, and proved only for the families named in Props.lean",
        "stdlib/array (outside the anchored files) still compares with StopIteration by identity",
    ],
    "exhaustive": True,
    "dist_tokens": 2,
    "group": lambda r: " ".join(r["input"].split(" ")[:3])[:120],
}


def pre(run):
    """regenerate lean/GPy/C05/Generated.lean (site table of py.Next call sites) from the working tree"""
    exdir = os.path.join(common.ROOT, "extract", "itersites")
    os.makedirs(common.WORK, exist_ok=True)
    binp = os.path.join(common.WORK, "itersites")
    rc, out = common.sh(["go", "build", "-o", binp, "."], cwd=exdir, env=common.GOENV, timeout=600)
    if rc != 0:
        run.notes.append("itersites build failed: " + out[-300:])
        run.cov["site_table"] = "EXTRACTOR BUILD FAILED: " + out[-300:]
        return
    rc, out = common.sh([binp, common.REPO, os.path.join(common.LEAN, "GPy", "C05", "Generated.lean")], timeout=600)
    sites = [l.split()[1:] for l in out.splitlines() if l.startswith("SITE ")]
    derived = [l.split()[1:] for l in out.splitlines() if l.startswith("DERIVED ")]
    excs = [l.split()[1:] for l in out.splitlines() if l.startswith("EXCSITE ")]
    run.cov["site_table"] = {"sites": len(sites), "rows": [" ".join(s) for s in sites],
                             "derived_sites": len(derived), "derived_rows": [" ".join(s) for s in derived],
                             "derived_not_forward": [" ".join(s) for s in derived if s[-1] != "forward"],
                             "exc_sites": len(excs), "exc_rows": [" ".join(s) for s in excs]} if rc == 0 else "EXTRACTOR FAILED: " + out[-300:]
