import os, subprocess
import common

CONFIG = {
    "rule": "cases = (consumer, producer kind, script) rendered to Python source and run end-to-end (compile + VM + stdlib), and (generator templates, interleaved next/send history); "
            "iterator cases: 31 consumers x {user __next__ class, generator, map() over a builtin list iterator, __getitem__ sequence, generator expression, builtin list iterator} x EVERY script of length <=4 (quick) / <=5 (thorough) over "
            "{item, raise StopIteration, raise StopIteration(), StopIteration(v)/return v, raise KeyError}, adapters enumerate/map/filter/zip under 7 outer consumers, plus VERIF_SEED-derived scripts up to length 8 with 7 exception classes; "
            "generator cases: all next/send sequences of length <=4 (quick) / <=5 (thorough) over an 8-operation alphabet on 3 live generators (loops with locals, try/finally, early return, raise, yield from) plus seeded histories up to 12 operations; "
            "non-trivial = the script contains a stop or raise step (iterator cases) / the history has >= 2 operations (generator cases); distinct = distinct input lines",
    "trusted_base": [
        "Lean 4.33.0 kernel; axioms allowed: propext, Classical.choice, Quot.sound (audited per theorem on every run)",
        "lean/GPy/C05/Spec.lean: my transcription of Python's iterator protocol (items up to the first StopIteration raised as class/instance/with value, other exceptions propagate) and of each consumer's own result; `Runs` = what it means for a Go iterator object to realise a script",
        "lean/GPy/C05/Model.lean: hand transliteration of py.Iterate, SequenceTuple/List/Set, SequenceContains, String.Join, do_FOR_ITER, unpack_iterable, Vm.Call star-args, builtin all/any/sum/min_max/sorted/next, Zip/Map/Filter/EnumerateIterator.M__next__, Iterator.M__next__, Generator.Send/M__next__, do_YIELD_FROM; "
        "the form of the error test of every py.Next call site is NOT hand-written: it is read from lean/GPy/C05/Generated.lean, regenerated from the Go sources by extract/itersites on every run",
        "the frame run (vm.RunFrame) is abstracted to a parameter with three outcomes (yield v / return v / raise e); that RunFrame leaves Lasti != 0 and sets Yielded as YIELD_VALUE/RETURN_VALUE say is tied by the correspondence run only",
        "extract/itersites (go/ast classification of the test applied to the error of py.Next), harness/c05.go, checks/common.py",
    ],
    "assumptions": [
        "generator.throw()/close() are not implemented in gpython (known finding C05-K01) and are not modelled",
        "per-item operations (truth test, ==, +, <=/>=, sort) are parameters of the theorems (they hold for every behaviour, including raising); the correspondence run instantiates them with ints/strs",
        "min/max are modelled without key=; stdlib/array (outside the anchored files) still compares with StopIteration by identity",
    ],
    "exhaustive": True,
    "dist_tokens": 2,
    "group": lambda r: " ".join(r["input"].split(" ")[:3]),
}


def pre(run):
    """regenerate lean/GPy/C05/Generated.lean (site table of py.Next call sites) from the working tree"""
    exdir = os.path.join(common.ROOT, "extract", "itersites")
    os.makedirs(common.WORK, exist_ok=True)
    binp = os.path.join(common.WORK, "itersites")
    rc, out = common.sh(["go", "build", "-o", binp, "."], cwd=exdir, env=common.GOENV, timeout=600)
    if rc != 0:
        run.notes.append("itersites build failed: " + out[-300:])
        run.cov["site_table"] = "EXTRACTOR BUILD FAILED: " + out[-300:]
        return
    rc, out = common.sh([binp, common.REPO, os.path.join(common.LEAN, "GPy", "C05", "Generated.lean")], timeout=600)
    sites = [l.split()[1:] for l in out.splitlines() if l.startswith("SITE ")]
    run.cov["site_table"] = {"sites": len(sites), "rows": [" ".join(s) for s in sites]} if rc == 0 else "EXTRACTOR FAILED: " + out[-300:]
