import os, subprocess, sys
from common import ROOT, REPO, GOENV, LEAN

def pre(run):
    """regenerate lean/GPy/C06/Generated.lean from parser/grammar.y (written only when the content changes)"""
    out = os.path.join(LEAN, "GPy", "C06", "Generated.lean")
    p = subprocess.run(["go", "run", ".", "-grammar", os.path.join(REPO, "parser", "grammar.y"), "-out", out],
                       cwd=os.path.join(ROOT, "extract", "yaccfacts"), env=GOENV, stdout=subprocess.PIPE, stderr=subprocess.STDOUT, text=True)
    run.cov["yaccfacts"] = p.stdout.strip()[-400:]
    if p.returncode != 0:
        # tie lost: the extractor no longer understands the grammar shape
        run.violation({"kind": "extractor", "broken": "extract/yaccfacts cannot read the cascade test..power of parser/grammar.y",
                       "output": p.stdout[-800:]}, nofail=True)


CONFIG = {
    "rule": "cases = source texts (or literal bodies) run through the real parser package: "
            "(esc) every backslash + character (all printable ASCII, newline, tab, NUL, a non-ASCII letter) x 42 tails x 3 prefixes x str/bytes through parser.DecodeEscape; "
            "(lit/concat) 19 prefixes x 4 quote kinds x 46 bodies and adjacent-literal concatenations through ParseString; (int/float/imag/numedge) every integer spelling (decimal, 0x/0X/0o/0O/0b/0B, zero-padded, leading-zero) of boundary values and seeded 1..90-bit values, float/imaginary spellings; "
            "(single/pair) ALL expression trees with one or two operator nodes over 69 one-hole constructor contexts, each in minimal, fully parenthesised and seeded layouts; (triple) all operator triples over one representative per precedence row in all 5 shapes; (unary) unary x unary x infix interplay incl. -a**-b; "
            "(random) seeded trees of depth <= 5 x 8 layouts (redundant parentheses, glued/blank/tab spacing, backslash continuation, newlines and comments inside brackets, trailing commas, alternative literal spellings and escapes, split literals); "
            "(delete/insert) every single-token deletion and seeded single-token insertions of valid expressions: SyntaxError or exactly the tree the Lean grammar assigns; "
            "(indent/indent-tree/lexedge) seeded block trees rendered with free indentation widths, tabs, blank/comment lines, bracket continuation lines and backslash continuation: token stream of parser.LexString and tree of ParseString; (illegal/legal/tree) texts outside the grammar; "
            "(stmt) 234 hand-written legal statement texts covering every statement kind and layout; (stmt-illegal) 296 illegal statement texts incl. the repaired K01/K02/K03 families; (stmt-mut) every single-character deletion of the legal texts; (stmt-rand) seeded statement trees of depth <= 3 x 3 layouts: tree and accept/reject verdict DERIVED by the Lean statement grammar GPy.C06.Stmt. "
            "non-trivial = every case (each text reaches the lexer state machine and at least one literal/operator/indentation decision); distinct = distinct input lines",
    "trusted_base": [
        "Lean 4.33.0 kernel; axioms allowed: propext, Classical.choice, Quot.sound (audited per theorem on every run)",
        "lean/GPy/C06/Spec.lean: my transcription of the Python 3.4 reference: escape table (2.4.1), integer literals (2.4.4), operator precedence table (6.15) and the printer `render` (token level: minimal parentheses + any redundant ones, trailing commas); the round-trip theorem is about this printer",
        "lean/GPy/C06/Model.lean: hand transliteration of parser/stringescape.go DecodeEscape, parser/lexer.go (refill, countIndent, Lex state machine, readNumber, readString, readIdentifier, readOperator) and a cascade parser driven by Generated.table; tied to the repo by the correspondence run only",
        "lean/GPy/C06/Stmt.lean: hand transliteration of the statement rules of parser/grammar.y (file_input ... suite, typedargslist, decorators) and of their semantic actions (setCtx, default order, bare *, try shapes, augmented-assignment targets); no theorems about it, tied by the correspondence run only",
        "lean/GPy/C06/Generated.lean: regenerated from parser/grammar.y by extract/yaccfacts on every run; y.go (the LALR tables goyacc generated from grammar.y) is tied by the correspondence run only",
        "Go: strconv.ParseUint/ParseFloat, math/big SetString, regexp leftmost-first semantics, bufio ReadString, unicode/utf8 as documented; unicode.In category tables are NOT modelled (three sample non-ASCII letters only)",
        "harness/c06.go (reflective tree walker, canonical S-expressions, float canonicalisation through the shortest round-trip decimal) and checks/common.py",
    ],
    "assumptions": [
        "the Lean expression parser (Model.lean section 5, the object of parse_render_roundtrip) covers the expression fragment (all binary/unary/boolean/comparison operators, conditional, lambda with plain parameters, calls with positional arguments, subscripts by index, attributes, tuple/list displays, adjacent string literals, top-level testlist); comprehensions, slices, keyword/star arguments, dict/set displays, yield are covered by spec-vs-implementation cases only (no Lean grammar)",
        "parse_render_roundtrip is a theorem about token lists (Spec.render -> parseEvalToks); the text level (spacing, comments, continuation lines, literal spellings -> tokens) is tied by the correspondence run (lex_render is not proved), except integer literals (int_literal_value*) and string escapes (decode_escape_spec*)",
        "line/column positions of tokens and nodes are not compared",
        "float literals: the value is the exact decimal m*10^e; the binary rounding is strconv's and is compared through the shortest round-trip decimal (literals of <= 15 significant digits only)",
        "non-ASCII identifier characters: only U+00E9, U+03BB, U+4E2D (start) and U+0301, U+0661 (continue) are known to the model",
        "statement fragment of the Lean grammar excludes star_expr targets, yield, annotations/->, keyword/star arguments, comprehensions, slices, dict/set displays; such texts are not generated (mutants leaving the fragment are skipped by outsideStmtFragment)",
    ],
    "exhaustive": False,
    "dist_tokens": 1,
    "group": lambda r: (r["tags"][1] if len(r.get("tags", [])) > 1 else r["input"].split(" ")[0]),
}


def extra(run):
    """distribution of the generated cases by tag (kind of text, layout, known-finding id)"""
    import collections
    from common import WORK
    dist = collections.Counter()
    try:
        for l in open(os.path.join(WORK, "C06.cases")):
            f = l.rstrip("\n").split("\t")
            if len(f) >= 5:
                for t in f[4].split(","):
                    if t and t != "nt":
                        dist[t] += 1
    except OSError:
        pass
    run.cov["distribution_by_tag"] = dict(dist.most_common())
    run.say("case distribution by tag: " + ", ".join(f"{k}={v}" for k, v in dist.most_common(40)))
