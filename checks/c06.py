import os, subprocess, sys
from common import ROOT, REPO, GOENV, LEAN

def pre(run):
    """regenerate lean/GPy/C06/Generated.lean (cascade test..power) and lean/GPy/C06/GeneratedRules.lean (shape + action
    fingerprints of every modelled rule, grammar.y against y.go) from the repository (written only when the content changes);
    the nonterminals whose rule differs from the checked-in baseline facts/C06.rules.tsv (= what lean/GPy/C06/RulePins.lean
    pins) go to C06_ESCALATE: the Lean generator multiplies the generation for them"""
    from common import WORK
    out = os.path.join(LEAN, "GPy", "C06", "Generated.lean")
    rules_out = os.path.join(LEAN, "GPy", "C06", "GeneratedRules.lean")
    tsv = os.path.join(WORK, "C06.rules.tsv")
    base = os.path.join(ROOT, "facts", "C06.rules.tsv")
    os.makedirs(WORK, exist_ok=True)
    try:
        os.remove(tsv)
    except OSError:
        pass
    p = subprocess.run(["go", "run", ".", "-grammar", os.path.join(REPO, "parser", "grammar.y"), "-out", out,
                        "-ygo", os.path.join(REPO, "parser", "y.go"), "-rules-out", rules_out, "-rules-tsv", tsv],
                       cwd=os.path.join(ROOT, "extract", "yaccfacts"), env=GOENV, stdout=subprocess.PIPE, stderr=subprocess.STDOUT, text=True)
    run.cov["yaccfacts"] = p.stdout.strip()[-400:]
    if p.returncode != 0:
        # tie lost: the extractor no longer understands the grammar shape, or grammar.y and y.go disagree on a rule
        mism = [l[len("yaccfacts: RULE MISMATCH "):].split(": the action")[0] for l in p.stdout.splitlines() if l.startswith("yaccfacts: RULE MISMATCH ")]
        run.cov["rules_ygo_mismatch"] = mism[:50]
        if mism:
            broken = "parser/y.go is not what goyacc generates from parser/grammar.y: the semantic actions disagree for " + "; ".join(mism[:10])
        else:
            broken = "extract/yaccfacts cannot read parser/grammar.y / parser/y.go (cascade test..power or the rule list)"
        run.say("yaccfacts FAILED: " + broken)
        run.violation({"kind": "extractor", "broken": broken, "output": p.stdout[-1600:]}, nofail=True)

    def load(path):
        d = {}
        try:
            for l in open(path):
                f = l.rstrip("\n").split("\t", 1)
                if len(f) == 2:
                    d[f[0]] = f[1]
        except OSError:
            return None
        return d
    want, got = load(base), load(tsv)
    if want is None or got is None:
        changed = ["all"]  # no facts: explore everything harder
        run.say(f"rule facts missing ({'baseline ' + base if want is None else 'extractor output ' + tsv}): escalating everything")
    else:
        changed = [nt for nt in list(want) + [n for n in got if n not in want] if want.get(nt) != got.get(nt)]
    run.cov["rules_modelled"] = len(got or {})
    run.cov["rules_changed"] = changed
    if changed:
        os.environ["C06_ESCALATE"] = ",".join(changed)
        run.say("grammar rules changed against the pinned baseline (RulePins.lean / facts/C06.rules.tsv): " + ", ".join(changed) +
                " -> generation escalated (C06_ESCALATE)")
    else:
        os.environ.pop("C06_ESCALATE", None)
        run.say(f"grammar rules: all {len(got)} modelled nonterminals match the pinned baseline; y.go agrees with grammar.y on every rule" if p.returncode == 0
                else "grammar rules: no modelled nonterminal differs from the pinned baseline")


CONFIG = {
    "rule": "cases = source texts (or literal bodies) run through the real parser package: "
            "(esc) every backslash + character (all printable ASCII, newline, tab, NUL, a non-ASCII letter) x 42 tails x 3 prefixes x str/bytes through parser.DecodeEscape; "
            "(lit/concat) 19 prefixes x 4 quote kinds x 46 bodies and adjacent-literal concatenations through ParseString; (int/float/imag/numedge) every integer spelling (decimal, 0x/0X/0o/0O/0b/0B, zero-padded, leading-zero) of boundary values and seeded 1..90-bit values, float/imaginary spellings; "
            "(single/pair) ALL expression trees with one or two operator nodes over 69 one-hole constructor contexts, each in minimal, fully parenthesised and seeded layouts; (triple) all operator triples over one representative per precedence row in all 5 shapes; (unary) unary x unary x infix interplay incl. -a**-b; "
            "(random) seeded trees of depth <= 5 x 8 layouts (redundant parentheses, glued/blank/tab spacing, backslash continuation, newlines and comments inside brackets, trailing commas, alternative literal spellings and escapes, split literals); "
            "(delete/insert) every single-token deletion and seeded single-token insertions of valid expressions: SyntaxError or exactly the tree the Lean grammar assigns; "
            "(indent/indent-tree/lexedge) seeded block trees rendered with free indentation widths, tabs, blank/comment lines, bracket continuation lines and backslash continuation: token stream of parser.LexString and tree of ParseString; (illegal/legal/tree) texts outside the grammar; "
            "(stmt) 234 hand-written legal statement texts covering every statement kind and layout; (stmt-illegal) 296 illegal statement texts incl. the repaired K01/K02/K03 families; (stmt-mut) every single-character deletion of the legal texts; (stmt-rand) seeded statement trees of depth <= 3 x 3 layouts: tree and accept/reject verdict DERIVED by the Lean statement grammar GPy.C06.Stmt. "
            "(xsub) ALL subscript lists of <= 2 items (and the index/slice mixtures of 3) over a plain index and the 8 presence patterns of lower/upper/step, every spelling of the empty sliceop (a:b and a:b:), with and without trailing comma, 2 text styles; "
            "(xlist) EVERY comma-separated list of the 3.4 grammar with 0/1/2/3 items with and without trailing comma against the tree or SyntaxError the reference rules of XGen.lean state: subscriptlist, parenthesised tuple, list/set/dict displays, arglist (positional; keyword / *args / **kwargs tails where 3.4 forbids the comma; illegal argument orders; bare generator-expression arguments), top-level testlist, yield value, comprehension exprlist, lambda varargslist and def typedargslist (comma only after plain/defaulted parameters), testlist_star_expr as target and value, chained assignment, augmented assignment value, return, for target / for iterable, del (bare and parenthesised), global, nonlocal, import, from-import with and without parentheses, with items, class bases, decorator arguments, assert; "
            "(xctx) every one-hole context of the new constructors (Subscript with Index/Slice/ExtSlice, keyword/star/kwargs calls, set/dict displays, the four comprehensions with several for/if clauses, lambda with full parameter syntax, yield / yield from, starred items) and of the old operators x 30 fillers, each in minimal, fully parenthesised and seeded layouts (depth <= 2 exhaustively); (xrand) seeded trees of the enlarged type of depth <= 4 x 4 layouts; (xmut) every single-token deletion of renderings of the new forms: SyntaxError or exactly the tree the Lean grammar GPy.C06.X assigns. "
            "non-trivial = every case (each text reaches the lexer state machine and at least one literal/operator/indentation decision); distinct = distinct input lines",
    "trusted_base": [
        "Lean 4.33.0 kernel; axioms allowed: propext, Classical.choice, Quot.sound (audited per theorem on every run)",
        "lean/GPy/C06/Spec.lean: my transcription of the Python 3.4 reference: escape table (2.4.1), integer literals (2.4.4), operator precedence table (6.15) and the printer `render` (token level: minimal parentheses + any redundant ones, trailing commas); the round-trip theorem is about this printer",
        "lean/GPy/C06/Model.lean: hand transliteration of parser/stringescape.go DecodeEscape, parser/lexer.go (refill, countIndent, Lex state machine, readNumber, readString, readIdentifier, readOperator) and a cascade parser driven by Generated.table; tied to the repo by the correspondence run only",
        "lean/GPy/C06/Stmt.lean: hand transliteration of the statement rules of parser/grammar.y (file_input ... suite, typedargslist, decorators) and of their semantic actions (setCtx, default order, bare *, try shapes, augmented-assignment targets); no theorems about it, tied by the correspondence run only",
        "lean/GPy/C06/X.lean: hand transliteration, rule by rule, of the WHOLE expression grammar of parser/grammar.y (atom, trailer, subscriptlist/subscripts/subscript/sliceop, arglist/arguments/argument, dictorsetmaker, comp_for/comp_if/comp_iter, lambdef/lambdef_nocond/varargslist, yield_expr, star_expr, exprlist, testlist; cascade driven by Generated.table) with its semantic actions; XSpec.lean: the reference printer of the enlarged tree type (partial functions, generator side only); tied to the repo by the correspondence run only; theorems cover its list loop X.listLoop and the actions reading the trailing-comma flag (Lists.lean), the mutual block is anchored by kernel evaluations at witnesses",
        "lean/GPy/C06/GeneratedRules.lean: regenerated from parser/grammar.y AND parser/y.go on every run by extract/yaccfacts: right-hand sides and action fingerprints of 89 nonterminals (the extractor fails when an action of y.go differs from its grammar.y action after normalising $$/$N/yyVAL/yyDollar; one recorded gofmt exception); RulePins.lean pins every rule by decide, a changed rule sets C06_ESCALATE for the generator",
        "lean/GPy/C06/Generated.lean: regenerated from parser/grammar.y by extract/yaccfacts on every run; y.go (the LALR tables goyacc generated from grammar.y) is tied by the correspondence run only",
        "Go: strconv.ParseUint/ParseFloat, math/big SetString, regexp leftmost-first semantics, bufio ReadString, unicode/utf8 as documented; unicode.In category tables are NOT modelled (three sample non-ASCII letters only)",
        "harness/c06.go (reflective tree walker, canonical S-expressions, float canonicalisation through the shortest round-trip decimal) and checks/common.py",
    ],
    "assumptions": [
        "the Lean expression parser (Model.lean section 5, the object of parse_render_roundtrip) covers the expression fragment (all binary/unary/boolean/comparison operators, conditional, lambda with plain parameters, calls with positional arguments, subscripts by index, attributes, tuple/list displays, adjacent string literals, top-level testlist); comprehensions, slices, keyword/star arguments, dict/set displays, yield, starred items are in the second Lean grammar GPy.C06.X (tree type XE), about which only the list-layer theorems (list_loop_roundtrip, trailing_comma_irrelevant_or_significant, subscript_list_tree) and kernel evaluations are proved; the full round trip over XE is tied by correspondence",
        "3.4 quirk not generated: an unparenthesised generator expression AFTER *args (f(*s, x for x in y)) is legal in 3.4 (ast_for_call) and rejected by gpython (as by Python >= 3.5)",
        "annotations (def f(a: int) -> int), star items in load context beyond tuple/list displays, and statement-level uses of the new expression forms beyond the xlist texts are not generated",
        "parse_render_roundtrip is a theorem about token lists (Spec.render -> parseEvalToks); the text level (spacing, comments, continuation lines, literal spellings -> tokens) is tied by the correspondence run (lex_render is not proved), except integer literals (int_literal_value*) and string escapes (decode_escape_spec*)",
        "line/column positions of tokens and nodes are not compared",
        "float literals: the value is the exact decimal m*10^e; the binary rounding is strconv's and is compared through the shortest round-trip decimal (literals of <= 15 significant digits only)",
        "non-ASCII identifier characters: only U+00E9, U+03BB, U+4E2D (start) and U+0301, U+0661 (continue) are known to the model",
        "statement fragment of the Lean grammar excludes star_expr targets, yield, annotations/->, keyword/star arguments, comprehensions, slices, dict/set displays; such texts are not generated (mutants leaving the fragment are skipped by outsideStmtFragment)",
    ],
    "exhaustive": False,
    "dist_tokens": 1,
    "group": lambda r: (r["tags"][1] if len(r.get("tags", [])) > 1 else r["input"].split(" ")[0]),
}


def extra(run):
    """distribution of the generated cases by tag (kind of text, layout, known-finding id)"""
    import collections
    from common import WORK
    dist = collections.Counter()
    try:
        for l in open(os.path.join(WORK, "C06.cases")):
            f = l.rstrip("\n").split("\t")
            if len(f) >= 5:
                for t in f[4].split(","):
                    if t and t != "nt":
                        dist[t] += 1
    except OSError:
        pass
    run.cov["distribution_by_tag"] = dict(dist.most_common())
    run.say("case distribution by tag: " + ", ".join(f"{k}={v}" for k, v in dist.most_common(40)))
