CONFIG = {
    "rule": "cases = (operator, operand tuple) with every operand in each representation it admits (i=machine word py.Int, b=*py.BigInt canonical or not, t=bool); "
            "enumerated exhaustively over the boundary lattice {0,2^31,3037000499/500,2^32,2^62,2^63,2^64,2^127}±{0,1,2} both signs (pairs × 16 binary operators, divmod, unary, shifts, pow/pow3) plus VERIF_SEED-derived 1..192-bit operands; "
            "non-trivial = some operand or the exact result lies outside ±2^31 or the spec result is an exception; distinct = distinct input lines",
    "trusted_base": [
        "Lean 4.33.0 kernel; axioms allowed: propext, Classical.choice, Quot.sound (audited per theorem on every run)",
        "lean/GPy/C07/Spec.lean: my transcription of Python's integer semantics on unbounded Int (fdiv/fmod, shifts, two's-complement bitwise, pow with sign of modulus)",
        "lean/GPy/C07/Model.lean: hand transliteration of py/int.go, py/bigint.go, py/bool.go and the dispatch of py/arithmetic.go; tied to /repo by the correspondence run only (every case executed through py.Add .. py.Pow on the real packages)",
        "math/big = exact integers (Add/Sub/Mul/QuoRem/Exp/Lsh/Rsh/And/Or/Xor/Not as documented); Go int64 arithmetic wraps in two's complement",
        "harness/c07.go and checks/common.py (case transport, canonicalisation to decimal text + representation tag)",
    ],
    "assumptions": [
        "memory exhaustion is not modelled: left-shift counts > 4096 and exponents > 64 (for |base| > 1) are not generated",
        "float results (negative exponent, no modulus) are only checked to be floats; their value belongs to C15",
        "theorems proved so far: add/sub/mul/floordiv/mod/divmod/six comparisons/neg/abs/invert/bool at API level for all operands and representations; "
        "shifts, bitwise and/or/xor and pow/pow3 are so far tied by the correspondence run and the lattice only",
    ],
    "exhaustive": False,
}
