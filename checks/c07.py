"""C07: integer arithmetic is exact and independent of the internal representation.

Two ties between the Lean development and /repo:
 * REGENERATED: extract/goint translates py/int.go of the working tree (49 functions: the word kernels intAdd/intSub/intMul/
   intLshift/divMod, the unary methods and the whole binary method table of Int) into lean/GPy/C07/Generated/IntCore.lean on
   every run; lean/GPy/C07/GenProofs.lean + the `generated_*` theorems of Props.lean are then re-proved against it.
 * CORRESPONDENCE: the hand-written model (BigInt, bool, dispatch of py/arithmetic.go, text conversion) is run against the
   real packages on generated cases."""
import os
import common

CONFIG = {
    "rule": "cases = (operator, operand tuple) with every operand in each representation it admits (i=machine word py.Int, b=*py.BigInt canonical or not, t=bool); "
            "enumerated exhaustively over the boundary lattice {0,2^31,3037000499/500,2^32,2^62,2^63,2^64,2^127}±{0,1,2} both signs (pairs × 16 binary operators, divmod, unary, shifts, pow/pow3) plus VERIF_SEED-derived 1..192-bit operands; "
            "non-trivial = some operand or the exact result lies outside ±2^31 or the spec result is an exception; distinct = distinct input lines",
    "trusted_base": [
        "Lean 4.33.0 kernel; axioms allowed: propext, Classical.choice, Quot.sound (audited per theorem on every run)",
        "lean/GPy/C07/Spec.lean: my transcription of Python's integer semantics on unbounded Int (fdiv/fmod, shifts, two's-complement bitwise, pow with sign of modulus)",
        "lean/GPy/C07/Model.lean: hand transliteration of py/int.go, py/bigint.go, py/bool.go and the dispatch of py/arithmetic.go; tied to /repo by the correspondence run (every case executed through py.Add .. py.Pow on the real packages) and, for py/int.go, by the regenerated translation below",
        "extract/goint (Go -> Lean translator, ~600 lines, go/ast): the translation rules ARE trusted - int64 + - * wrap (wrap64), / % truncate (Int.tdiv/Int.tmod; division by zero is NOT modelled as a panic: it yields 0, so a removed zero check shows up as a theorem that no longer proves, not as a panic), "
        "<< >> by an unsigned count (goShl/goShr), & | ^ through BitVec 64, ^x = -x-1, math/big Add/Sub/Mul/Neg/Lsh exact, `x, err := f(); return x, err` = propagate the error (a value returned beside a non-nil error is not looked at), "
        "goto = jump to the labelled tail block; lean/GPy/C07/Generated/IntCore.lean is its output for the working tree, lean/GPy/C07/GenProofs.lean proves every translated function equal to the model's (gen_meth_eq, gen_rmeth_eq, gen_imeth_eq, gen_divMod, ...)",
        "math/big = exact integers (Add/Sub/Mul/QuoRem/Exp/Lsh/Rsh/And/Or/Xor/Not as documented); Go int64 arithmetic wraps in two's complement",
        "harness/c07.go and checks/common.py (case transport, canonicalisation to decimal text + representation tag)",
    ],
    "assumptions": [
        "memory exhaustion is not modelled: left-shift counts > 4096 and exponents > 64 (for |base| > 1) are not generated",
        "float results (negative exponent, no modulus) are only checked to be floats; their value belongs to C15",
        "theorems proved so far: add/sub/mul/floordiv/mod/divmod/six comparisons/neg/abs/invert/bool at API level for all operands and representations; "
        "shifts, bitwise and/or/xor and pow/pow3 are so far tied by the correspondence run and the lattice only",
    ],
    "exhaustive": False,
}


def pre(run):
    """regenerate lean/GPy/C07/Generated/IntCore.lean from py/int.go of the working tree (extract/goint)"""
    out_lean = os.path.join(common.LEAN, "GPy", "C07", "Generated", "IntCore.lean")
    before = open(out_lean).read() if os.path.exists(out_lean) else ""
    rc, out = common.sh(["go", "run", ".", common.REPO, out_lean], cwd=os.path.join(common.ROOT, "extract", "goint"),
                        env=common.GOENV, timeout=600)
    after = open(out_lean).read() if os.path.exists(out_lean) else ""
    run.cov["translator"] = {"cmd": "cd extract/goint && go run . <repo> lean/GPy/C07/Generated/IntCore.lean",
                             "exit": rc, "output": out.strip()[-300:],
                             "functions_translated": after.count("\ndef ") - 3,
                             "generated_file_differs_from_committed_baseline": after != before and before != "",
                             "generated_sha1": __import__("hashlib").sha1(after.encode()).hexdigest()}
    if rc != 0:
        # the tie is lost (py/int.go uses a construct the translator does not know, or a translated function vanished);
        # the correspondence run below still searches for a failing input
        run.violation({"kind": "translator", "broken": "extract/goint cannot translate py/int.go of the working tree any more: "
                       "the `generated_*` theorems are no longer about the current code",
                       "output": out[-2000:]}, nofail=True)
