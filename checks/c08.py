import os, subprocess, time
import common

CONFIG = {
    "rule": "case = one scenario: n in {2,4,16} interpreter contexts, each created with its own ContextOpts (SysArgs and SysPaths each nil / empty / supplied, named in the input), one program (list of statements) per context, and ONE interleaving of the statements given explicitly; "
            "every statement runs in the __main__ module of its context on that context's own goroutine (deterministic hand-over) and leaves one observation (rendered value / ok / E:<class>); "
            "V = every context's observation trace + the verdict of the heap walk (reflection over the Go object graph from every context's module store AND from the Globals of every registered module implementation, the registry being enumerated through a linkname: "
            "a writable Python object reachable from two contexts, or from a context and the registry = shared; dictionaries of built-in types, Globals of the implementations and the CONTENTS of the lists/dicts they hold compared with a snapshot); spec V = every context's trace when it runs ALONE + 'disjoint'. "
            "family A = 52 mutations (module globals, sys.path/argv append/rebind/del/in-place through an alias/nested list/rebound to a non-list before an import, builtins.len/print/int rebound, deleted, swapped, shadowed, attribute writes and deletes on the Go modules math/time/string/os, "
            "lists and dicts held in the Globals of a Go implementation (c8a.lst, c8a.cfg, os.environ) mutated in place, a SOURCE-defined registered module (c8s) imported by both contexts then its globals and their objects mutated, attributes of int/float/ValueError, class attributes, sys.stdout, missing module, __name__) x one probe program, "
            "EVERY interleaving of the two programs (quick: first 12 per mutation, thorough: all), the ContextOpts rotating through SS,SS / EE,EE / NN,NN / SE,NS / EN,SE; "
            "family O = the 7 sys.path/sys.argv mutations under ALL 81 combinations of (SysArgs, SysPaths) in {nil, empty, supplied}^2 for the two contexts (quick: 1 interleaving each, thorough: 3); "
            "family B = VERIF_SEED-derived programs (imports, reads, name/attribute/key writes, append, del over names, modules, builtin types, aliases) over 2/4/16 contexts with seeded ContextOpts per context and a seeded interleaving (quick 260, thorough 12000); "
            "family C (tie only) = one *py.Code object run by 16 contexts at once, 16 contexts importing a source-defined registered module at once, concurrent py.Compile of the same sources (GOMAXPROCS 1/4/16), n contexts importing the same source FILE then mutating the module's globals, list, dict, class (one after the other and at once; heap walk afterwards); "
            "family C:samename (tie only) = 2/4/16 contexts whose sys.path name 2-4 DIFFERENT directories, each holding a module of the SAME name with different content, imported in four forms one after the other and at once (GOMAXPROCS 1/4/16): every context must get the file of its own search path; "
            "two thirds of the family-C contexts are created without SysArgs/SysPaths and one of the shared programs mutates sys.path, sys.argv and os.environ in place. "
            "Scenarios marked free additionally run the n programs freely on n goroutines (GOMAXPROCS 1/4/16 x 2 seeded yield patterns, odd contexts compile their statements themselves, even ones share code objects) and each trace must equal the solo trace; "
            "the free and C scenarios are re-run under a -race build, any race report is a violation. non-trivial = some context writes and a DIFFERENT context observes; distinct = distinct input lines",
    "trusted_base": [
        "Lean 4.33.0 kernel; axioms allowed: propext, Classical.choice, Quot.sound (audited per theorem on every run)",
        "lean/GPy/C08/Spec.lean: the reference is relational (a context's trace when only its own statements run, `soloTrace`); `Disjoint` (no writable object reachable from two contexts) and its inductive form `Confined`",
        "lean/GPy/C08/Model.lean: hand transliteration of py/module.go (registry, NewModule/instanceGlobals: one-level copy of Globals + copy of list/dict values, methods re-bound, store registration), stdlib/stdlib.go NewContext as its six steps/ModuleInit (module bodies are not executed: the source-defined harness module c8s is represented by the constants its body binds), py/import.go (store, registry, ImportError), "
        "py/frame.go name lookup, py/internal.go GetAttrString/SetAttrString/DeleteAttrString/GetItem/SetItem incl. the refusal to write built-in types; tied to the repo by the correspondence run only. "
        "References carry an allocation namespace (owner, serial): Go addresses are treated as opaque identities",
        "lean/GPy/C08/Generated.lean is regenerated from the Go sources by extract/pkgvars (go/parser + go/ast, syntactic: writes through aliases/receivers such as t.Dict[..] inside *Type methods are not seen) on every run; "
        "`no_unexpected_shared_writes` is proved by `decide` over it",
        "the Go race detector (go build -race): absence of a report is evidence only, never a proof; the Go memory model is not modelled",
        "harness/c08.go (reflection walk incl. unexported fields via unsafe, snapshot/restore of process-wide dictionaries, canonical rendering re-implemented in Go) and checks/common.py, checks/c08.py",
    ],
    "assumptions": [
        "granularity: one step = one Python statement; interleavings INSIDE a statement are explored by the free-running/race runs only",
        "process resources are outside the claim: the three py.File objects around os.Stdin/Stdout/Stderr are shared by all contexts (sys.stdout is per context and can be rebound, the default object is the same), os.chdir/putenv act on the process",
        "the walk does not descend into Go closures (func values); package-level variables are covered by the static write table, not walked (no accessor overlay yet)",
        "exception objects and bound-method objects accept no attribute writes from Python and are treated as immutable by the walk",
        "`isolation` / `newcontext_disjoint_std` are about the modelled part of the tree's registry (builtins, sys incl. its own path/argv lists, os incl. environ, math, string, time, two harness modules); for an arbitrary registry `isolation_partial` assumes `RegOK` (Globals = immutable values or lists/dicts of immutable values): a list inside a list in an implementation's Globals would still be shared (instanceGlobals copies one level), no module of the tree has one",
        "the converse of `confined_disjoint` (a label-free disjoint graph admits a confining labelling) is not proved: references of the model carry their allocation namespace, so the statement needs an equivariance theorem of `step` under renaming; the walk checks `DisjointR` on the implementation instead",
    ],
    "exhaustive": False,
    "dist_tokens": 1,
    "case_timeout": 120.0,
    "group": lambda r: r["input"].split(" ")[0],
}


def pre(run):
    """regenerate lean/GPy/C08/Generated.lean (package-level variables and their run-time writers) from the working tree"""
    exdir = os.path.join(common.ROOT, "extract", "pkgvars")
    os.makedirs(common.WORK, exist_ok=True)
    binp = os.path.join(common.WORK, "pkgvars")
    rc, out = common.sh(["go", "build", "-o", binp, "."], cwd=exdir, env=common.GOENV, timeout=600)
    if rc != 0:
        run.cov["pkgvars"] = "EXTRACTOR BUILD FAILED: " + out[-300:]
        return
    rc, out = common.sh([binp, common.REPO, os.path.join(common.LEAN, "GPy", "C08", "Generated.lean")], timeout=600)
    if rc != 0:
        run.cov["pkgvars"] = "EXTRACTOR FAILED: " + out[-300:]
        return
    writes = [l for l in out.splitlines() if l.startswith("WRITE ") and not l.rstrip().endswith(" init")]
    summ = [l for l in out.splitlines() if l.startswith("SUMMARY")]
    run.cov["pkgvars"] = {"summary": summ[0] if summ else "", "runtime_write_sites": [" ".join(w.split()[1:]) for w in writes]}


def extra(run):
    """(c) the free-running and shared-code scenarios again under the race detector"""
    cases_path = os.path.join(common.WORK, "C08.cases")
    if not os.path.exists(cases_path):
        return
    lines = []
    for l in open(cases_path):
        inp = l.split("\t")[0]
        head = inp.split("|")[0].split(" ")
        if len(head) >= 3 and (head[0].startswith("C:") or head[2] == "1"):
            lines.append(inp)
    cap = 120 if run.tier == "quick" else 3000
    special = [l for l in lines if l.startswith("C:")]
    rest = [l for l in lines if not l.startswith("C:")]
    step = max(1, len(rest) // max(1, cap - len(special)))
    chosen = special + rest[::step][: cap - len(special)]
    t = time.time()
    ok, out, rbin = common.build_harness(race=True)
    if not ok:
        run.violation({"kind": "correspondence", "broken": "race build of the harness failed: " + out[-400:]}, nofail=True)
        return
    build_s = time.time() - t
    t = time.time()
    nshards = min(8, max(1, len(chosen) // 10))
    procs = []
    for i in range(nshards):
        part = chosen[i::nshards]
        p = subprocess.Popen([rbin, "C08"], stdin=subprocess.PIPE, stdout=subprocess.PIPE, stderr=subprocess.PIPE, text=True,
                             env=dict(os.environ, GORACE="halt_on_error=0"))
        procs.append((p, part))
    import threading
    results = [None] * nshards

    def work(i):
        p, part = procs[i]
        try:
            results[i] = p.communicate("\n".join(part) + "\n", timeout=3000)
        except subprocess.TimeoutExpired:
            p.kill()
            results[i] = ("", "TIMEOUT")
    ths = [threading.Thread(target=work, args=(i,)) for i in range(nshards)]
    for th in ths:
        th.start()
    for th in ths:
        th.join()
    races = 0
    first = None
    diffs = []
    for i, (so, se) in enumerate(results):
        n = se.count("WARNING: DATA RACE")
        races += n
        if n and first is None:
            k = se.index("WARNING: DATA RACE")
            first = {"report": se[k:k + 2500], "inputs": procs[i][1][:40]}
        if "TIMEOUT" == se:
            diffs.append("race shard timed out")
        for l, inp in zip(so.split("\n"), procs[i][1]):
            if "conc=DIFF" in l or l.startswith("DIFF") or "PANIC" in l:
                diffs.append(inp[:200] + " => " + l[:300])
    run.cov["race"] = {"scenarios": len(chosen), "reports": races, "build_s": round(build_s, 1), "run_s": round(time.time() - t, 1),
                       "note": "go build -race; a report is a violation, absence is evidence only"}
    if races:
        run.violation({"kind": "input", "input": "\n".join(first["inputs"][:5]), "impl": "DATA RACE reported by the Go race detector",
                       "model": "n/a", "spec": "no data race between contexts", "race_report": first["report"], "reports": races,
                       "how_to_replay": "work/gpyh-race C08 < inputs (harness built with go build -race -tags verif)"})
    elif diffs:
        run.violation({"kind": "input", "input": diffs[0], "impl": "trace under the race build differs", "model": "n/a", "spec": "same as solo", "all": diffs[:10]})
