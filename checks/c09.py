"""C09: Context Close/Done are safe under every interleaving with execution."""
import os, json, hashlib
import common

GEN = os.path.join(common.LEAN, "GPy", "C09", "Generated.lean")
FACTS = os.path.join(common.ROOT, "facts", "C09.json")

CONFIG = {
    "rule": "case = thread kinds (R RunCode, M ModuleInit, V ResolveAndCompile, C Close, D wait on Done, I RunCode of code that imports) + a schedule at the granularity of "
            "the H1 yield points (one token = one shared-state access of pushBusy/popBusy/Close), optionally with blocking probes (`bN`: the model says thread N is blocked; the "
            "harness releases it and requires that it does not get through within the quiescence window); enumerated: every complete interleaving of 1 and 2 threads (all kind pairs) and of 3 threads (quick: kind triples containing a Close and no importing RunCode; thorough: also triples without Close and triples with Close and one importing RunCode), "
            "plus VERIF_SEED-derived complete random schedules of 3 and 4 threads with blocking probes; "
            "non-trivial = a Close and an execution overlap in time, or an execution is rejected, or Close had to sleep in Cond.Wait, or a blocking probe was made; distinct = distinct input lines",
    "trusted_base": [
        "Lean 4.33.0 kernel; axioms allowed: propext, Classical.choice, Quot.sound (audited per theorem on every run)",
        "lean/GPy/C09/Model.lean: semantics of the atomic actions (Go sync.Mutex/Cond/Once, channel close, int counter; WaitGroup for the pre-fix witness) and the inlining of pushBusy/popBusy into the entry points",
        "lean/GPy/C09/Spec.lean: state predicates (NoPanic, DoneSafe, CallbacksOnce, NoLateAdmission, CloseWaits, RejectAfterClose, DeadlockFree), the observation monitor and the scheduling step (macroStep); theorem monitor_accepts: the monitor answers OK on every trace of scheduling steps of the regenerated program, so specV = OK is proved, not assumed",
        "verif/extract/lifecycle (go/ast): regenerates lean/GPy/C09/Generated.lean from stdlib/stdlib.go on every run; fails loudly on unknown statement shapes, on lifecycle fields touched elsewhere, and on a shared-state access without its yield point",
        "hook H1 (stdlib/verif_on.go, build tag verif): yield points; the real sync primitives are used unchanged, their semantics is assumed to be what Model.lean says",
        "harness/c09.go: token-passing scheduler, goroutine identification and wait-state inspection via runtime.Stack, Go transcription of the monitor (c09Check) and checks/common.py",
        "lean/GPy/C09/Search.lean (`gpymodel-C09 C09 search <seed>`): untrusted bounded BFS that only proposes schedules; a proposed schedule counts only when the real goroutines reproduce the violation",
    ],
    "assumptions": [
        "bodies terminate and do not fail; a body never calls Close or waits for Done on its own context (that case contradicts 'Close returns only after every admitted execution finished' and is excluded explicitly in DeadlockFree)",
        "ModuleInit always reaches its nested RunCode (the harness always supplies module code); failing compiles inside ModuleInit/ResolveAndCompile are treated as work that returns through the same deferred popBusy",
        "data-race freedom is shown in the model as 'every access to closed/closing/running happens with the mutex held' (theorem sync_access); the Go memory model itself is trusted",
        "goroutines waiting inside mu.Lock() get the mutex in arrival order (sync.Mutex wakes its waiters FIFO; every other goroutine is parked at a yield point, so nobody barges): the harness confirms each arrival through the goroutine's wait state (runtime.Stack: sync.Mutex.Lock) before it releases the next one; schedules in which a NEW locker barges in front of an already queued waiter are not driven (equivalent to queueing it first); the theorems cover every order",
    ],
    "exhaustive": True,
    "dist_tokens": 1,
    "group": lambda r: r["input"].split(" ")[0] + " " + r["impl"].split(":")[-1],
    "case_timeout": 60.0,
}


def pre(run):
    """regenerate GPy/C09/Generated.lean from the tree under verification (tie (a))"""
    os.makedirs(common.WORK, exist_ok=True)
    exe = os.path.join(common.WORK, "lifecycle")
    rc, out = common.sh(["go", "build", "-o", exe, "."], cwd=os.path.join(common.ROOT, "extract", "lifecycle"), env=common.GOENV, timeout=600)
    if rc != 0:
        run.violation({"kind": "extractor", "broken": "extract/lifecycle does not build: " + out[-400:]}, nofail=True)
        return
    before = open(GEN).read() if os.path.exists(GEN) else ""
    with common.LakeLock():
        rc, out = common.sh([exe, "-repo", common.REPO, "-out", GEN, "-facts", FACTS], timeout=120)
    run.cov["extractor"] = {"cmd": "extract/lifecycle -repo $VERIF_REPO -out lean/GPy/C09/Generated.lean", "rc": rc, "output": out.strip()[-400:]}
    if rc != 0:
        # tie lost: the source has a shape the extractor does not understand
        run.violation({"kind": "extractor", "broken": "extract/lifecycle: " + out.strip()[-600:],
                       "note": "the lifecycle code no longer has the shape the model is generated from; theorems are about a stale program"}, nofail=True)
        return
    after = open(GEN).read()
    run.cov["generated_changed_this_run"] = before != after
    try:
        run.cov["fingerprints"] = json.load(open(FACTS)).get("fingerprints", {})
    except Exception:
        pass


def extra(run):
    """record what the bounded search over the regenerated program found (its schedules are ordinary cases of the
    correspondence run: a reproduced one is reported by common.py as the VIOLATION's failing input)"""
    import subprocess
    exe = os.path.join(common.LEAN, ".lake", "build", "bin", "gpymodel-C09")
    if not os.path.exists(exe):
        return
    try:
        p = subprocess.run([exe, "C09", "search", "0" if getattr(run, "gen_tier", run.tier) != "thorough" else str(run.seed or 1)],
                           stdout=subprocess.PIPE, stderr=subprocess.PIPE, text=True, timeout=1800)
    except Exception as e:  # noqa: BLE001
        run.cov["search"] = {"error": str(e)[:200]}
        return
    summ = [l for l in p.stderr.splitlines() if l.startswith("search:")]
    found = [l.split("\t") for l in p.stdout.splitlines() if l.strip()]
    run.cov["search"] = {"cmd": "gpymodel-C09 C09 search <0 = quick bounds | seed = thorough bounds>",
                         "summary": summ[0] if summ else "", "violating_schedules": [{"input": f[0], "model": f[1]} for f in found][:8]}
