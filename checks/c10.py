"""C10: no Python-level action can panic or abort the embedding process  (partial by nature, DESIGN.md 7).

Three parts, one verdict:

 1. pre(run)   extract/assertsites regenerates lean/GPy/C10/Generated.lean (table of assertion sites of
               py/, vm/, stdlib/builtin/) from the WORKING TREE; Props.lean then re-proves, by `decide` over
               the table, that every contract-guarded site is discharged (`guarded_sites_safe`) and that the
               open obligations are exactly the reviewed list of lean/GPy/C10/Expected.lean
               (`obligations_open`, `open_assert_panic_keys`, `index_obligations_open`): a new unguarded
               `x.(T)` / `panic(` / index expression breaks a proof obligation.  Guards recognised (second round): literal-format
               ParseTuple* (format_guarantee), `self.(T)` in the Go function of a Method/Property stored in T.Dict
               (Bind.receiver_guarantee), `self.(*py.Module)` in a module-table function (Bind.module_function_self),
               the first result of MakeBool (Bind.makeBool_returns_bool), comma-ok / type switch, init-time panics.
 2. correspond (common.py, Lean direction) the contract models (ParseTupleAndKeywords, UnpackTuple,
               Method.M__call__, IndexIntCheck) against the real functions.
 3. extra(run) THE SWEEP (direction reversed, DESIGN.md 2.2 step 4): harness/c10.go enumerates by reflection
               every callable reachable from builtins and from each builtin type's attribute table, the Go-level
               operators/helpers and the source-level operator/subscript forms, and calls each with every
               argument tuple of arity 0-2 (and arity 3 seeded / thorough: fuller) over a universe of 55
               representative values, each call under recover(), batches in child processes with a watchdog
               and RLIMIT_AS.  A Go panic / process abort is a VIOLATION with (callable, args) as replay,
               unless its ASSERTION SITE (innermost gpython function + panic kind, computed by the harness
               from the panicking stack) is a recorded known finding: the `kf=` tag is attached HERE from the
               site -> ID map `SITE_KF` below, because the inputs originate on the Go side.
               Second round: keyword sweep (`S <callable> <arity> kwfull|kwseeded:s:n`: the last argument goes by keyword under
               each of the harness's 33 keyword names; replay form `C <callable> i,j@name`), callables DERIVED by a call
               (bound / unbound Go methods) are called in turn, statement and attribute forms (`f:`).
"""
import os, sys, json, re, collections, time
import common

FACTS = os.path.join(common.WORK, "C10.assertsites.json")

# site (as printed by harness/c10.go: <pkg>/<file>.go:<function>|<kind>) -> known finding
SITE_KF = [
    # (C10-K01 receiver assertions: repaired by d16b718 and now DISCHARGED by Bind.receiver_guarantee; C10-K02 unhashable set
    #  elements: repaired by 906384b.  A panic at those sites is a violation again.)
    (re.compile(r"^py/(list|tuple)\.go:.*M__i?mul__\|(make|slice|index)$"), "C13-K04"),
]
# programs that are known to abort the process (run alone, one process each)
ABORT_PROGRAMS = [
    ("C10-K03", "l = []\\nl.append(l)\\nrepr(l)"),
]
# programs that must simply not panic (found by reading; kept as a corpus)
PROGRAMS = [
    "open(mode='r')", "list(map(globals, [1]))", "sorted([1, 2], key=locals)", "str(ValueError())", "type('a', slice(1), '')",
    "bytes(2**63-1)", "'' * (2**63-1)", "'ab' * 2**62", "__build_class__(lambda: 1, None)", "print(sep=None)", "compile(filename='a', mode='exec', flags=0)",
    "int(base=3)", "range(stop=1)", "sorted(key=1)", "max(key=1)", "str.upper('a')", "(1).__add__()", "getattr(1)", "None < None",
"def f(): return f()\\nf()", "def g(n): return sorted([1, 2], key=lambda x: g(n + 1))\\ng(0)", "def h(): yield from h()\\nlist(h())",
    "print.__get__(5, int)('x')", "len.__get__(1, int)([])", "type(lambda: 0).__code__.__get__(1, int)", "type(1j).real.__get__('a', str)", "type(slice(1)).start.__set__(3, 3)",
    "type(lambda: 0).__defaults__.__delete__(1)", "class A:\\n    def __repr__(self): return 1\\nascii(A())", "{(1, 2)}", "{b''}", "set([(1, 2)])", "{1}.add(b'ab')", "{1}.discard((1,))",
    "{x for x in [(1,)]}", "set(iter([[1], (2,)]))", "class B:\\n    f = len\\n    p = print\\nB().f([1])\\nB().p('x')", "list.append.__get__(None, 5)(1, 2)",
    "x = {}\\nx[1] = 2", "[].sort(key=1)", "import nosuch", "raise 1", "del x", "1/0", "class A(1): pass", "f = lambda: (yield)\\nnext(f())",
]

CONFIG = {
    "rule": "(a) contract cases (Lean direction): every ParseTupleAndKeywords format of length <= 2 over a 16-symbol alphabet x every argument tuple of length <= 2 over 8 value kinds x "
            "keyword-list/keyword-dictionary/result-count variants, seeded longer formats, UnpackTuple / Method.M__call__ / IndexIntCheck lattices; non-trivial = format with | $ : ; # *, an error outcome, or a default kept.  "
            "(b) sweep (Go direction): every callable enumerated by reflection x every argument tuple of arity 0-2 over the 54-value universe, arity 3 seeded (thorough: full for builtins, type tables, operators, forms); "
            "non-trivial = the call got past arity/type validation (result, or an exception other than TypeError, or a panic); distinct = distinct (callable, argument tuple)",
    "trusted_base": [
        "Lean 4.33.0 kernel; axioms allowed: propext, Classical.choice, Quot.sound (audited per theorem on every run)",
        "lean/GPy/C10/Model.lean: hand transliteration of py/args.go (parseFormat, checkNumberOfArgs, ParseTupleAndKeywords, ParseTuple, UnpackTuple) and py/method.go (Call, CallWithKeywords, M__call__); "
        "py/internal.go Index/IndexInt/IndexIntCheck is the model of lean/GPy/C13/Model.lean (imported); tied to /repo by the correspondence run only",
        "lean/GPy/C10/Spec.lean: the guarantee table of the format units (from the Python/C API reference reproduced in py/args.go) and Python's rule 'positional first, then keyword' (argFor)",
        "lean/GPy/C10/Generated.lean: REGENERATED on every run by extract/assertsites (go/parser + go/ast, SYNTACTIC: guards are recognised by shape in the same function, not by data flow)",
        "lean/GPy/C10/Expected.lean: the reviewed list of open obligations (committed)",
        "harness/c10.go: enumeration by reflection, universe of values, recover()/watchdog/RLIMIT_AS, panic-site extraction from the Go stack; checks/c10.py: site -> known-finding map",
    ],
    "assumptions": [
        "HONEST LEVEL: proof for the contracts (format_guarantee, unpack_guarantee, method_call_arity_safe, index_checked_inbounds) and for the contract-guarded sites of the table (guarded_sites_safe); "
        "every other assertion site is an OPEN OBLIGATION, explored by the sweep, not proved (counts in coverage.open_obligations)",
        "argument combinations whose only effect is a giant allocation or an astronomically long loop are NOT run: sequence * n, n << m, pow, round with an operand of magnitude >= 2**63 (harness/c10.go skip()); their number is in coverage.sweep.skipped",
        "memory exhaustion and Go stack exhaustion by unbounded recursion are process aborts Go cannot recover from; recorded as C10-K03",
        "receiver sites are discharged under the REPRESENTATION HYPOTHESIS of Bind.receiver_struct: an object whose Python type is a subtype of a built-in type T is a value of the Go type whose Type() returns T "
        "(regenerated table Generated.goTypeOf; today a class statement cannot derive from a built-in Go type at all - the sweep's class_base form explores it); "
        "and under the reading of the Go code that the raw Method stored in T.Dict is never handed to Python code (GetAttrString always goes through M__get__; py.TypeCall reads raw entries only from object/type/user classes, "
        "which hold no Go Method: theorem no_go_method_on_object_or_type)",
        "RunFrame does NOT recover Go panics and neither do py.RunSrc / RunCode / RunFile, Context.RunCode, vm.EvalCode, repl.REPL.Run or main.go (Vm.CheckException is never deferred): "
        "an embedder must `defer recover()` around every call into gpython; this check does exactly that (harness invoke/program)",
        "keyword arguments: every callable x every universe value under each of 33 keyword names (arity 1 full, 1 positional + 1 keyword seeded; thorough: full for builtins and type tables)",
    ],
    "exhaustive": False,
    "dist_tokens": 1,
    "group": lambda r: r["input"].split(" ")[0] + " " + r["impl"][:30],
}


def pre(run):
    out_lean = os.path.join(common.LEAN, "GPy", "C10", "Generated.lean")
    os.makedirs(common.WORK, exist_ok=True)
    rc, out = common.sh(["go", "run", "./assertsites", common.REPO, out_lean, FACTS],
                        cwd=os.path.join(common.ROOT, "extract"), env=common.GOENV, timeout=600)
    run.cov["extractor"] = out.strip()[-300:]
    if rc != 0:
        run.violation({"kind": "extractor", "broken": "extract/assertsites no longer understands py/, vm/, stdlib/builtin/", "output": out[-2000:]}, nofail=True)
        return
    try:
        sites = json.load(open(FACTS))
    except Exception:
        return
    ap = [s for s in sites if s["kind"] in ("assert", "panic")]
    ix = [s for s in sites if s["kind"] in ("index", "slice")]
    by = collections.Counter((s["kind"], s["guard"]) for s in sites)
    opn = [s for s in ap if s["guard"] == "none"]
    perfile = collections.Counter(s["file"] + ":" + s["kind"] + (":receiver" if s.get("receiver_assert") else "") for s in opn)
    run.cov["assertion_sites"] = {
        "total": len(sites), "assert_panic": len(ap), "index_slice": len(ix),
        "by_kind_and_guard": {f"{k}/{g}": v for (k, g), v in sorted(by.items())},
        "table": "work/C10.assertsites.json (file, function, line, kind, expression, guard)",
    }
    run.cov["open_obligations"] = {
        "assert_panic_sites_without_recognised_guard": len(opn),
        "index_slice_without_recognised_guard": len([s for s in ix if s["guard"] == "none"]),
        "per_file": dict(sorted(perfile.items())),
        "list": [f'{s["file"]}:{s["line"]} {s["func"]} {s["kind"]} {s["expr"]}' for s in opn],
        "pinned_by": "GPy.C10.obligations_open / open_assert_panic_keys / index_obligations_open against lean/GPy/C10/Expected.lean",
    }


def kf_of(site):
    for rx, kid in SITE_KF:
        if rx.search(site):
            return kid
    return None


def _hbin():
    return os.path.join(common.WORK, "gpyh.bin")


def sweep_lines(names, tier, seed):
    lines = []
    for ar in (0, 1, 2):
        lines += [f"S {n} {ar} full" for n in names]
    # keyword sweep: the last argument goes by keyword, under every name a Go kwlist of the tree knows (harness c10KwNames)
    kwable = [n for n in names if n[:2] not in ("o:",)]
    lines += [f"S {n} 1 kwfull" for n in kwable]
    if tier == "thorough":
        lines += [f"S {n} 2 kwfull" for n in kwable if n[:2] in ("b:", "t:", "T:")]
        lines += [f"S {n} 2 kwseeded:{seed}:3000" for n in kwable if n[:2] not in ("b:", "t:", "T:")]
    else:
        lines += [f"S {n} 2 kwseeded:{seed}:200" for n in kwable]
    if tier == "thorough":
        for n in names:
            if n[:2] in ("b:", "t:", "T:", "o:", "f:"):
                lines.append(f"S {n} 3 full")
            else:
                lines.append(f"S {n} 3 seeded:{seed}:4000")
    else:
        lines += [f"S {n} 3 seeded:{seed}:150" for n in names]
    return lines


def extra(run):
    hbin = _hbin()
    if not os.path.exists(hbin):
        run.violation({"kind": "correspondence", "broken": "harness binary missing: the sweep of C10 could not run (does /repo still compile?)"}, nofail=True)
        return
    known, _ = common.parse_known()
    t0 = time.time()
    res = common.run_impl_sharded(hbin, ["C10"], ["L"], workers=1)
    if not res or res[0] is None or "\t" not in res[0]:
        run.violation({"kind": "correspondence", "broken": "gpyh C10 L (enumeration of callables) failed", "output": str(res)[:500]}, nofail=True)
        return
    names = res[0].split("\t")[1].split(" ")
    lines = sweep_lines(names, run.tier, run.seed)
    # deterministic interleaving so that slow batches are spread over the shards
    order = sorted(range(len(lines)), key=lambda i: (i * 7919) % len(lines))
    lines = [lines[i] for i in order]
    # a real hang is cut by the harness's own 8 s watchdog (C10ABORT); this budget only has to exceed a whole shard's run time
    out = common.run_impl_sharded(hbin, ["C10"], lines, workers=common.NCPU, per_case_timeout=3600.0)
    tot = collections.Counter()
    classes = collections.Counter()
    kinds = collections.Counter()
    panics = []      # (site|kind, callable, argidx, msg)
    aborted = []
    for l, r in zip(lines, out):
        f = l.split(" ")
        v, rr = ((r or "MISSING\t").split("\t") + [""])[:2]
        if v not in ("ok", "PANIC"):
            aborted.append((l, (r or "")[:300]))
            continue
        kinds[f[1][:2] + " arity " + f[2] + (" kw" if f[3].startswith("kw") else "")] += 1
        m = dict(kv.split("=", 1) for kv in rr.split(" recs=")[0].split(" ") if "=" in kv)
        for k in ("n", "skip", "ok", "err", "panic"):
            tot[k] += int(m.get(k, 0))
        nt = int(m.get("ok", 0)) + int(m.get("panic", 0))
        for ck in (m.get("classes", "") or "").split(","):
            if ":" in ck:
                name, cnt = ck.rsplit(":", 1)
                classes[name] += int(cnt)
                if name != "E:TypeError":
                    nt += int(cnt)
        if f[3] in ("full", "kwfull"):
            tot["nt_full"] += nt
        tot["nt"] += nt
        if v == "PANIC":
            for rec in rr.split(" recs=", 1)[1].split(";;"):
                p = rec.split("|")
                if len(p) >= 4:
                    panics.append((p[0] + "|" + p[1], f[1], p[2], p[3]))
    # programs
    plines = ["P " + p for p in PROGRAMS]
    pout = common.run_impl_sharded(hbin, ["C10"], plines, workers=4, per_case_timeout=60.0)
    for l, r in zip(plines, pout):
        v, rr = ((r or "MISSING\t").split("\t") + [""])[:2]
        tot["programs"] += 1
        if v == "PANIC":
            p = rr.split("|")
            panics.append((p[0] + "|" + p[1], l, "-", p[-1]))
        elif v != "ok":
            aborted.append((l, (r or "")[:300]))
    # known aborting programs: one process each
    alines = ["P " + p for _, p in ABORT_PROGRAMS]
    aout = common.run_impl_sharded(hbin, ["C10"], alines, workers=len(alines), per_case_timeout=60.0)
    for (kid, _), l, r in zip(ABORT_PROGRAMS, alines, aout):
        v = (r or "MISSING").split("\t")[0]
        tot["programs"] += 1
        if v == "ok":
            run.notes.append(f"{kid}: `{l}` no longer aborts the process")
        elif kid in known:
            run.known_hit[kid] = run.known_hit.get(kid, 0) + 1
        else:
            aborted.append((l, (r or "")[:300]))
    # verdicts
    groups = collections.OrderedDict()
    for site, callee, idx, msg in panics:
        kid = kf_of(site)
        if kid and kid in known:
            run.known_hit[kid] = run.known_hit.get(kid, 0) + 1
            continue
        groups.setdefault(site, []).append((callee, idx, msg))
    reported = 0
    for site, lst in groups.items():
        lst.sort(key=lambda t: (len(t[1]), len(t[0]), t))
        callee, idx, msg = lst[0]
        if reported < 10:
            inp = callee if callee.startswith("P ") else f"C {callee} {idx}"
            run.violation({"kind": "input", "input": inp, "impl": "PANIC", "model": "-", "spec": "ok",
                           "site": site, "message": msg, "others_at_site": len(lst) - 1, "seed": run.seed, "tier": run.tier,
                           "note": "Go panic escaped to the embedder; replay runs this single call/program under recover()"})
            reported += 1
    for l, r in aborted[:5]:
        m = re.search(r"C10ABORT \S+ (\S+) (\S+)", r)
        inp = f"C {m.group(1)} {m.group(2)}" if m else l
        run.violation({"kind": "input", "input": inp, "impl": "ABORT " + r[:200], "model": "-", "spec": "ok", "batch": l,
                       "note": "the harness process died or hung (watchdog) while running this batch; replay re-runs it"})
    # evidence (standard keys are accumulated, sweep detail under coverage.sweep)
    run.cov["evaluations"] = run.cov.get("evaluations", 0) + tot["n"] + tot["programs"]
    run.cov["distinct_nontrivial"] = run.cov.get("distinct_nontrivial", 0) + tot["nt_full"]
    run.cov["known_finding_cases"] = run.cov.get("known_finding_cases", 0) + sum(run.known_hit.values())
    run.cov["sweep"] = {
        "callables": len(names), "callables_by_kind": dict(collections.Counter(n[:2] for n in names)),
        "universe_values": 55, "keyword_names": 33, "batches": len(lines), "calls": tot["n"], "skipped_giant_allocation_or_loop": tot["skip"],
        "returned_value": tot["ok"], "raised": tot["err"], "panicked": tot["panic"], "past_validation": tot["nt"],
        "exception_classes": dict(classes.most_common()), "batches_by_kind_and_arity": dict(sorted(kinds.items())),
        "panic_sites": dict(collections.Counter(s for s, _, _, _ in panics)), "aborted_batches": len(aborted),
        "programs": tot["programs"], "wall_s": round(time.time() - t0, 1),
    }
    d = run.cov.get("distribution", {})
    run.cov["distribution"] = {"contract cases (first token)": d, "sweep batches": dict(sorted(kinds.items()))}
    run.say(f"C10 sweep: {len(names)} callables, {tot['n']} calls ({tot['skip']} skipped), {tot['ok']} returned, {tot['err']} raised, "
            f"{tot['panic']} panicked at {len(set(s for s, _, _, _ in panics))} sites ({len(groups)} unknown), {len(aborted)} aborted batches, {round(time.time() - t0, 1)} s")


def replay(rec):
    ok, out, hbin = common.build_harness()
    if not ok:
        print(out)
        return 2
    inp = rec["input"]
    res = common.run_impl_sharded(hbin, ["C10"], [inp], workers=1, per_case_timeout=60.0)
    r = res[0] or "MISSING\t"
    v, rr = (r.split("\t") + [""])[:2]
    print(f"input: {inp}\nimpl now: {v} {rr}\nexpected: ok (a value or a Python exception)")
    if rec.get("spec") not in (None, "ok"):
        # a contract case
        if v != rec["spec"]:
            print(f"VIOLATION property=C10 replay={rec.get('replay_cmd', '')}")
            return 1
        print("no longer reproduces")
        return 0
    if v != "ok":
        print(f"VIOLATION property=C10 replay={rec.get('replay_cmd', '')}")
        return 1
    print("no longer reproduces")
    return 0


if __name__ == "__main__" and "--regen-expected" in sys.argv:
    common.sh(["lake", "build", "GPy.C10.Generated"], cwd=common.LEAN, timeout=1800)   # `lake env lean` does not rebuild imports
    rc, out = common.sh(["lake", "env", "lean", os.path.join(common.ROOT, "tools", "c10_expected.lean")], cwd=common.LEAN, timeout=1800)
    if rc == 0:
        open(os.path.join(common.LEAN, "GPy", "C10", "Expected.lean"), "w").write(out)
        print("lean/GPy/C10/Expected.lean rewritten; review `git diff` before committing")
    else:
        print(out)
