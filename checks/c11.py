"""C11: the compile pipeline is total: code object or SyntaxError, always (partial: the yacc driver and the grammar
actions are exercised, not modelled)."""
import os, subprocess, collections
import common
from common import ROOT, REPO, GOENV, LEAN, WORK


def pre(run):
    """regenerate lean/GPy/C11/Generated.lean (panic / SyntaxError-helper / recover sites of parser, ast, symtable, compile)
    from the working tree; `Props.panic_table_expected` then proves it equal to the hand-written expectations"""
    out = os.path.join(LEAN, "GPy", "C11", "Generated.lean")
    p = subprocess.run(["go", "run", ".", "-repo", REPO, "-out", out],
                       cwd=os.path.join(ROOT, "extract", "panicsites"), env=GOENV,
                       stdout=subprocess.PIPE, stderr=subprocess.STDOUT, text=True)
    run.cov["panicsites"] = p.stdout.strip()[-400:]
    if p.returncode != 0:
        run.violation({"kind": "extractor", "broken": "extract/panicsites cannot read parser/, ast/, symtable/, compile/",
                       "output": p.stdout[-800:]}, nofail=True)


CONFIG = {
    "rule": "cases = source texts run through compile.Compile (parser.Parse -> symtable.NewSymTable -> compileAst -> Assemble) in exec, eval and single mode, "
            "each in a supervised child process with a 2 s watchdog per text; V = ok iff every outcome is a code object or a *py.Exception whose class is SyntaxError / IndentationError / TabError "
            "AND whose Dict carries filename, lineno, offset (anything else - panic, SystemError, other class, missing location, hang, crash - is BAD:<what> with the text); "
            "(seq) EXHAUSTIVE sequences of fragments over a 77-fragment alphabet (24 keywords, 22 operators, names incl. non-ASCII, literals incl. the malformed 0777, 1e, 0x, 'abc, \"\"\", b'e-acute', r'\\', '\\x', "
            "backslash, comment, newline + indentation fragments, CR, NUL, 0x01, form feed, invalid UTF-8 byte 0xff, U+00A0, $ ? and space): all of length 1, 2 (glued and space-joined), 3 (space-joined; thorough: also glued) "
            "and, thorough, length 4 with the first three positions over 44 core fragments; one line = one batch of 77 texts x 3 modes; "
            "(rnd) VERIF_SEED-derived sequences of 4..40 fragments; (edge) ~270 hand-picked boundary texts x 3 modes; (mut) byte deletions/duplications/swaps/overwrites, truncations and token "
            "deletions/duplications/swaps/insertions of EVERY .py file found under the repository work tree at run time x 3 modes; (big) generated programs of 60-72 KiB of bytecode, nesting depth 1000, 100 kB tokens. "
            "R = lexer digest: for every text the lexer model covers, parser.LexString must agree with the Lean lexer model on SyntaxError / number of tokens / hash of the token names. "
            "non-trivial = every case (each text reaches the lexer state machine; batches count once); distinct = distinct input lines",
    "trusted_base": [
        "Lean 4.33.0 kernel; axioms allowed: propext, Classical.choice, Quot.sound (audited per theorem on every run)",
        "lean/GPy/C06/Model.lean (lexer transliteration, shared with C06) + lean/GPy/C11/Model.lean: the instrumentation of the lexer's internal-error branches, the recover-to-exception map "
        "(py.MakeException / MakeSyntaxError and the defer-recover wrappers of parser.Parse, symtable.NewSymTable, compiler.compileAst) and lean/GPy/C11/Asm.lean (Instructions.Pass/Assemble, Resolve, Size); "
        "hand transliterations tied to the repo by the correspondence run (lexer digests, big-program outcomes) only",
        "lean/GPy/C11/Generated.lean: REGENERATED from the working tree by extract/panicsites (go/parser + go/ast) on every run; the classification of each site (Spec.expected) is hand-written",
        "lean/GPy/C11/Spec.lean: my statement of the property (acceptable outcome = code | SyntaxError family with filename, lineno, offset)",
        "Go: bufio.ReadString, regexp leftmost-first semantics, strconv / math/big conversions of validated digit strings (py.IntFromString, py.FloatFromString never fail on them), bytes.Buffer",
        "harness/c11.go (supervisor + child, canonicalisation, mutation operators) and checks/common.py",
    ],
    "assumptions": [
        "PARTIAL by nature: termination and panic-freedom of the yacc driver (parser/y.go), of the grammar actions, of symtable and of compile.go's code generation for arbitrary token streams are NOT modelled; "
        "they are exercised by the exploration (Spec.openSites internal panic sites rest on it)",
        "lexer theorems are over the model's alphabet: ASCII, U+00E9/U+03BB/U+4E2D (identifier start), U+0301/U+0661 (identifier continue) and non-ASCII characters in no identifier class; invalid UTF-8 is explored only",
        "assemble_converges covers code objects below 64 KiB; above, C11-K01 is a recorded defect",
        "a text that needs more than 2 s (watchdog) counts as a hang; single-line inputs of > ~20000 tokens take quadratic time in the lexer/parser and are not generated",
    ],
    "exhaustive": True,
    "dist_tokens": 1,
    "workers": None,
    "case_timeout": 900.0,
    "group": lambda r: (r["impl"].split(" ")[0] + " " + r["input"].split(" ")[0]),
}


def _enc06(text):
    return text.replace("\\", "\\\\").replace("\n", "\\n").replace(" ", "\\s").replace("\t", "\\t").replace("\r", "\\r")


def borrowed_programs(run):
    """Programs of OTHER properties' generators (C03's scope trees: nested functions/classes/lambdas/comprehensions with
    global/nonlocal/del placements) pushed through the whole pipeline: the outcome must be a code object or a SyntaxError.
    Token-sequence enumeration cannot reach the symtable/compile internals (makeClosure, cell/free tables) these exercise."""
    drv = os.path.join(common.LEAN, ".lake", "build", "bin", "gpymodel-C03")
    hbin = os.path.join(WORK, "gpyh.bin")
    if not (os.path.exists(drv) and os.path.exists(hbin)):
        run.cov["borrowed_programs"] = "skipped: gpymodel-C03 not built"
        return
    import subprocess
    p = subprocess.run([drv, "C03", getattr(run, "gen_tier", run.tier), str(run.seed)], stdout=subprocess.PIPE, stderr=subprocess.DEVNULL, text=True)
    progs = []
    seen = set()
    for l in p.stdout.splitlines():
        src = l.split("\t", 1)[0].replace("\\n", "\n")
        if src and src not in seen:
            seen.add(src)
            progs.append(src)
    cap = 400000 if run.tier == "thorough" else 60000
    if len(progs) > cap:   # keep every family: take an even stride, not a prefix
        stride = (len(progs) + cap - 1) // cap
        progs = progs[::stride]
    lines = ["one exec " + _enc06(s + "\n") for s in progs]
    out = common.run_impl_sharded(hbin, ["C11"], lines, per_case_timeout=600.0)
    bad = [(s, (o or "MISSING").split("\t")[0]) for s, o in zip(progs, out) if (o or "MISSING").split("\t")[0] not in ("ok", "SKIPPED")]
    run.cov["borrowed_programs"] = {"from": "gpymodel-C03 (scope trees)", "compiled": len(progs), "not_code_or_syntaxerror": len(bad)}
    run.cov["evaluations"] = run.cov.get("evaluations", 0) + len(progs)
    for s, v in sorted(bad, key=lambda t: len(t[0]))[:5]:
        run.violation({"kind": "input", "input": "one exec " + _enc06(s + "\n"), "impl": v, "model": "-", "spec": "ok",
                       "note": "a program of C03's generator: compile must yield a code object or a SyntaxError-family exception"})
    run.say(f"borrowed programs (C03 scope trees): {len(progs)} compiled, {len(bad)} neither code nor SyntaxError")


def _dec06(t):
    out, i = [], 0
    while i < len(t):
        if t[i] == "\\" and i + 1 < len(t):
            out.append({"n": "\n", "s": " ", "t": "\t", "r": "\r", "\\": "\\"}.get(t[i + 1], t[i + 1]))
            i += 2
        else:
            out.append(t[i])
            i += 1
    return "".join(out)


TARGET_CONTEXTS = ["{e} = x\n", "{e}, = x\n", "*{e}, = x\n", "[{e}] = x\n", "del {e}\n", "del ({e}, )\n", "for {e} in x: pass\n", "for *{e}, in x: pass\n",
                   "with a as {e}: pass\n", "with a as (*{e}, c): pass\n", "{e} += 1\n", "[i for {e} in x]\n", "[i for *{e}, in x]\n", "x = y = {e} = z\n",
                   "def f({e}): pass\n", "lambda {e}: 0\n", "import a as {e}\n", "global {e}\n", "try: pass\nexcept E as {e}: pass\n", "class {e}: pass\n",
                   "f({e}=1)\n", "{e}\n"]


def borrowed_targets(run):
    """Every expression text of C06's expression grammar generator (gpymodel-C06, `ev` cases: displays, subscripts, slices, calls, starred,
    comprehensions, lambdas, literals ...) placed in every BINDING position of the statement grammar (assignment / starred / del / for / with /
    augmented / comprehension targets, parameters, import-as, global, except-as, class name, keyword name): the parser's context setter and the
    compiler's target handling must answer with a code object or a SyntaxError, never with an internal error."""
    drv = os.path.join(common.LEAN, ".lake", "build", "bin", "gpymodel-C06")
    hbin = os.path.join(WORK, "gpyh.bin")
    if not (os.path.exists(drv) and os.path.exists(hbin)):
        run.cov["borrowed_targets"] = "skipped: gpymodel-C06 not built"
        return
    import subprocess
    p = subprocess.run([drv, "C06", "quick", str(run.seed)], stdout=subprocess.PIPE, stderr=subprocess.DEVNULL, text=True)
    exprs, seen = [], set()
    for l in p.stdout.splitlines():
        inp = l.split("\t", 1)[0]
        if not inp.startswith("ev "):
            continue
        e = _dec06(inp[3:]).strip()
        if not e or "\n" in e or len(e) > 40 or e in seen:
            continue
        seen.add(e)
        exprs.append(e)
    exprs.sort(key=lambda e: (len(e), e))
    cap = 40000 if getattr(run, "gen_tier", run.tier) == "thorough" else 6000
    if len(exprs) > cap:   # all the short ones, an even stride through the rest
        head = exprs[: cap // 2]
        tail = exprs[cap // 2:]
        stride = (len(tail) + cap // 2 - 1) // (cap // 2)
        exprs = head + tail[::stride]
    progs = [c.format(e=e) for e in exprs for c in TARGET_CONTEXTS]
    lines = ["one exec " + _enc06(s) for s in progs]
    out = common.run_impl_sharded(hbin, ["C11"], lines, per_case_timeout=600.0)
    bad = [(s, (o or "MISSING").split("\t")[0]) for s, o in zip(progs, out) if (o or "MISSING").split("\t")[0] not in ("ok", "SKIPPED")]
    run.cov["borrowed_targets"] = {"from": "gpymodel-C06 (expression grammar) x %d binding contexts" % len(TARGET_CONTEXTS), "expressions": len(exprs),
                                   "compiled": len(progs), "not_code_or_syntaxerror": len(bad)}
    run.cov["evaluations"] = run.cov.get("evaluations", 0) + len(progs)
    for s, v in sorted(bad, key=lambda t: len(t[0]))[:5]:
        run.violation({"kind": "input", "input": "one exec " + _enc06(s), "impl": v, "model": "-", "spec": "ok",
                       "note": "an expression of C06's generator in a binding position: compile must yield a code object or a SyntaxError-family exception"})
    run.say(f"borrowed targets (C06 expressions x binding contexts): {len(progs)} compiled, {len(bad)} neither code nor SyntaxError")


def extra(run):
    """distribution of the generated cases by tag"""
    borrowed_programs(run)
    borrowed_targets(run)
    dist = collections.Counter()
    texts = 0
    try:
        for l in open(os.path.join(WORK, "C11.cases")):
            f = l.rstrip("\n").split("\t")
            if len(f) >= 5:
                for t in f[4].split(","):
                    if t and t != "nt":
                        dist[t] += 1
                if f[0].startswith("seq "):
                    texts += 77 * 3
                elif f[0].startswith("one"):
                    texts += 1
    except OSError:
        pass
    run.cov["distribution_by_tag"] = dict(dist.most_common())
    run.cov["texts_compiled_at_least"] = texts
    run.say("case distribution by tag: " + ", ".join(f"{k}={v}" for k, v in dist.most_common(40)))
    run.say(f"texts x modes compiled (seq/one lines only): {texts}")
