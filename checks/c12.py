"""C12: emitted code objects are well-formed and stack-safe on every path.

Direction of the tie is reversed (DESIGN.md 2.2 step 4): programs are generated in
Lean as source text; `gpyh C12` compiles each with the real compiler, dumps every
(nested) code object and the VM states seen under hook H2, and pipes both to the
PROVED verifier (`gpymodel C12verify`, a co-process), whose verdict is the
implementation's V.  Expected V of every case is `ok`."""
import os, sys, json, glob
import common

MODEL_BIN = os.path.join(common.LEAN, ".lake", "build", "bin", "gpymodel-C12")
STATS = os.path.join(common.WORK, "C12.stats")
os.environ["C12_STATS"] = STATS
os.environ.setdefault("GOMAXPROCS", "2")  # the harness is sequential per worker; more threads only add scheduler noise

CONFIG = {
    "rule": "case = one Python program; every code object the real compiler emits for it (module + all nested) is dumped and fed to the proved verifier, "
            "and every distinct (code object, pc, stack depth, stack kinds, block stack) the VM is in under hook H2 must be a state the certificate predicts; "
            "non-trivial (tag nt) = generated program with at least one function and one block construct (loop / try / with) - all of families nest, pos, feat, rand; "
            "family pos: every leaf statement (all simple statement kinds, break/continue/return/raise/yield guarded and unguarded) in every slot of every compound statement "
            "(if/elif/else, while/for body and else, try body/handlers/else/finally, with, nested def and class), slot paths of depth 0..2 exhaustively in a function body and in a loop in a function body "
            "(= depth 3), depth 0..1 at module level, seeded samples of depth 3..4 (thorough: depth 3 exhaustively, samples of depth 4..5); the expected verdict comes from the spec "
            "placementError (Placement.lean): ok, or nocompile:E:SyntaxError for the placements Python 3.4 rejects (tag synerr); "
            "family asm: instruction streams for the real Instructions.Assemble/StackDepth, V = the harness's own check that every emitted jump lands on its label's byte offset, R = bytes/depth compared with the Lean model of the assembler; "
            "repository .py files (family F) are explored but not counted; distinct = distinct program text",
    "trusted_base": [
        "Lean 4.33.0 kernel; axioms allowed: propext, Classical.choice, Quot.sound (audited per theorem on every run)",
        "lean/GPy/C12/Model.lean: hand transliteration of the stack/block behaviour of every do_<OPCODE> of vm/eval.go and of RunFrame's unwinding loop (abstract machine over value kinds); "
        "tied to /repo by dynamic conformance under hook H2 (every executed instruction's real pc/depth/kinds/blocks must be a predicted state) - not by proof",
        "lean/GPy/C12/Generated.lean: opcode numbers, HAVE_ARGUMENT and compile/instructions.go's opcodeStackEffect/nArgs, REGENERATED from the working tree by extract/opcodes (go/ast) on every run",
        "lean/GPy/C12/Spec.lean: Reach / SafeAt / WellFormed - my statement of 'well-formed and stack-safe on every path'; lean/GPy/C12/Placement.lean: which placements of break/continue/return/yield Python 3.4 rejects (written from the language reference / CPython 3.4 compile.c)",
        "lean/GPy/C12/Assemble.lean: hand transliteration of compile/instructions.go Pass/Assemble/Resolve/Size/Output and stackDepthWalk/StackDepth (uint32 wrap explicit); tied to /repo by family asm (byte string and stack depth of the real functions on generated streams, incl. streams over 64 KiB that need EXTENDED_ARG and several passes)",
        "lean/GPy/C12/Verify.lean + Conform.lean: the verifier whose soundness is Props.verify_sound, and the (unproved, small) text parser of the dump lines and the observation matcher",
        "harness/c12.go (dump of py.Code fields, H2 observation, de-duplication), checks/common.py",
        "type-assertion panics inside do_<OPCODE> (v.(*py.List), code.(*py.Code)) and py-level behaviour of operands are outside C12; int32 wrap of jump arithmetic is not modelled (operands < 2^31 enforced by the decoder)",
    ],
    "assumptions": [
        "the universal claim over *programs* rests on per-object certification: each emitted code object accepted by the proved verifier is, by verify_sound, safe on all its paths; "
        "that the compiler emits only acceptable objects for programs outside the explored set is not proved (compile_wellformed is a growth target)",
        "EXTENDED_ARG is modelled fused with the instruction it prefixes; the observation of the prefixed instruction is skipped by the harness",
        "generator frames: Generator.Send pushes exactly one value on resumption (py/generator.go); throw()/close() are NotImplemented in gpython and not modelled",
        "runs are cut after 300000 instructions (pystone, benchmarks); observations up to the cut are still checked",
    ],
    "exhaustive": True,
    "harness_args": [MODEL_BIN],
    "dist_tokens": 2,
    # a real hang is cut by the harness's own 25 s watchdog; this only has to exceed a whole shard's run time
    "case_timeout": 3600.0,
    "workers": 8 if "thorough" in sys.argv else 6,
    "group": lambda r: " ".join(r["input"].split(" ")[:2]) + " " + r["impl"][:40],
}


def pre(run):
    for f in glob.glob(STATS + ".*.json"):
        os.remove(f)
    out_lean = os.path.join(common.LEAN, "GPy", "C12", "Generated.lean")
    rc, out = common.sh(["go", "run", "./opcodes", common.REPO, out_lean],
                        cwd=os.path.join(common.ROOT, "extract"), env=common.GOENV, timeout=600)
    run.cov["extractor"] = out.strip()[-300:]
    if rc != 0:
        run.violation({"kind": "extractor", "broken": "extract/opcodes no longer understands vm/opcodes.go / compile/instructions.go",
                       "output": out[-2000:]}, nofail=True)


def extra(run):
    tot = {"programs": 0, "objects": 0, "observations": 0, "instructions": 0, "aborted_runs": 0,
           "max_block_depth": 0, "max_stack_depth": 0}
    ops, shapes, emitted = {}, {}, {}
    for f in glob.glob(STATS + ".*.json"):
        try:
            d = json.load(open(f))
        except Exception:
            continue
        for k in ("programs", "objects", "observations", "instructions", "aborted_runs"):
            tot[k] += d.get(k, 0)
        for k in ("max_block_depth", "max_stack_depth"):
            tot[k] = max(tot[k], d.get(k, 0))
        for src, dst in ((d.get("opcodes_executed", {}), ops), (d.get("shapes", {}), shapes), (d.get("opcodes_emitted", {}), emitted)):
            for k, v in src.items():
                k = k.replace("HAVE_ARGUMENT", "STORE_NAME")  # stringer names opcode 90 after the boundary constant
                dst[k] = dst.get(k, 0) + v
        os.remove(f)
    run.cov["code_objects_certified"] = tot["objects"]
    run.cov["programs_compiled"] = tot["programs"]
    run.cov["executed_instructions"] = tot["instructions"]
    run.cov["distinct_observed_states"] = tot["observations"]
    run.cov["runs_cut_by_budget"] = tot["aborted_runs"]
    run.cov["max_block_depth_observed"] = tot["max_block_depth"]
    run.cov["max_stack_depth_observed"] = tot["max_stack_depth"]
    run.cov["finally_and_with_shapes_observed"] = shapes
    run.cov["opcodes_emitted"] = dict(sorted(emitted.items(), key=lambda kv: -kv[1]))
    run.cov["opcodes_observed_distinct_states"] = dict(sorted(ops.items(), key=lambda kv: -kv[1]))
    run.cov["opcodes_never_emitted"] = sorted(set(ALL_OPS) - set(emitted))
    run.say(f"C12: {tot['programs']} programs, {tot['objects']} code objects certified, {tot['instructions']} instructions executed under H2, "
            f"{tot['observations']} distinct observed states, shapes {shapes}")


ALL_OPS = """POP_TOP ROT_TWO ROT_THREE DUP_TOP DUP_TOP_TWO NOP UNARY_POSITIVE UNARY_NEGATIVE UNARY_NOT UNARY_INVERT BINARY_POWER
BINARY_MULTIPLY BINARY_MODULO BINARY_ADD BINARY_SUBTRACT BINARY_SUBSCR BINARY_FLOOR_DIVIDE BINARY_TRUE_DIVIDE INPLACE_FLOOR_DIVIDE
INPLACE_TRUE_DIVIDE STORE_MAP INPLACE_ADD INPLACE_SUBTRACT INPLACE_MULTIPLY INPLACE_MODULO STORE_SUBSCR DELETE_SUBSCR BINARY_LSHIFT
BINARY_RSHIFT BINARY_AND BINARY_XOR BINARY_OR INPLACE_POWER GET_ITER PRINT_EXPR LOAD_BUILD_CLASS YIELD_FROM INPLACE_LSHIFT
INPLACE_RSHIFT INPLACE_AND INPLACE_XOR INPLACE_OR BREAK_LOOP WITH_CLEANUP RETURN_VALUE IMPORT_STAR YIELD_VALUE POP_BLOCK END_FINALLY
POP_EXCEPT STORE_NAME DELETE_NAME UNPACK_SEQUENCE FOR_ITER UNPACK_EX STORE_ATTR DELETE_ATTR STORE_GLOBAL DELETE_GLOBAL LOAD_CONST
LOAD_NAME BUILD_TUPLE BUILD_LIST BUILD_SET BUILD_MAP LOAD_ATTR COMPARE_OP IMPORT_NAME IMPORT_FROM JUMP_FORWARD JUMP_IF_FALSE_OR_POP
JUMP_IF_TRUE_OR_POP JUMP_ABSOLUTE POP_JUMP_IF_FALSE POP_JUMP_IF_TRUE LOAD_GLOBAL CONTINUE_LOOP SETUP_LOOP SETUP_EXCEPT SETUP_FINALLY
LOAD_FAST STORE_FAST DELETE_FAST RAISE_VARARGS CALL_FUNCTION MAKE_FUNCTION BUILD_SLICE MAKE_CLOSURE LOAD_CLOSURE LOAD_DEREF STORE_DEREF
DELETE_DEREF CALL_FUNCTION_VAR CALL_FUNCTION_KW CALL_FUNCTION_VAR_KW SETUP_WITH EXTENDED_ARG LIST_APPEND SET_ADD MAP_ADD LOAD_CLASSDEREF""".split()
