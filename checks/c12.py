"""C12: emitted code objects are well-formed and stack-safe on every path.

Direction of the tie is reversed (DESIGN.md 2.2 step 4): programs are generated in
Lean as source text; `gpyh C12` compiles each with the real compiler, dumps every
(nested) code object and the VM states seen under hook H2, and pipes both to the
PROVED verifier (`gpymodel C12verify`, a co-process), whose verdict is the
implementation's V.  Expected V of every case is `ok`."""
import os, sys, json, glob
import common

MODEL_BIN = os.path.join(common.LEAN, ".lake", "build", "bin", "gpymodel-C12")
STATS = os.path.join(common.WORK, "C12.stats")
os.environ["C12_STATS"] = STATS
os.environ.setdefault("GOMAXPROCS", "2")  # the harness is sequential per worker; more threads only add scheduler noise

CONFIG = {
    "rule": "case = one Python program; every code object the real compiler emits for it (module + all nested) is dumped and fed to the proved verifier, "
            "and every distinct (code object, pc, stack depth, stack kinds, block stack) the VM is in under hook H2 must be a state the certificate predicts; "
            # [C12-ext2 g3] begin
            "every distinct pair of CONSECUTIVE observations of one frame (nested calls and generator suspension in between included) must be an instance of the abstract machine's step relation "
            "(some predicted state explains the first observation and one of its step outcomes next/yield explains the second: verdict STEP-MISMATCH otherwise), "
            "and the first observation of every frame must be pc 0 with an empty stack and no block (START-MISMATCH otherwise); "
            # [C12-ext2 g3] end
            "non-trivial (tag nt) = generated program with at least one function and one block construct (loop / try / with) - all of families nest, pos, feat, rand; "
            "family pos: every leaf statement (all simple statement kinds, break/continue/return/raise/yield guarded and unguarded) in every slot of every compound statement "
            "(if/elif/else, while/for body and else, try body/handlers/else/finally, with, nested def and class), slot paths of depth 0..2 exhaustively in a function body and in a loop in a function body "
            "(= depth 3), depth 0..1 at module level, seeded samples of depth 3..4 (thorough: depth 3 exhaustively, samples of depth 4..5); the expected verdict comes from the spec "
            "placementError (Placement.lean): ok, or nocompile:E:SyntaxError for the placements Python 3.4 rejects (tag synerr); "
            "family asm: instruction streams for the real Instructions.Assemble/StackDepth, V = the harness's own check that every emitted jump lands on its label's byte offset, R = bytes/depth compared with the Lean model of the assembler; "
            # [C12-ext2 g4] begin
            "family tb: programs in which exactly one designated sub-expression faults inside a statement spread over several lines (call with arguments on following lines - fault in callee / first / last argument / the call itself, "
            "nested calls, parenthesised binary operations, subscripts, attribute on a later line, list and dict displays, conditional expressions, return ( ... ), assert with the message on a later line, with items, default values, "
            "1-3 decorators with and without arguments on def and class faulting while evaluated or while applied, comprehensions), every layout of the token slots (same line / next line; all 2^n for n <= 4, seeded sample beyond), in 1-2 frames; "
            "V = the REAL traceback of the escaping exception as name:line entries + class, specV = Python 3.4's rule (TbSpec.lean: within a statement the line only increases, an instruction carries the max of the lines of the nodes visited so far), "
            "modelV = gpython's compiler (raw c.Lineno per instruction, may decrease) pushed through the Lean Lnotab()/Addr2Line(Lasti-1); R = the co-process recomputed every entry's line with the Lean addr2line on the dumped code object; "
            # [C12-ext2 g4] end
            "repository .py files (family F) are explored but not counted; distinct = distinct program text",
    "trusted_base": [
        "Lean 4.33.0 kernel; axioms allowed: propext, Classical.choice, Quot.sound (audited per theorem on every run)",
        "lean/GPy/C12/Model.lean: hand transliteration of the stack/block behaviour of every do_<OPCODE> of vm/eval.go and of RunFrame's unwinding loop (abstract machine over value kinds); "
        "tied to /repo by dynamic conformance under hook H2 (every executed instruction's real pc/depth/kinds/blocks must be a predicted state, and every pair of consecutive observations of a frame "
        "must be related by the model's `step`: Conform.stepConforms, characterised exactly by ConformProofs.stepConforms_iff / Props.observed_transition_is_step) - not by proof; "
        "how a frame ENDS (return / escaping exception after its last observation) is not observed",  # [C12-ext2 g3]
        "lean/GPy/C12/Generated.lean: opcode numbers, HAVE_ARGUMENT and compile/instructions.go's opcodeStackEffect/nArgs, REGENERATED from the working tree by extract/opcodes (go/ast) on every run",
        "lean/GPy/C12/Spec.lean: Reach / SafeAt / WellFormed - my statement of 'well-formed and stack-safe on every path'; lean/GPy/C12/Placement.lean: which placements of break/continue/return/yield Python 3.4 rejects (written from the language reference / CPython 3.4 compile.c)",
        "lean/GPy/C12/Assemble.lean: hand transliteration of compile/instructions.go Pass/Assemble/Resolve/Size/Output and stackDepthWalk/StackDepth (uint32 wrap explicit); tied to /repo by family asm (byte string and stack depth of the real functions on generated streams, incl. streams over 64 KiB that need EXTENDED_ARG and several passes)",
        "lean/GPy/C12/Verify.lean + Conform.lean: the verifier whose soundness is Props.verify_sound, and the (unproved, small) text parser of the dump lines and the observation matcher",
        "harness/c12.go (dump of py.Code fields, H2 observation, pairing of consecutive observations per *py.Frame, de-duplication: ints outside 0..6 are compared by position only), checks/common.py",  # [C12-ext2 g3]
        # [C12-ext2 g1] begin
        "lean/GPy/C12/Depth.lean: disasm (emitted bytes -> the instruction stream compiler.Jump builds: one label per instruction start, JumpAbs/JumpRel by opcode), walkD/depthClosedB/walkExcludedB (the decidable hypotheses of "
        "stackdepth_upper_bound_partial); evaluated by the co-process for every emitted code object of at most 250 instructions and reported as coverage (stackdepth_model_on_emitted_objects); "
        "labels that sit at the same offset are ONE label in the disassembled stream, distinct objects in the compiler's stream - the walk's seen/startDepth pruning can then differ (model StackDepth() <= real Stacksize in ~1% of the objects, try statements nested in loops)",
        # [C12-ext2 g1] end
        "harness/c12.go (dump of py.Code fields, H2 observation, de-duplication), checks/common.py",
        # [C12-ext2 g4] begin
        "lean/GPy/C12/TbSpec.lean: my reading of CPython 3.4's compile.c / ast.c for line numbers (u_lineno only increases inside a statement; node lineno = line of the first token; a decorated def/class has the line of its first decorator; "
        "visit orders of Call / Dict / IfExp / assert / with / def / class / comprehension) as an event list folded with max - the spec of family tb; the model half (gpython assigns c.Lineno on every visit) is tied to /repo only by the tb runs; "
        "lean/GPy/C02/Model.lean lnotab/addr2line/tracebackAddr (reused): transliteration of compile/instructions.go Lnotab() and py/code.go Addr2Line; GPy/C12/Lnotab.lean runMax/flat/withLnotab (definitions the theorems lnotab_running_max, lnotab_wellformed, addr2line_models_agree, traceback_line_running_max speak about); "
        "gpython's dict accepts only str keys (KeyError otherwise): dict displays of family tb use string keys, an unhashable-key fault is not explored",
        # [C12-ext2 g4] end
        "type-assertion panics inside do_<OPCODE> (v.(*py.List), code.(*py.Code)) and py-level behaviour of operands are outside C12; int32 wrap of jump arithmetic is not modelled (operands < 2^31 enforced by the decoder)",
    ],
    "assumptions": [
        "the universal claim over *programs* rests on per-object certification: each emitted code object accepted by the proved verifier is, by verify_sound, safe on all its paths; "
        "that the compiler emits only acceptable objects for programs outside the explored set is not proved (compile_wellformed is a growth target)",
        "EXTENDED_ARG is modelled fused with the instruction it prefixes; the observation of the prefixed instruction is skipped by the harness (a transition therefore runs from the EXTENDED_ARG's pc to the successor of the prefixed instruction)",  # [C12-ext2 g3]
        "generator frames: Generator.Send pushes exactly one value on resumption (py/generator.go) - now observed: the transition YIELD_VALUE/YIELD_FROM -> first instruction after resumption is checked against the model's `yield` outcome; throw()/close() are NotImplemented in gpython and not modelled",  # [C12-ext2 g3]
        "runs are cut after 300000 instructions (pystone, benchmarks); observations up to the cut are still checked",
    ],
    "exhaustive": True,
    "harness_args": [MODEL_BIN],
    "dist_tokens": 2,
    # a real hang is cut by the harness's own 25 s watchdog; this only has to exceed a whole shard's run time
    "case_timeout": 3600.0,
    "workers": 8 if "thorough" in sys.argv else 6,
    "group": lambda r: " ".join(r["input"].split(" ")[:2]) + " " + r["impl"][:40],
}


def pre(run):
    for f in glob.glob(STATS + ".*.json"):
        os.remove(f)
    out_lean = os.path.join(common.LEAN, "GPy", "C12", "Generated.lean")
    rc, out = common.sh(["go", "run", "./opcodes", common.REPO, out_lean],
                        cwd=os.path.join(common.ROOT, "extract"), env=common.GOENV, timeout=600)
    run.cov["extractor"] = out.strip()[-300:]
    if rc != 0:
        run.violation({"kind": "extractor", "broken": "extract/opcodes no longer understands vm/opcodes.go / compile/instructions.go",
                       "output": out[-2000:]}, nofail=True)


def extra(run):
    tot = {"programs": 0, "objects": 0, "observations": 0, "instructions": 0, "aborted_runs": 0,
           "transitions": 0, "frame_starts": 0,  # [C12-ext2 g3]
           "max_block_depth": 0, "max_stack_depth": 0}
    ops, shapes, emitted = {}, {}, {}
    depth = {}  # [C12-ext2 g1]
    for f in glob.glob(STATS + ".*.json"):
        try:
            d = json.load(open(f))
        except Exception:
            continue
        for k in ("programs", "objects", "observations", "instructions", "aborted_runs", "transitions", "frame_starts"):  # [C12-ext2 g3]
            tot[k] += d.get(k, 0)
        for k in ("max_block_depth", "max_stack_depth"):
            tot[k] = max(tot[k], d.get(k, 0))
        for k, v in (d.get("depth") or {}).items():  # [C12-ext2 g1]
            depth[k] = depth.get(k, 0) + v
        for src, dst in ((d.get("opcodes_executed", {}), ops), (d.get("shapes", {}), shapes), (d.get("opcodes_emitted", {}), emitted)):
            for k, v in src.items():
                k = k.replace("HAVE_ARGUMENT", "STORE_NAME")  # stringer names opcode 90 after the boundary constant
                dst[k] = dst.get(k, 0) + v
        os.remove(f)
    run.cov["code_objects_certified"] = tot["objects"]
    run.cov["programs_compiled"] = tot["programs"]
    run.cov["executed_instructions"] = tot["instructions"]
    run.cov["distinct_observed_states"] = tot["observations"]
    # [C12-ext2 g3] begin
    run.cov["distinct_observed_transitions"] = tot["transitions"]
    run.cov["distinct_frame_start_states"] = tot["frame_starts"]
    # [C12-ext2 g3] end
    # [C12-ext2 g1] begin: gpython's StackDepth() (Lean model of stackDepthWalk on the disassembled stream) per emitted object
    run.cov["stackdepth_model_on_emitted_objects"] = {
        "objects_walked (<= 250 instructions)": depth.get("dw", 0),
        "model_StackDepth_equals_real_Stacksize": depth.get("deq", 0),
        "walk_result_closed (hypothesis 1 of stackdepth_upper_bound_partial)": depth.get("dclosed", 0),
        "certificate_predicts_excluded_shape (hypothesis 2 fails)": depth.get("dexcl", 0),
        "theorem_applies (closed and not excluded)": depth.get("dthm", 0),
        "model_StackDepth_below_certificate_max_depth (must be 0)": depth.get("dbelow", 0),
        "model_StackDepth_above_real_Stacksize": depth.get("dhigh", 0),
    }
    if depth.get("dbelow", 0):
        run.violation({"kind": "stackdepth", "broken": "StackDepth() of the model is below the verifier's maximal depth for an emitted code object",
                       "count": depth.get("dbelow", 0)}, nofail=True)
    # [C12-ext2 g1] end
    run.cov["runs_cut_by_budget"] = tot["aborted_runs"]
    run.cov["max_block_depth_observed"] = tot["max_block_depth"]
    run.cov["max_stack_depth_observed"] = tot["max_stack_depth"]
    run.cov["finally_and_with_shapes_observed"] = shapes
    run.cov["opcodes_emitted"] = dict(sorted(emitted.items(), key=lambda kv: -kv[1]))
    run.cov["opcodes_observed_distinct_states"] = dict(sorted(ops.items(), key=lambda kv: -kv[1]))
    run.cov["opcodes_never_emitted"] = sorted(set(ALL_OPS) - set(emitted))
    run.say(f"C12: {tot['programs']} programs, {tot['objects']} code objects certified, {tot['instructions']} instructions executed under H2, "
            f"{tot['observations']} distinct observed states, {tot['transitions']} distinct observed transitions checked against step, shapes {shapes}")


ALL_OPS = """POP_TOP ROT_TWO ROT_THREE DUP_TOP DUP_TOP_TWO NOP UNARY_POSITIVE UNARY_NEGATIVE UNARY_NOT UNARY_INVERT BINARY_POWER
BINARY_MULTIPLY BINARY_MODULO BINARY_ADD BINARY_SUBTRACT BINARY_SUBSCR BINARY_FLOOR_DIVIDE BINARY_TRUE_DIVIDE INPLACE_FLOOR_DIVIDE
INPLACE_TRUE_DIVIDE STORE_MAP INPLACE_ADD INPLACE_SUBTRACT INPLACE_MULTIPLY INPLACE_MODULO STORE_SUBSCR DELETE_SUBSCR BINARY_LSHIFT
BINARY_RSHIFT BINARY_AND BINARY_XOR BINARY_OR INPLACE_POWER GET_ITER PRINT_EXPR LOAD_BUILD_CLASS YIELD_FROM INPLACE_LSHIFT
INPLACE_RSHIFT INPLACE_AND INPLACE_XOR INPLACE_OR BREAK_LOOP WITH_CLEANUP RETURN_VALUE IMPORT_STAR YIELD_VALUE POP_BLOCK END_FINALLY
POP_EXCEPT STORE_NAME DELETE_NAME UNPACK_SEQUENCE FOR_ITER UNPACK_EX STORE_ATTR DELETE_ATTR STORE_GLOBAL DELETE_GLOBAL LOAD_CONST
LOAD_NAME BUILD_TUPLE BUILD_LIST BUILD_SET BUILD_MAP LOAD_ATTR COMPARE_OP IMPORT_NAME IMPORT_FROM JUMP_FORWARD JUMP_IF_FALSE_OR_POP
JUMP_IF_TRUE_OR_POP JUMP_ABSOLUTE POP_JUMP_IF_FALSE POP_JUMP_IF_TRUE LOAD_GLOBAL CONTINUE_LOOP SETUP_LOOP SETUP_EXCEPT SETUP_FINALLY
LOAD_FAST STORE_FAST DELETE_FAST RAISE_VARARGS CALL_FUNCTION MAKE_FUNCTION BUILD_SLICE MAKE_CLOSURE LOAD_CLOSURE LOAD_DEREF STORE_DEREF
DELETE_DEREF CALL_FUNCTION_VAR CALL_FUNCTION_KW CALL_FUNCTION_VAR_KW SETUP_WITH EXTENDED_ARG LIST_APPEND SET_ADD MAP_ADD LOAD_CLASSDEREF""".split()
