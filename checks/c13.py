"""C13: indexing and slicing follow Python's sequence model for all indices.

Besides the correspondence run, `(*Slice).GetIndices` of py/slice.go is REGENERATED into Lean by extract/goint (slice mode) on
every run (lean/GPy/C13/Generated/SliceCore.lean); lean/GPy/C13/GenProofs.lean (gen_getIndices) and the `generated_*` theorems of
Props.lean are re-proved against it, so the headline theorem getindices_spec is about the code of the working tree."""
import os
import common

CONFIG = {
    "rule": "cases = (operation, sequence operands, key) executed through py.GetItem/SetItem/DelItem/Add/IAdd/Mul/Len/SequenceContains/Eq..Ge/Iter+Next on the real packages; "
            "exhaustive part: {list, tuple, ascii str, str with 1-4 byte characters, range step 1, range negative step} x every length 0..4 (thorough 0..6) x "
            "every (start, stop, step) over {None, -5..5 (thorough -9..9), +-(2^63-1), +-2^63, 2^64, -2^64, -2^63-1} for get / list del / list set (value lengths 0,1,2,n+1; "
            "matching and off-by-one lengths for extended slices; value = the list itself, a non-iterable, a tuple); every index key -9..9, out of int64, None, float, bool; "
            "slices with bool/float components; set from str/bytes/range/tuple values; all pairs of 45 small sequences for + += and the six comparisons; "
            "repetition by {0,1,2,3,-1,-2^63,bool,None,float,+-2^64} and by counts whose product with the length wraps int64; range() near the int64 limits; "
            "plus VERIF_SEED-derived cases on sequences of length 0..12 with bounds anywhere (also next to +-2^63). "
            "SHORT HISTORIES (hist cases, slice-header model): a = a literal or tuple(x)/list(x)/bytes(x) collected with append (spare capacity) of length 0,1,3,5 "
            "(thorough 0..5,7) for tuple, list, bytes, str; b derived from a by every form: alias, ~12+2n step-1 slices (sub-slices that keep the parent's spare capacity), "
            "extended slices, a+c, c+a, a*n, n*a, tuple(a), list(a), bytes(a); then 0, 1 or 2 growing operations applied to the OBJECT b "
            "(immutables: += literal that fits / does not fit the spare capacity, += a, += b, *= n; lists: +=, append, extend, slice assignment from literal/tuple/bytes/a/b, "
            "slice deletion, index assignment/deletion); V = a, b and every result rendered AFTER the last operation (Python value semantics: immutables never change, "
            "list results are new objects, in-place list operations are seen through the same object); R = which observed objects share array cells "
            "(live cells shared / live cells of one inside the spare capacity of the other), read from the Go slice headers with unsafe; plus seeded random histories. "
            "V = result | every operand afterwards (so operand corruption and result/operand storage sharing - the harness scribbles over list results - are part of V). "
            "non-trivial = the spec raises, or the key is a slice, a negative index, or the operation is anything but len / in-range non-negative indexing; distinct = distinct input lines",
    "trusted_base": [
        "extract/goint slice mode (Go -> Lean translator, go/ast; rules as listed in checks/c07.py: int arithmetic wraps, / truncates, named results + bare return, "
        "`x, err = f(); if err != nil { return }` = error propagation, fall-through ifs as values): lean/GPy/C13/Generated/SliceCore.lean is its output for py/slice.go's GetIndices of the working tree; "
        "sliceIndex (type switch on the operand) stays hand-modelled",
        "Lean 4.33.0 kernel; axioms allowed: propext, Classical.choice, Quot.sound (audited per theorem on every run)",
        "lean/GPy/C13/Spec.lean: my transcription of Python's sequence model (slice bound adjustment, the progression start+k*step before stop, index normalisation, list assignment/deletion, range as its item list, lexicographic order)",
        "lean/GPy/C13/Model.lean: hand transliteration of py/slice.go, py/internal.go (Index*), py/list.go, py/tuple.go, py/range.go, py/string.go (code-point granularity), py/bytes.go, py/sequence.go and the dispatch in py/arithmetic.go; tied to /repo by the correspondence run only",
        "Go semantics assumed: int64 arithmetic wraps, / truncates, slice expressions panic outside 0 <= lo <= hi <= cap, append writes in place iff len+n <= cap and otherwise allocates (capacity chosen by the runtime: a parameter `grow` the theorems quantify over), copy/append behave as memmove; unicode/utf8 rune decoding and strings.Contains are exact (strings are modelled as code-point lists)",
        "lean/GPy/C13/Heap.lean: hand transliteration of the slice-level behaviour (make / sub-slice / append / element store) of py/tuple.go, py/bytes.go, py/list.go, py/sequence.go over headers (array, offset, len, cap); tied to /repo by the hist cases (V and the sharing column R)",
        "harness/c13.go and checks/common.py (case transport, canonical rendering of results and operands)",
    ],
    "assumptions": [
        "memory exhaustion is not modelled: repetition counts and range lengths that would allocate more than a few dozen items are not generated (overflowing counts are generated only where the wrapped product is tiny)",
        "Go slice aliasing is modelled (Heap.lean) for tuple, list and bytes; histories are short (derive, at most two growing operations, observe); long aliased histories, mutation during iteration, "
        "list += / extend from a non-list and the identity of `l *= n` belong to C17 and are not generated here",
        "str is modelled as a list of code points; the byte-offset arithmetic of String.pos and UTF-8 decoding belong to C14 and are exercised here with 1-4 byte characters",
        "user classes with __index__/__getitem__ are not generated",
        "proved for all inputs: GetIndices vs Python's slice positions (getindices_spec, getindices_bounds, step0_valueerror); list get/set/del for every slice key "
        "(list_getslice_spec, list_setslice_spec, list_delslice_spec) and every index key inside int64 (list_*item_spec_partial); tuple, str and bytes slicing and indexing; "
        "range length, item, iteration, slicing and membership for int64 arguments whose span fits a word (range_*_spec_partial); concat_spec, eq_spec, order_spec, strbytes_order_spec, "
        "contains_spec, seqMul_spec / repeat_spec_partial / repeat_bool_spec. Slice-header model: operand_unchanged_immutable (no history of tuple/bytes operations on any headers ever writes "
        "to an existing array), result_fresh (list results live in new arrays), operand_unchanged_inplace (in-place list operations write only to the list's own or to new arrays), "
        "lists_own_their_arrays (separation invariant over every history from the empty heap), other_values_unchanged_partial. "
        "Tied by the correspondence run only: the value computed by each heap-level operation equals the List-level model's (every hist case compares impl, heap model and the value-semantics spec); += on the List-level model",
    ],
    "exhaustive": True,
    "dist_tokens": 1,
    "group": lambda r: " ".join([r["input"].split(" ")[0], r["input"].split(" ")[1][:1], r["impl"].split("|")[0][:12]]),
}


def pre(run):
    """regenerate lean/GPy/C13/Generated/SliceCore.lean from py/slice.go of the working tree (extract/goint slice)"""
    out_lean = os.path.join(common.LEAN, "GPy", "C13", "Generated", "SliceCore.lean")
    before = open(out_lean).read() if os.path.exists(out_lean) else ""
    rc, out = common.sh(["go", "run", ".", "slice", common.REPO, out_lean], cwd=os.path.join(common.ROOT, "extract", "goint"),
                        env=common.GOENV, timeout=600)
    after = open(out_lean).read() if os.path.exists(out_lean) else ""
    run.cov["translator"] = {"cmd": "cd extract/goint && go run . slice <repo> lean/GPy/C13/Generated/SliceCore.lean",
                             "exit": rc, "output": out.strip()[-300:], "functions_translated": 1 if rc == 0 else 0,
                             "generated_file_differs_from_committed_baseline": after != before and before != "",
                             "generated_sha1": __import__("hashlib").sha1(after.encode()).hexdigest()}
    if rc != 0:
        run.violation({"kind": "translator", "broken": "extract/goint (slice mode) cannot translate py/slice.go GetIndices of the working tree any more: "
                       "the `generated_*` theorems are no longer about the current code", "output": out[-2000:]}, nofail=True)
