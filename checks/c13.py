CONFIG = {
    "rule": "cases = (operation, sequence operands, key) executed through py.GetItem/SetItem/DelItem/Add/IAdd/Mul/Len/SequenceContains/Eq..Ge/Iter+Next on the real packages; "
            "exhaustive part: {list, tuple, ascii str, str with 1-4 byte characters, range step 1, range negative step} x every length 0..4 (thorough 0..6) x "
            "every (start, stop, step) over {None, -5..5 (thorough -9..9), +-(2^63-1), +-2^63, 2^64, -2^64, -2^63-1} for get / list del / list set (value lengths 0,1,2,n+1; "
            "matching and off-by-one lengths for extended slices; value = the list itself, a non-iterable, a tuple); every index key -9..9, out of int64, None, float, bool; "
            "slices with bool/float components; set from str/bytes/range/tuple values; all pairs of 45 small sequences for + += and the six comparisons; "
            "repetition by {0,1,2,3,-1,-2^63,bool,None,float,+-2^64} and by counts whose product with the length wraps int64; range() near the int64 limits; "
            "plus VERIF_SEED-derived cases on sequences of length 0..12 with bounds anywhere (also next to +-2^63). "
            "V = result | every operand afterwards (so operand corruption and result/operand storage sharing - the harness scribbles over list results - are part of V). "
            "non-trivial = the spec raises, or the key is a slice, a negative index, or the operation is anything but len / in-range non-negative indexing; distinct = distinct input lines",
    "trusted_base": [
        "Lean 4.33.0 kernel; axioms allowed: propext, Classical.choice, Quot.sound (audited per theorem on every run)",
        "lean/GPy/C13/Spec.lean: my transcription of Python's sequence model (slice bound adjustment, the progression start+k*step before stop, index normalisation, list assignment/deletion, range as its item list, lexicographic order)",
        "lean/GPy/C13/Model.lean: hand transliteration of py/slice.go, py/internal.go (Index*), py/list.go, py/tuple.go, py/range.go, py/string.go (code-point granularity), py/bytes.go, py/sequence.go and the dispatch in py/arithmetic.go; tied to /repo by the correspondence run only",
        "Go semantics assumed: int64 arithmetic wraps, / truncates, slice expressions panic outside 0 <= lo <= hi <= len, append/copy as documented; unicode/utf8 rune decoding and strings.Contains are exact (strings are modelled as code-point lists)",
        "harness/c13.go and checks/common.py (case transport, canonical rendering of results and operands)",
    ],
    "assumptions": [
        "memory exhaustion is not modelled: repetition counts and range lengths that would allocate more than a few dozen items are not generated (overflowing counts are generated only where the wrapped product is tiny)",
        "list aliasing through Go slice capacity is observed by the harness (scribble test) but not modelled as a heap; mutation during iteration belongs to C17",
        "str is modelled as a list of code points; the byte-offset arithmetic of String.pos and UTF-8 decoding belong to C14 and are exercised here with 1-4 byte characters",
        "user classes with __index__/__getitem__ are not generated",
        "proved for all inputs: GetIndices vs Python's slice positions (getindices_spec, getindices_bounds, step0_valueerror); list get/set/del for every slice key "
        "(list_getslice_spec, list_setslice_spec, list_delslice_spec) and every index key inside int64 (list_*item_spec_partial); tuple and str slicing and indexing; "
        "range length, item and iteration for int64 arguments whose span fits a word; concat_spec, eq_spec. "
        "Tied by the correspondence run only (no theorem yet): range slicing (range_slice_spec), repetition (repeat_spec), membership, str/bytes ordering, "
        "+= , freshness of results (result_fresh / operand_unchanged are observed by the harness's scribble test, not modelled as a heap)",
    ],
    "exhaustive": True,
    "dist_tokens": 1,
    "group": lambda r: " ".join([r["input"].split(" ")[0], r["input"].split(" ")[1][:1], r["impl"].split("|")[0][:12]]),
}
