CONFIG = {
    "rule": "cases = one operation on real py.String/py.Bytes objects: len, iteration, in, find/count/startswith/endswith (str or tuple argument, "
            "optional start/end), split (separator or None, maxsplit), join, strip/lstrip/rstrip (with and without argument), replace (count), "
            "six comparisons, repetition, indexing s[i] and slicing s[a:b] (py.GetItem with an int / a slice object), chr, ord through py.Call / the py API, and eval(repr(x)) == x (same types all the way down) through a "
            "compiled program for str, bytes, int, float samples and nested tuples/lists, and the value of ONE short string/bytes literal compiled from source "
            "(`lit`: lexer.readString + DecodeEscape against the language reference's literal grammar and escape table: every body up to length 3 (4 thorough) "
            "over {backslash, x, u, U, +, -, 0, 1, 7, 8, f, F, g, ', n, U+00E9} x both quotes x prefixes '' b r br, length 4 (5) over a 10-symbol sub-alphabet, "
            "every \\uXXXX over 8 digits, \\x/\\u/\\U windows with one non-digit at each position or truncated, explicit boundary literals "
            "('\\x+1', '\\U00110000', '\\U0010ffff', b'\\400', non-ASCII in bytes, every prefix spelling) and VERIF_SEED-derived bodies up to length 10; "
            "a literal is non-trivial when it contains a backslash; surrogate escapes and \\N{..} are not generated); enumerated over ALL strings up to length 4 (quick) / 5 (thorough) "
            "over the alphabet {a, U+00E9, U+20AC, U+1F600, ', \", backslash, newline, NUL, space} for the unary operations and repr, all strings up to "
            "length 3 (4 thorough) x all needles up to length 2 (1 for length-4 strings) for the binary ones, every optional-integer argument position over "
            "{absent, None, -7..7, 2^63-1, +-2^63} x strings up to length 2 (3 thorough) over a 5-symbol alphabet (find/count/startswith/endswith/split/replace/slice bounds), "
            "all strings up to length 3 (4 thorough) over the self-synchronisation alphabet {a, U+00E9, U+0269, U+00A9, U+03A9, U+20AC, U+0082} (characters sharing "
            "continuation bytes) x needles for the searching operations, every index -5..5, 2^62, -2^63 on every string up to length 3 (4), plus VERIF_SEED-derived strings "
            "up to length 12 over a 41-symbol alphabet (UTF-8 class boundaries, U+FFFD, whitespace of every width, unprintables) and random scalar values; "
            "non-trivial = some string operand contains a non-ASCII, control, quote or backslash character, or an integer argument is None/negative/>3, "
            "or Python's result is an exception; distinct = distinct input lines",
    "trusted_base": [
        "Lean 4.33.0 kernel; axioms allowed: propext, Classical.choice, Quot.sound (audited per theorem on every run)",
        "lean/GPy/C14/Spec.lean: my transcription of Python's str semantics on code-point lists (ADJUST_INDICES, whitespace set, split/replace/strip definitions) "
        "and of the short string/bytes literal grammar and escape table of the language reference 2.4.1 (Spec.evalSource; every literal error is a SyntaxError)",
        "lean/GPy/C14/Model.lean: hand transliteration of py/string.go, Bytes.M__repr__, Tuple.repr, parser/stringescape.go, lexer.readString, builtin chr/ord; "
        "tied to /repo by the correspondence run only (every case executed on the real packages)",
        "Go library functions modelled by their documented byte-level definitions: unicode/utf8 (EncodeRune, DecodeRuneInString, range-over-string), "
        "strings (Index, Count, Replace, SplitN, HasPrefix/HasSuffix, Trim*Func, Join), strconv.ParseUint(s, 16, 32); strconv.IsPrint is a parameter of the theorems",
        "the parser/compiler/VM path from the token the lexer returns to the value eval() yields (tuple/list displays, constants) is exercised, not modelled",
        "harness/c14.go and checks/common.py (case transport, escaped-ASCII canonical form)",
    ],
    "assumptions": [
        "proved for all inputs (all code-point lists of Unicode scalar values, all integer / None / absent arguments): UTF-8 decode/encode round trip, "
        "len, iteration, pos, slice (incl. ASCII fast path), s[i], s[a:b], chr/ord, join, repetition, strip/lstrip/rstrip, whitespace set, utf8_sync "
        "(a valid needle matches only at code-point boundaries) and from it in / find / count / replace / split (separator and whitespace) with their "
        "start/end/count/maxsplit arguments, startswith/endswith (str or tuple, start/end), the six comparisons (byte order = code-point order), "
        "repr round trip of str (any IsPrint) and bytes, rejection of every non-hex-digit (signs included) in \\x/\\u/\\U windows, of \\U values above "
        "U+10FFFF and of non-ASCII characters in bytes literals; the theorems with start/end assume len(s) < 2^63-1 (a Go string cannot be longer); "
        "tied by the correspondence run only (no theorem): s[a:b:step] with a step (not generated either), upper/lower (no UTF-8 content; gpython has no rfind/index/partition), "
        "the display syntax of nested tuples/lists, int and float literals, and the agreement of readString/DecodeEscape with Spec.evalSource on whole "
        "literals (lit cases; single-line literals: triple-quoted and continuation-line forms are outside model and spec)",
        "a py.String holds valid UTF-8 (every constructor reachable from Python source produces valid UTF-8; chr() of a surrogate yields U+FFFD: C14-K01)",
        "float repr round trip is a tested sample (finite values), not a theorem; inf/nan have no literal in Python either",
        "repetition counts and widths beyond memory are not generated (s * n only for |n| <= 5)",
        "''.replace('', x, n) follows Python >= 3.9 (3.4 returned '' for n > 0, bpo-28029)",
    ],
    "exhaustive": True,
    "dist_tokens": 2,
    "group": lambda r: "lit" if r["input"].startswith("lit ") else
             " ".join(r["input"].split(" ")[:2]) if not r["input"].startswith("rt ") else "rt " + r["input"][3:4],
}
