CONFIG = {
    "rule": "cases = one operation on real py.String/py.Bytes objects: len, iteration, in, find/count/startswith/endswith (str or tuple argument, "
            "optional start/end), split (separator or None, maxsplit), join, strip/lstrip/rstrip (with and without argument), replace (count), "
            "six comparisons, repetition, chr, ord through py.Call / the py API, and eval(repr(x)) == x (same types all the way down) through a "
            "compiled program for str, bytes, int, float samples and nested tuples/lists; enumerated over ALL strings up to length 4 (quick) / 5 (thorough) "
            "over the alphabet {a, U+00E9, U+20AC, U+1F600, ', \", backslash, newline, NUL, space} for the unary operations and repr, all strings up to "
            "length 3 (4 thorough) x all needles up to length 2 (1 for length-4 strings) for the binary ones, every optional-integer argument position over "
            "{absent, None, -7..7, 2^63-1, +-2^63} x strings up to length 2 (3 thorough) over a 5-symbol alphabet, plus VERIF_SEED-derived strings "
            "up to length 12 over a 41-symbol alphabet (UTF-8 class boundaries, U+FFFD, whitespace of every width, unprintables) and random scalar values; "
            "non-trivial = some string operand contains a non-ASCII, control, quote or backslash character, or an integer argument is None/negative/>3, "
            "or Python's result is an exception; distinct = distinct input lines",
    "trusted_base": [
        "Lean 4.33.0 kernel; axioms allowed: propext, Classical.choice, Quot.sound (audited per theorem on every run)",
        "lean/GPy/C14/Spec.lean: my transcription of Python's str semantics on code-point lists (ADJUST_INDICES, whitespace set, split/replace/strip definitions)",
        "lean/GPy/C14/Model.lean: hand transliteration of py/string.go, Bytes.M__repr__, Tuple.repr, parser/stringescape.go, lexer.readString, builtin chr/ord; "
        "tied to /repo by the correspondence run only (every case executed on the real packages)",
        "Go library functions modelled by their documented byte-level definitions: unicode/utf8 (EncodeRune, DecodeRuneInString, range-over-string), "
        "strings (Index, Count, Replace, SplitN, HasPrefix/HasSuffix, Trim*Func, Join), strconv.ParseInt; strconv.IsPrint is a parameter of the theorems",
        "the parser/compiler/VM path from the token the lexer returns to the value eval() yields (tuple/list displays, constants) is exercised, not modelled",
        "harness/c14.go and checks/common.py (case transport, escaped-ASCII canonical form)",
    ],
    "assumptions": [
        "proved for all inputs: UTF-8 decode/encode round trip, len, iteration, pos, slice (incl. ASCII fast path), chr/ord, join, repetition, "
        "strip/lstrip/rstrip, whitespace set, prefix-code property and startswith without start/end, repr round trip of str (any IsPrint) and bytes; "
        "tied by the correspondence run only (no theorem yet): in/find/count (utf8_sync), startswith/endswith with start/end, split, replace, "
        "comparison (byte order = code-point order), the display syntax of nested tuples/lists, int and float literals",
        "a py.String holds valid UTF-8 (every constructor reachable from Python source produces valid UTF-8; chr() of a surrogate yields U+FFFD: C14-K01)",
        "float repr round trip is a tested sample (finite values), not a theorem; inf/nan have no literal in Python either",
        "repetition counts and widths beyond memory are not generated (s * n only for |n| <= 5)",
        "''.replace('', x, n) follows Python >= 3.9 (3.4 returned '' for n > 0, bpo-28029)",
    ],
    "exhaustive": True,
    "dist_tokens": 2,
    "group": lambda r: " ".join(r["input"].split(" ")[:2]) if not r["input"].startswith("rt ") else "rt " + r["input"][3:4],
}
