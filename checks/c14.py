import os
import common

CONFIG = {
    "rule": "cases = one operation on real py.String/py.Bytes objects: len, iteration, in, find/count/startswith/endswith (str or tuple argument, "
            "optional start/end), split (separator or None, maxsplit), join, strip/lstrip/rstrip (with and without argument), replace (count), "
            "six comparisons, repetition, indexing s[i] and slicing s[a:b] (py.GetItem with an int / a slice object), chr, ord through py.Call / the py API, and eval(repr(x)) == x (same types all the way down) through a "
            "compiled program for str, bytes, int, float samples and nested tuples/lists, and the value of ONE short string/bytes literal compiled from source "
            "(`lit`: lexer.readString + DecodeEscape against the language reference's literal grammar and escape table: every body up to length 3 (4 thorough) "
            "over {backslash, x, u, U, +, -, 0, 1, 7, 8, f, F, g, ', n, U+00E9} x both quotes x prefixes '' b r br, length 4 (5) over a 10-symbol sub-alphabet, "
            "every \\uXXXX over 8 digits, \\x/\\u/\\U windows with one non-digit at each position or truncated, explicit boundary literals "
            "('\\x+1', '\\U00110000', '\\U0010ffff', b'\\400', non-ASCII in bytes, every prefix spelling) and VERIF_SEED-derived bodies up to length 10; "
            "a literal is non-trivial when it contains a backslash; surrogate escapes and \\N{..} are not generated); enumerated over ALL strings up to length 4 (quick) / 5 (thorough) "
            "over the alphabet {a, U+00E9, U+20AC, U+1F600, ', \", backslash, newline, NUL, space} for the unary operations and repr, all strings up to "
            "length 3 (4 thorough) x all needles up to length 2 (1 for length-4 strings) for the binary ones, every optional-integer argument position over "
            "{absent, None, -7..7, 2^63-1, +-2^63} x strings up to length 2 (3 thorough) over a 5-symbol alphabet (find/count/startswith/endswith/split/replace/slice bounds), "
            "all strings up to length 3 (4 thorough) over the self-synchronisation alphabet {a, U+00E9, U+0269, U+00A9, U+03A9, U+20AC, U+0082} (characters sharing "
            "continuation bytes) x needles for the searching operations, every index -5..5, 2^62, -2^63 on every string up to length 3 (4), plus VERIF_SEED-derived strings "
            "up to length 12 over a 41-symbol alphabet (UTF-8 class boundaries, U+FFFD, whitespace of every width, unprintables) and random scalar values; "
            "THIRD ROUND: the window-fit family - every string up to length 3 (4 thorough) over one character of each UTF-8 width {a, U+00E9, U+20AC, U+1F600} "
            "(plus 60 / 600 VERIF_SEED-derived strings up to length 6 over the wide alphabet) x every occurrence [i, i+m) of every substring (the empty needle at every "
            "position 0..len and at len+1) x the start/end pairs {exact fit, one short, one long, one early, one late, None/absent bounds, the same window in negative "
            "indices, bounds beyond both ends, reversed} x startswith / endswith (str, and tuple with an ASCII decoy of the needle's BYTE length) / find / count / s[a:b]; "
            "replace with every count in {-1, 0, 1, 2, occurrences, occurrences + 1} (new = a 3-byte character or ''), split with the same maxsplit values, in, "
            "strip/lstrip/rstrip with the substring as character set, ''-replace with every count 0..len+2; the same arguments on the methods gpython does not have "
            "(rfind, index, rindex, rsplit, partition, rpartition, center/ljust/rjust with widths len-1..len+3 and 1-, 2-, 4-byte fill characters, zfill: cases tagged kf=C14-K02, "
            "specification value from lean/GPy/C14/SpecMethods.lean); rt / rta / rts: eval(repr(x)) == x, eval(ascii(x)) == x with ascii(x) pure ASCII, eval(str(x)) == x for "
            "every string up to length 2 over a 24-symbol repr alphabet (quotes, backslash, controls, DEL, C1, NEL, NBSP, U+00A1, SOFT HYPHEN, U+00FF, U+2028/2029, astral, U+10FFFF) "
            "and length 3 over a 9-symbol one (3 / 4 thorough), alone and as items / keys / values of list, tuple and dict displays (repr text compared with the model "
            "when the dict has at most one entry: StringDict ranges over a Go map); "
            "non-trivial = some string operand contains a non-ASCII, control, quote or backslash character, or an integer argument is None/negative/>3, "
            "or Python's result is an exception; distinct = distinct input lines",
    "trusted_base": [
        "Lean 4.33.0 kernel; axioms allowed: propext, Classical.choice, Quot.sound (audited per theorem on every run)",
        "lean/GPy/C14/Spec.lean: my transcription of Python's str semantics on code-point lists (ADJUST_INDICES, whitespace set, split/replace/strip definitions) "
        "and of the short string/bytes literal grammar and escape table of the language reference 2.4.1 (Spec.evalSource; every literal error is a SyntaxError)",
        "lean/GPy/C14/Model.lean: hand transliteration of py/string.go, Bytes.M__repr__, Tuple.repr, parser/stringescape.go, lexer.readString, builtin chr/ord; "
        "tied to /repo by the correspondence run only (every case executed on the real packages)",
        "extract/c14units (go/ast, ~450 lines, syntactic unit inference: len(string)/strings.Index/range index/pos = byte; s.len()/RuneCountInString/indexArg/adjustIndices/"
        "character-position parameters/len([]rune) = rune; propagation through assignment and + -): its rules are trusted; its output lean/GPy/C14/Generated/Units.lean is "
        "regenerated from py/string.go of the working tree on every run and checked by `decide` against the reviewed table (units_table_pinned) and against the rule "
        "no_mixed_unit_comparison / string_index_units",
        "Go library functions modelled by their documented byte-level definitions: unicode/utf8 (EncodeRune, DecodeRuneInString, range-over-string), "
        "strings (Index, Count, Replace, SplitN, HasPrefix/HasSuffix, Trim*Func, Join), strconv.ParseUint(s, 16, 32); strconv.IsPrint is a parameter of the theorems",
        "the parser/compiler/VM path from the token the lexer returns to the value eval() yields (tuple/list displays, constants) is exercised, not modelled",
        "harness/c14.go and checks/common.py (case transport, escaped-ASCII canonical form)",
    ],
    "assumptions": [
        "proved for all inputs (all code-point lists of Unicode scalar values, all integer / None / absent arguments): UTF-8 decode/encode round trip, "
        "len, iteration, pos, slice (incl. ASCII fast path), s[i], s[a:b], chr/ord, join, repetition, strip/lstrip/rstrip, whitespace set, utf8_sync "
        "(a valid needle matches only at code-point boundaries) and from it in / find / count / replace / split (separator and whitespace) with their "
        "start/end/count/maxsplit arguments, startswith/endswith (str or tuple, start/end), the six comparisons (byte order = code-point order), "
        "repr round trip of str (any IsPrint) and bytes, rejection of every non-hex-digit (signs included) in \\x/\\u/\\U windows, of \\U values above "
        "U+10FFFF and of non-ASCII characters in bytes literals; the theorems with start/end assume len(s) < 2^63-1 (a Go string cannot be longer); "
        "third round, proved: window_fit_by_codepoints / window_codepoints / window_fit_needle (every early-exit and fit test of the start/end window is a matter of "
        "code-point counts), ascii_roundtrip_str / ascii_is_ascii (builtin ascii), no_mixed_unit_comparison on the regenerated unit table; "
        "NOT implemented by gpython (AttributeError, known finding C14-K02, specified in SpecMethods.lean and generated, no model beyond the method table): rfind, index, "
        "rindex, rsplit, partition, rpartition, center, ljust, rjust, zfill; "
        "tied by the correspondence run only (no theorem): s[a:b:step] with a step (not generated either), upper/lower (no UTF-8 content), dict displays and str() of containers, "
        "the display syntax of nested tuples/lists, int and float literals, and the agreement of readString/DecodeEscape with Spec.evalSource on whole "
        "literals (lit cases; single-line literals: triple-quoted and continuation-line forms are outside model and spec)",
        "a py.String holds valid UTF-8 (every constructor reachable from Python source produces valid UTF-8; chr() of a surrogate yields U+FFFD: C14-K01)",
        "float repr round trip is a tested sample (finite values), not a theorem; inf/nan have no literal in Python either",
        "repetition counts and widths beyond memory are not generated (s * n only for |n| <= 5)",
        "''.replace('', x, n) follows Python >= 3.9 (3.4 returned '' for n > 0, bpo-28029)",
    ],
    "exhaustive": True,
    "dist_tokens": 2,
    "group": lambda r: "lit" if r["input"].startswith("lit ") else
             " ".join(r["input"].split(" ")[:2]) if not r["input"].startswith("rt") else r["input"].split(" ")[0] + " " + r["input"].split(" ")[1][:1],
}


def pre(run):
    """regenerate lean/GPy/C14/Generated/Units.lean (byte/rune unit table of py/string.go) from the working tree"""
    out_lean = os.path.join(common.LEAN, "GPy", "C14", "Generated", "Units.lean")
    before = open(out_lean).read() if os.path.exists(out_lean) else ""
    rc, out = common.sh(["go", "run", ".", common.REPO, out_lean], cwd=os.path.join(common.ROOT, "extract", "c14units"),
                        env=common.GOENV, timeout=600)
    after = open(out_lean).read() if os.path.exists(out_lean) else ""
    run.cov["unit_table"] = {"cmd": "cd extract/c14units && go run . <repo> lean/GPy/C14/Generated/Units.lean",
                             "exit": rc, "output": out.strip()[-300:],
                             "generated_file_differs_from_committed_baseline": after != before and before != "",
                             "generated_sha1": __import__("hashlib").sha1(after.encode()).hexdigest()}
    if rc != 0:
        run.violation({"kind": "extractor", "broken": "extract/c14units cannot analyse py/string.go of the working tree any more: "
                       "units_table_pinned / no_mixed_unit_comparison are no longer about the current code",
                       "output": out[-2000:]}, nofail=True)
