CONFIG = {
    "rule": "cases = (operator | conversion | builtin, operand tuple); floats are 64-bit patterns (16 hex digits), ints are machine words (i) or *py.BigInt (b); "
            "enumerated over the lattice of special doubles (+-0, subnormals, 1+-ulp, halves, 2^52/2^53/2^63/2^64 neighbours, 1e16/1e22/1e-4 text thresholds, max, +-inf, nan) x boundary ints "
            "(0, +-1, 2^53+-1, 2^63+-1, 2^64+2^11+1, 10^22, 2^1023, 2^1024-2^970 -+1, 2^1024, 2^1100) x {+ - * / // % divmod ** < <= == != > >=}, int(), float(), str, float(repr()), round (13 ndigits), "
            "sum/min/max/abs/pow/divmod builtins; complex operands (c<re>:<im>, 18 lattice values with signed zeros, 2^53/2^63/2^64 real parts, max, inf, nan parts) x every lattice operand x {+ - * == != < <= > >=}, unary - + bool; "
            "plus VERIF_SEED-derived random bit patterns, ints (1..1100 bits) and complex numbers; "
            "non-trivial = some operand is complex/zero/subnormal/non-finite/>= 2^52 in magnitude/an exact half, or an int with |v| >= 2^53, or the operation is // % divmod round str int() float(), or the spec result is an exception; distinct = distinct input lines",
    "trusted_base": [
        "Lean 4.33.0 kernel; axioms allowed: propext, Classical.choice, Quot.sound (audited per theorem on every run)",
        "IEEE-754 hardware and Go's math package (+ - * / Floor Mod Pow RoundToEven, int64<->float64 conversion): NOT proved; the executable model and spec both use Lean's native Float on the same hardware (exact dyadic code for fmod/RoundToEven)",
        "math/big (big.Float.SetInt/SetFloat64/Cmp exact; big.Float.Float64 and big.Rat.Float64 round to nearest even) and strconv (FormatFloat -1 = shortest digits that read back; ParseFloat correctly rounded): assumed; their contracts are the Lean functions rneNat/rneRat/shortest, exercised by every run",
        "lean/GPy/C15/Spec.lean: Python's definitions on exact rationals (Rat) - correctly rounded int->float, truncation, exact int/float comparison, half-even rounding, floored modulo rounded once, CPython's float_divmod, repr layout",
        "lean/GPy/C15/Model.lean: hand transliteration of py/float.go, py/complex.go (+ - * == != bool neg), the float paths of py/int.go and py/bigint.go (intTrueDiv = big.Rat.Float64), the dispatch of py/arithmetic.go and builtin round/sum/min/max; tied to the worktree by the correspondence run only",
        "harness/c15.go and checks/common.py",
    ],
    "assumptions": [
        "partial by nature: correct rounding of the hardware operations and of strconv's shortest-digit search is trusted, not proved",
        "pow is compared bit-for-bit only where the IEEE result is exact (bases with <= 13 significant bits, integer exponents |y| <= 4, special values): Go's math.Pow and libm may differ by an ulp elsewhere",
        "complex numbers: only + - * == != (and the TypeError of the orderings), unary - + and truth are modelled by value; complex / // % ** abs and the text form of a complex are not covered (the model marks them opaque and no case is generated)",
        "float ** float with a complex result (negative ** fraction) is checked only to BE a complex number (cmplx.Pow's value is not specified bit for bit)",
        "the theorems floordiv_mod_sign, divmod_identity_partial, round_half_even_float are relative to the hardware contract FPContract (Spec.lean): fmod/floor/RoundToEven exact, < exact, opposite-sign addition monotone - stated, not proved; FP.native is exercised against the real code by every run",
        "int (x) int arithmetic is C07's; here only int/int true division, int ** negative int and the builtins that mix ints with floats",
    ],
    "exhaustive": False,
    "dist_tokens": 2,
}
