import os, collections
import common

CONFIG = {
    "rule": "case = class hierarchy built with compiled `class` statements (written base lists, members of every body) + instances + a history of "
            "attribute reads/writes/deletes/isinstance executed as compiled Python statements; observable = stored Type.Mro of every class (or TypeError "
            "at the first rejected class) and the outcome of every operation (value tag, or what calling the result yields: function tag + implicit first argument). "
            "Families: mro = ALL class DAGs with <=4 (quick) / <=5 (thorough) user classes, <=3 bases each, every base order, object optionally written, cut at the first rejection; "
            "look = every accepted hierarchy with <=3 classes (thorough: also 4 classes with kinds absent/value/classmethod) x every placement of one name as absent/value/function/classmethod/staticmethod x a read on every class and on an instance of every class; "
            "seq = every history of <=2 (quick) / <=3 (thorough) read/write/delete operations on the diamond followed by a read-out of every object; "
            "hist = VERIF_SEED-derived hierarchies (<=6 classes), 2 names x 4 kinds + the hooks __getattr__/__setattr__/__init__ (each with probability 1/12 per class), <=3 instances, histories of <=10 operations incl. runtime writes of functions/classmethods/staticmethods, reads of a missing name, isinstance with tuples of <=3 classes/instances; "
            "hook (round 2) = every accepted hierarchy with <=2 (thorough: 3) classes x every subset of {__getattr__, __setattr__, __init__} as functions in every class (+ non-callable hooks, hooks reached through a second base) x reads of a defined and a missing name, writes and read-back on every class and instance; third section of V = the log of hook calls (function tag, self, name, value); "
            "isin (round 2) = isinstance of an instance of every class of the diamond against every single class/instance and every tuple of <=2 (thorough: 3) of them, plus Type.IsSubtype with an instance receiver (Go API, Base chain); "
            "api (round 2) = the look and hook hierarchies with <=2 classes and every 4th hist case once more with the classes built by calling py.TypeNew(py.TypeType, (name, bases, dict)) directly and the operations done through py.Call / py.GetAttrString / py.SetAttrString / py.DeleteAttrString instead of compiled statements. "
            "non-trivial = the hierarchy is rejected, or uses multiple inheritance, or a read binds a function/classmethod/staticmethod, or the history writes/deletes, or a user hook is called / an instantiation fails, or isinstance gets a tuple; distinct = distinct input lines",
    "trusted_base": [
        "Lean 4.33.0 kernel; axioms allowed: propext, Classical.choice, Quot.sound (audited per theorem on every run)",
        "lean/GPy/C16/Spec.lean: my transcription of C3 (merge of linearisations, Python 2.3 MRO document) and of Python's attribute access (instance namespace, then first definition along the class's linearisation; binding of functions/classmethods/staticmethods; writes and deletes local to the object)",
        "lean/GPy/C16/Model.lean: hand transliteration of py/type.go (pmerge, tail_contains, check_duplicates, mro_implementation, IsSubtype, Lookup, NativeGetAttrOrNil, GetAttrOrNil, the parts of TypeNew/Ready that fill Bases/Dict/Mro), py/internal.go (GetAttrString, SetAttrString, DeleteAttrString), the M__get__ of Function/ClassMethod/StaticMethod and builtin isinstance; tied to /repo by the correspondence run only",
        "Go maps behave as finite maps (modelled as association lists); Go pointer identity of *py.Type = (table, index) in the model",
        "harness/c16.go and checks/common.py (rendering of cases to `class` statements or to direct py.TypeNew calls, canonicalisation of results by identity to K<i>/i<j> names)",
        "user hook FUNCTIONS are not looked into: a __getattr__/__setattr__ call is observed as (function, self, name[, value]); the body of a generated __init__ is fixed to `self.a = <tag>` in model, specification and harness alike",
    ],
    "assumptions": [
        "the hooks __getattr__/__setattr__/__init__ are followed when they are plain functions (or non-callable values) defined in class bodies; __getattribute__/__delattr__, classmethod/staticmethod objects as hooks, hooks written at run time, the reflective M__xxx__ lookup and the dunder entries of type.__dict__/object.__dict__ are outside the model (the model answers `unmodelled`; the harness asserts type/object dictionaries hold dunder names only)",
        "all classes have metatype `type`: CalculateMetaclass, custom `mro` methods of a metatype, __slots__, best_base layout conflicts are not modelled",
        "values are plain strings, Python functions, classmethod(function), staticmethod(function); user-defined descriptors, `property` and `super` do not exist in gpython's Python level (the builtins are commented out); *py.Property objects placed into a class dictionary by Go code are not modelled (observed: on read the instance dictionary wins over a Property of the type, unlike Python's data-descriptor precedence; writes do go to the Property)",
    ],
    "exhaustive": False,
    "dist_tokens": 1,
    "group": lambda r: r["input"].split(" ")[0] + " " + r["spec"].split("|")[0][-20:],
}


def extra(run):
    """distribution of the generated cases by tag (from the generator's own output)"""
    path = os.path.join(common.WORK, "C16.cases")
    tags = collections.Counter()
    fam = collections.Counter()
    ncls = collections.Counter()
    try:
        for line in open(path):
            f = line.rstrip("\n").split("\t")
            inp = f[0].split(" ")
            fam[inp[0]] += 1
            ncls[len(inp[1].split(";"))] += 1
            for t in (f[4].split(",") if len(f) > 4 and f[4] else []):
                tags[t] += 1
    except OSError:
        return
    run.cov["tag_distribution"] = dict(tags)
    run.cov["family_distribution"] = dict(fam)
    run.cov["classes_per_case"] = dict(sorted(ncls.items()))
    run.say("C16 cases by family:", dict(fam), "by tag:", dict(tags), "user classes per case:", dict(sorted(ncls.items())))
