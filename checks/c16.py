import os, collections
import common

CONFIG = {
    "rule": "case = class hierarchy built with compiled `class` statements (written base lists, members of every body) + instances + a history of "
            "attribute reads/writes/deletes/isinstance executed as compiled Python statements; observable = stored Type.Mro of every class (or TypeError "
            "at the first rejected class) and the outcome of every operation (value tag, or what calling the result yields: function tag + implicit first argument). "
            "Families: mro = ALL class DAGs with <=4 (quick) / <=5 (thorough) user classes, <=3 bases each, every base order, object optionally written, cut at the first rejection; "
            "look = every accepted hierarchy with <=3 classes (thorough: also 4 classes with kinds absent/value/classmethod) x every placement of one name as absent/value/function/classmethod/staticmethod x a read on every class and on an instance of every class; "
            "seq = every history of <=2 (quick) / <=3 (thorough) read/write/delete operations on the diamond followed by a read-out of every object; "
            "hist = VERIF_SEED-derived hierarchies (<=6 classes), 2 names x 4 kinds, <=3 instances, histories of <=10 operations incl. runtime writes of functions/classmethods/staticmethods. "
            "non-trivial = the hierarchy is rejected, or uses multiple inheritance, or a read binds a function/classmethod/staticmethod, or the history writes/deletes; distinct = distinct input lines",
    "trusted_base": [
        "Lean 4.33.0 kernel; axioms allowed: propext, Classical.choice, Quot.sound (audited per theorem on every run)",
        "lean/GPy/C16/Spec.lean: my transcription of C3 (merge of linearisations, Python 2.3 MRO document) and of Python's attribute access (instance namespace, then first definition along the class's linearisation; binding of functions/classmethods/staticmethods; writes and deletes local to the object)",
        "lean/GPy/C16/Model.lean: hand transliteration of py/type.go (pmerge, tail_contains, check_duplicates, mro_implementation, IsSubtype, Lookup, NativeGetAttrOrNil, GetAttrOrNil, the parts of TypeNew/Ready that fill Bases/Dict/Mro), py/internal.go (GetAttrString, SetAttrString, DeleteAttrString), the M__get__ of Function/ClassMethod/StaticMethod and builtin isinstance; tied to /repo by the correspondence run only",
        "Go maps behave as finite maps (modelled as association lists); Go pointer identity of *py.Type = (table, index) in the model",
        "harness/c16.go and checks/common.py (rendering of cases to `class` statements, canonicalisation of results by identity to K<i>/i<j> names)",
    ],
    "assumptions": [
        "attribute names are not dunder names: the hooks __getattribute__/__getattr__/__setattr__/__delattr__/__init__, the reflective M__xxx__ lookup and the dunder entries of type.__dict__/object.__dict__ are outside the model (the model answers `unmodelled`; the harness asserts type/object dictionaries hold dunder names only)",
        "all classes have metatype `type`: CalculateMetaclass, custom `mro` methods of a metatype, __slots__, best_base layout conflicts are not modelled",
        "values are plain strings, Python functions, classmethod(function), staticmethod(function); user-defined descriptors and properties do not exist in gpython's Python level",
    ],
    "exhaustive": False,
    "dist_tokens": 1,
    "group": lambda r: r["input"].split(" ")[0] + " " + r["spec"].split("|")[0][-20:],
}


def extra(run):
    """distribution of the generated cases by tag (from the generator's own output)"""
    path = os.path.join(common.WORK, "C16.cases")
    tags = collections.Counter()
    fam = collections.Counter()
    ncls = collections.Counter()
    try:
        for line in open(path):
            f = line.rstrip("\n").split("\t")
            inp = f[0].split(" ")
            fam[inp[0]] += 1
            ncls[len(inp[1].split(";"))] += 1
            for t in (f[4].split(",") if len(f) > 4 and f[4] else []):
                tags[t] += 1
    except OSError:
        return
    run.cov["tag_distribution"] = dict(tags)
    run.cov["family_distribution"] = dict(fam)
    run.cov["classes_per_case"] = dict(sorted(ncls.items()))
    run.say("C16 cases by family:", dict(fam), "by tag:", dict(tags), "user classes per case:", dict(sorted(ncls.items())))
