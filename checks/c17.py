CONFIG = {
    "rule": "case = one history (fixed first step a,b,c = three empty containers of one kind, then 1..12 operations) replayed by harness/c17.go as ONE Python program "
            "(real compiler + VM, stdlib context), every step wrapped in try/except; after every step V records the step's result or exception class and the contents "
            "and identity classes of a, b, c (dict/set contents order-normalised); R = cap() of the Go slices behind the three lists after every step. "
            "exhaustive part: after a fixed prefix (a = literal; b = a; c = copy(a); i = iter(a); next(i)) every continuation of length 1 and 2 (thorough: 3 over a reduced alphabet) over "
            "the full operation alphabet of the kind (3 names, 4 values / 4 keys, indices 0 1 -1 -4 3, six slices incl. reversed, empty and stop<start, self operands incl. d.update(d) / s.update(s) / l[1:2] = l, insert/pop/remove/reverse/clear/copy, dict update/pop/setdefault/copy/clear, set update/remove/discard/clear/copy, both iterators), "
            "plus all pairs over the 1/True/1.0 set alphabet (C17-K01); seeded part: histories of length 4..12 drawn from the model state (in-range and off-by-one indices, "
            "None/negative/zero slice components, non-iterable and str sources, failing sorts, for-loops that append to the list they iterate). "
            "non-trivial = the history mutates through an aliased name, uses a container as its own operand, mutates a container a live iterator refers to, "
            "runs a for-loop that mutates its list, has a failing sort or any raised exception; distinct = distinct input lines",
    "trusted_base": [
        "Lean 4.33.0 kernel; axioms allowed: propext, Classical.choice, Quot.sound (audited per theorem on every run)",
        "lean/GPy/C17/Spec.lean: my transcription of Python's container semantics (lists as item sequences, string-keyed dicts as finite maps, sets up to Python ==, "
        "identity aliasing, live list iterators, RuntimeError for dict/set iteration after a size change); slice positions = C13's specification (C13.specSliceIdx)",
        "lean/GPy/C17/Model.lean: hand transliteration of py/list.go, py/dict.go, py/set.go, py/iterator.go, py/sequence.go and the display/comprehension opcodes over a heap of Go "
        "backing arrays and slice headers; index arithmetic = C13's model (C13.getIndices / indexIntCheck); tied to /repo by the correspondence run only",
        "Go semantics assumed: append reuses the array iff len+n <= cap else allocates (capacity rule runtime.nextslicecap + 16-byte size classes, compared through R up to cap 32); "
        "copy/append handle overlap like memmove; sort.Stable = insertion sort for n <= 20 (one block) and any stable sort otherwise; map iteration order is arbitrary (observations are order-normalised)",
        "harness/c17.go and checks/common.py (program assembly, canonical rendering by Go-side OBS/ERR/DUMP builtins)",
    ],
    "assumptions": [
        "container elements are scalars (None, bool, small int, floats k/2, ASCII str); nested containers, big ints (pointer-keyed in sets) and tuples as set members ({(1,2)} panics: unhashable Go key) are not generated",
        "list.index/count, dict.items()/popitem/fromkeys, set.pop/issubset/issuperset/isdisjoint/difference_update/... and set ordering comparisons are absent from the "
        "implementation (AttributeError/TypeError) and are outside the histories ('the other provided methods'); the methods the second round added to gpython "
        "(list insert/pop/remove/reverse/clear/copy, dict update/copy/pop/setdefault/clear, set update/discard/remove/clear/copy) ARE in the histories",
        "sort(key=...) is not generated (a key function that mutates the list during the sort is outside the model); lists longer than 20 are not sorted when a comparison can fail",
        "a list is never extended from its own live iterator (diverges in Python as well)",
        "the order in which a dict/set iterator yields is not observed (next: only success/StopIteration; draining: the count)",
    ],
    "shrinking": "operation removal (checks/c17.py:shrink): every case carries its history in the h= tag; the reported witness of each violation group is "
                 "re-evaluated by `gpymodel-C17 C17 eval` (same model and specification) and the harness with operations removed (chunks, then single operations) "
                 "until no removal keeps the implementation/specification disagreement",
    "exhaustive": True,
    "dist_tokens": 9,
    "case_timeout": 60.0,
    "group": lambda r: " | ".join(r["tags"][1:4]) if r.get("tags") else r["input"][:30],
}


# ---------------------------------------------------------------------------------------------
# operation-removal shrinker (DESIGN "shrinking removes operations while the disagreement persists")
import os, subprocess


def _history(tags):
    for t in tags or []:
        if t.startswith("h="):
            kind, _, body = t[2:].partition("/")
            return kind, (body.split(";") if body else [])
    return None, None


def _evaluate(kind, cands):
    """re-run model + specification (Lean driver, eval mode) and the implementation (harness) on candidate histories"""
    import common
    model_bin = os.path.join(common.LEAN, ".lake", "build", "bin", "gpymodel-C17")
    hbin = os.path.join(common.WORK, "gpyh.bin")
    inp = "".join(kind + "/" + ";".join(c) + "\n" for c in cands)
    p = subprocess.run([model_bin, "C17", "eval", "0"], input=inp, stdout=subprocess.PIPE, stderr=subprocess.PIPE, text=True, timeout=600)
    lines = p.stdout.splitlines()
    if p.returncode != 0 or len(lines) != len(cands):
        raise RuntimeError("gpymodel-C17 eval failed: " + p.stderr[-200:])
    cases = [(l.split("\t") + [""] * 5)[:5] for l in lines]
    impl = common.run_impl_sharded(hbin, ["C17"], [c[0] for c in cases], workers=min(8, max(1, len(cases))), per_case_timeout=60.0)
    return cases, impl


def _still_fails(case, im, known):
    inp, mV, _mR, sV, tags = case
    if inp == "UNDECODABLE" or "STUCK" in sV or "STUCK" in mV or im is None:
        return False
    iv = im.split("\t")[0]
    if iv == sV or iv.startswith("SKIPPED"):
        return False
    kf = [t[3:] for t in tags.split(",") if t.startswith("kf=")]
    if kf and kf[0] in known and iv == mV:
        return False       # inside a recorded finding: not the disagreement we are minimising
    return True


def shrink(v, run=None, log=None):
    """remove operations (halving chunks, then single operations) while impl.V != spec.V persists"""
    import common
    kind, ops = _history(v.get("tags"))
    if kind is None or len(ops) <= 1:
        return v
    known, _ = common.parse_known()
    known = {k: x for k, x in known.items() if x.get("property") == "C17"}
    cur = list(ops)
    rounds = 0
    size = max(1, len(cur) // 2)
    while True:
        cands = [cur[:i] + cur[i + size:] for i in range(0, len(cur), 1 if size == 1 else size) if cur[i:i + size]]
        cands = [c for c in cands if len(c) < len(cur)]
        if not cands:
            break
        cases, impl = _evaluate(kind, cands)
        rounds += 1
        hit = next((k for k, (c, im) in enumerate(zip(cases, impl)) if _still_fails(c, im, known)), None)
        if hit is not None:
            cur = cands[hit]
            size = max(1, min(size, len(cur) // 2))
            continue
        if size == 1:
            break
        size = max(1, size // 2)
    if len(cur) == len(ops):
        return v
    cases, impl = _evaluate(kind, [cur])
    c, im = cases[0], impl[0]
    if not _still_fails(c, im, known):
        return v
    iv, ir = (im.split("\t") + ["", ""])[:2]
    out = dict(v, input=c[0], impl=iv, impl_repr=ir, model=c[1], spec=c[3], tags=c[4].split(","),
               shrunk_from=v["input"], shrunk_ops=f"{len(ops)} -> {len(cur)} operations in {rounds} rounds")
    msg = f"shrunk {len(ops)} -> {len(cur)} operations: {c[0]}"
    (run.say if run is not None else (log or print))(msg)
    return out


if __name__ == "__main__":   # python3 checks/c17.py <replay.json | cases-file-line-with-h-tag>: shrink by hand
    import sys, json
    sys.path.insert(0, os.path.dirname(os.path.abspath(__file__)))
    arg = sys.argv[1]
    if arg.endswith(".json"):
        rec = json.load(open(arg))
        # a replay record has no tags: find the case in work/C17.cases
        import common
        src = rec.get("shrunk_from") or rec["input"]
        for l in open(os.path.join(common.WORK, "C17.cases")):
            f = l.rstrip("\n").split("\t")
            if f[0] == src:
                rec["tags"] = f[4].split(",")
                break
    else:
        f = arg.split("\t")
        rec = {"input": f[0], "tags": f[4].split(",")}
    print(json.dumps(shrink(rec), indent=1))
