CONFIG = {
    "rule": "case = one history (fixed first step a,b,c = three empty containers of one kind, then 1..12 operations) replayed by harness/c17.go as ONE Python program "
            "(real compiler + VM, stdlib context), every step wrapped in try/except; after every step V records the step's result or exception class and the contents "
            "and identity classes of a, b, c (dict/set contents order-normalised); R = cap() of the Go slices behind the three lists after every step. "
            "exhaustive part: after a fixed prefix (a = literal; b = a; c = copy(a); i = iter(a); next(i)) every continuation of length 1 and 2 (thorough: 3 over a reduced alphabet) over "
            "the full operation alphabet of the kind (3 names, 4 values / 4 keys, indices 0 1 -1 -4 3, six slices incl. reversed, empty and stop<start, self operands, both iterators), "
            "plus all pairs over the 1/True/1.0 set alphabet (C17-K01); seeded part: histories of length 4..12 drawn from the model state (in-range and off-by-one indices, "
            "None/negative/zero slice components, non-iterable and str sources, failing sorts, for-loops that append to the list they iterate). "
            "non-trivial = the history mutates through an aliased name, uses a container as its own operand, mutates a container a live iterator refers to, "
            "runs a for-loop that mutates its list, has a failing sort or any raised exception; distinct = distinct input lines",
    "trusted_base": [
        "Lean 4.33.0 kernel; axioms allowed: propext, Classical.choice, Quot.sound (audited per theorem on every run)",
        "lean/GPy/C17/Spec.lean: my transcription of Python's container semantics (lists as item sequences, string-keyed dicts as finite maps, sets up to Python ==, "
        "identity aliasing, live list iterators, RuntimeError for dict/set iteration after a size change); slice positions = C13's specification (C13.specSliceIdx)",
        "lean/GPy/C17/Model.lean: hand transliteration of py/list.go, py/dict.go, py/set.go, py/iterator.go, py/sequence.go and the display/comprehension opcodes over a heap of Go "
        "backing arrays and slice headers; index arithmetic = C13's model (C13.getIndices / indexIntCheck); tied to /repo by the correspondence run only",
        "Go semantics assumed: append reuses the array iff len+n <= cap else allocates (capacity rule runtime.nextslicecap + 16-byte size classes, compared through R up to cap 32); "
        "copy/append handle overlap like memmove; sort.Stable = insertion sort for n <= 20 (one block) and any stable sort otherwise; map iteration order is arbitrary (observations are order-normalised)",
        "harness/c17.go and checks/common.py (program assembly, canonical rendering by Go-side OBS/ERR/DUMP builtins)",
    ],
    "assumptions": [
        "container elements are scalars (None, bool, small int, floats k/2, ASCII str); nested containers, big ints (pointer-keyed in sets) and tuples as set members ({(1,2)} panics: unhashable Go key) are not generated",
        "list methods that gpython does not provide (insert, pop, remove, reverse, copy, clear, index, count), dict.update/copy/pop/setdefault, set.update/remove/discard and set comparisons are absent from the "
        "implementation (AttributeError) and are outside the histories ('the other provided methods')",
        "sort(key=...) is not generated (a key function that mutates the list during the sort is outside the model); lists longer than 20 are not sorted when a comparison can fail",
        "a list is never extended from its own live iterator (diverges in Python as well)",
        "the order in which a dict/set iterator yields is not observed (next: only success/StopIteration; draining: the count)",
    ],
    "exhaustive": True,
    "dist_tokens": 9,
    "case_timeout": 60.0,
    "group": lambda r: " | ".join(r["tags"][1:4]) if r.get("tags") else r["input"][:30],
}
