import os
import common

CONFIG = {
    "rule": "case = one module graph: Go-implemented modules g0/g1 (py.RegisterModule), source files in two sys.path directories, 1-3 scripts run in ONE fresh context; "
            "every body logs its namespace (module objects numbered by identity, '='/'!' = is/is not the store's object) at start and end; "
            "families: A = statement form x statement form x __all__ variant x back edge (exhaustive), B1-B3 = every import graph (self-imports included) x every order of first import, "
            "B4 = every graph over 4 modules (quick: half of the 4096 graphs per seed parity with one seeded order, thorough: all 4096 with six seeded orders), B5 = seeded graphs over 5 modules (quick 300, thorough 25000), C = seeded random bodies (missing modules, files that do not compile, shadowed directory, import __main__); "
            "non-trivial = at least one import was answered from the store or at least one module body failed; distinct = distinct input lines",
    "trusted_base": [
        "Lean 4.33.0 kernel; axioms allowed: propext, Classical.choice, Quot.sound (audited per theorem on every run)",
        "lean/GPy/C19/Spec.lean: my transcription of Python's import semantics (sys.modules first, built-in finder before path finder, module cached before its code runs and un-cached when the code raises, IMPORT_FROM/IMPORT_STAR binding rules) and the trace predicates ranCount/failedCount/starSpecNames",
        "lean/GPy/C19/Model.lean: hand transliteration of py/import.go ImportModuleLevelObject, py/module.go NewModule/GetModule, stdlib/stdlib.go ModuleInit/ResolveAndCompile, py/run.go RunFile/RunCode, vm/eval.go IMPORT_NAME/IMPORT_FROM/IMPORT_STAR; tied to the repo by the correspondence run only",
        "os.Stat/os.ReadFile find exactly the files the harness wrote; Go map iteration visits every key once (order arbitrary: a model parameter, theorems quantify over it)",
        "harness/c19.go (file layout, ev/ex builtins, canonical rendering re-implemented in Go) and checks/common.py",
    ],
    "assumptions": [
        "undotted module names only (gpython has no packages/relative imports); no .pyc files; sys.path holds absolute directories",
        "module namespaces hold ints, module references, __all__ lists of strings and Go methods; attribute lookup on a module is lookup in its globals (type attributes such as __class__ are not generated)",
        "statements at module level only (locals = globals); import inside functions is not generated",
    ],
    "exhaustive": False,
    "harness_args": [os.path.join(common.WORK, "c19")],
    "dist_tokens": 1,
    "case_timeout": 240.0,
    "group": lambda r: r["input"].split(" ")[0],
}


def extra(run):
    # scratch directories are removed per case; remove the parent as well
    import shutil
    shutil.rmtree(os.path.join(common.WORK, "c19"), ignore_errors=True)
