import os
import common

GEN = os.path.join(common.LEAN, "GPy", "C19", "Generated.lean")

CONFIG = {
    "rule": "case = one module graph: Go-implemented modules g0/g1 (py.RegisterModule), source files in two sys.path directories, 1-3 scripts run in ONE fresh context; "
            "every body logs its namespace (module objects numbered by identity, '='/'!' = is/is not the store's object) at start and end; "
            "families: A = statement form x statement form x __all__ variant x back edge (exhaustive), B1-B3 = every import graph (self-imports included) x every order of first import, "
            "D = relative imports (before/after the target is loaded; files, Go modules, missing names; in scripts and bodies), `a as b, b as c` chains in one from-import (importer = the module itself / a module of a cycle / the script), dotted names (known finding C19-K01), E = seeded random bodies over the pool of C extended by those forms; "
            "B4 = every graph over 4 modules (quick: half of the 4096 graphs per seed parity with one seeded order, thorough: all 4096 with six seeded orders), B5 = seeded graphs over 5 modules (quick 300, thorough 25000), C = seeded random bodies (missing modules, files that do not compile, shadowed directory, import __main__); "
            "round 3, HISTORIES (the outcome of an import depends on the current state only): a case = initial world + steps executed in order on live contexts: sys.path.append/insert/remove/clear/rebind (absolute, non-existent, relative '.', non-string entries), "
            "create/replace/replace-by-non-compiling/delete a module file, RunFile of a script living in s, d0 or d1, in context 0 or 1; "
            "H1-H3 = EVERY scenario of <= 3 steps over a 21-letter alphabet (9 attempts: import / from / star / __import__ / missing name / relative / second module / repair of a missing name through the shared object / import issued from directory d1; 6 sys.path operations; 6 file operations incl. a body that raises by itself and one that raises until its dependency m1 exists), "
            "H4 = every 4-step scenario (thorough) resp. attempt-change-change-attempt, a quarter per seed (quick); M1-M4 = two contexts over one file system and registry, 13 letters (import m0 / star / import of a Go module whose code imports m0, per context; path ops per context; shared file ops), <= 3 steps exhaustive, 4 steps exhaustive in thorough (an eighth per seed in quick); "
            "HR = seeded random histories of 4-9 steps (random bodies, 1-2 contexts, scripts from several directories; relative entries only with leaf modules: predicate relSafe); "
            "evidence key history_matrix = failure kind / what changed before the retry / retry form / retry outcome with case counts; "
            "non-trivial = at least one import was answered from the store or at least one module body failed (H/M/HR: or an exception was caught); distinct = distinct input lines",
    "trusted_base": [
        "Lean 4.33.0 kernel; axioms allowed: propext, Classical.choice, Quot.sound (audited per theorem on every run)",
        "lean/GPy/C19/Spec.lean: my transcription of Python's import semantics (sys.modules first, built-in finder before path finder, module cached before its code runs and un-cached when the code raises, IMPORT_FROM/IMPORT_STAR binding rules) and the trace predicates ranCount/failedCount/starSpecNames",
        "lean/GPy/C19/Model.lean: hand transliteration of py/import.go ImportModuleLevelObject, py/module.go NewModule/GetModule, stdlib/stdlib.go ModuleInit/ResolveAndCompile, py/run.go RunFile/RunCode, vm/eval.go IMPORT_NAME/IMPORT_FROM/IMPORT_STAR; tied to the repo by the correspondence run, and for the ORDER of the store effects (register / run code / un-register on failure) by the regenerated fact below",
        "verif/extract/importorder (go/ast): regenerates lean/GPy/C19/Generated.lean (effects on the module store in source order, calls inlined) from py/module.go NewModule, stdlib/stdlib.go ModuleInit, py/run.go RunCode, py/import.go ImportModuleLevelObject on every run; fails loudly on unknown shapes (registration inside a conditional, removeModule outside an err != nil branch, store lookup not first); theorem generated_order_is_canonical is the obligation that the order is register, runCode, unregister",
        "round 3: the extractor also lists every struct field (of the structs declared in py/import.go, py/module.go, py/run.go, stdlib/stdlib.go), package-level variable, string-literal map key and os.* call in the functions reachable BY NAME from ImportModuleLevelObject (over-approximation: e.g. file.Close() pulls in context.Close); Generated.importReads is pinned by decide (import_reads_pinned) against DynProofs.modelledReads, which maps each entry to a component of the model's state",
        "Spec.lean is now related to Model.lean by theorem (model_refines_spec_partial, model_observable_eq_spec_partial): a disagreement model/spec outside C19-K01 can no longer occur; the spec itself stays trusted as the statement of Python's semantics",
        "lean/GPy/C19/Dyn.lean: the dynamic layer (world = file system + contexts with their own store and sys.path; one run step = runScript of the static model in the environment envNow computed from the CURRENT world) and Spec.step (reference interpreter with an independently written candidate-directory comprehension); path operations follow Python's list semantics (shared by model and spec, checked against gpython's list through the harness)",
        "os.Stat/os.ReadFile find exactly the files the harness wrote; Go map iteration visits every key once (order arbitrary: a model parameter, theorems quantify over it)",
        "harness/c19.go (file layout, ev/ex builtins, canonical rendering re-implemented in Go) and checks/common.py",
    ],
    "assumptions": [
        "no packages (every module is a plain file or a Go module); dotted names are generated only as failing imports (no file p/q.py exists) and are known finding C19-K01; relative imports raise SystemError (3.4 semantics for a module outside a package); no .pyc files; sys.path holds absolute directories in families A-E; in H/M/HR it is a list of absolute directories, '.', and non-strings (never a non-list: gpython answers ImportError there, CPython TypeError - not generated); a relative entry is resolved against the SCRIPT's directory in the model, which is exact only when no module body imports (relSafe, enforced by the generator); gpython's sys module has no `modules` attribute, so a module cannot delete itself from the store",
        "the Go-map iteration order env.ord keeps the key set (every theorem that mentions it assumes exactly that)",
        "module namespaces hold ints, module references, __all__ lists of strings and Go methods; attribute lookup on a module is lookup in its globals (type attributes such as __class__ are not generated)",
        "statements at module level only (locals = globals); import inside functions is not generated",
    ],
    "exhaustive": False,
    "harness_args": [os.path.join(common.WORK, "c19")],
    "dist_tokens": 1,
    "case_timeout": 240.0,
    "group": lambda r: r["input"].split(" ")[0],
    # mutation experiments only: keep the quick bounds although an anchored function changed
    "no_escalation": bool(os.environ.get("VERIF_NO_ESCALATION")),
}


def pre(run):
    """regenerate GPy/C19/Generated.lean (order of the store effects) from the tree under verification"""
    os.makedirs(common.WORK, exist_ok=True)
    exe = os.path.join(common.WORK, "importorder")
    rc, out = common.sh(["go", "build", "-o", exe, "."], cwd=os.path.join(common.ROOT, "extract", "importorder"), env=common.GOENV, timeout=600)
    if rc != 0:
        run.violation({"kind": "extractor", "broken": "extract/importorder does not build: " + out[-400:]}, nofail=True)
        return
    before = open(GEN).read() if os.path.exists(GEN) else ""
    with common.LakeLock():
        rc, out = common.sh([exe, "-repo", common.REPO, "-out", GEN], timeout=120)
    run.cov["extractor"] = {"cmd": "extract/importorder -repo $VERIF_REPO -out lean/GPy/C19/Generated.lean", "rc": rc, "output": out.strip()[-400:]}
    if rc != 0:
        run.violation({"kind": "extractor", "broken": "extract/importorder: " + out.strip()[-600:],
                       "note": "NewModule / ModuleInit / RunCode / ImportModuleLevelObject no longer have the shape the order of effects is read from; the theorems are about a stale order"}, nofail=True)
        return
    run.cov["generated_changed_this_run"] = before != open(GEN).read()
    # goal 2 of round 3: what the import path reads/writes, against the components of the model's state
    import re
    gen = open(GEN).read()
    m = re.search(r"def importReads : List String :=\s*\[(.*?)\]", gen, re.S)
    got = re.findall(r'"([^"]*)"', m.group(1)) if m else []
    src = open(os.path.join(common.LEAN, "GPy", "C19", "DynProofs.lean")).read()
    m = re.search(r"def modelledReads : List \(String × String\) :=\s*\[(.*?)\]\n\n", src, re.S)
    want = re.findall(r'\("([^"]*)",', m.group(1)) if m else []
    new = sorted(set(got) - set(want))
    gone = sorted(set(want) - set(got))
    run.cov["import_path_reads"] = got
    if new or gone:
        run.violation({"kind": "extractor", "broken": "GPy/C19/Props.lean (import_reads_pinned)",
                       "consulted_by_import_path_but_not_in_model_state": new, "no_longer_consulted": gone,
                       "note": "the import path of the Go source reads or writes a struct field / package variable / map key / os call that "
                               "the model's state (Dyn.lean: store, sys.path, file system, importer directory, cwd, registered Go modules) does not account for: "
                               "a cache or other history-carrying state; add it to the model or remove it from the code"}, nofail=True)


def history_matrix(run):
    """failure kind x what changed before the retry x retry form x outcome, counted over the generated cases"""
    import collections
    path = os.path.join(common.WORK, "C19.cases")
    cells = collections.Counter()
    kinds, changes, forms = set(), set(), set()
    ncases = 0
    try:
        for line in open(path):
            f = line.rstrip("\n").split("\t")
            if len(f) < 5 or not f[0][:1] in "HM":
                continue
            ncases += 1
            for t in f[4].split(","):
                if t.startswith("mx="):
                    cells[t[3:]] += 1
                    k, ch, fo, res = (t[3:].split("/") + ["", "", "", ""])[:4]
                    kinds.add(k)
                    if fo != "noretry":
                        forms.add(fo)
                        changes.update(ch.split("+"))
    except OSError:
        return
    retried = {k: v for k, v in cells.items() if "/noretry/" not in k}
    run.cov["history_cases"] = ncases
    run.cov["history_matrix_axes"] = {"failure_kinds": sorted(kinds), "changes": sorted(changes), "retry_forms": sorted(forms)}
    run.cov["history_matrix_cells"] = len(retried)
    run.cov["history_matrix_retry_succeeds"] = sum(v for k, v in retried.items() if k.endswith("/ok"))
    run.cov["history_matrix_retry_fails_again"] = sum(v for k, v in retried.items() if not k.endswith("/ok"))
    # kind x single change x form -> outcomes (the compact matrix; cells with several changes are in history_matrix_full)
    compact = {}
    for k, v in sorted(retried.items()):
        kind, ch, fo, res = k.split("/")
        compact.setdefault(kind, {}).setdefault(ch, {}).setdefault(fo, {})[res] = v
    run.cov["history_matrix"] = {kind: {ch: fo for ch, fo in chs.items() if "+" not in ch} for kind, chs in compact.items()}
    run.cov["history_matrix_full"] = dict(sorted(retried.items(), key=lambda kv: -kv[1])[:400])


def extra(run):
    history_matrix(run)
    # scratch directories are removed per case; remove the parent as well
    import shutil
    shutil.rmtree(os.path.join(common.WORK, "c19"), ignore_errors=True)
