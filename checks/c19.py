import os
import common

GEN = os.path.join(common.LEAN, "GPy", "C19", "Generated.lean")

CONFIG = {
    "rule": "case = one module graph: Go-implemented modules g0/g1 (py.RegisterModule), source files in two sys.path directories, 1-3 scripts run in ONE fresh context; "
            "every body logs its namespace (module objects numbered by identity, '='/'!' = is/is not the store's object) at start and end; "
            "families: A = statement form x statement form x __all__ variant x back edge (exhaustive), B1-B3 = every import graph (self-imports included) x every order of first import, "
            "D = relative imports (before/after the target is loaded; files, Go modules, missing names; in scripts and bodies), `a as b, b as c` chains in one from-import (importer = the module itself / a module of a cycle / the script), dotted names (known finding C19-K01), E = seeded random bodies over the pool of C extended by those forms; "
            "B4 = every graph over 4 modules (quick: half of the 4096 graphs per seed parity with one seeded order, thorough: all 4096 with six seeded orders), B5 = seeded graphs over 5 modules (quick 300, thorough 25000), C = seeded random bodies (missing modules, files that do not compile, shadowed directory, import __main__); "
            "non-trivial = at least one import was answered from the store or at least one module body failed; distinct = distinct input lines",
    "trusted_base": [
        "Lean 4.33.0 kernel; axioms allowed: propext, Classical.choice, Quot.sound (audited per theorem on every run)",
        "lean/GPy/C19/Spec.lean: my transcription of Python's import semantics (sys.modules first, built-in finder before path finder, module cached before its code runs and un-cached when the code raises, IMPORT_FROM/IMPORT_STAR binding rules) and the trace predicates ranCount/failedCount/starSpecNames",
        "lean/GPy/C19/Model.lean: hand transliteration of py/import.go ImportModuleLevelObject, py/module.go NewModule/GetModule, stdlib/stdlib.go ModuleInit/ResolveAndCompile, py/run.go RunFile/RunCode, vm/eval.go IMPORT_NAME/IMPORT_FROM/IMPORT_STAR; tied to the repo by the correspondence run, and for the ORDER of the store effects (register / run code / un-register on failure) by the regenerated fact below",
        "verif/extract/importorder (go/ast): regenerates lean/GPy/C19/Generated.lean (effects on the module store in source order, calls inlined) from py/module.go NewModule, stdlib/stdlib.go ModuleInit, py/run.go RunCode, py/import.go ImportModuleLevelObject on every run; fails loudly on unknown shapes (registration inside a conditional, removeModule outside an err != nil branch, store lookup not first); theorem generated_order_is_canonical is the obligation that the order is register, runCode, unregister",
        "Spec.lean is now related to Model.lean by theorem (model_refines_spec_partial, model_observable_eq_spec_partial): a disagreement model/spec outside C19-K01 can no longer occur; the spec itself stays trusted as the statement of Python's semantics",
        "os.Stat/os.ReadFile find exactly the files the harness wrote; Go map iteration visits every key once (order arbitrary: a model parameter, theorems quantify over it)",
        "harness/c19.go (file layout, ev/ex builtins, canonical rendering re-implemented in Go) and checks/common.py",
    ],
    "assumptions": [
        "no packages (every module is a plain file or a Go module); dotted names are generated only as failing imports (no file p/q.py exists) and are known finding C19-K01; relative imports raise SystemError (3.4 semantics for a module outside a package); no .pyc files; sys.path holds absolute directories; gpython's sys module has no `modules` attribute, so a module cannot delete itself from the store",
        "the Go-map iteration order env.ord keeps the key set (every theorem that mentions it assumes exactly that)",
        "module namespaces hold ints, module references, __all__ lists of strings and Go methods; attribute lookup on a module is lookup in its globals (type attributes such as __class__ are not generated)",
        "statements at module level only (locals = globals); import inside functions is not generated",
    ],
    "exhaustive": False,
    "harness_args": [os.path.join(common.WORK, "c19")],
    "dist_tokens": 1,
    "case_timeout": 240.0,
    "group": lambda r: r["input"].split(" ")[0],
}


def pre(run):
    """regenerate GPy/C19/Generated.lean (order of the store effects) from the tree under verification"""
    os.makedirs(common.WORK, exist_ok=True)
    exe = os.path.join(common.WORK, "importorder")
    rc, out = common.sh(["go", "build", "-o", exe, "."], cwd=os.path.join(common.ROOT, "extract", "importorder"), env=common.GOENV, timeout=600)
    if rc != 0:
        run.violation({"kind": "extractor", "broken": "extract/importorder does not build: " + out[-400:]}, nofail=True)
        return
    before = open(GEN).read() if os.path.exists(GEN) else ""
    with common.LakeLock():
        rc, out = common.sh([exe, "-repo", common.REPO, "-out", GEN], timeout=120)
    run.cov["extractor"] = {"cmd": "extract/importorder -repo $VERIF_REPO -out lean/GPy/C19/Generated.lean", "rc": rc, "output": out.strip()[-400:]}
    if rc != 0:
        run.violation({"kind": "extractor", "broken": "extract/importorder: " + out.strip()[-600:],
                       "note": "NewModule / ModuleInit / RunCode / ImportModuleLevelObject no longer have the shape the order of effects is read from; the theorems are about a stale order"}, nofail=True)
        return
    run.cov["generated_changed_this_run"] = before != open(GEN).read()


def extra(run):
    # scratch directories are removed per case; remove the parent as well
    import shutil
    shutil.rmtree(os.path.join(common.WORK, "c19"), ignore_errors=True)
