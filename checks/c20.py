import os, collections
import common

CONFIG = {
    "rule": "cases = (S) interactive sessions: programs of a small Python fragment (assignments, expression statements incl. None-valued, "
            "if/else, for-range, while, def/call/return, del, `;`-joined statements; multi-line brackets, triple-quoted strings, backslash continuation "
            "(also inside a single-quoted string), decorators, class statements with nested defs, with / try-except-finally blocks, nested defs, default arguments, lambda, "
            "list/dict displays over several lines with comments and empty lines inside, unicode identifiers and strings, lines of 200-2000 characters, "
            "the user rebinding / deleting `_`, instances whose __repr__ raises while being echoed, "
            "comments, empty and whitespace-only lines, empty lines inside brackets/strings, nested blocks; statements with syntax errors on one line or "
            "inside a block, compile-stage errors, NameError/ZeroDivisionError/TypeError at run time) fed to the real repl.REPL one physical line at a time "
            "through a recording repl.UI, observing after EVERY line the prompt, the Print calls, the traceback class on stderr and the session module's globals, "
            "plus the same statements executed in one piece each (P:) and the whole program run as a file (F:); and (O) every text the REPL may hand to "
            "py.Compile(single) for a generated statement (first line, text up to an inner empty line, complete text), classified ok / needs-more-input / syntax error; "
            "non-trivial = a session containing a multi-line statement, an erroneous statement or a run-time error, and every O case; distinct = distinct input lines",
    "trusted_base": [
        "Lean 4.33.0 kernel; axioms allowed: propext, Classical.choice, Quot.sound (audited per theorem on every run)",
        "lean/GPy/C20/Spec.lean: my transcription of Python's interactive-input rules (statement = lines + terminating empty line if multi-line; executed once at its last line; "
        "continuation prompt iff strictly inside a statement; sys.displayhook: None neither echoed nor bound to _) and of the ORACLE CONTRACT assumed of py.Compile in single mode",
        "lean/GPy/C20/Model.lean: hand transliteration of repl/repl.go (Run, needsMoreInput, blank/comment case), (*Exception).Error(), compile.go's ExprStmt rule and vm.do_PRINT_EXPR; "
        "tied to /repo by the correspondence run only (prompt, prints, stderr class, globals and the unexported fields continuation/len(previous) after every line)",
        "lean/GPy/C20/Lang.lean: evaluator of the statement fragment shared by model and spec (they differ only in the expression-statement hook); tied to the real compiler+VM by the same run",
        "lean/GPy/C20/Pipe.lean: the compile pipeline in single mode for VALID statements and skipped lines = the C06 lexer model (GPy.C06.step, interactive mode) driven with the "
        "lexer's eof flag recorded per token + ErrorReturn's rule (bare parse error: 'unexpected EOF while parsing' iff x.eof) + 'a lexer error after the end of a newline-terminated "
        "input is a string literal running into it' (hand analysis of lexer.go, tied by the O cases) + the yacc parser as an UNMODELLED online machine `Grammar.status` "
        "(assumed only: its verdict is a function of the tokens fed so far); incomplete_iff_prefix / lexer_lockstep / repl_equiv_modelled are proved for every such parser",
        "the generated sessions instantiate `Grammar.status` from the complete valid statements of the session (accept exactly their token sequences, wait on their prefixes); "
        "for statements Python rejects the answers of py.Compile stay an oracle table with the contract of Spec.lean; both are checked on the real py.Compile by the O cases",
        "harness/c20.go and checks/common.py (case transport, stderr capture through a pipe, canonical namespace text)",
    ],
    "assumptions": [
        "programs follow the interactive grammar: no empty line inside an indented block (an empty line ends a compound statement, as in CPython's REPL); lines contain no newline",
        "`_` is bound in the session module's globals (gpython) rather than in builtins (CPython): a user assignment to `_` is overwritten by the next echo (in CPython it would shadow builtins._)",
        "classes are only those with a __repr__ method (returning a text or raising ZeroDivisionError) and the context manager CM; functions are never echoed (their repr contains an address); no closures",
        "SystemExit leaving REPL.Run, input(), print() (stdout) and the completer are not modelled; exception messages are not compared, only classes",
        "the fragment's values are ints, strs, bools, None and user functions; bool arithmetic (C07-K01) and string ordering are not generated",
    ],
    "exhaustive": False,
    "dist_tokens": 1,
    "case_timeout": 60.0,
    "group": lambda r: r["input"][:1] + " " + (r["impl"].split(";")[0] if r["input"].startswith("O") else str(len(r["input"]) // 40)),
}


def extra(run):
    """feature distribution of the generated sessions (from the generator's own tags)"""
    path = os.path.join(common.WORK, "C20.cases")
    feats = collections.Counter()
    sessions = oracle = lines = multi = 0
    try:
        for l in open(path):
            f = l.rstrip("\n").split("\t")
            if len(f) < 5:
                continue
            if f[0].startswith("S "):
                sessions += 1
                lines += f[0].count("\\n")
                for t in f[4].split(","):
                    if t.startswith("f:"):
                        feats[t[2:]] += 1
            else:
                oracle += 1
    except OSError:
        return
    run.cov["sessions"] = sessions
    run.cov["physical_lines_fed"] = lines
    run.cov["oracle_probes"] = oracle
    run.cov["feature_distribution_sessions"] = dict(feats.most_common())
    run.say(f"C20: {sessions} sessions ({lines} physical lines), {oracle} oracle probes; features: " +
            ", ".join(f"{k}={v}" for k, v in feats.most_common()))
