"""Shared engine of ./check (see DESIGN.md sections 2 and 3)."""
import os, sys, json, time, subprocess, hashlib, re, fcntl, shutil, importlib, collections, random

ROOT = os.path.dirname(os.path.dirname(os.path.abspath(__file__)))  # works from any copy/snapshot of /verif
LEAN = os.path.join(ROOT, "lean")
HARNESS = os.path.join(ROOT, "harness")
WORK = os.path.join(ROOT, "work")
REPO = os.environ.get("VERIF_REPO", "/repo")
ALLOWED_AXIOMS = {"propext", "Classical.choice", "Quot.sound"}
FORBIDDEN = re.compile(r"\bsorry\b|\badmit\b|^\s*axiom\s|native_decide|bv_decide|implemented_by|\bunsafe\s|maxHeartbeats\s+0")
NCPU = os.cpu_count() or 4

GOENV = dict(os.environ, GOFLAGS="-mod=mod", GOPROXY="off", GOSUMDB="off", GOTOOLCHAIN="local",
             GOCACHE=os.environ.get("GOCACHE", os.path.join(os.path.expanduser("~"), ".cache", "go-build")))


def sh(cmd, cwd=None, env=None, timeout=None, inp=None):
    try:
        p = subprocess.run(cmd, cwd=cwd, env=env, timeout=timeout, input=inp,
                           stdout=subprocess.PIPE, stderr=subprocess.STDOUT, text=True)
        return p.returncode, p.stdout
    except subprocess.TimeoutExpired as e:
        return 124, (e.stdout or "") if isinstance(e.stdout, str) else "timeout"


class LakeLock:
    """serialise lake invocations (concurrent checks share lean/.lake)"""
    def __enter__(self):
        os.makedirs(WORK, exist_ok=True)
        self.f = open(os.path.join(WORK, ".lake.lock"), "w")
        fcntl.flock(self.f, fcntl.LOCK_EX)
        return self

    def __exit__(self, *a):
        fcntl.flock(self.f, fcntl.LOCK_UN)
        self.f.close()


def lake_build(targets):
    with LakeLock():
        rc, out = sh(["lake", "build"] + targets, cwd=LEAN, timeout=3600)
    return rc == 0, out


def strip_comments(src):
    src = re.sub(r"/-.*?-/", "", src, flags=re.S)
    return re.sub(r"--.*", "", src)


def lean_files_of(prop, extra_dirs=()):
    dirs = [os.path.join(LEAN, "GPy", prop), os.path.join(LEAN, "GPy", "Common")] + [os.path.join(LEAN, "GPy", d) for d in extra_dirs]
    out = []
    for d in dirs:
        for base, _, files in os.walk(d):
            for f in sorted(files):
                if f.endswith(".lean"):
                    out.append(os.path.join(base, f))
    return out


def source_grep(files):
    bad = []
    for f in files:
        for i, line in enumerate(strip_comments(open(f).read()).splitlines(), 1):
            if FORBIDDEN.search(line):
                bad.append(f"{os.path.relpath(f, LEAN)}:{i}: {line.strip()[:120]}")
    return bad


AUDIT_TMPL = """import Lean
import GPy.%(prop)s.Props
open Lean Elab Command in
#eval show CommandElabM Unit from do
  let env ← getEnv
  let some idx := env.getModuleIdx? `GPy.%(prop)s.Props | throwError "module not found"
  let mut names : Array Name := #[]
  for (n, ci) in env.constants.map₁.toList do
    if env.getModuleIdxFor? n == some idx then
      if n.isInternalDetail then continue
      match ci with
      | .thmInfo _ => names := names.push n
      | _ => pure ()
  for n in names.qsort (fun a b => a.toString < b.toString) do
    let ax ← Lean.collectAxioms n
    IO.println s!"THEOREM {n} AXIOMS {ax.toList}"
"""


def audit(prop):
    """list every theorem of GPy.<prop>.Props with the axioms it depends on"""
    os.makedirs(WORK, exist_ok=True)
    path = os.path.join(WORK, f"Audit{prop}.lean")
    open(path, "w").write(AUDIT_TMPL % {"prop": prop})
    with LakeLock():
        rc, out = sh(["lake", "env", "lean", path], cwd=LEAN, timeout=1800)
    thms = []
    for line in out.splitlines():
        m = re.match(r"THEOREM (\S+) AXIOMS \[(.*)\]", line)
        if m:
            ax = [a.strip() for a in m.group(2).split(",") if a.strip()]
            thms.append({"name": m.group(1), "axioms": ax})
    return rc, out, thms


def build_harness(tags="verif", race=False, overlay=None):
    os.makedirs(WORK, exist_ok=True)
    shutil.copy(os.path.join(REPO, "go.sum"), os.path.join(HARNESS, "go.sum"))
    if REPO != "/repo":  # agent workspaces build against their own worktree
        sh(["go", "mod", "edit", "-replace", "github.com/go-python/gpython=" + REPO], cwd=HARNESS, env=GOENV)
    out_bin = os.path.join(WORK, "gpyh" + ("-race" if race else "") + ".bin")  # not named plain "gpyh": other sessions' `pkill gpyh` must not hit it
    cmd = ["go", "build", "-tags", tags, "-o", out_bin]
    if race:
        cmd.append("-race")
    if overlay:
        cmd += ["-overlay", overlay]
    cmd.append(".")
    rc, out = sh(cmd, cwd=HARNESS, env=GOENV, timeout=1800)
    return rc == 0, out, out_bin


def parse_known():
    known, fixed = {}, []
    p = os.path.join(ROOT, "KNOWN_FINDINGS.txt")
    if os.path.exists(p):
        for line in open(p):
            line = line.strip()
            if line.startswith("known:"):
                kv = dict(re.findall(r"(\w+)=(\S+)", line.split(" what=")[0]))
                kv["what"] = line.split(" what=", 1)[1] if " what=" in line else ""
                known[kv.get("id", "?")] = kv
            elif line.startswith("fixed:"):
                fixed.append(line)
    return known, fixed


MAX_STOPS_PER_SHARD = 3   # crashed/hung workers per shard before the rest of the shard is skipped
_CHILDREN = []


def _reap(*_a):
    """kill harness workers when the check itself is terminated (otherwise they are orphaned)"""
    for c in list(_CHILDREN):
        try:
            c.kill()
        except Exception:
            pass
    if _a:
        os._exit(143)


import atexit, signal as _signal
atexit.register(_reap)
for _sig in (_signal.SIGTERM, _signal.SIGINT):
    try:
        _signal.signal(_sig, _reap)
    except Exception:
        pass


def run_impl_sharded(binary, args, inputs, workers=None, per_case_timeout=20.0, env=None):
    """Run the harness over `inputs` (list of strings), sharded over processes.
    A process that dies or hangs marks the line it was on and is restarted after it."""
    workers = workers or NCPU
    n = len(inputs)
    results = [None] * n
    if n == 0:
        return results
    chunk = max(1, (n + workers - 1) // workers)
    shards = [(i, min(n, i + chunk)) for i in range(0, n, chunk)]
    procs = []

    def start(lo, hi):
        p = subprocess.Popen([binary] + args, stdin=subprocess.PIPE, stdout=subprocess.PIPE,
                             stderr=subprocess.PIPE, text=True, env=env)
        _CHILDREN.append(p)
        return p

    import threading
    lock = threading.Lock()

    def work(lo, hi):
        cur = lo
        stops = 0
        while cur < hi:
            if stops >= MAX_STOPS_PER_SHARD:
                # the implementation is badly broken on this shard: enough evidence, do not grind through the rest
                for k in range(cur, hi):
                    results[k] = "SKIPPED\t-"
                return
            p = start(cur, hi)
            data = "\n".join(inputs[cur:hi]) + "\n"
            budget = max(600.0, per_case_timeout + 0.02 * (hi - cur))  # generous: a loaded machine must not turn into a HANG verdict
            try:
                out, err = p.communicate(data, timeout=budget)
                tag = "CRASH"
            except subprocess.TimeoutExpired:
                p.kill()
                out, err = p.communicate()
                tag = "HANG"
            lines = out.split("\n")
            if lines and lines[-1] == "":
                lines.pop()
            got = len(lines)
            for k, l in enumerate(lines[: hi - cur]):
                results[cur + k] = l
            if got >= hi - cur:
                return
            # the process stopped on line cur+got
            msg = (err or "").strip().splitlines()
            first = msg[0][:200] if msg else ""
            results[cur + got] = f"{tag}:{first}\t-"
            cur = cur + got + 1
            stops += 1

    ths = [threading.Thread(target=work, args=s) for s in shards]
    for t in ths:
        t.start()
    for t in ths:
        t.join()
    return results


def write_replay(prop, rec):
    d = os.path.join(ROOT, "replays", prop)
    os.makedirs(d, exist_ok=True)
    h = hashlib.sha1(json.dumps(rec, sort_keys=True).encode()).hexdigest()[:12]
    path = os.path.join(d, h + ".json")
    rec = dict(rec, property=prop, replay_cmd=f"./check replay replays/{prop}/{h}.json")
    json.dump(rec, open(path, "w"), indent=1)
    return os.path.relpath(path, ROOT)


def failing_theorems(build_out, prop):
    """map `error: GPy/Cxx/File.lean:LINE:` to the theorem enclosing that line"""
    names = []
    for m in re.finditer(r"error: (\S+\.lean):(\d+):\d+", build_out):
        f, ln = os.path.join(LEAN, m.group(1)), int(m.group(2))
        name = None
        try:
            for i, line in enumerate(open(f).read().splitlines(), 1):
                mm = re.match(r"\s*(?:private\s+|protected\s+)?(?:theorem|lemma|def|example|instance)\s+(\S+)", line)
                if mm and i <= ln:
                    name = mm.group(1)
        except OSError:
            pass
        names.append(f"{m.group(1)}:{ln} ({name})")
    return sorted(set(names))


def _anchored_files(prop):
    for l in open(os.path.join(ROOT, "properties.jsonl")):
        d = json.loads(l)
        if d["id"] == prop:
            return [f for f in d["anchors"]["files"] if f.endswith(".go")]
    return []


def fingerprints(prop):
    """hash of every declaration of the property's anchored Go files (extract/fingerprint)"""
    os.makedirs(WORK, exist_ok=True)
    fb = os.path.join(WORK, "fingerprint")
    src = os.path.join(ROOT, "extract", "fingerprint")
    if not os.path.exists(fb) or os.path.getmtime(fb) < os.path.getmtime(os.path.join(src, "main.go")):
        rc, out = sh(["go", "build", "-o", fb, "."], cwd=src, env=GOENV, timeout=600)
        if rc != 0:
            return None
    files = [f for f in _anchored_files(prop) if os.path.exists(os.path.join(REPO, f))]
    rc, out = sh([fb, REPO] + files, timeout=120)
    if rc != 0:
        return None
    cur = collections.Counter()
    for l in out.splitlines():
        f = l.split("\t")
        if len(f) == 3:
            cur[(f[0], f[1], f[2])] += 1
    return cur


def changed_functions(prop):
    """declarations whose fingerprint differs from the one recorded when the model was last validated
    (facts/fingerprints/<prop>.tsv); [] when nothing changed or no baseline is recorded"""
    base_path = os.path.join(ROOT, "facts", "fingerprints", f"{prop}.tsv")
    cur = fingerprints(prop)
    if cur is None or not os.path.exists(base_path):
        return []
    base = collections.Counter()
    for l in open(base_path):
        f = l.rstrip("\n").split("\t")
        if len(f) == 3:
            base[(f[0], f[1], f[2])] += 1
    diff = (cur - base) + (base - cur)
    return sorted({f"{k[0]}:{k[1]}" for k in diff})


class Run:
    def __init__(self, prop, tier, seed):
        self.prop, self.tier, self.seed = prop, tier, seed
        self.t0 = time.time()
        self.violations = []      # (replay_path, suffix)
        self.known_hit = collections.OrderedDict()
        self.cov = {}
        self.assumptions = []
        self.notes = []
        self.log = []

    def say(self, *a):
        print(*a, flush=True)

    def violation(self, rec, nofail=False):
        path = write_replay(self.prop, rec)
        self.violations.append(path)
        self.say(f"VIOLATION property={self.prop} replay={path}" + (" no-failing-input-found" if nofail else ""))

    def finish(self):
        known, fixed = parse_known()
        for kid, kv in known.items():
            if kv.get("property") == self.prop:
                hit = self.known_hit.get(kid, 0)
                self.say(f"KNOWN-FINDING: property={self.prop} {kid} {kv.get('what','')} (matched {hit} cases this run)")
        ev = {
            "property_id": self.prop, "tier": self.tier, "seed": self.seed, "level": "proof",
            "coverage": self.cov, "assumptions": self.assumptions,
            "wall_s": round(time.time() - self.t0, 2), "violations": len(self.violations),
        }
        os.makedirs(os.path.join(ROOT, "evidence"), exist_ok=True)
        json.dump(ev, open(os.path.join(ROOT, "evidence", f"{self.prop}.json"), "w"), indent=1)
        return 1 if self.violations else 0


def load_plugin(prop):
    return importlib.import_module(prop.lower())


def prove(run, cfg):
    """lake build of the theorem module + audit; returns True when every obligation is discharged"""
    prop = run.prop
    files = lean_files_of(prop, cfg.get("lean_dirs", ()))
    bad = source_grep(files)
    ok, out = lake_build([f"GPy.{prop}.Props", f"gpymodel-{prop}"])
    broken = []
    thms = []
    if not ok:
        broken = failing_theorems(out, prop) or ["lake build failed: " + out[-400:]]
    else:
        rc, aout, thms = audit(prop)
        if rc != 0 or not thms:
            broken.append("audit failed: " + aout[-400:])
    badax = [t for t in thms if not set(t["axioms"]) <= ALLOWED_AXIOMS]
    checker = f"cd lean && lake build GPy.{prop}.Props && lake env lean ../work/Audit{prop}.lean"
    if run.tier == "thorough" and ok:
        with LakeLock():
            rc, lout = sh(["lake", "env", "leanchecker", f"GPy.{prop}.Props"], cwd=LEAN, timeout=3600)
        run.cov["leanchecker"] = "ok" if rc == 0 else "FAILED: " + lout[-300:]
        checker += f" && lake env leanchecker GPy.{prop}.Props"
        if rc != 0:
            broken.append("leanchecker rejected GPy.%s.Props" % prop)
    named = [t for t in thms if not t["name"].split(".")[-1].startswith("_")]
    run.cov.update({
        "obligations": max(len(named), 1) if ok else max(len(named), 1) + len(broken),
        "discharged": len([t for t in named if set(t["axioms"]) <= ALLOWED_AXIOMS]) if ok else 0,
        "checker_cmd": checker,
        "theorems": [{"name": t["name"], "axioms": t["axioms"]} for t in named],
        "partial_theorems": [t["name"] for t in named if "partial" in t["name"]],
        "witness_theorems": [t["name"] for t in named if "witness" in t["name"]],
        "forbidden_tokens": bad,
    })
    problems = broken + [f"forbidden token {b}" for b in bad] + [f"inadmissible axioms {t['name']}: {t['axioms']}" for t in badax]
    return (not problems), problems, ok


def correspond(run, cfg, have_model=True):
    """generate cases with the compiled Lean driver, run them on the implementation, three-way diff"""
    prop, tier, seed = run.prop, run.tier, run.seed
    model_bin = os.path.join(LEAN, ".lake", "build", "bin", f"gpymodel-{prop}")
    cases_path = os.path.join(WORK, f"{prop}.cases")
    t = time.time()
    with open(cases_path, "w") as f:
        p = subprocess.run([model_bin, prop, getattr(run, "gen_tier", tier), str(seed)], stdout=f, stderr=subprocess.PIPE, text=True, timeout=7200)
    if p.returncode != 0:
        return None, f"gpymodel failed: {p.stderr[-400:]}"
    gen_s = time.time() - t
    cases = []
    corpus_dir = os.path.join(ROOT, "corpus", prop)
    lines = []
    if os.path.isdir(corpus_dir):
        for fn in sorted(os.listdir(corpus_dir)):
            if fn.endswith(".cases"):
                lines += [l.rstrip("\n") for l in open(os.path.join(corpus_dir, fn)) if l.strip()]
    ncorpus = len(lines)
    lines += [l.rstrip("\n") for l in open(cases_path)]
    for l in lines:
        f = l.split("\t")
        if len(f) < 5:
            f += [""] * (5 - len(f))
        cases.append(f)
    ok, out, hbin = build_harness(overlay=cfg.get("overlay"))
    if not ok:
        return None, "harness build failed (does /repo still compile?): " + out[-600:]
    t = time.time()
    inputs = [c[0] for c in cases]
    impl = run_impl_sharded(hbin, [prop] + cfg.get("harness_args", []), inputs,
                            workers=cfg.get("workers"), per_case_timeout=cfg.get("case_timeout", 20.0))
    impl_s = time.time() - t
    known, _ = parse_known()
    known = {k: v for k, v in known.items() if v.get("property") == prop}
    stats = collections.Counter()
    dist = collections.Counter()
    errkinds = collections.Counter()
    seen_nt = set()
    spec_viol, corr_broken = [], []
    for c, im in zip(cases, impl):
        inp, mV, mR, sV, tags = c[0], c[1], c[2], c[3], c[4].split(",") if c[4] else []
        iv, ir = (im.split("\t") + ["", ""])[:2] if im is not None else ("MISSING", "-")
        if iv == "SKIPPED":
            stats["skipped_after_repeated_crashes"] += 1
            continue
        stats["evaluations"] += 1
        dist[" ".join(inp.split(" ")[: cfg.get("dist_tokens", 2)])[:40]] += 1
        if sV.startswith("E:"):
            errkinds[sV] += 1
        if "nt" in tags:
            seen_nt.add(inp)
        kf = [t[3:] for t in tags if t.startswith("kf=")]
        if iv != sV:
            if kf and kf[0] in known and iv == mV:
                run.known_hit[kf[0]] = run.known_hit.get(kf[0], 0) + 1
                stats["known_finding_cases"] += 1
            else:
                spec_viol.append({"input": inp, "impl": iv, "impl_repr": ir, "model": mV, "spec": sV, "tags": tags})
        elif iv != mV or (mR != "" and ir != mR):
            corr_broken.append({"input": inp, "impl": iv, "impl_repr": ir, "model": mV, "model_repr": mR, "spec": sV, "tags": tags})
    run.cov.update({
        "evaluations": stats["evaluations"],
        "distinct_nontrivial": len(seen_nt),
        "known_finding_cases": stats["known_finding_cases"],
        "skipped_after_repeated_crashes": stats["skipped_after_repeated_crashes"],
        "corpus_cases": ncorpus,
        "distribution": dict(dist.most_common(60)),
        "spec_error_kinds": dict(errkinds),
        "samples": [dict(zip(["input", "model", "model_repr", "spec", "tags"], c)) for c in (cases[:: max(1, len(cases) // 6)][:6])],
        "gen_s": round(gen_s, 2), "impl_s": round(impl_s, 2),
    })
    return (spec_viol, corr_broken), None


def shrink_key(rec):
    return (len(rec["input"]), rec["input"])


def run_check(prop, tier, seed):
    run = Run(prop, tier, seed)
    try:
        plug = load_plugin(prop)
    except ModuleNotFoundError:
        print(f"no check for {prop}")
        return 2
    cfg = plug.CONFIG
    run.cov["rule"] = cfg["rule"]
    run.cov["trusted_base"] = cfg["trusted_base"]
    run.cov["exhaustive"] = bool(cfg.get("exhaustive", False))
    run.assumptions = cfg.get("assumptions", [])
    # a changed fingerprint is not a verdict: it directs the search (quick tier explores at thorough bounds)
    run.changed = changed_functions(prop)
    run.gen_tier = "thorough" if (run.changed and tier == "quick" and not cfg.get("no_escalation")) else tier
    run.cov["changed_since_model_validated"] = run.changed[:50]
    run.cov["generator_tier"] = run.gen_tier
    if hasattr(plug, "pre"):
        plug.pre(run)
    proved, problems, built = prove(run, cfg)
    if not built:
        # the model library no longer builds: try to at least build the driver for the search
        lake_build([f"gpymodel-{prop}"])
    res, err = correspond(run, cfg)
    if hasattr(plug, "extra"):
        plug.extra(run)
    if err:
        run.violation({"kind": "correspondence", "broken": err, "problems": problems}, nofail=True)
        return run.finish()
    spec_viol, corr_broken = res
    reported = 0
    groups = collections.OrderedDict()
    for v in sorted(spec_viol, key=shrink_key):
        groups.setdefault(cfg.get("group", lambda r: " ".join(r["input"].split(" ")[:2]))(v), []).append(v)
    for g, vs in groups.items():
        if reported >= 10:
            break
        v = vs[0]
        if hasattr(plug, "shrink"):
            # property-specific minimisation of the failing input (C17: remove operations while the disagreement persists)
            try:
                v = plug.shrink(v, run) or v
            except Exception as ex:  # a failing shrinker must never hide the finding
                run.say(f"shrink failed ({ex}); reporting the unshrunk input")
        rec = {"kind": "input", "input": v["input"], "impl": v["impl"], "model": v["model"], "spec": v["spec"],
               "others_in_group": len(vs) - 1, "seed": seed, "tier": tier,
               "broken_obligations": problems}
        if v.get("shrunk_from"):
            rec["shrunk_from"] = v["shrunk_from"]
            rec["shrunk_ops"] = v.get("shrunk_ops", "")
        run.violation(rec)
        reported += 1
    run.cov["disagreements_impl_spec"] = len(spec_viol)
    run.cov["disagreements_impl_model"] = len(corr_broken)
    if not spec_viol:
        if corr_broken:
            v = sorted(corr_broken, key=shrink_key)[0]
            run.violation({"kind": "correspondence", "broken": f"model/implementation correspondence of {prop}",
                           "first_divergence": v, "count": len(corr_broken),
                           "note": "impl agrees with the spec on every explored input but no longer with the model the theorems are about"},
                          nofail=True)
        elif not proved:
            run.violation({"kind": "theorem", "broken": problems,
                           "note": "proof obligations no longer check; the search found no input on which the implementation departs from the spec"},
                          nofail=True)
    return run.finish()


def replay(path):
    rec = json.load(open(path if os.path.isabs(path) else os.path.join(ROOT, path)))
    prop = rec["property"]
    if rec.get("kind") != "input":
        print(json.dumps(rec, indent=1))
        print("this replay names a broken theorem/correspondence; re-run ./check", prop)
        return 1
    plug = load_plugin(prop)
    if hasattr(plug, "replay"):
        return plug.replay(rec)
    ok, out, hbin = build_harness(overlay=plug.CONFIG.get("overlay"))
    if not ok:
        print(out)
        return 2
    res = run_impl_sharded(hbin, [prop] + plug.CONFIG.get("harness_args", []), [rec["input"]], workers=1)
    iv = res[0].split("\t")[0]
    print(f"input: {rec['input']}\nimpl now: {iv}\nspec: {rec['spec']}\nmodel: {rec['model']}")
    if iv != rec["spec"]:
        print(f"VIOLATION property={prop} replay={path}")
        return 1
    print("no longer reproduces")
    return 0
