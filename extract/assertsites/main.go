// extract/assertsites: regenerates lean/GPy/C10/Generated.lean (and a JSON fact file with line
// numbers) from the gpython working tree: the table of ASSERTION SITES of py/, vm/ and
// stdlib/builtin/ -- every place where the Go code can panic by construction:
//
//	assert : an unchecked type assertion x.(T)   (no comma-ok, not a type switch)
//	panic  : an explicit panic(...)
//	index  : an index expression  x[i]  with a non-constant index
//	slice  : a slice expression   x[a:b] with a non-constant bound
//
// together with the guard that dominates the site SYNTACTICALLY in the same function:
//
//	format   x is a variable filled by an earlier ParseTupleAndKeywords / ParseTuple call of the same
//	         function whose format is a string literal; the table records the format, the slot, the
//	         asserted Go type and whether the assertion sits under `if x != nil`.  Whether the
//	         format really guarantees the type is decided on the Lean side (Props.guarded_sites_safe).
//	checked  an earlier comma-ok assertion or type switch on the same expression and type (asserts);
//	         for index/slice: the index is the variable of an enclosing `for i := range x` /
//	         `for i := 0; i < len(x)` loop, or the function compares against len(x) / calls
//	         IndexIntCheck / GetIndices before
//	startup  an explicit panic inside init() or a Must* constructor: runs at package initialisation,
//	         not as the effect of a Python-level action
//	none     nothing recognised: an OPEN OBLIGATION, attacked by the sweep of harness/c10.go
//
// go/parser + go/ast only (syntactic).  usage: assertsites <repo> <out.lean> <facts.json>
package main

import (
	"bytes"
	"encoding/json"
	"fmt"
	"go/ast"
	"go/parser"
	"go/printer"
	"go/token"
	"os"
	"path/filepath"
	"sort"
	"strconv"
	"strings"
)

func die(format string, a ...interface{}) {
	fmt.Fprintf(os.Stderr, "extract/assertsites: "+format+"\n", a...)
	os.Exit(1)
}

type site struct {
	File    string `json:"file"`
	Func    string `json:"func"`
	Line    int    `json:"line"`
	Kind    string `json:"kind"`
	Expr    string `json:"expr"`
	Guard   string `json:"guard"`
	Format  string `json:"format,omitempty"`
	Slot    int    `json:"slot,omitempty"`
	Ty      string `json:"ty,omitempty"`
	NilChk  bool   `json:"nil_checked,omitempty"`
	NoneChk bool   `json:"none_checked,omitempty"`
	Dflt    string `json:"default_ty,omitempty"`
	Self    bool   `json:"receiver_assert,omitempty"` // `self.(T)` on the first parameter of a method closure
	RegType string `json:"registered_on,omitempty"`   // receiver guard: the closure is the Go function of a Method / Property stored in <RegType>.Dict[...]
	RegKind string `json:"registered_as,omitempty"`   // "method" | "property"
	GoType  string `json:"asserted_go_type,omitempty"`
	TypeOf  string `json:"type_of_asserted,omitempty"` // the *Type variable the asserted Go type's Type() method returns
	Others  int    `json:"other_go_types_of_that_type,omitempty"`
	ResFn   string `json:"result_of,omitempty"` // result guard: x is the first result of a call of this function
	Ordinal int    `json:"ordinal"`
}

var fset = token.NewFileSet()

func text(n ast.Node) string {
	var b bytes.Buffer
	printer.Fprint(&b, fset, n)
	s := strings.Join(strings.Fields(b.String()), " ")
	if len(s) > 60 {
		s = s[:60]
	}
	return s
}

type fmtOut struct {
	format string
	slot   int
	pos    token.Pos
}

func goTy(t string) string {
	switch t {
	case "String", "py.String":
		return "string"
	case "Bytes", "py.Bytes":
		return "bytes"
	case "Int", "py.Int":
		return "int"
	case "*BigInt", "*py.BigInt":
		return "bigInt"
	case "Bool", "py.Bool":
		return "bool"
	case "Float", "py.Float":
		return "float"
	case "NoneType", "py.NoneType":
		return "noneType"
	}
	return "other"
}

func isConst(e ast.Expr) bool {
	switch x := e.(type) {
	case nil:
		return true
	case *ast.BasicLit:
		return true
	case *ast.ParenExpr:
		return isConst(x.X)
	case *ast.UnaryExpr:
		return isConst(x.X)
	case *ast.BinaryExpr:
		return isConst(x.X) && isConst(x.Y)
	}
	return false
}

func calleeName(c *ast.CallExpr) string {
	switch f := c.Fun.(type) {
	case *ast.Ident:
		return f.Name
	case *ast.SelectorExpr:
		return f.Sel.Name
	}
	return ""
}

// analyse one function body (FuncDecl or the top-level closure of an init-time method table)
// typeOf: Go type (as written in an assertion, "String", "*File") -> the *Type variable its Type() method returns
var typeOf = map[string]string{}

// functions whose first result has a Go dynamic type proved in lean/GPy/C10 (Model.makeBool ...)
var resultContracts = map[string]bool{"MakeBool": true}

type reg struct{ typ, kind string }

func analyse(file, fname string, params *ast.FieldList, body *ast.BlockStmt, startup bool, out *[]site, rg reg) {
	if body == nil {
		return
	}
	// pass 1: facts of the function
	commaOK := map[*ast.TypeAssertExpr]bool{}
	checkedAsserts := map[string]token.Pos{} // "expr|type" -> position of the first comma-ok / type switch
	outputs := map[string]fmtOut{}           // variable -> format slot
	lenChecked := map[string]token.Pos{}     // x with `len(x)` appearing in a condition
	defaultTy := map[string]string{}         // `var x Object = T(...)`: the Go type of the default value
	nilReturn := map[string]token.Pos{}      // `if x == nil { ...; return }`
	indexChecked := token.NoPos              // first IndexIntCheck / GetIndices call
	resultOf := map[string]fmtOut{}          // variable -> contract function whose first result it holds (format = function name)
	firstParam := ""
	if params != nil && len(params.List) > 0 && len(params.List[0].Names) > 0 {
		firstParam = params.List[0].Names[0].Name
	}
	ast.Inspect(body, func(n ast.Node) bool {
		switch x := n.(type) {
		case *ast.AssignStmt:
			if len(x.Lhs) >= 1 && len(x.Rhs) == 1 {
				if ce, ok := x.Rhs[0].(*ast.CallExpr); ok && resultContracts[calleeName(ce)] {
					if id, ok := x.Lhs[0].(*ast.Ident); ok {
						resultOf[id.Name] = fmtOut{calleeName(ce), 0, x.End()}
					}
				} else if id, ok := x.Lhs[0].(*ast.Ident); ok {
					delete(resultOf, id.Name) // re-assigned from something else
				}
			}
			if len(x.Lhs) == 2 && len(x.Rhs) == 1 {
				if ta, ok := x.Rhs[0].(*ast.TypeAssertExpr); ok && ta.Type != nil {
					commaOK[ta] = true
					k := text(ta.X) + "|" + text(ta.Type)
					if _, seen := checkedAsserts[k]; !seen {
						checkedAsserts[k] = ta.Pos()
					}
				}
			}
		case *ast.IfStmt:
			if be, ok := x.Cond.(*ast.BinaryExpr); ok && be.Op == token.EQL && text(be.Y) == "nil" && len(x.Body.List) > 0 {
				if _, ok := x.Body.List[len(x.Body.List)-1].(*ast.ReturnStmt); ok {
					nilReturn[text(be.X)] = x.End()
				}
			}
		case *ast.ValueSpec:
			if len(x.Names) == 1 && len(x.Values) == 1 {
				if v := text(x.Values[0]); v == "py.None" || v == "None" {
					defaultTy[x.Names[0].Name] = "noneType"
				}
				if ce, ok := x.Values[0].(*ast.CallExpr); ok && len(ce.Args) == 1 {
					if t := goTy(text(ce.Fun)); t != "other" {
						defaultTy[x.Names[0].Name] = t
					}
				}
			}
			if len(x.Names) == 2 && len(x.Values) == 1 {
				if ta, ok := x.Values[0].(*ast.TypeAssertExpr); ok && ta.Type != nil {
					commaOK[ta] = true
				}
			}
		case *ast.CallExpr:
			name := calleeName(x)
			if name == "ParseTupleAndKeywords" || name == "ParseTuple" {
				fi := 2
				first := 4
				if name == "ParseTuple" {
					fi, first = 1, 2
				}
				if len(x.Args) > fi {
					if lit, ok := x.Args[fi].(*ast.BasicLit); ok && lit.Kind == token.STRING {
						f, err := strconv.Unquote(lit.Value)
						if err == nil {
							for k := first; k < len(x.Args); k++ {
								if u, ok := x.Args[k].(*ast.UnaryExpr); ok && u.Op == token.AND {
									if id, ok := u.X.(*ast.Ident); ok {
										outputs[id.Name] = fmtOut{f, k - first, x.Pos()}
									}
								}
							}
						}
					}
				}
			}
			if name == "IndexIntCheck" || name == "GetIndices" {
				if indexChecked == token.NoPos {
					indexChecked = x.Pos()
				}
			}
			if name == "len" && len(x.Args) == 1 {
				k := text(x.Args[0])
				if _, seen := lenChecked[k]; !seen {
					lenChecked[k] = x.Pos()
				}
			}
		}
		return true
	})
	// pass 2: sites, with the stack of enclosing nodes
	var stack []ast.Node
	ordinals := map[string]int{}
	emit := func(s site) {
		s.File, s.Func = file, fname
		k := s.Kind + "|" + s.Expr
		s.Ordinal = ordinals[k]
		ordinals[k]++
		*out = append(*out, s)
	}
	loopVarOf := func(idx ast.Expr) bool {
		id, ok := idx.(*ast.Ident)
		if !ok {
			return false
		}
		for _, a := range stack {
			switch l := a.(type) {
			case *ast.RangeStmt:
				if k, ok := l.Key.(*ast.Ident); ok && k.Name == id.Name {
					return true
				}
			case *ast.ForStmt:
				if as, ok := l.Init.(*ast.AssignStmt); ok && len(as.Lhs) == 1 {
					if k, ok := as.Lhs[0].(*ast.Ident); ok && k.Name == id.Name && l.Cond != nil && strings.Contains(text(l.Cond), "len(") {
						return true
					}
				}
			}
		}
		return false
	}
	ast.Inspect(body, func(n ast.Node) bool {
		if n == nil {
			stack = stack[:len(stack)-1]
			return true
		}
		stack = append(stack, n)
		switch x := n.(type) {
		case *ast.TypeAssertExpr:
			if x.Type == nil || commaOK[x] {
				return true
			}
			s := site{Kind: "assert", Line: fset.Position(x.Pos()).Line, Expr: text(x), Guard: "none", Ty: goTy(text(x.Type))}
			if id, ok := x.X.(*ast.Ident); ok {
				if o, ok := outputs[id.Name]; ok && o.pos < x.Pos() {
					s.Guard, s.Format, s.Slot = "format", o.format, o.slot
					s.Dflt = defaultTy[id.Name]
					if p, ok := nilReturn[id.Name]; ok && p < x.Pos() {
						s.NilChk = true
					}
					for _, a := range stack {
						c := ""
						switch is := a.(type) {
						case *ast.IfStmt:
							c = text(is.Cond)
						case *ast.BinaryExpr:
							if is.Op == token.LAND && is.Y.Pos() <= x.Pos() {
								c = text(is.X)
							}
						}
						if strings.Contains(c, id.Name+" != nil") {
							s.NilChk = true
						}
						if strings.Contains(c, id.Name+" != py.None") || strings.Contains(c, id.Name+" != None") {
							s.NoneChk = true
						}
					}
				}
				if id.Name == firstParam && (firstParam == "self") {
					s.Self = true
					if rg.kind == "module" && s.Guard == "none" {
						s.Guard, s.RegKind, s.GoType = "module", "module", text(x.Type)
					}
					if rg.typ != "" && s.Guard == "none" {
						s.Guard, s.RegType, s.RegKind = "receiver", rg.typ, rg.kind
						s.GoType = text(x.Type)
						s.TypeOf = typeOf[s.GoType]
						for k, v := range typeOf {
							if v == rg.typ && k != s.GoType {
								s.Others++
							}
						}
					}
				}
				if o, ok := resultOf[id.Name]; ok && o.pos < x.Pos() && s.Guard == "none" {
					s.Guard, s.ResFn = "result", o.format
				}
			}
			if s.Guard == "none" {
				if p, ok := checkedAsserts[text(x.X)+"|"+text(x.Type)]; ok && p < x.Pos() {
					s.Guard = "checked"
				}
				// inside `case T:` of a type switch on the same expression
				for _, a := range stack {
					if ts, ok := a.(*ast.TypeSwitchStmt); ok && strings.Contains(text(ts.Assign), text(x.X)+".(type)") {
						s.Guard = "checked"
					}
				}
			}
			emit(s)
		case *ast.CallExpr:
			if id, ok := x.Fun.(*ast.Ident); ok && id.Name == "panic" {
				s := site{Kind: "panic", Line: fset.Position(x.Pos()).Line, Expr: text(x), Guard: "none"}
				if startup {
					s.Guard = "startup"
				}
				emit(s)
			}
		case *ast.IndexExpr:
			if isConst(x.Index) {
				return true
			}
			// map reads never panic; a map is recognised syntactically only by its usual names
			xt := text(x.X)
			s := site{Kind: "index", Line: fset.Position(x.Pos()).Line, Expr: text(x), Guard: "none"}
			if loopVarOf(x.Index) {
				s.Guard = "checked"
			} else if p, ok := lenChecked[xt]; ok && p < x.Pos() {
				s.Guard = "checked"
			} else if indexChecked != token.NoPos && indexChecked < x.Pos() {
				s.Guard = "checked"
			}
			emit(s)
		case *ast.SliceExpr:
			if isConst(x.Low) && isConst(x.High) && isConst(x.Max) {
				return true
			}
			xt := text(x.X)
			s := site{Kind: "slice", Line: fset.Position(x.Pos()).Line, Expr: text(x), Guard: "none"}
			if p, ok := lenChecked[xt]; ok && p < x.Pos() {
				s.Guard = "checked"
			} else if indexChecked != token.NoPos && indexChecked < x.Pos() {
				s.Guard = "checked"
			}
			emit(s)
		}
		return true
	})
}

func leanStr(s string) string {
	return strconv.Quote(s)
}

func leanChars(s string) string {
	var p []string
	for _, r := range s {
		p = append(p, fmt.Sprintf("Char.ofNat %d", r))
	}
	return "[" + strings.Join(p, ", ") + "]"
}

func main() {
	if len(os.Args) != 4 {
		die("usage: assertsites <repo> <out.lean> <facts.json>")
	}
	repo, outLean, outJSON := os.Args[1], os.Args[2], os.Args[3]
	var sites []site
	nfiles := 0
	type parsed struct {
		rel string
		af  *ast.File
	}
	var all []parsed
	for _, dir := range []string{"py", "vm", "stdlib/builtin"} {
		files, err := filepath.Glob(filepath.Join(repo, dir, "*.go"))
		if err != nil || len(files) == 0 {
			die("no Go files in %s", dir)
		}
		sort.Strings(files)
		for _, f := range files {
			if strings.HasSuffix(f, "_test.go") {
				continue
			}
			af, err := parser.ParseFile(fset, f, nil, 0)
			if err != nil {
				die("cannot parse %s: %v", f, err)
			}
			nfiles++
			all = append(all, parsed{dir + "/" + filepath.Base(f), af})
			// `func (x T) Type() *Type { return XType }`: the Python type of a Go type
			for _, d := range af.Decls {
				fd, ok := d.(*ast.FuncDecl)
				if !ok || fd.Name.Name != "Type" || fd.Recv == nil || len(fd.Recv.List) != 1 || fd.Body == nil || len(fd.Body.List) != 1 {
					continue
				}
				if rs, ok := fd.Body.List[0].(*ast.ReturnStmt); ok && len(rs.Results) == 1 {
					if id, ok := rs.Results[0].(*ast.Ident); ok {
						// (a value receiver gives *T the method too; a *T holding a value type is never built as an
						// Object -- part of the representation hypothesis of Bind.receiver_struct -- but an assertion to
						// *T when Type() is declared on T, as for ClassMethod, finds no entry here and stays open)
						typeOf[text(fd.Recv.List[0].Type)] = id.Name
					}
				}
			}
		}
	}
	// the Go function of a Method / the accessors of a Property stored in <XType>.Dict[...] by init()
	registered := func(st ast.Stmt, m map[*ast.FuncLit]reg) {
		as, ok := st.(*ast.AssignStmt)
		if !ok || len(as.Lhs) != 1 || len(as.Rhs) != 1 {
			return
		}
		ix, ok := as.Lhs[0].(*ast.IndexExpr)
		if !ok {
			return
		}
		sel, ok := ix.X.(*ast.SelectorExpr)
		if !ok || sel.Sel.Name != "Dict" {
			return
		}
		tv, ok := sel.X.(*ast.Ident)
		if !ok {
			return
		}
		switch r := as.Rhs[0].(type) {
		case *ast.CallExpr:
			if n := calleeName(r); (n == "MustNewMethod" || n == "NewMethod") && len(r.Args) >= 2 {
				if fl, ok := r.Args[1].(*ast.FuncLit); ok {
					m[fl] = reg{tv.Name, "method"}
				}
			}
		case *ast.UnaryExpr:
			if cl, ok := r.X.(*ast.CompositeLit); ok && r.Op == token.AND && text(cl.Type) == "Property" {
				for _, el := range cl.Elts {
					if kv, ok := el.(*ast.KeyValueExpr); ok {
						if fl, ok := kv.Value.(*ast.FuncLit); ok {
							m[fl] = reg{tv.Name, "property"}
						}
					}
				}
			}
		}
	}
	for _, pf := range all {
		{
			af, rel := pf.af, pf.rel
			// named functions listed in a module's method table: []*py.Method{py.MustNewMethod("print", builtin_print, ...), ...}
			moduleFns := map[string]bool{}
			ast.Inspect(af, func(n ast.Node) bool {
				if cl, ok := n.(*ast.CompositeLit); ok {
					for _, el := range cl.Elts {
						if ce, ok := el.(*ast.CallExpr); ok && (calleeName(ce) == "MustNewMethod" || calleeName(ce) == "NewMethod") && len(ce.Args) >= 2 {
							if id, ok := ce.Args[1].(*ast.Ident); ok {
								moduleFns[id.Name] = true
							}
						}
					}
				}
				return true
			})
			for _, d := range af.Decls {
				switch fd := d.(type) {
				case *ast.FuncDecl:
					name := fd.Name.Name
					if fd.Recv != nil && len(fd.Recv.List) > 0 {
						name = "(" + text(fd.Recv.List[0].Type) + ")." + name
					}
					startup := fd.Name.Name == "init" || strings.HasPrefix(fd.Name.Name, "Must") || strings.HasPrefix(fd.Name.Name, "must")
					if fd.Name.Name == "init" && fd.Body != nil {
						// method tables: every function literal of init() is analysed as a function of its own
						var lits []*ast.FuncLit
						ast.Inspect(fd.Body, func(n ast.Node) bool {
							if fl, ok := n.(*ast.FuncLit); ok {
								lits = append(lits, fl)
								return false
							}
							return true
						})
						regs := map[*ast.FuncLit]reg{}
						for _, st := range fd.Body.List {
							registered(st, regs)
						}
						for _, fl := range lits {
							analyse(rel, "init·closure", fl.Type.Params, fl.Body, false, &sites, regs[fl])
						}
						// the rest of init (closures removed) runs at start-up
						stripped := &ast.BlockStmt{}
						for _, st := range fd.Body.List {
							hasLit := false
							ast.Inspect(st, func(n ast.Node) bool {
								if _, ok := n.(*ast.FuncLit); ok {
									hasLit = true
								}
								return !hasLit
							})
							if !hasLit {
								stripped.List = append(stripped.List, st)
							}
						}
						analyse(rel, name, fd.Type.Params, stripped, true, &sites, reg{})
						continue
					}
					rg := reg{}
					if fd.Recv == nil && moduleFns[fd.Name.Name] {
						rg = reg{"", "module"}
					}
					analyse(rel, name, fd.Type.Params, fd.Body, startup, &sites, rg)
				case *ast.GenDecl:
					// package-level `var X = func(...) {...}` and method tables in composite literals
					ast.Inspect(fd, func(n ast.Node) bool {
						if fl, ok := n.(*ast.FuncLit); ok {
							analyse(rel, "var·closure", fl.Type.Params, fl.Body, false, &sites, reg{})
							return false
						}
						return true
					})
				}
			}
		}
	}
	if len(sites) < 100 {
		die("only %d sites found in %d files: the source shape is not the one this extractor understands", len(sites), nfiles)
	}
	sort.SliceStable(sites, func(i, j int) bool {
		a, b := sites[i], sites[j]
		if a.File != b.File {
			return a.File < b.File
		}
		if a.Func != b.Func {
			return a.Func < b.Func
		}
		if a.Kind != b.Kind {
			return a.Kind < b.Kind
		}
		if a.Expr != b.Expr {
			return a.Expr < b.Expr
		}
		return a.Ordinal < b.Ordinal
	})
	// re-number ordinals after sorting (init·closure sites of one file share a function name)
	ord := map[string]int{}
	for i := range sites {
		k := sites[i].File + "|" + sites[i].Func + "|" + sites[i].Kind + "|" + sites[i].Expr
		sites[i].Ordinal = ord[k]
		ord[k]++
	}
	js, _ := json.MarshalIndent(sites, "", " ")
	if err := os.WriteFile(outJSON, js, 0o644); err != nil {
		die("%v", err)
	}
	var b strings.Builder
	b.WriteString("/- REGENERATED on every run by extract/assertsites from py/, vm/, stdlib/builtin/ of the gpython\n   working tree (go/parser + go/ast, syntactic).  Never edit.  Line numbers live in work/C10.assertsites.json. -/\n")
	b.WriteString("import GPy.C10.Sites\nnamespace GPy.C10.Generated\nopen GPy.C10\n\n")
	// assertion and panic sites: full records, in chunks (a single literal of >1000 elements elaborates slowly)
	var ap, ix []site
	for _, s := range sites {
		if s.Kind == "assert" || s.Kind == "panic" {
			ap = append(ap, s)
		} else {
			ix = append(ix, s)
		}
	}
	const chunk = 60
	nch := 0
	for i := 0; i < len(ap); i += chunk {
		j := i + chunk
		if j > len(ap) {
			j = len(ap)
		}
		fmt.Fprintf(&b, "def sites%d : List Site := [\n", nch)
		for k, s := range ap[i:j] {
			g := ".none"
			switch s.Guard {
			case "format":
				d := "none"
				if s.Dflt != "" {
					d = "(some ." + s.Dflt + ")"
				}
				g = fmt.Sprintf("(.format %s %d .%s %v %v %s)", leanChars(s.Format), s.Slot, s.Ty, s.NilChk, s.NoneChk, d)
			case "receiver":
				t := "none"
				if s.TypeOf != "" {
					t = "(some " + leanStr(s.TypeOf) + ")"
				}
				g = fmt.Sprintf("(.receiver %s %s %s %d)", leanStr(s.RegType), leanStr(s.GoType), t, s.Others)
			case "module":
				g = fmt.Sprintf("(.moduleSelf %s)", leanStr(s.GoType))
			case "result":
				g = fmt.Sprintf("(.result %s .%s)", leanStr(s.ResFn), s.Ty)
			case "checked":
				g = ".checked"
			case "startup":
				g = ".startup"
			}
			sep := ","
			if k == j-i-1 {
				sep = ""
			}
			fmt.Fprintf(&b, "  ⟨%s, %s, .%s, %s, %d, %v, %s⟩%s\n", leanStr(s.File), leanStr(s.Func), map[string]string{"assert": "assert", "panic": "explicit"}[s.Kind], leanStr(s.Expr), s.Ordinal, s.Self, g, sep)
		}
		b.WriteString("]\n\n")
		nch++
	}
	b.WriteString("/-- every unchecked type assertion and explicit panic of py/, vm/, stdlib/builtin/ -/\ndef sites : List Site :=\n  ")
	for i := 0; i < nch; i++ {
		if i > 0 {
			b.WriteString(" ++ ")
		}
		fmt.Fprintf(&b, "sites%d", i)
	}
	b.WriteString("\n\n")
	// index / slice sites: per (file, function) counts of guarded and unguarded expressions
	type key struct{ file, fn string }
	cnt := map[key][4]int{} // index guarded, index open, slice guarded, slice open
	var keys []key
	for _, s := range ix {
		k := key{s.File, s.Func}
		c, ok := cnt[k]
		if !ok {
			keys = append(keys, k)
		}
		o := 0
		if s.Kind == "slice" {
			o = 2
		}
		if s.Guard == "none" {
			o++
		}
		c[o]++
		cnt[k] = c
	}
	b.WriteString("/-- index and slice expressions with a non-constant index, per function:\n(file, function, index guarded, index unguarded, slice guarded, slice unguarded) -/\ndef indexSites : List (String × String × Nat × Nat × Nat × Nat) := [\n")
	for i, k := range keys {
		c := cnt[k]
		sep := ","
		if i == len(keys)-1 {
			sep = ""
		}
		fmt.Fprintf(&b, "  (%s, %s, %d, %d, %d, %d)%s\n", leanStr(k.file), leanStr(k.fn), c[0], c[1], c[2], c[3], sep)
	}
	b.WriteString("]\n\n/-- `func (x T) Type() *Type { return XType }`: Go type -> the variable holding its Python type -/\ndef goTypeOf : List (String × String) := [\n")
	var tks []string
	for k := range typeOf {
		tks = append(tks, k)
	}
	sort.Strings(tks)
	for i, k := range tks {
		sep := ","
		if i == len(tks)-1 {
			sep = ""
		}
		fmt.Fprintf(&b, "  (%s, %s)%s\n", leanStr(k), leanStr(typeOf[k]), sep)
	}
	b.WriteString("]\n\nend GPy.C10.Generated\n")
	old, _ := os.ReadFile(outLean)
	if string(old) != b.String() {
		if err := os.WriteFile(outLean, []byte(b.String()), 0o644); err != nil {
			die("%v", err)
		}
	}
	open := 0
	for _, s := range ap {
		if s.Guard == "none" || (s.Guard == "receiver" && (s.TypeOf != s.RegType || s.Others != 0)) {
			open++
		}
	}
	fmt.Printf("assertsites: %d files, %d assert/panic sites (%d without a recognised guard), %d index/slice sites in %d functions\n", nfiles, len(ap), open, len(ix), len(keys))
}
