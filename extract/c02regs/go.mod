module c02regs

go 1.18
