// c02regs: fact table of the unwinder's registers (property C02).
//
// usage: c02regs <repo> <out.lean>
//
// Reads vm/eval.go with go/ast and records, for every region of code that the C02 model
// transliterates as a user of the registers vm.retval / vm.why or of the reason pair parked on the
// value stack, which of them it writes, reads, and how many values it pushes / pops:
//
//	RETURN_VALUE, CONTINUE_LOOP, BREAK_LOOP, YIELD_VALUE, YIELD_FROM.yield (the yielding tail of do_YIELD_FROM),
//	POP_EXCEPT, END_FINALLY.head (statements before the branch on the popped value),
//	END_FINALLY.int (the assignment of vm.why from the popped Int), END_FINALLY.retcont / .silenced /
//	.exc (the clauses), WITH_CLEANUP.retcont / .other (the two clauses of its switch),
//	unwind.loopcont / unwind.finally (the two branches of RunFrame's unwinding loop), exit (the
//	epilogue `if vm.why != whyReturn { vm.retval = nil }`).
//
// The table is written as lean/GPy/C02/Generated.lean (only when it changed); Props.lean proves by
// `decide` that it equals the table derived from the model's step function.
package main

import (
	"fmt"
	"go/ast"
	"go/parser"
	"go/token"
	"os"
	"path/filepath"
	"strings"
)

type fact struct {
	region        string
	found         bool
	writesRetval  bool
	retvalFromPop bool // vm.retval = vm.POP()
	retvalNil     bool // vm.retval = nil
	readsRetval   bool
	writesWhy     bool
	readsWhy      bool
	pushes        int
	pops          int // POP, DROP (1 each), DROPN(k) (k)
}

func isVmSel(e ast.Expr, field string) bool {
	s, ok := e.(*ast.SelectorExpr)
	if !ok {
		return false
	}
	x, ok := s.X.(*ast.Ident)
	return ok && x.Name == "vm" && s.Sel.Name == field
}

func vmCall(e ast.Expr) (string, []ast.Expr) {
	c, ok := e.(*ast.CallExpr)
	if !ok {
		return "", nil
	}
	s, ok := c.Fun.(*ast.SelectorExpr)
	if !ok {
		return "", nil
	}
	x, ok := s.X.(*ast.Ident)
	if !ok || x.Name != "vm" {
		return "", nil
	}
	return s.Sel.Name, c.Args
}

// scan the statements (not descending into the nodes listed in skip)
func scan(f *fact, nodes []ast.Node, skip map[ast.Node]bool) {
	f.found = true
	lhs := map[ast.Expr]bool{}
	for _, n := range nodes {
		ast.Inspect(n, func(n ast.Node) bool {
			if n == nil || skip[n] {
				return false
			}
			switch x := n.(type) {
			case *ast.AssignStmt:
				for i, l := range x.Lhs {
					if isVmSel(l, "retval") {
						lhs[l] = true
						f.writesRetval = true
						if i < len(x.Rhs) {
							if name, _ := vmCall(x.Rhs[i]); name == "POP" {
								f.retvalFromPop = true
							}
							if id, ok := x.Rhs[i].(*ast.Ident); ok && id.Name == "nil" {
								f.retvalNil = true
							}
						}
					}
					if isVmSel(l, "why") {
						lhs[l] = true
						f.writesWhy = true
					}
				}
			case *ast.CallExpr:
				name, args := vmCall(x)
				switch name {
				case "PUSH":
					f.pushes++
				case "POP", "DROP":
					f.pops++
				case "DROPN":
					k := 0
					if len(args) == 1 {
						if lit, ok := args[0].(*ast.BasicLit); ok {
							fmt.Sscanf(lit.Value, "%d", &k)
						}
					}
					f.pops += k
				}
			case *ast.SelectorExpr:
				if isVmSel(x, "retval") && !lhs[x] {
					f.readsRetval = true
				}
				if isVmSel(x, "why") && !lhs[x] {
					f.readsWhy = true
				}
			}
			return true
		})
	}
}

func stmtsToNodes(ss []ast.Stmt) []ast.Node {
	var out []ast.Node
	for _, s := range ss {
		out = append(out, s)
	}
	return out
}

func exprText(fset *token.FileSet, src []byte, e ast.Node) string {
	return string(src[fset.Position(e.Pos()).Offset:fset.Position(e.End()).Offset])
}

func caseHas(fset *token.FileSet, src []byte, cc *ast.CaseClause, name string) bool {
	for _, e := range cc.List {
		if exprText(fset, src, e) == name {
			return true
		}
	}
	return false
}

func main() {
	repo, out := os.Args[1], os.Args[2]
	path := filepath.Join(repo, "vm", "eval.go")
	src, err := os.ReadFile(path)
	if err != nil {
		fmt.Println("ERROR", err)
		os.Exit(1)
	}
	fset := token.NewFileSet()
	file, err := parser.ParseFile(fset, path, src, 0)
	if err != nil {
		fmt.Println("ERROR", err)
		os.Exit(1)
	}
	funcs := map[string]*ast.FuncDecl{}
	for _, d := range file.Decls {
		if fd, ok := d.(*ast.FuncDecl); ok && fd.Body != nil {
			funcs[fd.Name.Name] = fd
		}
	}
	order := []string{"RETURN_VALUE", "CONTINUE_LOOP", "BREAK_LOOP", "YIELD_VALUE", "YIELD_FROM.yield", "POP_EXCEPT",
		"END_FINALLY.head", "END_FINALLY.int", "END_FINALLY.retcont", "END_FINALLY.silenced", "END_FINALLY.exc",
		"WITH_CLEANUP.retcont", "WITH_CLEANUP.other", "unwind.loopcont", "unwind.finally", "exit"}
	facts := map[string]*fact{}
	for _, r := range order {
		facts[r] = &fact{region: r}
	}
	whole := func(region, fn string) {
		if fd, ok := funcs[fn]; ok {
			scan(facts[region], []ast.Node{fd.Body}, nil)
		}
	}
	whole("RETURN_VALUE", "do_RETURN_VALUE")
	whole("CONTINUE_LOOP", "do_CONTINUE_LOOP")
	whole("BREAK_LOOP", "do_BREAK_LOOP")
	whole("YIELD_VALUE", "do_YIELD_VALUE")
	whole("POP_EXCEPT", "do_POP_EXCEPT")
	// do_YIELD_FROM: the statements after the `if err != nil {..}` block (the yielding tail)
	if fd, ok := funcs["do_YIELD_FROM"]; ok {
		var tail []ast.Stmt
		seen := false
		for _, s := range fd.Body.List {
			if is, ok := s.(*ast.IfStmt); ok && strings.HasPrefix(exprText(fset, src, is.Cond), "err != nil") {
				seen = true
				tail = nil
				continue
			}
			if seen {
				tail = append(tail, s)
			}
		}
		if seen {
			scan(facts["YIELD_FROM.yield"], stmtsToNodes(tail), nil)
		}
	}
	// do_END_FINALLY
	if fd, ok := funcs["do_END_FINALLY"]; ok {
		var head []ast.Stmt
		for _, s := range fd.Body.List {
			is, ok := s.(*ast.IfStmt)
			if !ok || !strings.Contains(exprText(fset, src, is.Cond), "py.None") {
				if ok {
					continue
				}
				if _, isRet := s.(*ast.ReturnStmt); !isRet {
					head = append(head, s)
				}
				continue
			}
			// if v == py.None {..} else if vInt, ok := v.(py.Int); ok {..} else if ExceptionClassCheck {..} else {..}
			if e1, ok := is.Else.(*ast.IfStmt); ok {
				skip := map[ast.Node]bool{}
				for _, s2 := range e1.Body.List {
					if sw, ok := s2.(*ast.SwitchStmt); ok {
						skip[sw] = true
						for _, c := range sw.Body.List {
							cc := c.(*ast.CaseClause)
							if caseHas(fset, src, cc, "whyReturn") && caseHas(fset, src, cc, "whyContinue") {
								scan(facts["END_FINALLY.retcont"], stmtsToNodes(cc.Body), nil)
							}
							if caseHas(fset, src, cc, "whySilenced") {
								scan(facts["END_FINALLY.silenced"], stmtsToNodes(cc.Body), nil)
							}
						}
					}
				}
				scan(facts["END_FINALLY.int"], stmtsToNodes(e1.Body.List), skip)
				if e2, ok := e1.Else.(*ast.IfStmt); ok {
					scan(facts["END_FINALLY.exc"], stmtsToNodes(e2.Body.List), nil)
				}
			}
			break
		}
		scan(facts["END_FINALLY.head"], stmtsToNodes(head), nil)
	}
	// do_WITH_CLEANUP: the switch on vmStatus(excInt)
	if fd, ok := funcs["do_WITH_CLEANUP"]; ok {
		ast.Inspect(fd.Body, func(n ast.Node) bool {
			sw, ok := n.(*ast.SwitchStmt)
			if !ok || sw.Tag == nil || !strings.Contains(exprText(fset, src, sw.Tag), "vmStatus") {
				return true
			}
			for _, c := range sw.Body.List {
				cc := c.(*ast.CaseClause)
				if caseHas(fset, src, cc, "whyReturn") && caseHas(fset, src, cc, "whyContinue") {
					scan(facts["WITH_CLEANUP.retcont"], stmtsToNodes(cc.Body), nil)
				} else if cc.List == nil {
					scan(facts["WITH_CLEANUP.other"], stmtsToNodes(cc.Body), nil)
				}
			}
			return false
		})
	}
	// RunFrame: branches of the unwinding loop and the epilogue
	if fd, ok := funcs["RunFrame"]; ok {
		ast.Inspect(fd.Body, func(n ast.Node) bool {
			is, ok := n.(*ast.IfStmt)
			if !ok {
				return true
			}
			cond := exprText(fset, src, is.Cond)
			switch {
			case strings.Contains(cond, "TryBlockSetupLoop") && strings.Contains(cond, "whyContinue"):
				scan(facts["unwind.loopcont"], []ast.Node{is.Body}, nil)
			case cond == "b.Type == py.TryBlockSetupFinally":
				scan(facts["unwind.finally"], []ast.Node{is}, nil)
			case cond == "vm.why != whyReturn":
				scan(facts["exit"], []ast.Node{is}, nil)
			}
			return true
		})
	}
	b := func(x bool) string {
		if x {
			return "true"
		}
		return "false"
	}
	var sb strings.Builder
	sb.WriteString("/- GENERATED by extract/c02regs from vm/eval.go (go/ast) - do not edit.\n")
	sb.WriteString("   Which region of the interpreter writes / reads the unwinder's registers and moves the parked pair. -/\n")
	sb.WriteString("namespace GPy.C02.Generated\n\n")
	sb.WriteString("structure RegFact where\n  region : String\n  found : Bool\n  writesRetval : Bool\n  retvalFromPop : Bool\n  retvalNil : Bool\n  readsRetval : Bool\n  writesWhy : Bool\n  pushes : Nat\n  pops : Nat\nderiving DecidableEq, Repr\n\n")
	sb.WriteString("def regFacts : List RegFact := [\n")
	for i, r := range order {
		f := facts[r]
		fmt.Fprintf(&sb, "  ⟨%q, %s, %s, %s, %s, %s, %s, %d, %d⟩", f.region, b(f.found), b(f.writesRetval), b(f.retvalFromPop),
			b(f.retvalNil), b(f.readsRetval), b(f.writesWhy), f.pushes, f.pops)
		if i+1 < len(order) {
			sb.WriteString(",")
		}
		sb.WriteString("\n")
		fmt.Printf("FACT %s found=%v wRetval=%v fromPop=%v nil=%v rRetval=%v wWhy=%v rWhy=%v push=%d pop=%d\n", f.region, f.found,
			f.writesRetval, f.retvalFromPop, f.retvalNil, f.readsRetval, f.writesWhy, f.readsWhy, f.pushes, f.pops)
	}
	sb.WriteString("]\n\nend GPy.C02.Generated\n")
	old, _ := os.ReadFile(out)
	if string(old) != sb.String() {
		if err := os.WriteFile(out, []byte(sb.String()), 0o644); err != nil {
			fmt.Println("ERROR", err)
			os.Exit(1)
		}
		fmt.Println("WROTE", out)
	}
}
