module verifextract/c14units

go 1.18
