// extract/c14units: a regenerated FACT TABLE of byte-vs-rune units in py/string.go.
//
// gpython's str is a Go string (UTF-8 bytes) that has to behave as an array of code points.  Every
// integer in py/string.go therefore counts either BYTES (len(s), strings.Index, the index of `range s`,
// s.pos(..)) or CODE POINTS (s.len(), utf8.RuneCountInString, indexArg/adjustIndices/IndexIntCheck/
// GetIndices results, the documented character-position parameters of pos/slice/adjustIndices).
// Comparing one with the other is the classic defect of this file.  This program infers a unit for every
// integer expression SYNTACTICALLY (go/ast only, no go/types; flow-insensitive, two passes over each
// function so that a counter incremented later in a loop is known at the comparison) and writes
//
//   - one fact of kind "cmp" for every comparison (== != < <= > >=) in which a side has unit
//     byte/rune/mixed or mentions a sub-expression that has,
//   - one fact of kind "slice" / "index" for every s[a:b] / s[i] on a string-typed operand, with the units
//     of the bounds (absent bound = lit),
//
// into a Lean file (namespace GPy.C14.Generated, core Lean only).  lean/GPy/C14/Units.lean pins the table
// and proves that no comparison mixes units (except the listed ASCII tests) by `decide`.
//
// Inference rules (these ARE the trusted part):
//
//	string-typed: parameters/receivers/vars declared string|String, string(..)/String(..) conversions,
//	  x.(String), string literals, slices of such, x.slice(..), elements/range values of []string,
//	  the variable bound by `switch v := x.(type)` inside `case String:`, + of strings, strings.Repeat &c.
//	byte:  len(string), len([]byte), strings.Index*/LastIndex*, key of `range <string>`, <string>.pos(..),
//	       2nd result of utf8.DecodeRuneInString
//	rune:  <string>.len(), utf8.RuneCountInString(..), len([]rune), indexArg(..), IndexIntCheck(..),
//	       both results of adjustIndices(..), results 1,2,4 of x.GetIndices(..), parameters
//	       pos(n) slice(start,stop,length) adjustIndices(start,end,length), a variable incremented (x++) at
//	       the top level of the body of a `range <string>`
//	count: len(anything else);  lit: integer literals, math.MaxInt/MinInt;  unknown: everything else
//	a±b: lit±lit=lit, x±lit=x, x±x=x, unknown±x=unknown, two different of byte/rune/count = mixed;
//	* / % &c: lit if both lit else unknown;  -x, (x), int(x) int64(x) Int(x) ...: unit of x
//	assignment x = e (also :=, var, tuple forms, += -=): a variable that has a byte/rune/count unit keeps it
//	  when assigned lit/unknown/the same unit, and becomes mixed when assigned a different one.
//
// usage: c14units <repo> <out.lean>      (exit 1: cannot parse, or an expected function vanished)
package main

import (
	"bytes"
	"fmt"
	"go/ast"
	"go/parser"
	"go/printer"
	"go/token"
	"os"
	"path/filepath"
	"sort"
	"strings"
)

func die(format string, a ...interface{}) {
	fmt.Fprintf(os.Stderr, "extract/c14units: "+format+"\n", a...)
	os.Exit(1)
}

var expectedFuncs = []string{
	"String.len", "String.pos", "String.slice", "String.M__getitem__", "String.tailMatch", "adjustIndices",
	"String.Count", "String.find", "String.Split", "String.M__mul__", "fieldsN",
}

// U: units
type U int

const (
	uByte U = iota
	uRune
	uCount
	uLit
	uMixed
	uUnknown
)

var uname = []string{"byte", "rune", "count", "lit", "mixed", "unknown"}

func (u U) known() bool    { return u == uByte || u == uRune || u == uCount || u == uMixed }
func (u U) relevant() bool { return u == uByte || u == uRune || u == uMixed }

// ty: the few static types that matter
type ty int

const (
	tNone  ty = iota // not tracked
	tStr             // string / String
	tRunes           // []rune
	tBytes           // []byte
	tStrs            // []string / []String
	tOther
)

// parameters documented as character positions
var runeParams = map[string][]string{
	"String.pos":    {"n"},
	"String.slice":  {"start", "stop", "length"},
	"adjustIndices": {"start", "end", "length"},
}

// units of the results of multi-result calls (by bare function / method name)
var multiResults = map[string][]U{
	"indexArg":                    {uRune, uUnknown},
	"IndexIntCheck":               {uRune, uUnknown},
	"adjustIndices":               {uRune, uRune},
	".GetIndices":                 {uRune, uRune, uUnknown, uRune, uUnknown},
	"utf8.DecodeRuneInString":     {uUnknown, uByte},
	"utf8.DecodeLastRuneInString": {uUnknown, uByte},
}

var byteFuncs = map[string]bool{
	"strings.Index": true, "strings.IndexByte": true, "strings.LastIndex": true, "strings.LastIndexByte": true,
	"strings.IndexRune": true, "strings.IndexAny": true, "strings.LastIndexAny": true, "strings.IndexFunc": true,
	"strings.LastIndexFunc": true, "utf8.RuneLen": true,
}

var strFuncs = map[string]bool{
	"strings.Repeat": true, "strings.Replace": true, "strings.ReplaceAll": true, "strings.ToUpper": true,
	"strings.ToLower": true, "strings.TrimFunc": true, "strings.TrimLeftFunc": true, "strings.TrimRightFunc": true,
	"strings.TrimSpace": true, "strings.Trim": true, "strings.Join": true, "strings.TrimPrefix": true,
	"strings.TrimSuffix": true, "fmt.Sprintf": true, "StringEscape": true,
}

var strsFuncs = map[string]bool{
	"strings.SplitN": true, "strings.Split": true, "strings.Fields": true, "strings.FieldsFunc": true, "fieldsN": true,
}

var convFuncs = map[string]bool{
	"int": true, "int8": true, "int16": true, "int32": true, "int64": true,
	"uint": true, "uint8": true, "uint16": true, "uint32": true, "uint64": true, "Int": true,
}

type fact struct {
	pos      token.Pos
	fn       string
	n        int
	kind, op string
	l, r     U
	lhs, rhs string
}

type fctx struct {
	fset  *token.FileSet
	name  string
	types map[string]ty
	units map[string]U
	emit  bool
	facts []fact
}

func (c *fctx) text(e ast.Expr) string {
	if e == nil {
		return ""
	}
	var b bytes.Buffer
	if err := printer.Fprint(&b, c.fset, e); err != nil {
		die("%s: cannot print an expression: %v", c.name, err)
	}
	return strings.Join(strings.Fields(b.String()), " ")
}

func typeOfTypeExpr(e ast.Expr) ty {
	switch x := e.(type) {
	case *ast.Ident:
		if x.Name == "string" || x.Name == "String" {
			return tStr
		}
	case *ast.ParenExpr:
		return typeOfTypeExpr(x.X)
	case *ast.ArrayType:
		if x.Len == nil {
			if id, ok := x.Elt.(*ast.Ident); ok {
				switch id.Name {
				case "rune", "int32":
					return tRunes
				case "byte", "uint8":
					return tBytes
				case "string", "String":
					return tStrs
				}
			}
		}
	}
	return tOther
}

// callName: "f" for f(..), "pkg.f" for pkg.f(..) with pkg one of the std packages used, ".m" for any other x.m(..)
func callName(call *ast.CallExpr) string {
	switch f := call.Fun.(type) {
	case *ast.Ident:
		return f.Name
	case *ast.SelectorExpr:
		if id, ok := f.X.(*ast.Ident); ok {
			switch id.Name {
			case "strings", "utf8", "fmt", "math", "bytes", "unicode", "strconv":
				return id.Name + "." + f.Sel.Name
			}
		}
		return "." + f.Sel.Name
	}
	return ""
}

func (c *fctx) typeOf(e ast.Expr) ty {
	switch x := e.(type) {
	case *ast.Ident:
		return c.types[x.Name]
	case *ast.ParenExpr:
		return c.typeOf(x.X)
	case *ast.BasicLit:
		if x.Kind == token.STRING {
			return tStr
		}
	case *ast.CallExpr:
		name := callName(x)
		switch {
		case (name == "string" || name == "String") && len(x.Args) == 1:
			return tStr
		case name == "make" && len(x.Args) >= 1:
			return typeOfTypeExpr(x.Args[0])
		case name == "append" && len(x.Args) >= 1:
			return c.typeOf(x.Args[0])
		case strFuncs[name]:
			return tStr
		case strsFuncs[name]:
			return tStrs
		case name == ".slice" || name == ".Intern":
			if sel := x.Fun.(*ast.SelectorExpr); c.typeOf(sel.X) == tStr {
				return tStr
			}
		}
		switch f := x.Fun.(type) {
		case *ast.ArrayType:
			return typeOfTypeExpr(f)
		case *ast.ParenExpr:
			if t := typeOfTypeExpr(f.X); t != tOther {
				return t
			}
		}
	case *ast.SliceExpr:
		return c.typeOf(x.X)
	case *ast.IndexExpr:
		if c.typeOf(x.X) == tStrs {
			return tStr
		}
		return tOther
	case *ast.TypeAssertExpr:
		if x.Type != nil {
			return typeOfTypeExpr(x.Type)
		}
	case *ast.CompositeLit:
		if x.Type != nil {
			return typeOfTypeExpr(x.Type)
		}
	case *ast.BinaryExpr:
		if x.Op == token.ADD && (c.typeOf(x.X) == tStr || c.typeOf(x.Y) == tStr) {
			return tStr
		}
	}
	return tNone
}

func combine(a, b U) U {
	switch {
	case a == uMixed || b == uMixed:
		return uMixed
	case a == uLit:
		return b
	case b == uLit:
		return a
	case a == uUnknown || b == uUnknown:
		return uUnknown
	case a == b:
		return a
	}
	return uMixed
}

func (c *fctx) unitOf(e ast.Expr) U {
	switch x := e.(type) {
	case nil:
		return uLit
	case *ast.BasicLit:
		if x.Kind == token.INT {
			return uLit
		}
	case *ast.ParenExpr:
		return c.unitOf(x.X)
	case *ast.UnaryExpr:
		if x.Op == token.SUB || x.Op == token.ADD {
			return c.unitOf(x.X)
		}
	case *ast.Ident:
		if u, ok := c.units[x.Name]; ok {
			return u
		}
	case *ast.SelectorExpr:
		if id, ok := x.X.(*ast.Ident); ok && id.Name == "math" && (strings.HasPrefix(x.Sel.Name, "MaxInt") || strings.HasPrefix(x.Sel.Name, "MinInt")) {
			return uLit
		}
	case *ast.BinaryExpr:
		l, r := c.unitOf(x.X), c.unitOf(x.Y)
		switch x.Op {
		case token.ADD, token.SUB:
			return combine(l, r)
		case token.MUL, token.QUO, token.REM, token.SHL, token.SHR, token.AND, token.OR, token.XOR, token.AND_NOT:
			if l == uLit && r == uLit {
				return uLit
			}
		}
	case *ast.CallExpr:
		name := callName(x)
		switch {
		case name == "len" && len(x.Args) == 1:
			switch c.typeOf(x.Args[0]) {
			case tStr, tBytes:
				return uByte
			case tRunes:
				return uRune
			}
			return uCount
		case convFuncs[name] && len(x.Args) == 1:
			return c.unitOf(x.Args[0])
		case name == "utf8.RuneCountInString" || name == "utf8.RuneCount":
			return uRune
		case byteFuncs[name]:
			return uByte
		case name == ".len" && len(x.Args) == 0:
			if c.typeOf(x.Fun.(*ast.SelectorExpr).X) == tStr {
				return uRune
			}
		case name == ".pos":
			if c.typeOf(x.Fun.(*ast.SelectorExpr).X) == tStr {
				return uByte
			}
		}
		if rs, ok := multiResults[name]; ok {
			return rs[0]
		}
	}
	return uUnknown
}

// mentions: e contains a sub-expression whose unit is byte/rune/mixed
func (c *fctx) mentions(e ast.Expr) bool {
	found := false
	ast.Inspect(e, func(n ast.Node) bool {
		if found {
			return false
		}
		if _, ok := n.(*ast.FuncLit); ok {
			return false
		}
		if x, ok := n.(ast.Expr); ok && c.unitOf(x).relevant() {
			found = true
		}
		return !found
	})
	return found
}

func (c *fctx) setUnit(name string, u U) {
	if name == "_" {
		return
	}
	old, ok := c.units[name]
	switch {
	case !ok:
		c.units[name] = u
	case old == uLit:
		c.units[name] = u
	case old == uUnknown:
		if u != uLit {
			c.units[name] = u
		}
	default: // byte rune count mixed
		if u != uLit && u != uUnknown && u != old {
			c.units[name] = uMixed
		}
	}
}

func (c *fctx) setType(name string, t ty) {
	if name == "_" || t == tNone {
		return
	}
	c.types[name] = t
}

func (c *fctx) params(fl *ast.FieldList, runeNames []string) {
	if fl == nil {
		return
	}
	for _, f := range fl.List {
		t := typeOfTypeExpr(f.Type)
		for _, id := range f.Names {
			c.setType(id.Name, t)
			for _, rn := range runeNames {
				if rn == id.Name {
					c.units[id.Name] = uRune
				}
			}
		}
	}
}

// bind: lhs names get the types/units of rhs (parallel or tuple-from-call)
func (c *fctx) bind(lhs []ast.Expr, rhs []ast.Expr, declared ast.Expr, tok token.Token) {
	names := make([]string, len(lhs))
	for i, l := range lhs {
		if id, ok := l.(*ast.Ident); ok {
			names[i] = id.Name
		} else {
			names[i] = "_"
		}
	}
	if len(rhs) == len(lhs) {
		ts := make([]ty, len(rhs))
		us := make([]U, len(rhs))
		for i, r := range rhs {
			ts[i], us[i] = c.typeOf(r), c.unitOf(r)
			if tok == token.ADD_ASSIGN || tok == token.SUB_ASSIGN {
				us[i] = combine(c.unitOf(lhs[i]), us[i])
			} else if tok != token.ASSIGN && tok != token.DEFINE && tok != token.VAR {
				us[i] = uUnknown
			}
		}
		for i := range rhs {
			if declared != nil {
				c.setType(names[i], typeOfTypeExpr(declared))
			} else {
				c.setType(names[i], ts[i])
			}
			c.setUnit(names[i], us[i])
		}
		return
	}
	if len(rhs) == 1 && len(lhs) > 1 {
		switch r := rhs[0].(type) {
		case *ast.CallExpr:
			rs := multiResults[callName(r)] // a call that is not in the table: every result unknown
			for i := range lhs {
				if i < len(rs) {
					c.setUnit(names[i], rs[i])
				} else {
					c.setUnit(names[i], uUnknown)
				}
			}
		case *ast.TypeAssertExpr:
			c.setType(names[0], c.typeOf(r))
			c.setUnit(names[0], uUnknown)
		}
		return
	}
	if len(rhs) == 0 && declared != nil { // var x T
		for _, n := range names {
			c.setType(n, typeOfTypeExpr(declared))
		}
	}
}

func (c *fctx) add(pos token.Pos, kind, op string, l, r U, lhs, rhs string) {
	if c.emit {
		c.facts = append(c.facts, fact{pos: pos, fn: c.name, kind: kind, op: op, l: l, r: r, lhs: lhs, rhs: rhs})
	}
}

func isCmp(op token.Token) bool {
	switch op {
	case token.EQL, token.NEQ, token.LSS, token.LEQ, token.GTR, token.GEQ:
		return true
	}
	return false
}

func (c *fctx) walk(root ast.Node) {
	if root == nil {
		return
	}
	ast.Inspect(root, func(n ast.Node) bool {
		switch x := n.(type) {
		case *ast.FuncLit:
			c.params(x.Type.Params, nil)
		case *ast.AssignStmt:
			c.bind(x.Lhs, x.Rhs, nil, x.Tok)
		case *ast.ValueSpec:
			lhs := make([]ast.Expr, len(x.Names))
			for i, id := range x.Names {
				lhs[i] = id
			}
			c.bind(lhs, x.Values, x.Type, token.VAR)
		case *ast.RangeStmt:
			switch c.typeOf(x.X) {
			case tStr:
				if id, ok := x.Key.(*ast.Ident); ok {
					c.setUnit(id.Name, uByte)
				}
				if id, ok := x.Value.(*ast.Ident); ok {
					c.setType(id.Name, tOther)
				}
				// a counter incremented once per iteration counts code points
				for _, st := range x.Body.List {
					if inc, ok := st.(*ast.IncDecStmt); ok && inc.Tok == token.INC {
						if id, ok := inc.X.(*ast.Ident); ok {
							c.setUnit(id.Name, uRune)
						}
					}
				}
			case tStrs:
				if id, ok := x.Value.(*ast.Ident); ok {
					c.setType(id.Name, tStr)
				}
			default:
				if id, ok := x.Value.(*ast.Ident); ok {
					c.setType(id.Name, tOther)
				}
			}
		case *ast.TypeSwitchStmt:
			c.walk(x.Init)
			name := ""
			if as, ok := x.Assign.(*ast.AssignStmt); ok && len(as.Lhs) == 1 {
				if id, ok := as.Lhs[0].(*ast.Ident); ok {
					name = id.Name
				}
				c.walk(as.Rhs[0])
			} else {
				c.walk(x.Assign)
			}
			for _, st := range x.Body.List {
				cc := st.(*ast.CaseClause)
				if name != "" {
					if len(cc.List) == 1 {
						c.types[name] = typeOfTypeExpr(cc.List[0])
					} else {
						c.types[name] = tOther
					}
				}
				for _, b := range cc.Body {
					c.walk(b)
				}
			}
			return false
		case *ast.BinaryExpr:
			if isCmp(x.Op) {
				l, r := c.unitOf(x.X), c.unitOf(x.Y)
				if l.relevant() || r.relevant() || c.mentions(x.X) || c.mentions(x.Y) {
					c.add(x.Pos(), "cmp", x.Op.String(), l, r, c.text(x.X), c.text(x.Y))
				}
			}
		case *ast.SliceExpr:
			if c.typeOf(x.X) == tStr {
				c.add(x.Pos(), "slice", c.text(x.X)+"[:]", c.unitOf(x.Low), c.unitOf(x.High), c.text(x.Low), c.text(x.High))
			}
		case *ast.IndexExpr:
			if c.typeOf(x.X) == tStr {
				c.add(x.Pos(), "index", c.text(x.X)+"[]", c.unitOf(x.Index), uLit, c.text(x.Index), "")
			}
		}
		return true
	})
}

func leanStr(s string) string {
	var b strings.Builder
	b.WriteByte('"')
	for _, r := range s {
		switch {
		case r == '"':
			b.WriteString(`\"`)
		case r == '\\':
			b.WriteString(`\\`)
		case r == '\n':
			b.WriteString(`\n`)
		case r == '\t':
			b.WriteString(`\t`)
		case r < 0x20 || r > 0x7e:
			fmt.Fprintf(&b, `\u{%x}`, r)
		default:
			b.WriteRune(r)
		}
	}
	b.WriteByte('"')
	return b.String()
}

func main() {
	if len(os.Args) != 3 {
		die("usage: c14units <repo> <out.lean>")
	}
	src := filepath.Join(os.Args[1], "py", "string.go")
	fset := token.NewFileSet()
	file, err := parser.ParseFile(fset, src, nil, 0)
	if err != nil {
		die("cannot parse %s: %v", src, err)
	}
	// package-level variables with a declared / evident type
	globals := map[string]ty{}
	for _, d := range file.Decls {
		if gd, ok := d.(*ast.GenDecl); ok && gd.Tok == token.VAR {
			for _, sp := range gd.Specs {
				vs := sp.(*ast.ValueSpec)
				for _, id := range vs.Names {
					if vs.Type != nil {
						globals[id.Name] = typeOfTypeExpr(vs.Type)
					}
				}
			}
		}
	}
	var all []fact
	seen := map[string]bool{}
	var funcs []string
	for _, d := range file.Decls {
		fd, ok := d.(*ast.FuncDecl)
		if !ok {
			continue
		}
		name := fd.Name.Name
		if fd.Recv != nil && len(fd.Recv.List) == 1 {
			t := fd.Recv.List[0].Type
			if st, ok := t.(*ast.StarExpr); ok {
				t = st.X
			}
			if id, ok := t.(*ast.Ident); ok {
				name = id.Name + "." + name
			}
		}
		seen[name] = true
		funcs = append(funcs, name)
		if fd.Body == nil {
			continue
		}
		c := &fctx{fset: fset, name: name, types: map[string]ty{}, units: map[string]U{}}
		for k, v := range globals {
			c.types[k] = v
		}
		c.params(fd.Recv, nil)
		c.params(fd.Type.Params, runeParams[name])
		c.walk(fd.Body) // pass 1: environment only
		c.emit = true
		c.walk(fd.Body) // pass 2: facts
		sort.SliceStable(c.facts, func(i, j int) bool { return c.facts[i].pos < c.facts[j].pos })
		for i := range c.facts {
			c.facts[i].n = i + 1
		}
		all = append(all, c.facts...)
	}
	var missing []string
	for _, f := range expectedFuncs {
		if !seen[f] {
			missing = append(missing, f)
		}
	}
	if len(missing) > 0 {
		die("expected function(s) vanished from py/string.go: %s", strings.Join(missing, ", "))
	}

	var b strings.Builder
	b.WriteString("/- GENERATED by extract/c14units from py/string.go of the working tree - DO NOT EDIT.\n")
	b.WriteString("   One fact per comparison that involves a byte- or rune-valued integer (kind \"cmp\") and per string\n")
	b.WriteString("   slice/index expression (kind \"slice\"/\"index\": l/r = units of the bounds, op = operand ++ \"[:]\" / \"[]\").\n")
	b.WriteString("   n = ordinal of the fact inside its function (source order).  Inference rules: extract/c14units/main.go. -/\n")
	b.WriteString("namespace GPy.C14.Generated\n\n")
	b.WriteString("inductive U | byte | rune | count | lit | mixed | unknown\n  deriving DecidableEq, Repr\n\n")
	b.WriteString("structure Fact where\n  (fn : String) (n : Nat) (kind : String) (op : String) (l : U) (r : U) (lhs : String) (rhs : String)\n  deriving DecidableEq, Repr\n\n")
	fmt.Fprintf(&b, "/-- functions and methods of py/string.go (%d) -/\n", len(funcs))
	b.WriteString("def functions : List String := [")
	for i, f := range funcs {
		if i > 0 {
			b.WriteString(",")
		}
		if i%6 == 0 {
			b.WriteString("\n  ")
		} else {
			b.WriteString(" ")
		}
		b.WriteString(leanStr(f))
	}
	b.WriteString("]\n\n")
	fmt.Fprintf(&b, "/-- %d facts -/\n", len(all))
	b.WriteString("def facts : List Fact := [")
	for i, f := range all {
		if i > 0 {
			b.WriteString(",")
		}
		fmt.Fprintf(&b, "\n  ⟨%s, %d, %s, %s, .%s, .%s, %s, %s⟩", leanStr(f.fn), f.n, leanStr(f.kind), leanStr(f.op),
			uname[f.l], uname[f.r], leanStr(f.lhs), leanStr(f.rhs))
	}
	b.WriteString("]\n\nend GPy.C14.Generated\n")
	if err := os.MkdirAll(filepath.Dir(os.Args[2]), 0o755); err != nil {
		die("%v", err)
	}
	if err := os.WriteFile(os.Args[2], []byte(b.String()), 0o644); err != nil {
		die("%v", err)
	}
	ncmp := 0
	for _, f := range all {
		if f.kind == "cmp" {
			ncmp++
		}
	}
	fmt.Printf("extract/c14units: %d functions, %d facts (%d cmp, %d slice/index) -> %s\n", len(funcs), len(all), ncmp, len(all)-ncmp, os.Args[2])
}
