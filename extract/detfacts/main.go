// extract/detfacts: regenerates lean/GPy/C18/Generated.lean from the gpython
// working tree.  Two fact tables:
//
//	(a) mapRangeSites: every `for ... := range X` whose X has a MAP type, in the
//	    packages parser/, ast/, symtable/, compile/ (non-test files), with
//	    file, enclosing function and the text of X;
//	(b) globalWrites: every write to a PACKAGE-LEVEL variable of parser/, ast/,
//	    symtable/, compile/, py/ (from any of these packages) that is not the
//	    variable's own declaration and not inside a func init(): plain and compound
//	    assignment, ++/--, assignment through an index / field / pointer rooted
//	    at the variable (m[k] = v, g.f = v, *g = v), range-assignment, delete(g, k),
//	    and `&g` (address taken: a write may follow elsewhere); with file, the
//	    writing function, the kind of write and whether the writing function is
//	    reachable from compile.Compile in a conservative static call graph.
//
// HOW TYPES ARE OBTAINED (documented as the task asks): the five packages are
// type-checked offline with go/types.  Imports of gpython packages are resolved
// by parsing and checking the directory in the working tree (recursively);
// standard-library imports by go/importer "source" (GOROOT/src).  No go/packages,
// no network.  A type error in the target packages, an unparseable file or a
// `range` operand without type information makes the extractor fail loudly
// (exit 1): the tie is lost, the check reports it.
//
// The call graph: static callees come from go/types (Uses/Selections).  A call
// through an interface method or a func-typed value is resolved conservatively
// BY NAME to every method of that name declared in the five packages (and, for a
// call of a func value that is a package-level variable, to every function
// assigned to it anywhere in the five packages).  Function literals belong to the
// function that contains them.  reach = reachable from compile.Compile.
//
// usage: detfacts <repo> <out.lean>
package main

import (
	"bytes"
	"crypto/sha256"
	"encoding/hex"
	"fmt"
	"go/ast"
	"go/build/constraint"
	"go/importer"
	"go/parser"
	"go/printer"
	"go/token"
	"go/types"
	"os"
	"path/filepath"
	"sort"
	"strings"
)

const modPath = "github.com/go-python/gpython"

func die(format string, a ...interface{}) {
	fmt.Fprintf(os.Stderr, "extract/detfacts: "+format+"\n", a...)
	os.Exit(1)
}

type pkgInfo struct {
	pkg   *types.Package
	files []*ast.File
	info  *types.Info
	dir   string
}

type imp struct {
	repo string
	fset *token.FileSet
	std  types.Importer
	pkgs map[string]*pkgInfo
	errs []string
	busy map[string]bool
}

func (im *imp) Import(path string) (*types.Package, error) {
	if path == "unsafe" {
		return types.Unsafe, nil
	}
	if path == modPath || strings.HasPrefix(path, modPath+"/") {
		p, err := im.load(path)
		if err != nil {
			return nil, err
		}
		return p.pkg, nil
	}
	return im.std.Import(path)
}

func (im *imp) load(path string) (*pkgInfo, error) {
	if p, ok := im.pkgs[path]; ok {
		return p, nil
	}
	if im.busy[path] {
		return nil, fmt.Errorf("import cycle through %s", path)
	}
	im.busy[path] = true
	defer delete(im.busy, path)
	dir := filepath.Join(im.repo, strings.TrimPrefix(strings.TrimPrefix(path, modPath), "/"))
	ents, err := os.ReadDir(dir)
	if err != nil {
		return nil, err
	}
	var files []*ast.File
	for _, e := range ents {
		n := e.Name()
		if e.IsDir() || !strings.HasSuffix(n, ".go") || strings.HasSuffix(n, "_test.go") {
			continue
		}
		f, err := parser.ParseFile(im.fset, filepath.Join(dir, n), nil, parser.ParseComments)
		if err != nil {
			return nil, fmt.Errorf("cannot parse %s: %v", filepath.Join(dir, n), err)
		}
		if !buildOK(f, n) {
			continue
		}
		files = append(files, f)
	}
	if len(files) == 0 {
		return nil, fmt.Errorf("no Go files in %s", dir)
	}
	info := &types.Info{
		Types:      map[ast.Expr]types.TypeAndValue{},
		Uses:       map[*ast.Ident]types.Object{},
		Defs:       map[*ast.Ident]types.Object{},
		Selections: map[*ast.SelectorExpr]*types.Selection{},
	}
	conf := types.Config{Importer: im, Error: func(err error) { im.errs = append(im.errs, err.Error()) }}
	pkg, _ := conf.Check(path, im.fset, files, info)
	p := &pkgInfo{pkg: pkg, files: files, info: info, dir: dir}
	im.pkgs[path] = p
	return p, nil
}

// buildOK: evaluate the file's build constraints (//go:build line and file-name
// suffix) for linux/amd64 with cgo, no extra tags - the configuration of the
// baseline `go test ./...`.
func buildOK(f *ast.File, name string) bool {
	base := strings.TrimSuffix(name, ".go")
	for _, suf := range []string{"_js", "_wasm", "_windows", "_darwin", "_plan9", "_freebsd", "_arm64", "_386", "_arm"} {
		if strings.HasSuffix(base, suf) {
			return false
		}
	}
	tag := func(t string) bool {
		switch t {
		case "linux", "amd64", "unix", "gc", "cgo":
			return true
		}
		return strings.HasPrefix(t, "go1.")
	}
	for _, cg := range f.Comments {
		if cg.Pos() > f.Package {
			break
		}
		for _, c := range cg.List {
			if constraint.IsGoBuild(c.Text) {
				x, err := constraint.Parse(c.Text)
				if err != nil {
					die("unparseable build constraint %q in %s", c.Text, name)
				}
				return x.Eval(tag)
			}
		}
	}
	return true
}

// stdImporter: export data of the standard library from the Go build cache
// (`go list -export`, offline); falls back to type-checking GOROOT/src.
type twoImp struct{ a, b types.Importer }

func (t twoImp) Import(path string) (*types.Package, error) {
	if p, err := t.a.Import(path); err == nil {
		return p, nil
	}
	return t.b.Import(path)
}

func stdImporter(fset *token.FileSet) types.Importer {
	return twoImp{importer.ForCompiler(fset, "gc", nil), importer.ForCompiler(fset, "source", nil)}
}

const version = "detfacts-3"

// hashInputs: sha256 over every non-test .go file of the working tree (path and content)
func hashInputs(repo string) string {
	h := sha256.New()
	h.Write([]byte(version))
	err := filepath.Walk(repo, func(path string, fi os.FileInfo, err error) error {
		if err != nil {
			return err
		}
		if fi.IsDir() {
			if strings.HasPrefix(fi.Name(), ".") && path != repo {
				return filepath.SkipDir
			}
			return nil
		}
		if !strings.HasSuffix(path, ".go") || strings.HasSuffix(path, "_test.go") {
			return nil
		}
		data, err := os.ReadFile(path)
		if err != nil {
			return err
		}
		rel, _ := filepath.Rel(repo, path)
		fmt.Fprintf(h, "\x00%s\x00%d\x00", rel, len(data))
		h.Write(data)
		return nil
	})
	if err != nil {
		die("cannot read the working tree: %v", err)
	}
	return hex.EncodeToString(h.Sum(nil))
}

func text(fset *token.FileSet, n ast.Node) string {
	var b bytes.Buffer
	printer.Fprint(&b, fset, n)
	return strings.Join(strings.Fields(b.String()), " ")
}

func lean(s string) string {
	s = strings.ReplaceAll(s, "\\", "\\\\")
	s = strings.ReplaceAll(s, "\"", "\\\"")
	return "\"" + s + "\""
}

// funcKey names a declared function: pkg.Func or pkg.(Recv).Method
func funcKey(pkgName string, d *ast.FuncDecl) string {
	if d.Recv != nil && len(d.Recv.List) == 1 {
		t := d.Recv.List[0].Type
		if s, ok := t.(*ast.StarExpr); ok {
			t = s.X
		}
		if ix, ok := t.(*ast.IndexExpr); ok {
			t = ix.X
		}
		if id, ok := t.(*ast.Ident); ok {
			return pkgName + "." + id.Name + "." + d.Name.Name
		}
	}
	return pkgName + "." + d.Name.Name
}

func objKey(o types.Object) string {
	fn, ok := o.(*types.Func)
	if !ok || fn.Pkg() == nil {
		return ""
	}
	sig := fn.Type().(*types.Signature)
	if r := sig.Recv(); r != nil {
		t := r.Type()
		if p, ok := t.(*types.Pointer); ok {
			t = p.Elem()
		}
		if n, ok := t.(*types.Named); ok {
			if _, isIface := n.Underlying().(*types.Interface); isIface {
				return "" // interface method: resolved by name
			}
			return fn.Pkg().Name() + "." + n.Obj().Name() + "." + fn.Name()
		}
		return "" // interface method
	}
	return fn.Pkg().Name() + "." + fn.Name()
}

type site struct{ pkg, file, fn, expr string }
type write struct {
	vpkg, vname, file, fn, kind string
	key                         string // funcKey of the writer
}

func main() {
	if len(os.Args) != 3 {
		die("usage: detfacts <repo> <out.lean>")
	}
	repo, out := os.Args[1], os.Args[2]
	// The analysis takes ~20 s (the standard library is type-checked from source), so the
	// result is reused when NO non-test .go file of the working tree (and not this
	// extractor's version) changed: the hash of all of them is kept in the output's header.
	inputs := hashInputs(repo)
	if old, err := os.ReadFile(out); err == nil && os.Getenv("DETFACTS_FORCE") == "" {
		if i := bytes.Index(old, []byte("inputs-sha256: ")); i >= 0 && bytes.HasPrefix(old[i+15:], []byte(inputs)) {
			j := bytes.Index(old, []byte("summary: "))
			sum := ""
			if j >= 0 {
				sum = string(old[j+9 : j+bytes.IndexByte(old[j:], '\n')])
			}
			fmt.Printf("detfacts: working tree unchanged (inputs %s), tables kept: %s\n", inputs[:12], sum)
			return
		}
	}
	fset := token.NewFileSet()
	im := &imp{repo: repo, fset: fset, std: stdImporter(fset), pkgs: map[string]*pkgInfo{}, busy: map[string]bool{}}
	rangePkgs := []string{"parser", "ast", "symtable", "compile"}
	writePkgs := []string{"parser", "ast", "symtable", "compile", "py"}
	for _, p := range writePkgs {
		if _, err := im.load(modPath + "/" + p); err != nil {
			die("cannot load package %s: %v", p, err)
		}
	}
	if len(im.errs) > 0 {
		die("type errors in the working tree (first of %d): %s", len(im.errs), im.errs[0])
	}
	isTarget := map[*types.Package]string{}
	for _, p := range writePkgs {
		isTarget[im.pkgs[modPath+"/"+p].pkg] = p
	}

	var sites []site
	var writes []write
	calls := map[string]map[string]bool{}   // caller -> static callees
	dyn := map[string]map[string]bool{}     // caller -> method NAMES called dynamically
	fvcalls := map[string]map[string]bool{} // caller -> package-level func variables called ("pkg.var")
	methodsByName := map[string][]string{}
	assignedTo := map[string]map[string]bool{} // "pkg.var" -> functions assigned to it
	nfuncs := 0
	unresolved := map[string]int{}

	addCall := func(m map[string]map[string]bool, from, to string) {
		if m[from] == nil {
			m[from] = map[string]bool{}
		}
		m[from][to] = true
	}

	pkgVar := func(info *types.Info, e ast.Expr) *types.Var {
		// root identifier of an lvalue / operand
		for {
			switch x := e.(type) {
			case *ast.ParenExpr:
				e = x.X
				continue
			case *ast.IndexExpr:
				e = x.X
				continue
			case *ast.SliceExpr:
				e = x.X
				continue
			case *ast.StarExpr:
				e = x.X
				continue
			case *ast.SelectorExpr:
				if id, ok := x.X.(*ast.Ident); ok {
					if _, isPkg := info.Uses[id].(*types.PkgName); isPkg {
						if v, ok := info.Uses[x.Sel].(*types.Var); ok && v.Pkg() != nil && v.Parent() == v.Pkg().Scope() {
							return v
						}
						return nil
					}
				}
				e = x.X
				continue
			case *ast.Ident:
				if v, ok := info.Uses[x].(*types.Var); ok && v.Pkg() != nil && v.Parent() == v.Pkg().Scope() {
					return v
				}
				return nil
			default:
				return nil
			}
		}
	}
	kindOf := func(e ast.Expr) string {
		for {
			switch x := e.(type) {
			case *ast.ParenExpr:
				e = x.X
				continue
			case *ast.IndexExpr:
				return "element"
			case *ast.StarExpr:
				return "deref"
			case *ast.SelectorExpr:
				if _, ok := x.X.(*ast.Ident); ok {
					// pkg.Var or var.field: decided by the caller through pkgVar; treat pkg.Var as whole
					return "sel"
				}
				return "field"
			default:
				return "assign"
			}
		}
	}

	for _, pn := range writePkgs {
		p := im.pkgs[modPath+"/"+pn]
		info := p.info
		for _, f := range p.files {
			fname := pn + "/" + filepath.Base(fset.Position(f.Pos()).Filename)
			for _, d := range f.Decls {
				fd, ok := d.(*ast.FuncDecl)
				if !ok {
					// package-level var initialisers: record functions assigned to func variables
					if gd, ok := d.(*ast.GenDecl); ok && gd.Tok == token.VAR {
						for _, sp := range gd.Specs {
							vs := sp.(*ast.ValueSpec)
							for i, nm := range vs.Names {
								if i < len(vs.Values) {
									if id, ok := vs.Values[i].(*ast.Ident); ok {
										if k := objKey(info.Uses[id]); k != "" {
											addCall(assignedTo, pn+"."+nm.Name, k)
										}
									}
								}
							}
						}
					}
					continue
				}
				nfuncs++
				key := funcKey(pn, fd)
				short := strings.TrimPrefix(key, pn+".")
				if fd.Recv != nil {
					methodsByName[fd.Name.Name] = append(methodsByName[fd.Name.Name], key)
				}
				if fd.Body == nil {
					continue
				}
				isInit := fd.Recv == nil && fd.Name.Name == "init"
				record := func(lhs ast.Expr, kind string) {
					v := pkgVar(info, lhs)
					if v == nil {
						return
					}
					vp, ok := isTarget[v.Pkg()]
					if !ok {
						return
					}
					// functions assigned to package-level func variables (py.Compile = Compile)
					if isInit {
						return
					}
					if kind == "" {
						kind = kindOf(lhs)
						if kind == "sel" {
							if sel, ok := lhs.(*ast.SelectorExpr); ok {
								if id, ok := sel.X.(*ast.Ident); ok {
									if _, isPkg := info.Uses[id].(*types.PkgName); isPkg {
										kind = "assign"
									} else {
										kind = "field"
									}
								}
							}
						}
					}
					writes = append(writes, write{vpkg: vp, vname: v.Name(), file: fname, fn: short, kind: kind, key: key})
				}
				ast.Inspect(fd.Body, func(n ast.Node) bool {
					switch x := n.(type) {
					case *ast.RangeStmt:
						if _, inRange := map[string]bool{"parser": true, "ast": true, "symtable": true, "compile": true}[pn]; inRange {
							tv, ok := info.Types[x.X]
							if !ok || tv.Type == nil {
								die("no type for range operand %s in %s:%s", text(fset, x.X), fname, short)
							}
							if _, isMap := tv.Type.Underlying().(*types.Map); isMap {
								sites = append(sites, site{pkg: pn, file: fname, fn: short, expr: text(fset, x.X)})
							}
						}
						if x.Tok == token.ASSIGN {
							if x.Key != nil {
								record(x.Key, "")
							}
							if x.Value != nil {
								record(x.Value, "")
							}
						}
					case *ast.AssignStmt:
						if x.Tok != token.DEFINE {
							for _, l := range x.Lhs {
								record(l, "")
							}
						}
						// functions assigned to package-level func variables
						for i, l := range x.Lhs {
							if i < len(x.Rhs) {
								if v := pkgVar(info, l); v != nil {
									var o types.Object
									switch r := x.Rhs[i].(type) {
									case *ast.Ident:
										o = info.Uses[r]
									case *ast.SelectorExpr:
										o = info.Uses[r.Sel]
									}
									if o != nil {
										if k := objKey(o); k != "" {
											addCall(assignedTo, v.Pkg().Name()+"."+v.Name(), k)
										}
									}
								}
							}
						}
					case *ast.IncDecStmt:
						record(x.X, "")
					case *ast.UnaryExpr:
						if x.Op == token.AND {
							record(x.X, "addr")
						}
					case *ast.CallExpr:
						// delete(g, k) / clear(g)
						if id, ok := x.Fun.(*ast.Ident); ok && (id.Name == "delete" || id.Name == "clear") && len(x.Args) >= 1 {
							if _, isB := info.Uses[id].(*types.Builtin); isB {
								record(x.Args[0], "element")
							}
						}
						// a call of a func-typed struct field or local value cannot be resolved statically
						switch fn := x.Fun.(type) {
						case *ast.Ident:
							if v, ok := info.Uses[fn].(*types.Var); ok && !(v.Pkg() != nil && v.Parent() == v.Pkg().Scope()) {
								if _, isSig := v.Type().Underlying().(*types.Signature); isSig {
									unresolved[key]++
								}
							}
						case *ast.SelectorExpr:
							if v, ok := info.Uses[fn.Sel].(*types.Var); ok && v.IsField() {
								if _, isSig := v.Type().Underlying().(*types.Signature); isSig {
									unresolved[key]++
								}
							}
						}
					case *ast.Ident:
						// call graph: EVERY reference to a function or method (call or value) is an edge
						switch o := info.Uses[x].(type) {
						case *types.Func:
							if k := objKey(o); k != "" {
								addCall(calls, key, k)
							} else if o.Type().(*types.Signature).Recv() != nil {
								addCall(dyn, key, o.Name()) // interface method: every method of that name
							}
						case *types.Var:
							if o.Pkg() != nil && o.Parent() == o.Pkg().Scope() {
								if _, isSig := o.Type().Underlying().(*types.Signature); isSig {
									addCall(fvcalls, key, o.Pkg().Name()+"."+o.Name())
								}
							}
						}
					}
					return true
				})
				_ = rangePkgs
			}
		}
	}

	// reachability from compile.Compile
	reach := map[string]bool{}
	var work []string
	push := func(k string) {
		if !reach[k] {
			reach[k] = true
			work = append(work, k)
		}
	}
	push("compile.Compile")
	for len(work) > 0 {
		k := work[len(work)-1]
		work = work[:len(work)-1]
		for c := range calls[k] {
			push(c)
		}
		for m := range dyn[k] {
			for _, c := range methodsByName[m] {
				push(c)
			}
		}
		for v := range fvcalls[k] {
			for c := range assignedTo[v] {
				push(c)
			}
		}
	}
	if os.Getenv("DETFACTS_DEBUG") != "" {
		var ks []string
		for k := range reach {
			ks = append(ks, k)
		}
		sort.Strings(ks)
		fmt.Fprintln(os.Stderr, strings.Join(ks, "\n"))
	}
	if len(calls["compile.Compile"]) == 0 {
		die("compile.Compile not found or calls nothing: the call graph is not the one expected")
	}

	sort.Slice(sites, func(i, j int) bool {
		a, b := sites[i], sites[j]
		if a.file != b.file {
			return a.file < b.file
		}
		if a.fn != b.fn {
			return a.fn < b.fn
		}
		return a.expr < b.expr
	})
	// de-duplicate writes (same var, function, kind)
	seen := map[string]bool{}
	var ws []write
	for _, w := range writes {
		k := w.vpkg + "|" + w.vname + "|" + w.file + "|" + w.fn + "|" + w.kind
		if !seen[k] {
			seen[k] = true
			ws = append(ws, w)
		}
	}
	sort.Slice(ws, func(i, j int) bool {
		a, b := ws[i], ws[j]
		ka := a.vpkg + "." + a.vname + "|" + a.file + "|" + a.fn + "|" + a.kind
		kb := b.vpkg + "." + b.vname + "|" + b.file + "|" + b.fn + "|" + b.kind
		return ka < kb
	})
	nreach := 0
	for k := range reach {
		_ = k
		nreach++
	}

	var b bytes.Buffer
	b.WriteString("/- GENERATED by extract/detfacts from the gpython working tree - DO NOT EDIT.\n")
	b.WriteString("   (a) every `range` over a map-typed expression in parser/, ast/, symtable/, compile/;\n")
	b.WriteString("   (b) every write to a package-level variable of parser/, ast/, symtable/, compile/, py/\n")
	b.WriteString("       outside its declaration and outside func init(), with the writing function and whether\n")
	b.WriteString("       that function is reachable from compile.Compile in a conservative call graph.\n")
	b.WriteString("   Types: go/types over the working tree, stdlib through go/importer \"source\". -/\n")
	nr := 0
	for _, w := range ws {
		if reach[w.key] {
			nr++
		}
	}
	summary := fmt.Sprintf("%d map-range sites, %d global writes (%d reachable from compile.Compile), %d functions, %d reachable", len(sites), len(ws), nr, nfuncs, nreach)
	fmt.Fprintf(&b, "-- inputs-sha256: %s\n-- summary: %s\n", inputs, summary)
	b.WriteString("namespace GPy.C18.Generated\n\n")
	b.WriteString("structure RangeSite where\n  file : String\n  fn : String\n  expr : String\nderiving DecidableEq, Repr\n\n")
	b.WriteString("structure GlobalWrite where\n  var : String\n  file : String\n  fn : String\n  kind : String\n  reach : Bool\nderiving DecidableEq, Repr\n\n")
	b.WriteString("def mapRangeSites : List RangeSite := [\n")
	for i, s := range sites {
		sep := ","
		if i == len(sites)-1 {
			sep = ""
		}
		fmt.Fprintf(&b, "  ⟨%s, %s, %s⟩%s\n", lean(s.file), lean(s.fn), lean(s.expr), sep)
	}
	b.WriteString("]\n\n")
	b.WriteString("def globalWrites : List GlobalWrite := [\n")
	for i, w := range ws {
		sep := ","
		if i == len(ws)-1 {
			sep = ""
		}
		r := "false"
		if reach[w.key] {
			r = "true"
		}
		fmt.Fprintf(&b, "  ⟨%s, %s, %s, %s, %s⟩%s\n", lean(w.vpkg+"."+w.vname), lean(w.file), lean(w.fn), lean(w.kind), r, sep)
	}
	b.WriteString("]\n\n")
	nunres := 0
	var unresFns []string
	for k, n := range unresolved {
		if reach[k] {
			nunres += n
			unresFns = append(unresFns, k)
		}
	}
	sort.Strings(unresFns)
	b.WriteString("/-- reachable functions that call a func-typed struct field / local value (callee not resolved statically) -/\ndef unresolvedCallers : List String := [")
	for i, k := range unresFns {
		if i > 0 {
			b.WriteString(", ")
		}
		b.WriteString(lean(k))
	}
	b.WriteString("]\n\n")
	fmt.Fprintf(&b, "/-- size of the call graph explored: declared functions, and how many compile.Compile reaches -/\ndef numFuncs : Nat := %d\ndef numReachable : Nat := %d\n\n", nfuncs, nreach)
	b.WriteString("end GPy.C18.Generated\n")

	old, _ := os.ReadFile(out)
	if !bytes.Equal(old, b.Bytes()) {
		if err := os.MkdirAll(filepath.Dir(out), 0o755); err != nil {
			die("%v", err)
		}
		if err := os.WriteFile(out, b.Bytes(), 0o644); err != nil {
			die("%v", err)
		}
	}
	fmt.Printf("detfacts: %s\n", summary)
}
