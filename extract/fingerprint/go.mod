module fingerprint

go 1.18
