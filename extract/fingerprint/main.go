// fingerprint: print one line "file<TAB>func<TAB>sha1" per function declaration of the given Go files,
// where the hash is over the gofmt-printed, comment-free declaration.  Used by checks/common.py to see
// which modelled functions changed since the model was last validated (DESIGN.md §2.2 step 1).
package main

import (
	"bytes"
	"crypto/sha1"
	"fmt"
	"go/ast"
	"go/parser"
	"go/printer"
	"go/token"
	"os"
	"path/filepath"
	"sort"
)

func main() {
	root := os.Args[1]
	var lines []string
	for _, rel := range os.Args[2:] {
		fset := token.NewFileSet()
		f, err := parser.ParseFile(fset, filepath.Join(root, rel), nil, 0) // comments dropped
		if err != nil {
			lines = append(lines, fmt.Sprintf("%s\t<parse-error>\t%x", rel, sha1.Sum([]byte(err.Error()))))
			continue
		}
		for _, d := range f.Decls {
			fd, ok := d.(*ast.FuncDecl)
			name := "<decl>"
			if ok {
				name = fd.Name.Name
				if fd.Recv != nil && len(fd.Recv.List) > 0 {
					var b bytes.Buffer
					printer.Fprint(&b, fset, fd.Recv.List[0].Type)
					name = b.String() + "." + name
				}
			} else if gd, ok := d.(*ast.GenDecl); ok {
				name = "<" + gd.Tok.String() + ">"
			}
			var b bytes.Buffer
			printer.Fprint(&b, token.NewFileSet(), d)
			lines = append(lines, fmt.Sprintf("%s\t%s\t%x", rel, name, sha1.Sum(b.Bytes())))
		}
	}
	sort.Strings(lines)
	for _, l := range lines {
		fmt.Println(l)
	}
}
