module verifextract

go 1.18
