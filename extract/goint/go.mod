module verifextract/goint

go 1.18
