// extract/goint: a small Go -> Lean translator for the machine-word integer core of
// py/int.go.  It REGENERATES lean/GPy/C07/Generated/IntCore.lean from the working tree, so that
// the theorems of lean/GPy/C07/GenProofs.lean are re-checked against what the code says now.
//
// Subset understood (anything else: exit 1 naming the function and the construct, which the check
// turns into a lost tie):
//   - functions/methods over Int (= int64), uint/uint64 shift counts, *big.Int temporaries, Object results
//   - statements: := / = / op= on locals, parallel :=, if / else (with the `b, ok := convertToInt(x); ok`
//     initialiser), goto + labelled tail blocks, return, x.Add/Sub/Mul/Neg/Lsh(...) on *big.Int temporaries,
//     `r, err := call` / `a, _, err := call` followed by returns that pass err on
//   - expressions: + - * / % & | ^ << >> unary - ^ !, comparisons, && ||, conversions Int() int64() uint() uint64(),
//     big.NewInt, (*BigInt)(x), (*BigInt)(x).MaybeInt(), NewBool, calls of other translated functions
//
// Go semantics used: int64 arithmetic wraps (wrap64), / and % truncate (Int.tdiv/Int.tmod), shifts by an unsigned
// count (goShl/goShr), math/big is exact.  A value returned together with a non-nil error is not translated
// (callers must not look at it): `return x, err` with err bound from a call becomes the error branch of a match.
//
// usage: goint <repo> <out.lean>
package main

import (
	"fmt"
	"go/ast"
	"go/parser"
	"go/token"
	"os"
	"path/filepath"
	"sort"
	"strings"
)

var mode = "int"

// source text of an expression without blanks (to recognise fixed constant idioms)
func srcOf(e ast.Expr) string {
	switch x := e.(type) {
	case *ast.BinaryExpr:
		return srcOf(x.X) + x.Op.String() + srcOf(x.Y)
	case *ast.UnaryExpr:
		return x.Op.String() + srcOf(x.X)
	case *ast.CallExpr:
		var as []string
		for _, a := range x.Args {
			as = append(as, srcOf(a))
		}
		return srcOf(x.Fun) + "(" + strings.Join(as, ",") + ")"
	case *ast.BasicLit:
		return x.Value
	case *ast.ParenExpr:
		return "(" + srcOf(x.X) + ")"
	}
	return exprStr(e)
}

func die(format string, a ...interface{}) {
	fmt.Fprintf(os.Stderr, "extract/goint: "+format+"\n", a...)
	os.Exit(1)
}

// functions of py/int.go that are translated (Lean name = Go name, methods prefixed Int_)
var targets = []string{
	"intAdd", "intSub", "intMul", "intLshift",
	"Int.M__neg__", "Int.M__pos__", "Int.M__abs__", "Int.M__invert__", "Int.divMod",
	"Int.M__add__", "Int.M__radd__", "Int.M__iadd__", "Int.M__sub__", "Int.M__rsub__", "Int.M__isub__",
	"Int.M__mul__", "Int.M__rmul__", "Int.M__imul__",
	"Int.M__divmod__", "Int.M__rdivmod__",
	"Int.M__floordiv__", "Int.M__rfloordiv__", "Int.M__ifloordiv__", "Int.M__mod__", "Int.M__rmod__", "Int.M__imod__",
	"Int.M__lshift__", "Int.M__rlshift__", "Int.M__ilshift__", "Int.M__rshift__", "Int.M__rrshift__", "Int.M__irshift__",
	"Int.M__and__", "Int.M__rand__", "Int.M__iand__", "Int.M__xor__", "Int.M__rxor__", "Int.M__ixor__",
	"Int.M__or__", "Int.M__ror__", "Int.M__ior__",
	"Int.M__bool__", "Int.M__int__",
	"Int.M__lt__", "Int.M__le__", "Int.M__eq__", "Int.M__ne__", "Int.M__gt__", "Int.M__ge__",
}

type kind int

const (
	kI     kind = iota // Int / int64 (Lean Int, in range by construction of the wrapping operators)
	kU                 // uint / uint64 shift count (Lean Nat)
	kB                 // *big.Int temporary (Lean Int, exact)
	kBO                // (*BigInt)(x): a big.Int seen as an Object
	kO                 // Object
	kBool              // bool
	kE                 // error value
	kNil               // nil
	kR1                // result of a call returning (Object, error): Res
	kR2                // result of a call returning (Object, Object, error)
	kRI                // (Int, error)
	kConst             // untyped integer constant
	kIdx               // slice mode: an index operand (Object) of the hand-written type Idx
	kSlice             // slice mode: the *Slice receiver
	kR4                // slice mode: (int, int, int, int, error)
)

type fn struct {
	name    string // Go name with receiver type
	lean    string
	decl    *ast.FuncDecl
	recv    string // receiver variable name ("" for plain functions)
	res     kind   // kO, kR1, kR2, kRI
	calls   map[string]bool
	named   []string // names of the value results when the results are named (bare return)
	errName string   // name of the error result when named
}

var fns = map[string]*fn{}

func leanName(goName string) string { return strings.Replace(goName, ".", "_", 1) }

func resultKind(fd *ast.FuncDecl, name string) kind {
	var ts []string
	if fd.Type.Results != nil {
		for _, f := range fd.Type.Results.List {
			n := len(f.Names)
			if n == 0 {
				n = 1
			}
			for i := 0; i < n; i++ {
				ts = append(ts, exprStr(f.Type))
			}
		}
	}
	switch strings.Join(ts, ",") {
	case "Object":
		return kO
	case "Object,error":
		return kR1
	case "Object,Object,error":
		return kR2
	case "Int,error", "int,error":
		return kRI
	case "int,int,int,int,error":
		return kR4
	}
	die("%s: result types (%s) not supported", name, strings.Join(ts, ","))
	return kO
}

func exprStr(e ast.Expr) string {
	switch x := e.(type) {
	case *ast.Ident:
		return x.Name
	case *ast.StarExpr:
		return "*" + exprStr(x.X)
	case *ast.SelectorExpr:
		return exprStr(x.X) + "." + x.Sel.Name
	case *ast.ParenExpr:
		return "(" + exprStr(x.X) + ")"
	}
	return fmt.Sprintf("%T", e)
}

// ---- translation state of one function ----

type env struct {
	f      *fn
	vars   map[string]kind
	errOf  map[string]string // error variable -> "nil" or the Lean name of the bound error
	labels map[string][]ast.Stmt
	depth  int
	join   []string // non-nil: the statement list is a branch that falls through; its value is the tuple of these variables
}

func (e *env) clone() *env {
	n := &env{f: e.f, vars: map[string]kind{}, errOf: map[string]string{}, labels: e.labels, depth: e.depth, join: e.join}
	for k, v := range e.vars {
		n.vars[k] = v
	}
	for k, v := range e.errOf {
		n.errOf[k] = v
	}
	return n
}

func (e *env) fail(n ast.Node, format string, a ...interface{}) {
	die("%s: %s (%T)", e.f.name, fmt.Sprintf(format, a...), n)
}

var errNames = map[string]string{"negativeShiftCount": "Err.value", "divisionByZero": "Err.zeroDiv"}

func paren(s string) string {
	if strings.ContainsAny(s, " ") && !(strings.HasPrefix(s, "(") && strings.HasSuffix(s, ")") && balanced(s[1:len(s)-1])) {
		return "(" + s + ")"
	}
	return s
}

func balanced(s string) bool {
	d := 0
	for _, c := range s {
		if c == '(' {
			d++
		} else if c == ')' {
			d--
			if d < 0 {
				return false
			}
		}
	}
	return d == 0
}

// expression -> (Lean term, kind)
func (e *env) expr(x ast.Expr) (string, kind) {
	switch v := x.(type) {
	case *ast.ParenExpr:
		return e.expr(v.X)
	case *ast.BasicLit:
		if v.Kind == token.INT {
			return v.Value, kConst
		}
	case *ast.Ident:
		switch v.Name {
		case "nil":
			return "nil", kNil
		case "IntMin", "IntMax", "sqrtIntMax":
			return v.Name, kI
		case "NotImplemented":
			return "Obj.notImpl", kO
		case "None":
			if mode == "slice" {
				return "Idx.none", kIdx
			}
		case "true", "false":
			return v.Name, kBool
		}
		if en, ok := errNames[v.Name]; ok {
			return en, kE
		}
		if k, ok := e.vars[v.Name]; ok {
			return v.Name, k
		}
		if _, ok := e.errOf[v.Name]; ok {
			return v.Name, kE
		}
		e.fail(x, "unknown identifier %s", v.Name)
	case *ast.UnaryExpr:
		s, k := e.expr(v.X)
		switch {
		case v.Op == token.SUB && (k == kI || k == kConst):
			if k == kConst {
				return "(-" + s + ")", kConst
			}
			return "wrap64 (-" + paren(s) + ")", kI
		case v.Op == token.XOR && k == kI:
			return "wrap64 (-" + paren(s) + " - 1)", kI
		case v.Op == token.NOT && k == kBool:
			return "!" + paren(s), kBool
		}
		e.fail(x, "unary %s on kind %d", v.Op, k)
	case *ast.BinaryExpr:
		l, lk := e.expr(v.X)
		r, rk := e.expr(v.Y)
		if lk == kBool && rk == kBool {
			switch v.Op {
			case token.LAND:
				return paren(l) + " && " + paren(r), kBool
			case token.LOR:
				return paren(l) + " || " + paren(r), kBool
			}
		}
		if lk == kIdx && rk == kIdx && (v.Op == token.EQL || v.Op == token.NEQ) {
			if v.Op == token.EQL {
				return "decide (" + l + " = " + r + ")", kBool
			}
			return "decide (" + l + " ≠ " + r + ")", kBool
		}
		if v.Op == token.SHL || v.Op == token.SHR {
			if (lk == kI) && rk == kU {
				if v.Op == token.SHL {
					return "goShl " + paren(l) + " " + paren(r), kI
				}
				return "goShr " + paren(l) + " " + paren(r), kI
			}
			e.fail(x, "shift with operand kinds %d,%d", lk, rk)
		}
		// comparisons of unsigned shift counts (with each other or with constants)
		if (lk == kU || rk == kU) && (lk == kU || lk == kConst) && (rk == kU || rk == kConst) {
			if op, ok := map[token.Token]string{token.LSS: "<", token.LEQ: "≤", token.GTR: ">", token.GEQ: "≥", token.EQL: "=", token.NEQ: "≠"}[v.Op]; ok {
				return "decide ((" + l + " : Nat) " + op + " (" + r + " : Nat))", kBool
			}
		}
		intish := func(k kind) bool { return k == kI || k == kConst }
		if intish(lk) && intish(rk) {
			res := kI
			if lk == kConst && rk == kConst {
				res = kConst
			}
			w := func(s string) (string, kind) {
				if res == kConst {
					return "(" + s + ")", kConst
				}
				return "wrap64 (" + s + ")", kI
			}
			switch v.Op {
			case token.ADD:
				return w(paren(l) + " + " + paren(r))
			case token.SUB:
				return w(paren(l) + " - " + paren(r))
			case token.MUL:
				return w(paren(l) + " * " + paren(r))
			case token.QUO:
				return w("Int.tdiv " + paren(l) + " " + paren(r))
			case token.REM:
				return "Int.tmod " + paren(l) + " " + paren(r), res
			case token.AND:
				return "and64 " + paren(l) + " " + paren(r), kI
			case token.OR:
				return "or64 " + paren(l) + " " + paren(r), kI
			case token.XOR:
				return "xor64 " + paren(l) + " " + paren(r), kI
			case token.LSS:
				return "decide (" + l + " < " + r + ")", kBool
			case token.LEQ:
				return "decide (" + l + " ≤ " + r + ")", kBool
			case token.GTR:
				return "decide (" + l + " > " + r + ")", kBool
			case token.GEQ:
				return "decide (" + l + " ≥ " + r + ")", kBool
			case token.EQL:
				return "decide (" + l + " = " + r + ")", kBool
			case token.NEQ:
				return "decide (" + l + " ≠ " + r + ")", kBool
			}
		}
		e.fail(x, "binary %s on kinds %d,%d", v.Op, lk, rk)
	case *ast.SelectorExpr:
		if id, ok := v.X.(*ast.Ident); ok && e.vars[id.Name] == kSlice {
			if f, ok := map[string]string{"Start": "start", "Stop": "stop", "Step": "step"}[v.Sel.Name]; ok {
				return id.Name + "." + f, kIdx
			}
		}
		e.fail(x, "selector %s", exprStr(v))
	case *ast.CallExpr:
		return e.call(v)
	}
	e.fail(x, "expression not supported")
	return "", kI
}

func (e *env) args(xs []ast.Expr) []string {
	var out []string
	for _, a := range xs {
		s, k := e.expr(a)
		switch k {
		case kI, kConst, kO, kU, kB, kIdx:
			out = append(out, paren(s))
		case kBO:
			out = append(out, "(Obj.big "+paren(s)+")")
		default:
			e.fail(a, "argument kind %d", k)
		}
	}
	return out
}

func (e *env) call(c *ast.CallExpr) (string, kind) {
	switch f := c.Fun.(type) {
	case *ast.Ident:
		switch f.Name {
		case "sliceIndex":
			if mode == "slice" && len(c.Args) == 1 {
				a, k := e.expr(c.Args[0])
				if k == kIdx {
					return "sliceIndex " + paren(a), kRI
				}
			}
			e.fail(c, "sliceIndex argument")
		case "Int", "int64", "int":
			if len(c.Args) == 1 {
				s, k := e.expr(c.Args[0])
				if k == kI || k == kConst {
					return s, kI
				}
			}
			e.fail(c, "conversion %s", f.Name)
		case "uint", "uint64":
			if len(c.Args) == 1 {
				s, k := e.expr(c.Args[0])
				if k == kI {
					return "toU64 " + paren(s), kU
				}
			}
			e.fail(c, "conversion %s", f.Name)
		case "NewBool":
			if len(c.Args) == 1 {
				s, k := e.expr(c.Args[0])
				if k == kBool {
					return "Obj.bool " + paren(s), kO
				}
			}
			e.fail(c, "NewBool")
		}
		if g, ok := fns[f.Name]; ok {
			e.f.calls[g.name] = true
			return strings.Join(append([]string{g.lean}, e.args(c.Args)...), " "), g.res
		}
		e.fail(c, "call of %s (not a translated function)", f.Name)
	case *ast.ParenExpr:
		// (*BigInt)(x)
		if st, ok := f.X.(*ast.StarExpr); ok && exprStr(st.X) == "BigInt" && len(c.Args) == 1 {
			s, k := e.expr(c.Args[0])
			if k == kB {
				return s, kBO
			}
		}
		e.fail(c, "conversion %s", exprStr(f))
	case *ast.SelectorExpr:
		if exprStr(f.X) == "big" && f.Sel.Name == "NewInt" && len(c.Args) == 1 {
			s, k := e.expr(c.Args[0])
			if k == kI || k == kConst {
				return s, kB
			}
			e.fail(c, "big.NewInt of kind %d", k)
		}
		rs, rk := e.expr(f.X)
		if rk == kBO && f.Sel.Name == "MaybeInt" && len(c.Args) == 0 {
			return "maybeInt " + paren(rs), kO
		}
		if rk == kI {
			if g, ok := fns["Int."+f.Sel.Name]; ok {
				e.f.calls[g.name] = true
				return strings.Join(append([]string{g.lean, paren(rs)}, e.args(c.Args)...), " "), g.res
			}
		}
		e.fail(c, "method call %s.%s on kind %d", exprStr(f.X), f.Sel.Name, rk)
	}
	e.fail(c, "call not supported")
	return "", kI
}

func (e *env) ind() string { return strings.Repeat("  ", e.depth+1) }

// value of kind k as an Obj
func (e *env) asObj(n ast.Node, s string, k kind) string {
	switch k {
	case kI, kConst:
		return "Obj.int " + paren(s)
	case kBO:
		return "Obj.big " + paren(s)
	case kO:
		return s
	}
	e.fail(n, "value of kind %d returned as Object", k)
	return ""
}

// statement list -> Lean term (the continuation is the rest of the list)
func (e *env) stmts(ss []ast.Stmt) string {
	if len(ss) == 0 {
		if e.join != nil {
			if len(e.join) == 1 {
				return e.ind() + e.join[0]
			}
			return e.ind() + "(" + strings.Join(e.join, ", ") + ")"
		}
		e.fail(e.f.decl, "control reaches the end of the function without return")
	}
	s, rest := ss[0], ss[1:]
	switch v := s.(type) {
	case *ast.LabeledStmt:
		return e.stmts(append([]ast.Stmt{v.Stmt}, rest...))
	case *ast.EmptyStmt:
		return e.stmts(rest)
	case *ast.BranchStmt:
		if v.Tok == token.GOTO {
			blk, ok := e.labels[v.Label.Name]
			if !ok {
				e.fail(v, "goto unknown label %s", v.Label.Name)
			}
			return e.stmts(blk)
		}
	case *ast.ReturnStmt:
		return e.ret(v)
	case *ast.ExprStmt:
		// x.Add(x, y) etc. on a *big.Int temporary
		if c, ok := v.X.(*ast.CallExpr); ok {
			if sel, ok := c.Fun.(*ast.SelectorExpr); ok {
				if id, ok := sel.X.(*ast.Ident); ok && e.vars[id.Name] == kB {
					val := e.bigOp(c, sel.Sel.Name)
					return e.ind() + "let " + id.Name + " : Int := " + val + "\n" + e.stmts(rest)
				}
			}
		}
	case *ast.DeclStmt:
		gd, ok := v.Decl.(*ast.GenDecl)
		if !ok {
			break
		}
		out := ""
		n := e.clone()
		for _, sp := range gd.Specs {
			vs, ok := sp.(*ast.ValueSpec)
			if !ok {
				e.fail(v, "declaration")
			}
			for i, name := range vs.Names {
				switch {
				case gd.Tok == token.VAR && len(vs.Values) == 0 && exprStr(vs.Type) == "int":
					out += e.ind() + "let " + name.Name + " : Int := 0\n"
				case gd.Tok == token.CONST && i < len(vs.Values) && srcOf(vs.Values[i]) == "int(^uint(0)>>1)":
					// the largest Go int (int is 64 bit on the platforms gpython's Int arithmetic assumes)
					out += e.ind() + "let " + name.Name + " : Int := 9223372036854775807\n"
				default:
					e.fail(v, "declaration of %s", name.Name)
				}
				n.vars[name.Name] = kI
			}
		}
		return out + n.stmts(rest)
	case *ast.IncDecStmt:
		one := &ast.BasicLit{Kind: token.INT, Value: "1"}
		op := token.ADD
		if v.Tok == token.DEC {
			op = token.SUB
		}
		return e.assign1(v.X, &ast.BinaryExpr{X: v.X, Op: op, Y: one}, rest, false)
	case *ast.AssignStmt:
		return e.assign(v, rest)
	case *ast.IfStmt:
		return e.ifStmt(v, rest)
	}
	e.fail(s, "statement not supported")
	return ""
}

func (e *env) bigOp(c *ast.CallExpr, name string) string {
	var as []string
	for _, a := range c.Args {
		s, k := e.expr(a)
		if k != kB && k != kU {
			e.fail(a, "big.Int.%s argument of kind %d", name, k)
		}
		as = append(as, paren(s))
	}
	switch {
	case name == "Add" && len(as) == 2:
		return as[0] + " + " + as[1]
	case name == "Sub" && len(as) == 2:
		return as[0] + " - " + as[1]
	case name == "Mul" && len(as) == 2:
		return as[0] + " * " + as[1]
	case name == "Neg" && len(as) == 1:
		return "-" + as[0]
	case name == "Lsh" && len(as) == 2:
		return as[0] + " * 2 ^ " + as[1]
	}
	e.fail(c, "big.Int.%s not supported", name)
	return ""
}

func (e *env) assign1(lhs ast.Expr, rhs ast.Expr, rest []ast.Stmt, define bool) string {
	id, ok := lhs.(*ast.Ident)
	if !ok {
		e.fail(lhs, "assignment target")
	}
	s, k := e.expr(rhs)
	if k == kConst {
		k = kI
	}
	if !define {
		if old, ok := e.vars[id.Name]; !ok || old != k {
			e.fail(lhs, "assignment changes the kind of %s", id.Name)
		}
	}
	ty := map[kind]string{kI: "Int", kU: "Nat", kB: "Int", kBool: "Bool", kO: "Obj"}[k]
	if ty == "" {
		e.fail(rhs, "local of kind %d", k)
	}
	n := e.clone()
	n.vars[id.Name] = k
	return e.ind() + "let " + id.Name + " : " + ty + " := " + s + "\n" + n.stmts(rest)
}

func (e *env) assign(v *ast.AssignStmt, rest []ast.Stmt) string {
	switch v.Tok {
	case token.ADD_ASSIGN, token.SUB_ASSIGN, token.MUL_ASSIGN:
		op := map[token.Token]token.Token{token.ADD_ASSIGN: token.ADD, token.SUB_ASSIGN: token.SUB, token.MUL_ASSIGN: token.MUL}[v.Tok]
		return e.assign1(v.Lhs[0], &ast.BinaryExpr{X: v.Lhs[0], Op: op, Y: v.Rhs[0]}, rest, false)
	case token.DEFINE, token.ASSIGN:
	default:
		e.fail(v, "assignment operator %s", v.Tok)
	}
	if len(v.Lhs) == 1 && len(v.Rhs) == 1 {
		if id, ok := v.Lhs[0].(*ast.Ident); ok {
			if _, isErr := e.errOf[id.Name]; isErr {
				if c, ok := v.Rhs[0].(*ast.CallExpr); ok && exprStr(c.Fun) == "ExceptionNewf" && len(c.Args) >= 1 {
					if en, ok := map[string]string{"ValueError": "Err.value", "TypeError": "Err.type", "IndexError": "Err.index", "OverflowError": "Err.overflow"}[exprStr(c.Args[0])]; ok {
						n := e.clone()
						n.errOf[id.Name] = en
						return n.stmts(rest)
					}
				}
				e.fail(v, "assignment to the error result")
			}
		}
	}
	if len(v.Lhs) == len(v.Rhs) {
		if len(v.Lhs) == 1 {
			return e.assign1(v.Lhs[0], v.Rhs[0], rest, v.Tok == token.DEFINE)
		}
		// parallel assignment: evaluate all right sides first
		out := ""
		n := e.clone()
		var tmps []string
		for i, r := range v.Rhs {
			s, k := e.expr(r)
			if k == kConst {
				k = kI
			}
			if k != kI && k != kBool && k != kU && k != kB {
				e.fail(r, "parallel assignment of kind %d", k)
			}
			t := fmt.Sprintf("t%d_", i)
			tmps = append(tmps, t)
			out += e.ind() + "let " + t + " := " + s + "\n"
			id, ok := v.Lhs[i].(*ast.Ident)
			if !ok {
				e.fail(v.Lhs[i], "assignment target")
			}
			n.vars[id.Name] = k
		}
		for i, l := range v.Lhs {
			out += e.ind() + "let " + l.(*ast.Ident).Name + " := " + tmps[i] + "\n"
		}
		return out + n.stmts(rest)
	}
	// x, err := call   |   x, y, err := call   (blank identifiers allowed)
	if len(v.Rhs) == 1 {
		s, k := e.expr(v.Rhs[0])
		want := map[kind]int{kR1: 2, kR2: 3, kRI: 2}[k]
		if want == len(v.Lhs) {
			var names []string
			for _, l := range v.Lhs {
				names = append(names, l.(*ast.Ident).Name)
			}
			errv := names[len(names)-1]
			okE, erE := e.clone(), e.clone()
			okE.depth++
			erE.depth++
			valKind := kO
			if k == kRI {
				valKind = kI
			}
			var pat []string
			for _, n := range names[:len(names)-1] {
				pat = append(pat, n)
				if n != "_" {
					okE.vars[n] = valKind
					delete(erE.vars, n)
				}
			}
			if errv != "_" {
				okE.errOf[errv] = "nil"
				erE.errOf[errv] = "e_"
			}
			p := pat[0]
			if len(pat) == 2 {
				p = "(" + pat[0] + ", " + pat[1] + ")"
			}
			return e.ind() + "match " + s + " with\n" +
				e.ind() + "| .error e_ =>\n" + erE.stmts(rest) + "\n" +
				e.ind() + "| .ok " + p + " =>\n" + okE.stmts(rest)
		}
	}
	e.fail(v, "assignment shape")
	return ""
}

// does control leave the statement list other than by falling off its end (return / goto), or does it bind an error?
func escapes(ss []ast.Stmt) bool {
	esc := false
	for _, s := range ss {
		ast.Inspect(s, func(n ast.Node) bool {
			switch x := n.(type) {
			case *ast.ReturnStmt, *ast.BranchStmt, *ast.LabeledStmt:
				esc = true
			case *ast.AssignStmt:
				if len(x.Lhs) != len(x.Rhs) {
					esc = true
				}
				for _, r := range x.Rhs {
					if c, ok := r.(*ast.CallExpr); ok && exprStr(c.Fun) == "ExceptionNewf" {
						esc = true
					}
				}
			case *ast.IfStmt:
				if x.Init != nil {
					esc = true
				}
			}
			return !esc
		})
	}
	return esc
}

// outer variables assigned (not defined) in the statement list, in order of first assignment
func (e *env) assigned(ss []ast.Stmt) []string {
	var out []string
	seen := map[string]bool{}
	defined := map[string]bool{}
	add := func(x ast.Expr) {
		if id, ok := x.(*ast.Ident); ok && !seen[id.Name] && !defined[id.Name] {
			if _, ok := e.vars[id.Name]; ok {
				seen[id.Name] = true
				out = append(out, id.Name)
			}
		}
	}
	for _, s := range ss {
		ast.Inspect(s, func(n ast.Node) bool {
			switch x := n.(type) {
			case *ast.AssignStmt:
				for _, l := range x.Lhs {
					if x.Tok == token.DEFINE {
						if id, ok := l.(*ast.Ident); ok {
							defined[id.Name] = true
						}
					} else {
						add(l)
					}
				}
			case *ast.IncDecStmt:
				add(x.X)
			}
			return true
		})
	}
	return out
}

func (e *env) ifStmt(v *ast.IfStmt, rest []ast.Stmt) string {
	if v.Init == nil {
		var elseL []ast.Stmt
		okShape := true
		switch b := v.Else.(type) {
		case nil:
		case *ast.BlockStmt:
			elseL = b.List
		case *ast.IfStmt:
			elseL = []ast.Stmt{b}
		default:
			okShape = false
		}
		staticErr := false
		if be, ok := v.Cond.(*ast.BinaryExpr); ok {
			if id, ok := be.X.(*ast.Ident); ok {
				_, staticErr = e.errOf[id.Name]
			}
		}
		if okShape && !staticErr && !escapes(v.Body.List) && !escapes(elseL) {
			// both branches fall through: the if is a VALUE (the variables it assigns), the rest is translated once
			vs := e.assigned(append(append([]ast.Stmt{}, v.Body.List...), elseL...))
			if len(vs) > 0 {
				c, k := e.expr(v.Cond)
				if k != kBool {
					e.fail(v.Cond, "condition of kind %d", k)
				}
				tE, eE := e.clone(), e.clone()
				tE.depth++
				eE.depth++
				tE.join, eE.join = vs, vs
				val := "if " + c + " then\n" + tE.stmts(v.Body.List) + "\n" + e.ind() + "else\n" + eE.stmts(elseL)
				if len(vs) == 1 {
					return e.ind() + "let " + vs[0] + " := " + val + "\n" + e.stmts(rest)
				}
				out := e.ind() + "let j_ := " + val + "\n"
				for i, n := range vs {
					proj := "j_"
					for k := 0; k < i; k++ {
						proj += ".2"
					}
					if i < len(vs)-1 {
						proj += ".1"
					}
					out += e.ind() + "let " + n + " := " + proj + "\n"
				}
				return out + e.stmts(rest)
			}
		}
	}
	thenE, elseE := e.clone(), e.clone()
	thenE.depth++
	elseE.depth++
	var elseStmts []ast.Stmt
	switch b := v.Else.(type) {
	case nil:
	case *ast.BlockStmt:
		elseStmts = b.List
	case *ast.IfStmt:
		elseStmts = []ast.Stmt{b}
	default:
		e.fail(v, "else shape")
	}
	thenS := append(append([]ast.Stmt{}, v.Body.List...), rest...)
	elseS := append(append([]ast.Stmt{}, elseStmts...), rest...)
	if v.Init != nil {
		// b, ok := convertToInt(other); ok
		as, ok := v.Init.(*ast.AssignStmt)
		if ok && len(as.Lhs) == 2 && len(as.Rhs) == 1 {
			if c, ok := as.Rhs[0].(*ast.CallExpr); ok && exprStr(c.Fun) == "convertToInt" && len(c.Args) == 1 {
				okName := as.Lhs[1].(*ast.Ident).Name
				if cond, ok := v.Cond.(*ast.Ident); ok && cond.Name == okName {
					arg, k := e.expr(c.Args[0])
					if k != kO && k != kI {
						e.fail(c, "convertToInt of kind %d", k)
					}
					if k == kI {
						arg = "Obj.int " + paren(arg)
					}
					b := as.Lhs[0].(*ast.Ident).Name
					thenE.vars[b] = kI
					return e.ind() + "match convertToInt " + paren(arg) + " with\n" +
						e.ind() + "| some " + b + " =>\n" + thenE.stmts(thenS) + "\n" +
						e.ind() + "| none =>\n" + elseE.stmts(elseS)
				}
			}
		}
		e.fail(v, "if-initialiser shape")
	}
	if be, ok := v.Cond.(*ast.BinaryExpr); ok && v.Init == nil && (be.Op == token.NEQ || be.Op == token.EQL) {
		if id, ok := be.X.(*ast.Ident); ok && exprStr(be.Y) == "nil" {
			if st, isErr := e.errOf[id.Name]; isErr {
				// the error variable is statically nil / non-nil on this path
				isSet := st != "nil"
				if (be.Op == token.NEQ) == isSet {
					thenE.depth--
					return thenE.stmts(thenS)
				}
				elseE.depth--
				return elseE.stmts(elseS)
			}
		}
	}
	c, k := e.expr(v.Cond)
	if k != kBool {
		e.fail(v.Cond, "condition of kind %d", k)
	}
	return e.ind() + "if " + c + " then\n" + thenE.stmts(thenS) + "\n" + e.ind() + "else\n" + elseE.stmts(elseS)
}

func (e *env) ret(v *ast.ReturnStmt) string {
	rs := v.Results
	if len(rs) == 0 && len(e.f.named) > 0 {
		if st := e.errOf[e.f.errName]; st != "nil" {
			return e.ind() + ".error " + st
		}
		var vals []string
		for _, n := range e.f.named {
			if e.vars[n] != kI {
				e.fail(v, "named result %s of kind %d", n, e.vars[n])
			}
			vals = append(vals, n)
		}
		return e.ind() + ".ok (" + strings.Join(vals, ", ") + ")"
	}
	switch e.f.res {
	case kO:
		if len(rs) == 1 {
			s, k := e.expr(rs[0])
			return e.ind() + e.asObj(rs[0], s, k)
		}
	case kR1, kR2, kRI:
		if len(rs) == 1 { // return f(...)
			s, k := e.expr(rs[0])
			if k == e.f.res {
				return e.ind() + s
			}
			e.fail(v, "return of a call of kind %d from a function of kind %d", k, e.f.res)
		}
		last := rs[len(rs)-1]
		ls, lk := e.expr(last)
		isErr := false
		errTerm := ""
		switch lk {
		case kNil:
		case kE:
			if id, ok := last.(*ast.Ident); ok {
				if st, bound := e.errOf[id.Name]; bound {
					if st != "nil" {
						isErr, errTerm = true, st
					}
					break
				}
			}
			isErr, errTerm = true, ls
		default:
			e.fail(last, "error result of kind %d", lk)
		}
		if isErr {
			return e.ind() + ".error " + errTerm
		}
		var vals []string
		for _, r := range rs[:len(rs)-1] {
			s, k := e.expr(r)
			if e.f.res == kRI {
				if k != kI && k != kConst {
					e.fail(r, "Int result of kind %d", k)
				}
				vals = append(vals, s)
			} else {
				vals = append(vals, e.asObj(r, s, k))
			}
		}
		if len(vals) == 1 {
			return e.ind() + ".ok (" + vals[0] + ")"
		}
		return e.ind() + ".ok (" + strings.Join(vals, ", ") + ")"
	}
	e.fail(v, "return shape")
	return ""
}

func translate(f *fn) string {
	e := &env{f: f, vars: map[string]kind{}, errOf: map[string]string{}, labels: map[string][]ast.Stmt{}}
	var params []string
	if f.recv != "" {
		if mode == "slice" {
			e.vars[f.recv] = kSlice
			params = append(params, "("+f.recv+" : Slice)")
		} else {
			e.vars[f.recv] = kI
			params = append(params, "("+f.recv+" : Int)")
		}
	}
	for _, p := range f.decl.Type.Params.List {
		t := exprStr(p.Type)
		k, ty := kI, "Int"
		switch t {
		case "Int", "int":
		case "Object":
			k, ty = kO, "Obj"
		default:
			die("%s: parameter type %s not supported", f.name, t)
		}
		for _, n := range p.Names {
			e.vars[n.Name] = k
			params = append(params, "("+n.Name+" : "+ty+")")
		}
	}
	body := f.decl.Body.List
	for i, s := range body {
		if l, ok := s.(*ast.LabeledStmt); ok {
			e.labels[l.Label.Name] = append([]ast.Stmt{l.Stmt}, body[i+1:]...)
		}
	}
	rt := map[kind]string{kO: "Obj", kR1: "Res", kR2: "Except Err (Obj × Obj)", kRI: "Except Err Int", kR4: "Except Err (Int × Int × Int × Int)"}[f.res]
	pre := ""
	if f.decl.Type.Results != nil {
		for _, r := range f.decl.Type.Results.List {
			for _, n := range r.Names {
				if exprStr(r.Type) == "error" {
					f.errName = n.Name
					e.errOf[n.Name] = "nil"
				} else {
					f.named = append(f.named, n.Name)
					e.vars[n.Name] = kI
					pre += "  let " + n.Name + " : Int := 0\n"
				}
			}
		}
	}
	return "def " + f.lean + " " + strings.Join(params, " ") + " : " + rt + " :=\n" + pre + e.stmts(body) + "\n"
}

func main() {
	if len(os.Args) == 4 && os.Args[1] == "slice" {
		mode = "slice"
		os.Args = append(os.Args[:1], os.Args[2:]...)
		targets = []string{"Slice.GetIndices"}
	}
	if len(os.Args) != 3 {
		die("usage: goint [slice] <repo> <out.lean>")
	}
	repo, out := os.Args[1], os.Args[2]
	srcFile, recvType, ns, imp := "int.go", "Int", "GPy.C07", "GPy.C07.Model"
	if mode == "slice" {
		srcFile, recvType, ns, imp = "slice.go", "*Slice", "GPy.C13", "GPy.C13.Model"
	}
	fset := token.NewFileSet()
	file, err := parser.ParseFile(fset, filepath.Join(repo, "py", srcFile), nil, 0)
	if err != nil {
		die("cannot parse py/%s: %v", srcFile, err)
	}
	want := map[string]bool{}
	for _, t := range targets {
		want[t] = true
	}
	for _, d := range file.Decls {
		fd, ok := d.(*ast.FuncDecl)
		if !ok || fd.Body == nil {
			continue
		}
		name, recv := fd.Name.Name, ""
		if fd.Recv != nil && len(fd.Recv.List) == 1 {
			if exprStr(fd.Recv.List[0].Type) != recvType {
				continue
			}
			name = strings.TrimPrefix(recvType, "*") + "." + name
			if len(fd.Recv.List[0].Names) == 1 {
				recv = fd.Recv.List[0].Names[0].Name
			}
		}
		if want[name] {
			fns[name] = &fn{name: name, lean: leanName(name), decl: fd, recv: recv, res: resultKind(fd, name), calls: map[string]bool{}}
		}
	}
	for _, t := range targets {
		if fns[t] == nil {
			die("function %s not found in py/%s (renamed or removed?)", t, srcFile)
		}
	}
	// the constants the translation relies on
	consts := map[string]string{}
	for _, d := range file.Decls {
		if gd, ok := d.(*ast.GenDecl); ok && gd.Tok == token.CONST {
			for _, sp := range gd.Specs {
				vs := sp.(*ast.ValueSpec)
				for i, n := range vs.Names {
					if i < len(vs.Values) {
						consts[n.Name] = exprStr(vs.Values[i])
						if b, ok := vs.Values[i].(*ast.BasicLit); ok {
							consts[n.Name] = b.Value
						}
					}
				}
			}
		}
	}
	bodies := map[string]string{}
	for _, t := range targets {
		bodies[t] = translate(fns[t])
	}
	// definitions in dependency order
	var order []string
	state := map[string]int{}
	var visit func(string)
	visit = func(n string) {
		if state[n] == 2 {
			return
		}
		if state[n] == 1 {
			die("%s: recursion among translated functions", n)
		}
		state[n] = 1
		var cs []string
		for c := range fns[n].calls {
			cs = append(cs, c)
		}
		sort.Strings(cs)
		for _, c := range cs {
			visit(c)
		}
		state[n] = 2
		order = append(order, n)
	}
	for _, t := range targets {
		visit(t)
	}
	var sb strings.Builder
	sb.WriteString("/- GENERATED by extract/goint from py/" + srcFile + " of the working tree - do not edit.\n   One Lean definition per translated Go function; Go semantics as stated in extract/goint/main.go. -/\n")
	sb.WriteString("import " + imp + "\nnamespace " + ns + ".Gen\nopen GPy " + ns + "\n\n")
	if mode == "int" {
		sb.WriteString("/-- Go `uint64(x)` of an int64 -/\ndef toU64 (x : Int) : Nat := (x % 18446744073709551616).toNat\n\n")
		sb.WriteString(fmt.Sprintf("/-- constants of py/int.go as written in the source: IntMax = %s, IntMin = %s, sqrtIntMax = %s -/\n", consts["IntMax"], consts["IntMin"], consts["sqrtIntMax"]))
		sb.WriteString(fmt.Sprintf("def constsAsInSource : List (String × String) := [(\"IntMax\", %q), (\"IntMin\", %q), (\"sqrtIntMax\", %q)]\n\n", consts["IntMax"], consts["IntMin"], consts["sqrtIntMax"]))
	}
	for _, n := range order {
		sb.WriteString("/-- `" + n + "` (py/" + srcFile + ") -/\n" + bodies[n] + "\n")
	}
	sb.WriteString("def translated : List String := [" + func() string {
		var q []string
		for _, n := range order {
			q = append(q, fmt.Sprintf("%q", n))
		}
		return strings.Join(q, ", ")
	}() + "]\n\nend " + ns + ".Gen\n")
	if err := os.MkdirAll(filepath.Dir(out), 0o755); err != nil {
		die("%v", err)
	}
	if err := os.WriteFile(out, []byte(sb.String()), 0o644); err != nil {
		die("%v", err)
	}
}
