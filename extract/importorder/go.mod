module verifimportorder

go 1.18
