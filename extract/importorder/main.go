// importorder: regenerates lean/GPy/C19/Generated.lean from the tree under verification.
//
// It reads (go/ast, no type information needed)
//
//	py/module.go      (*ModuleStore).NewModule      – where `store.modules[name] = m` happens
//	stdlib/stdlib.go  (*context).ModuleInit         – order of NewModule(...) and ctx.RunCode(...)
//	py/run.go         RunCode                       – the createNew path calls ctx.ModuleInit
//	py/import.go      ImportModuleLevelObject       – store lookup first; per branch: ModuleInit / RunCode, then
//	                                                  removeModule in the `err != nil` branch
//
// and emits, per entry point, the effects on the module store in source order with the calls inlined:
// register (store.modules[name] = m), runCode (ctx.RunCode of the module's code), unregister
// (removeModule in the error branch).  Unknown shapes make it fail (exit 2): the check reports a lost tie.
package main

import (
	"flag"
	"fmt"
	"go/ast"
	"go/parser"
	"go/token"
	"os"
	"path/filepath"
	"sort"
	"strings"
)

func die(format string, a ...interface{}) {
	fmt.Fprintf(os.Stderr, "importorder: "+format+"\n", a...)
	os.Exit(2)
}

func findFunc(fset *token.FileSet, path, recv, name string) *ast.FuncDecl {
	f, err := parser.ParseFile(fset, path, nil, 0)
	if err != nil {
		die("cannot parse %s: %v", path, err)
	}
	var found *ast.FuncDecl
	for _, d := range f.Decls {
		fd, ok := d.(*ast.FuncDecl)
		if !ok || fd.Name.Name != name || fd.Body == nil {
			continue
		}
		r := ""
		if fd.Recv != nil && len(fd.Recv.List) == 1 {
			t := fd.Recv.List[0].Type
			if s, ok := t.(*ast.StarExpr); ok {
				t = s.X
			}
			if id, ok := t.(*ast.Ident); ok {
				r = id.Name
			}
		}
		if r == recv {
			if found != nil {
				die("%s: two declarations of %s", path, name)
			}
			found = fd
		}
	}
	if found == nil {
		die("%s: func %s (receiver %q) not found", path, name, recv)
	}
	return found
}

// callName returns the called function's last selector / identifier
func callName(c *ast.CallExpr) string {
	switch f := c.Fun.(type) {
	case *ast.Ident:
		return f.Name
	case *ast.SelectorExpr:
		return f.Sel.Name
	}
	return ""
}

func isErrNotNil(e ast.Expr) bool {
	b, ok := e.(*ast.BinaryExpr)
	if !ok || b.Op != token.NEQ {
		return false
	}
	x, ok1 := b.X.(*ast.Ident)
	y, ok2 := b.Y.(*ast.Ident)
	return ok1 && ok2 && x.Name == "err" && y.Name == "nil"
}

// isStoreRegister: store.modules[<x>] = <y>
func isStoreRegister(s ast.Stmt) bool {
	a, ok := s.(*ast.AssignStmt)
	if !ok || a.Tok != token.ASSIGN || len(a.Lhs) != 1 {
		return false
	}
	ix, ok := a.Lhs[0].(*ast.IndexExpr)
	if !ok {
		return false
	}
	sel, ok := ix.X.(*ast.SelectorExpr)
	return ok && sel.Sel.Name == "modules"
}

// effects walks node in source order; inline maps a callee name to its effects
func effects(node ast.Node, inline map[string][]string, where string) []string {
	var out []string
	var errStack []bool // are we inside an `if err != nil` body?
	var walk func(n ast.Node)
	walk = func(n ast.Node) {
		if n == nil {
			return
		}
		switch x := n.(type) {
		case *ast.FuncLit:
			return // closures are not executed here
		case *ast.IfStmt:
			if x.Init != nil {
				walk(x.Init)
			}
			walk(x.Cond)
			errStack = append(errStack, isErrNotNil(x.Cond))
			walk(x.Body)
			errStack = errStack[:len(errStack)-1]
			if x.Else != nil {
				walk(x.Else)
			}
			return
		case *ast.TypeSwitchStmt:
			// RunCode: the `case *Module` clause runs code in an EXISTING module (not the import path)
			if x.Init != nil {
				walk(x.Init)
			}
			walk(x.Assign)
			for _, cl := range x.Body.List {
				cc := cl.(*ast.CaseClause)
				existing := false
				for _, t := range cc.List {
					if st, ok := t.(*ast.StarExpr); ok {
						if id, ok := st.X.(*ast.Ident); ok && id.Name == "Module" {
							existing = true
						}
					}
				}
				if existing {
					continue
				}
				for _, s := range cc.Body {
					walk(s)
				}
			}
			return
		case *ast.AssignStmt:
			for _, r := range x.Rhs {
				walk(r)
			}
			if isStoreRegister(x) {
				if len(errStack) > 0 {
					die("%s: store registration inside a conditional: unknown shape", where)
				}
				out = append(out, "register")
			}
			return
		case *ast.CallExpr:
			for _, a := range x.Args {
				walk(a)
			}
			name := callName(x)
			switch {
			case name == "removeModule":
				inErr := false
				for _, b := range errStack {
					inErr = inErr || b
				}
				if !inErr {
					die("%s: removeModule outside an `if err != nil` branch: unknown shape", where)
				}
				out = append(out, "unregister")
			case name == "RunCode" && func() bool { _, isSel := x.Fun.(*ast.SelectorExpr); return isSel }():
				// ctx.RunCode(code, globals, locals, closure): the module's code runs
				if _, ok := inline["ctx.RunCode"]; ok {
					out = append(out, inline["ctx.RunCode"]...)
				} else {
					out = append(out, "runCode")
				}
			default:
				if eff, ok := inline[name]; ok {
					out = append(out, eff...)
				}
			}
			return
		}
		// generic traversal in source order
		ast.Inspect(n, func(c ast.Node) bool {
			if c == n || c == nil {
				return true
			}
			walk(c)
			return false
		})
	}
	walk(node)
	return out
}

// ---- what the import path reads and writes (round 3) ----
//
// importReads lists, for every function reachable by name from ImportModuleLevelObject inside
// py/import.go, py/module.go, py/run.go and stdlib/stdlib.go:
//   - every field of the structs declared in those files that is selected (X.f, not a method call),
//   - every package-level variable of those files that is mentioned,
//   - every string-literal key a map is indexed with ("path", "__file__", ...),
//   - every function of package os that is called (the file system / working directory).
//
// The list is pinned in Lean against the components of the model's state: a new cache consulted by
// the import path shows up as a new entry.
func importReads(repo string) []string {
	fset := token.NewFileSet()
	files := []string{"py/import.go", "py/module.go", "py/run.go", "stdlib/stdlib.go"}
	type fn struct {
		recv, name string
		body       *ast.BlockStmt
	}
	var fns []fn
	fieldOwners := map[string][]string{} // field name -> structs declaring it
	pkgVars := map[string]string{}       // variable name -> package dir
	for _, rel := range files {
		f, err := parser.ParseFile(fset, filepath.Join(repo, rel), nil, 0)
		if err != nil {
			die("cannot parse %s: %v", rel, err)
		}
		pkg := filepath.Dir(rel)
		for _, d := range f.Decls {
			switch x := d.(type) {
			case *ast.FuncDecl:
				if x.Body == nil {
					continue
				}
				r := ""
				if x.Recv != nil && len(x.Recv.List) == 1 {
					t := x.Recv.List[0].Type
					if s, ok := t.(*ast.StarExpr); ok {
						t = s.X
					}
					if id, ok := t.(*ast.Ident); ok {
						r = id.Name
					}
				}
				fns = append(fns, fn{r, x.Name.Name, x.Body})
			case *ast.GenDecl:
				for _, sp := range x.Specs {
					switch y := sp.(type) {
					case *ast.TypeSpec:
						if st, ok := y.Type.(*ast.StructType); ok {
							for _, fl := range st.Fields.List {
								for _, n := range fl.Names {
									fieldOwners[n.Name] = append(fieldOwners[n.Name], y.Name.Name)
								}
							}
						}
					case *ast.ValueSpec:
						if x.Tok == token.VAR {
							for _, n := range y.Names {
								pkgVars[n.Name] = pkg
							}
						}
					}
				}
			}
		}
	}
	// closure of callee names starting at ImportModuleLevelObject
	byName := map[string][]fn{}
	for _, f := range fns {
		byName[f.name] = append(byName[f.name], f)
	}
	onPath := map[string]bool{}
	work := []string{"ImportModuleLevelObject"}
	for len(work) > 0 {
		n := work[len(work)-1]
		work = work[:len(work)-1]
		if onPath[n] {
			continue
		}
		if _, ok := byName[n]; !ok {
			continue
		}
		onPath[n] = true
		for _, f := range byName[n] {
			ast.Inspect(f.body, func(c ast.Node) bool {
				if call, ok := c.(*ast.CallExpr); ok {
					if cn := callName(call); cn != "" && !onPath[cn] {
						work = append(work, cn)
					}
				}
				return true
			})
		}
	}
	set := map[string]bool{}
	for n := range onPath {
		for _, f := range byName[n] {
			calls := map[ast.Expr]bool{}
			ast.Inspect(f.body, func(c ast.Node) bool {
				switch x := c.(type) {
				case *ast.CallExpr:
					calls[x.Fun] = true
					if sel, ok := x.Fun.(*ast.SelectorExpr); ok {
						if id, ok := sel.X.(*ast.Ident); ok && id.Name == "os" {
							set["os."+sel.Sel.Name] = true
						}
					}
				case *ast.SelectorExpr:
					if calls[x] {
						return true
					}
					if owners, ok := fieldOwners[x.Sel.Name]; ok {
						o := append([]string{}, owners...)
						sort.Strings(o)
						set[strings.Join(o, "|")+"."+x.Sel.Name] = true
					}
				case *ast.Ident:
					if p, ok := pkgVars[x.Name]; ok && x.Obj != nil && x.Obj.Kind == ast.Var {
						if _, isSpec := x.Obj.Decl.(*ast.ValueSpec); isSpec {
							set["var:"+p+"."+x.Name] = true
						}
					}
				case *ast.IndexExpr:
					if lit, ok := x.Index.(*ast.BasicLit); ok && lit.Kind == token.STRING {
						set["key:"+strings.Trim(lit.Value, "\"")] = true
					}
				}
				return true
			})
		}
	}
	// the functions themselves, so that the reader of the evidence sees what was walked
	names := []string{}
	for n := range onPath {
		names = append(names, n)
	}
	sort.Strings(names)
	fmt.Printf("importPath=%v\n", names)
	out := []string{}
	for k := range set {
		out = append(out, k)
	}
	sort.Strings(out)
	return out
}

func leanList(e []string) string {
	p := make([]string, len(e))
	for i, x := range e {
		p[i] = "." + x
	}
	return "[" + strings.Join(p, ", ") + "]"
}

func main() {
	repo := flag.String("repo", "/repo", "gpython tree")
	out := flag.String("out", "", "Generated.lean to write")
	flag.Parse()
	if *out == "" {
		die("-out required")
	}
	fset := token.NewFileSet()

	newModule := findFunc(fset, filepath.Join(*repo, "py", "module.go"), "ModuleStore", "NewModule")
	effNew := effects(newModule.Body, map[string][]string{}, "NewModule")
	nreg := 0
	for _, e := range effNew {
		if e == "register" {
			nreg++
		}
	}
	if nreg != 1 {
		die("NewModule: expected exactly one `store.modules[name] = m`, got %v", effNew)
	}

	moduleInit := findFunc(fset, filepath.Join(*repo, "stdlib", "stdlib.go"), "context", "ModuleInit")
	effInit := effects(moduleInit.Body, map[string][]string{"NewModule": effNew}, "ModuleInit")
	if len(effInit) == 0 {
		die("ModuleInit: no effects found")
	}

	runCode := findFunc(fset, filepath.Join(*repo, "py", "run.go"), "", "RunCode")
	effRun := effects(runCode.Body, map[string][]string{"ModuleInit": effInit, "ctx.RunCode": {}}, "RunCode")

	imp := findFunc(fset, filepath.Join(*repo, "py", "import.go"), "", "ImportModuleLevelObject")
	// shape: [level check]; if module, err := ctx.GetModule(name); err == nil { return module, nil };
	//        if impl := GetModuleImpl(name); impl != nil { ... }; rest
	idxLookup, idxGo := -1, -1
	for i, s := range imp.Body.List {
		ifs, ok := s.(*ast.IfStmt)
		if !ok || ifs.Init == nil {
			continue
		}
		as, ok := ifs.Init.(*ast.AssignStmt)
		if !ok || len(as.Rhs) != 1 {
			continue
		}
		c, ok := as.Rhs[0].(*ast.CallExpr)
		if !ok {
			continue
		}
		switch callName(c) {
		case "GetModule":
			b, ok := ifs.Cond.(*ast.BinaryExpr)
			if !ok || b.Op != token.EQL || len(ifs.Body.List) != 1 {
				die("ImportModuleLevelObject: store lookup has an unknown shape")
			}
			if _, ok := ifs.Body.List[0].(*ast.ReturnStmt); !ok {
				die("ImportModuleLevelObject: a store hit does not return at once")
			}
			if idxLookup >= 0 {
				die("ImportModuleLevelObject: two store lookups")
			}
			idxLookup = i
		case "GetModuleImpl":
			if idxGo >= 0 {
				die("ImportModuleLevelObject: two registry lookups")
			}
			idxGo = i
		}
	}
	if idxLookup < 0 || idxGo < 0 || idxLookup > idxGo {
		die("ImportModuleLevelObject: expected the store lookup (GetModule) before the registry lookup (GetModuleImpl); got positions %d, %d", idxLookup, idxGo)
	}
	for _, s := range imp.Body.List[:idxLookup] {
		if e := effects(s, map[string][]string{"ModuleInit": effInit, "RunCode": effRun, "NewModule": effNew}, "ImportModuleLevelObject"); len(e) != 0 {
			die("ImportModuleLevelObject: store effects %v before the store lookup", e)
		}
	}
	inl := map[string][]string{"ModuleInit": effInit, "RunCode": effRun, "NewModule": effNew}
	effGo := effects(imp.Body.List[idxGo].(*ast.IfStmt).Body, inl, "ImportModuleLevelObject(go)")
	var effFile []string
	for _, s := range imp.Body.List[idxGo+1:] {
		effFile = append(effFile, effects(s, inl, "ImportModuleLevelObject(file)")...)
	}

	var b strings.Builder
	b.WriteString("-- GENERATED by verif/extract/importorder from py/module.go, stdlib/stdlib.go, py/run.go, py/import.go of the tree under verification.  Do not edit.\n")
	b.WriteString("import GPy.C19.Model\nnamespace GPy.C19.Generated\n\n")
	b.WriteString("/-- effects on the module store in source order (calls inlined) -/\n")
	b.WriteString("def orders : Orders where\n")
	b.WriteString("  moduleInit := " + leanList(effInit) + "\n")
	b.WriteString("  importGo := " + leanList(effGo) + "\n")
	b.WriteString("  importFile := " + leanList(effFile) + "\n")
	reads := importReads(*repo)
	q := make([]string, len(reads))
	for i, r := range reads {
		q[i] = fmt.Sprintf("%q", r)
	}
	b.WriteString("\n/-- every struct field / package-level variable / literal map key / os call on the import path\n(functions reachable by name from ImportModuleLevelObject in py/import.go, py/module.go, py/run.go, stdlib/stdlib.go) -/\n")
	b.WriteString("def importReads : List String :=\n  [" + strings.Join(q, ",\n   ") + "]\n")
	b.WriteString("\nend GPy.C19.Generated\n")
	old, _ := os.ReadFile(*out)
	if string(old) != b.String() {
		if err := os.WriteFile(*out, []byte(b.String()), 0o644); err != nil {
			die("write %s: %v", *out, err)
		}
	}
	fmt.Printf("moduleInit=%v importGo=%v importFile=%v\n", effInit, effGo, effFile)
	fmt.Printf("importReads=%s\n", strings.Join(reads, " "))
}
