module itersites

go 1.18
