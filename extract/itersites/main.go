// itersites: lists every call of py.Next / Next in vm/, py/, stdlib/builtin/ of the
// gpython tree together with the syntactic form of the test applied to the error it
// returns, and writes the table as lean/GPy/C05/Generated.lean.
//
//	itersites <repo> <out.lean>
package main

import (
	"bytes"
	"fmt"
	"go/ast"
	"go/parser"
	"go/printer"
	"go/token"
	"os"
	"path/filepath"
	"sort"
	"strings"
)

type site struct {
	file, fn string
	ord      int
	line     int
	kind     string
	form     string
}

func text(fset *token.FileSet, n ast.Node) string {
	var b bytes.Buffer
	printer.Fprint(&b, fset, n)
	return strings.Join(strings.Fields(b.String()), " ")
}

func isNextCall(e ast.Expr) bool {
	c, ok := e.(*ast.CallExpr)
	if !ok || len(c.Args) != 1 {
		return false
	}
	switch f := c.Fun.(type) {
	case *ast.Ident:
		return f.Name == "Next"
	case *ast.SelectorExpr:
		if x, ok := f.X.(*ast.Ident); ok {
			return x.Name == "py" && f.Sel.Name == "Next"
		}
	}
	return false
}

// isDerivedCall reports calls of the helpers that loop over py.Next themselves
// (py.Iterate and what is built on it): a consumer that uses one of them is faithful
// exactly when it hands the helper's error on to its caller.
func isDerivedCall(e ast.Expr) (string, bool) {
	c, ok := e.(*ast.CallExpr)
	if !ok {
		return "", false
	}
	names := map[string]bool{"Iterate": true, "SequenceList": true, "SequenceTuple": true, "SequenceSet": true}
	switch f := c.Fun.(type) {
	case *ast.Ident:
		if names[f.Name] {
			return f.Name, true
		}
	case *ast.SelectorExpr:
		if x, ok := f.X.(*ast.Ident); ok && x.Name == "py" && names[f.Sel.Name] {
			return f.Sel.Name, true
		}
		if f.Sel.Name == "ExtendSequence" {
			return "ExtendSequence", true
		}
	}
	return "", false
}

// classifyDerived: what the caller does with the error of a derived helper
func classifyDerived(fset *token.FileSet, path []ast.Node) (string, string) {
	n := len(path)
	if n < 2 {
		return "ignored", "?"
	}
	switch p := path[n-2].(type) {
	case *ast.ReturnStmt:
		return "forward", text(fset, p)
	case *ast.ExprStmt:
		return "ignored", "result dropped"
	case *ast.AssignStmt:
		id, ok := p.Lhs[len(p.Lhs)-1].(*ast.Ident)
		if !ok || id.Name == "_" {
			return "ignored", "error assigned to _"
		}
		v := id.Name
		if n >= 3 {
			if is, ok := path[n-3].(*ast.IfStmt); ok && is.Init == ast.Stmt(p) {
				ct := text(fset, is.Cond)
				if strings.Contains(ct, v+" != nil") && returnsVar(is.Body, v) {
					return "forward", ct
				}
				return "anyError", ct
			}
		}
		k, form := classify(fset, append([]ast.Node(nil), path[:n-1]...), v)
		if k == "anyError" && n >= 3 {
			// `if err == nil { err = loopErr }; return found, err`: the error is returned further down
			if blk, ok := path[n-3].(*ast.BlockStmt); ok {
				after := false
				for _, st := range blk.List {
					if st == ast.Stmt(p) {
						after = true
						continue
					}
					if r, ok := st.(*ast.ReturnStmt); ok && after && len(r.Results) > 0 {
						if id, ok := r.Results[len(r.Results)-1].(*ast.Ident); ok && id.Name == v {
							return "forward", form + " ... " + text(fset, r)
						}
					}
				}
			}
		}
		return k, form
	}
	return "ignored", "call nested in an expression"
}

func mentions(fset *token.FileSet, n ast.Node, v string) bool {
	found := false
	ast.Inspect(n, func(m ast.Node) bool {
		if id, ok := m.(*ast.Ident); ok && id.Name == v {
			found = true
		}
		return !found
	})
	return found
}

func returnsVar(n ast.Node, v string) bool {
	found := false
	ast.Inspect(n, func(m ast.Node) bool {
		if r, ok := m.(*ast.ReturnStmt); ok && len(r.Results) > 0 {
			if id, ok := r.Results[len(r.Results)-1].(*ast.Ident); ok && id.Name == v {
				found = true
			}
		}
		return !found
	})
	return found
}

// assigns reports whether statement s (at block level) assigns variable v
func assigns(s ast.Stmt, v string) bool {
	as, ok := s.(*ast.AssignStmt)
	if !ok {
		return false
	}
	for _, l := range as.Lhs {
		if id, ok := l.(*ast.Ident); ok && id.Name == v {
			return true
		}
	}
	return false
}

// classify looks at the statements that follow the call in its own block (up to the
// next assignment of the error variable); when that block is the body of a `for`
// whose condition mentions the variable, also at that condition and at what follows the loop.
func classify(fset *token.FileSet, path []ast.Node, v string) (string, string) {
	if v == "_" || v == "" {
		return "ignored", ""
	}
	rank := map[string]int{"ignored": 0, "anyError": 1, "forward": 2, "identity": 3, "isException": 4}
	best, form := "ignored", ""
	consider := func(k, f string) {
		if rank[k] > rank[best] {
			best, form = k, f
		}
	}
	test := func(cond ast.Expr, blk ast.Node) {
		if cond == nil || !mentions(fset, cond, v) {
			return
		}
		ct := text(fset, cond)
		bt := text(fset, blk)
		isExc1 := "IsException(StopIteration, " + v + ")"
		isExc2 := "py.IsException(py.StopIteration, " + v + ")"
		switch {
		case strings.Contains(ct, isExc1) || strings.Contains(ct, isExc2) || strings.Contains(bt, isExc1) || strings.Contains(bt, isExc2):
			consider("isException", ct)
		case strings.Contains(ct, v+" == StopIteration") || strings.Contains(ct, v+" != StopIteration") ||
			strings.Contains(ct, v+" == py.StopIteration") || strings.Contains(ct, v+" != py.StopIteration"):
			consider("identity", ct)
		case strings.Contains(ct, v+" != nil") && returnsVar(blk, v):
			consider("forward", ct)
		case strings.Contains(ct, v+" != nil") || strings.Contains(ct, v+" == nil"):
			consider("anyError", ct)
		}
	}
	scan := func(stmts []ast.Stmt) {
		for _, st := range stmts {
			if assigns(st, v) {
				return
			}
			switch s := st.(type) {
			case *ast.IfStmt:
				test(s.Cond, s)
			case *ast.ForStmt:
				test(s.Cond, s.Cond)
			}
		}
	}
	// path: ancestors from the function body down to the assignment
	for i := len(path) - 1; i > 0; i-- {
		var list []ast.Stmt
		switch b := path[i-1].(type) {
		case *ast.BlockStmt:
			list = b.List
		case *ast.CaseClause:
			list = b.Body
		default:
			continue
		}
		idx := -1
		for k, st := range list {
			if st == path[i] {
				idx = k
			}
		}
		if idx < 0 {
			continue
		}
		scan(list[idx+1:])
		// continue outwards only through a `for` whose condition mentions v
		if i >= 2 {
			if f, ok := path[i-2].(*ast.ForStmt); ok && f.Body == path[i-1] && f.Cond != nil && mentions(fset, f.Cond, v) {
				test(f.Cond, f.Cond)
				i-- // next round looks at the block containing the for statement
				continue
			}
		}
		// no test in this block (the call sits in a branch of an if/else): look at what follows the enclosing statement
		if best != "ignored" {
			break
		}
	}
	return best, form
}

// ---- construction sites of exception values (C05 round 3) ----

// functions whose exception construction sites are listed: everything in py/generator.go, the
// instructions of vm/eval.go that make / read the StopIteration of a finishing generator, and
// the helpers of py/exception.go they call
var excScope = map[string]func(fn string) bool{
	"py/generator.go": func(string) bool { return true },
	"vm/eval.go": func(fn string) bool {
		switch fn {
		case "do_YIELD_FROM", "Vm.throwYieldFrom", "stopIterationValue", "do_END_FINALLY", "do_RETURN_VALUE", "do_YIELD_VALUE", "Vm.raise", "Vm.SetException":
			return true
		}
		return false
	},
	"py/exception.go": func(fn string) bool {
		switch fn {
		case "exceptionNew", "ExceptionNew", "ExceptionNewf", "MakeException", "Exception.M__getattr__":
			return true
		}
		return false
	},
}

// predicates / consumers of exceptions: not constructors
var excNotCtor = map[string]bool{"IsException": true, "ExceptionClassCheck": true, "ExceptionGivenMatches": true,
	"SetException": true, "CheckException": true, "CheckExceptionRecover": true, "UnwindExceptHandler": true}

type excSite struct {
	file, fn string
	ord      int
	line     int
	ctor     string // ExcCtor constructor name
	form     string // normalised text of the expression
}

func calleeName(c *ast.CallExpr) string {
	switch f := c.Fun.(type) {
	case *ast.Ident:
		return f.Name
	case *ast.SelectorExpr:
		return f.Sel.Name
	}
	return ""
}

func isTuple1(e ast.Expr) bool {
	cl, ok := e.(*ast.CompositeLit)
	if !ok || len(cl.Elts) != 1 {
		return false
	}
	switch t := cl.Type.(type) {
	case *ast.Ident:
		return t.Name == "Tuple"
	case *ast.SelectorExpr:
		return t.Sel.Name == "Tuple"
	}
	return false
}

func isIdentNamed(e ast.Expr, names map[string]bool) bool {
	switch t := e.(type) {
	case *ast.Ident:
		return names[t.Name]
	case *ast.SelectorExpr:
		if x, ok := t.X.(*ast.Ident); ok && x.Name == "py" {
			return names[t.Sel.Name]
		}
	}
	return false
}

// excSitesOf lists the construction sites of one function body in source order
func excSitesOf(fset *token.FileSet, rel, name string, body *ast.BlockStmt, classNames map[string]bool) []excSite {
	var out []excSite
	add := func(n ast.Node, ctor string) {
		out = append(out, excSite{rel, name, len(out), fset.Position(n.Pos()).Line, ctor, text(fset, n)})
	}
	ast.Inspect(body, func(n ast.Node) bool {
		switch x := n.(type) {
		case *ast.CallExpr:
			cn := calleeName(x)
			low := strings.ToLower(cn)
			switch {
			case cn == "exceptionNew" && len(x.Args) == 2:
				switch {
				case isTuple1(x.Args[1]):
					add(x, "newTuple1")
				case text(fset, x.Args[1]) == "nil":
					add(x, "newNil")
				default:
					if _, ok := x.Args[1].(*ast.Ident); ok {
						add(x, "newArgs")
					} else {
						add(x, "other")
					}
				}
			case cn == "ExceptionNewf":
				add(x, "newf")
				return false // the format arguments are not sites
			case cn == "resume" && len(x.Args) == 2:
				if id, ok := x.Args[1].(*ast.Ident); ok && id.Name != "nil" {
					add(x, "passExc")
				}
			case cn == "stopIterationValue":
				add(x, "readValue")
			case cn == "MakeException":
				add(x, "makeExc")
			case excNotCtor[cn]:
			case strings.Contains(low, "exception") || strings.Contains(low, "excinfo") || strings.HasPrefix(low, "exc"):
				add(x, "other")
			}
		case *ast.CompositeLit:
			t := text(fset, x.Type)
			if t == "Exception" || t == "py.Exception" || t == "ExceptionInfo" || t == "py.ExceptionInfo" {
				add(x, "literal")
			}
		case *ast.ReturnStmt:
			if len(x.Results) > 0 {
				last := x.Results[len(x.Results)-1]
				if isIdentNamed(last, classNames) {
					add(x, "bareType")
				} else if name == "stopIterationValue" || name == "Exception.M__getattr__" {
					for _, r := range x.Results {
						if ix, ok := r.(*ast.IndexExpr); ok {
							if text(fset, ix.Index) == "0" {
								add(x, "readArg0")
							} else {
								add(x, "other")
							}
						}
					}
				}
			}
		}
		return true
	})
	return out
}

// exception class variables of py/exception.go: `X = Base.NewType("X", …)` / `NewType(…)`
func excClassNames(repo string) map[string]bool {
	names := map[string]bool{}
	fset := token.NewFileSet()
	f, err := parser.ParseFile(fset, filepath.Join(repo, "py", "exception.go"), nil, 0)
	if err != nil {
		return names
	}
	ast.Inspect(f, func(n ast.Node) bool {
		vs, ok := n.(*ast.ValueSpec)
		if !ok {
			return true
		}
		for i, v := range vs.Values {
			if c, ok := v.(*ast.CallExpr); ok && i < len(vs.Names) {
				if cn := calleeName(c); cn == "NewType" || cn == "NewTypeX" {
					names[vs.Names[i].Name] = true
				}
			}
		}
		return true
	})
	return names
}

func main() {
	if len(os.Args) != 3 {
		fmt.Fprintln(os.Stderr, "usage: itersites <repo> <out.lean>")
		os.Exit(2)
	}
	repo, out := os.Args[1], os.Args[2]
	var sites, derived []site
	var excs []excSite
	classNames := excClassNames(repo)
	for _, dir := range []string{"vm", "py", "stdlib/builtin"} {
		files, _ := filepath.Glob(filepath.Join(repo, dir, "*.go"))
		sort.Strings(files)
		for _, path := range files {
			if strings.HasSuffix(path, "_test.go") {
				continue
			}
			fset := token.NewFileSet()
			f, err := parser.ParseFile(fset, path, nil, 0)
			if err != nil {
				fmt.Fprintln(os.Stderr, "itersites: cannot parse", path, err)
				os.Exit(1)
			}
			rel, _ := filepath.Rel(repo, path)
			for _, d := range f.Decls {
				fd, ok := d.(*ast.FuncDecl)
				if !ok || fd.Body == nil {
					continue
				}
				name := fd.Name.Name
				if fd.Recv != nil && len(fd.Recv.List) == 1 {
					t := text(fset, fd.Recv.List[0].Type)
					name = strings.TrimPrefix(t, "*") + "." + name
				}
				if in, ok := excScope[filepath.ToSlash(rel)]; ok && in(name) {
					excs = append(excs, excSitesOf(fset, filepath.ToSlash(rel), name, fd.Body, classNames)...)
				}
				ord, dord := 0, 0
				var path []ast.Node
				ast.Inspect(fd.Body, func(n ast.Node) bool {
					if n == nil {
						path = path[:len(path)-1]
						return true
					}
					path = append(path, n)
					if ce, ok := n.(*ast.CallExpr); ok {
						if callee, ok := isDerivedCall(ce); ok {
							k, form := classifyDerived(fset, append([]ast.Node(nil), path...))
							derived = append(derived, site{rel, name + ":" + callee, dord, fset.Position(n.Pos()).Line, k, form})
							dord++
						}
					}
					if es, ok := n.(*ast.ExprStmt); ok && isNextCall(es.X) {
						sites = append(sites, site{rel, name, ord, fset.Position(n.Pos()).Line, "ignored", ""})
						ord++
						return true
					}
					as, ok := n.(*ast.AssignStmt)
					if !ok || len(as.Rhs) != 1 || !isNextCall(as.Rhs[0]) {
						return true
					}
					v := "_"
					if len(as.Lhs) == 2 {
						if id, ok := as.Lhs[1].(*ast.Ident); ok {
							v = id.Name
						}
					}
					k, form := classify(fset, append([]ast.Node(nil), path...), v)
					sites = append(sites, site{rel, name, ord, fset.Position(as.Pos()).Line, k, form})
					ord++
					return true
				})
			}
		}
	}
	var b strings.Builder
	b.WriteString("-- REGENERATED by verif/extract/itersites from the Go sources of the tree under verification; do not edit.\n")
	b.WriteString("-- One row per call of py.Next/Next in vm/, py/, stdlib/builtin/: file, function, ordinal of the call in the\n")
	b.WriteString("-- function, and the syntactic form of the test applied to the error it returns.\n")
	b.WriteString("import GPy.C05.Kinds\nnamespace GPy.C05.Generated\nopen GPy.C05\n\n")
	ident := func(s site) string {
		r := strings.NewReplacer("/", "_", ".go", "", ".", "_", "-", "_")
		return fmt.Sprintf("k_%s_%s_%d", r.Replace(s.file), r.Replace(s.fn), s.ord)
	}
	for _, s := range sites {
		fmt.Fprintf(&b, "/-- %s:%d `%s`  test: `%s` -/\ndef %s : TestKind := .%s\n", s.file, s.line, s.fn, s.form, ident(s), s.kind)
	}
	b.WriteString("\ndef sites : List Site := [\n")
	for i, s := range sites {
		sep := ","
		if i == len(sites)-1 {
			sep = ""
		}
		fmt.Fprintf(&b, "  ⟨%q, %q, %d, %s⟩%s\n", s.file, s.fn, s.ord, ident(s), sep)
	}
	b.WriteString("]\n\n/-- every call of py.Iterate / SequenceList / SequenceTuple / SequenceSet / List.ExtendSequence (the helpers that\nloop over py.Next themselves) with what the caller does with the error the helper returns -/\ndef derivedSites : List Site := [\n")
	for i, s := range derived {
		sep := ","
		if i == len(derived)-1 {
			sep = ""
		}
		fmt.Fprintf(&b, "  ⟨%q, %q, %d, .%s⟩%s  -- line %d: %s\n", s.file, s.fn, s.ord, s.kind, sep, s.line, s.form)
	}
	b.WriteString("]\n\n/-- every construction site of an exception value in py/generator.go, in the generator instructions of vm/eval.go\n(do_YIELD_FROM, throwYieldFrom, stopIterationValue, END_FINALLY, RETURN_VALUE, YIELD_VALUE, raise, SetException) and in the\nhelpers of py/exception.go they call: function, ordinal in source order, constructor used, text of the expression -/\ndef excSites : List ExcSite := [\n")
	for i, s := range excs {
		sep := ","
		if i == len(excs)-1 {
			sep = ""
		}
		fmt.Fprintf(&b, "  ⟨%q, %q, %d, .%s, %q⟩%s  -- line %d\n", s.file, s.fn, s.ord, s.ctor, s.form, sep, s.line)
	}
	b.WriteString("]\n\nend GPy.C05.Generated\n")
	old, _ := os.ReadFile(out)
	if string(old) != b.String() {
		if err := os.WriteFile(out, []byte(b.String()), 0o644); err != nil {
			fmt.Fprintln(os.Stderr, err)
			os.Exit(1)
		}
	}
	fmt.Printf("itersites: %d sites\n", len(sites))
	for _, s := range sites {
		fmt.Printf("SITE %s %s %d %s\n", s.file, s.fn, s.ord, s.kind)
	}
	for _, s := range excs {
		fmt.Printf("EXCSITE %s %s %d %s\n", s.file, s.fn, s.ord, s.ctor)
	}
	for _, s := range derived {
		fmt.Printf("DERIVED %s %s %d %s\n", s.file, s.fn, s.ord, s.kind)
	}
}
