module veriflifecycle

go 1.18
