// lifecycle extractor (C09 tie): regenerates lean/GPy/C09/Generated.lean from
// <repo>/stdlib/stdlib.go.  It turns the bodies of pushBusy, popBusy and Close into the
// ordered list of atomic actions of GPy.C09.Instr and the prologue/epilogue of RunCode,
// ModuleInit, ResolveAndCompile into GPy.C09.EAct lists.  Any statement shape it does
// not understand, any lifecycle field touched elsewhere, or a shared-state access
// without its H1 yield point is a hard error (exit 3: tie lost).
// Understood wait shapes: the loop `for ctx.running > 0 { …Wait()… }` (brPos … jmpBack) and the
// single conditional wait `if ctx.running > 0 { …Wait()… }` (brPos without jmpBack).
//
// usage: lifecycle -repo <dir> -out <Generated.lean> [-facts <json>] [-allow-missing-yields]
package main

import (
	"bytes"
	"crypto/sha1"
	"encoding/json"
	"flag"
	"fmt"
	"go/ast"
	"go/parser"
	"go/printer"
	"go/token"
	"os"
	"path/filepath"
	"sort"
	"strings"
)

var fset = token.NewFileSet()
var allowMissing bool

func die(pos token.Pos, f string, a ...interface{}) {
	fmt.Fprintf(os.Stderr, "lifecycle extractor: %s: %s\n", fset.Position(pos), fmt.Sprintf(f, a...))
	os.Exit(3)
}

func src(n ast.Node) string {
	var b bytes.Buffer
	printer.Fprint(&b, fset, n)
	return b.String()
}

// the yield-point suffix every action must be announced with
var yieldOf = map[string]string{
	".lock": "lock", ".unlock": "unlock", ".brClosed": "load-closed", ".incRunning": "inc-running",
	".decRunning": "dec-running", ".brZero": "load-running", ".brPos": "load-running", ".broadcast": "broadcast",
	".condWait": "wait", ".storeClosing": "store-closing", ".storeClosed": "store-closed", ".callbacks": "callbacks",
	".closeDone": "close-done", ".onceDo": "once-enter", ".onceEnd": "once-exit",
	".wgAdd": "wg-add", ".wgDone": "wg-done", ".wgWait": "wg-wait",
}

type tr struct {
	fn      string
	pending string // yield announced and not yet consumed
	pendPos token.Pos
	yields  []string
}

func (t *tr) consume(pos token.Pos, act string) {
	want := t.fn + "." + yieldOf[act]
	if t.pending == "" {
		if allowMissing {
			return
		}
		die(pos, "shared-state access %s has no verifYield(%q) in front of it", act, want)
	}
	if t.pending != want {
		die(pos, "access %s is announced as %q, expected %q", act, t.pending, want)
	}
	t.yields = append(t.yields, t.pending)
	t.pending = ""
}

func isYield(s ast.Stmt) (string, bool) {
	es, ok := s.(*ast.ExprStmt)
	if !ok {
		return "", false
	}
	c, ok := es.X.(*ast.CallExpr)
	if !ok {
		return "", false
	}
	id, ok := c.Fun.(*ast.Ident)
	if !ok || id.Name != "verifYield" || len(c.Args) != 1 {
		return "", false
	}
	lit, ok := c.Args[0].(*ast.BasicLit)
	if !ok {
		return "", false
	}
	return strings.Trim(lit.Value, "\""), true
}

// stmts translates a statement list; `tail` is the yield name that must be pending at the
// end of the block ("" = none may be pending).
func (t *tr) stmts(list []ast.Stmt, tail string) []string {
	var out []string
	for _, s := range list {
		if y, ok := isYield(s); ok {
			if t.pending != "" {
				die(s.Pos(), "two yield points in a row (%q then %q)", t.pending, y)
			}
			t.pending, t.pendPos = y, s.Pos()
			continue
		}
		out = append(out, t.stmt(s)...)
	}
	if tail != "" {
		if t.pending == "" && !allowMissing {
			die(list[len(list)-1].End(), "block must end with verifYield(%q)", t.fn+"."+tail)
		}
		if t.pending != "" && t.pending != t.fn+"."+tail {
			die(t.pendPos, "block ends with yield %q, expected %q", t.pending, t.fn+"."+tail)
		}
		if t.pending != "" {
			t.yields = append(t.yields, t.pending)
		}
		t.pending = ""
	} else if t.pending != "" {
		die(t.pendPos, "yield point %q is not followed by a shared-state access", t.pending)
	}
	return out
}

// stmtsOptTail is stmts for a block that MAY end with the yield point `tail` (reported in the result)
func (t *tr) stmtsOptTail(list []ast.Stmt, tail string) ([]string, bool) {
	if len(list) > 0 {
		if y, ok := isYield(list[len(list)-1]); ok && y == t.fn+"."+tail {
			return t.stmts(list, tail), true
		}
	}
	return t.stmts(list, ""), false
}

func (t *tr) stmt(s ast.Stmt) []string {
	text := src(s)
	simple := map[string]string{
		"ctx.mu.Lock()": ".lock", "ctx.mu.Unlock()": ".unlock", "ctx.running++": ".incRunning", "ctx.running--": ".decRunning",
		"ctx.idle.Broadcast()": ".broadcast", "ctx.idle.Wait()": ".condWait", "ctx.closing = true": ".storeClosing",
		"ctx.closed = true": ".storeClosed", "ctx.store.OnContextClosed()": ".callbacks", "close(ctx.done)": ".closeDone",
		"ctx.running.Add(1)": ".wgAdd", "ctx.running.Done()": ".wgDone", "ctx.running.Wait()": ".wgWait",
	}
	if a, ok := simple[text]; ok {
		t.consume(s.Pos(), a)
		return []string{a}
	}
	switch x := s.(type) {
	case *ast.IfStmt:
		if x.Init != nil || x.Else != nil {
			die(s.Pos(), "if with init/else not understood: %s", text)
		}
		var act string
		switch src(x.Cond) {
		case "ctx.closed":
			act = ".brClosed"
		case "ctx.running == 0":
			act = ".brZero"
		case "ctx.running > 0":
			// a single conditional wait, `if ctx.running > 0 { …Wait()… }`: the same test as the loop
			// head but WITHOUT the backward jump (no re-check after the wake-up).  A body that still
			// ends with the loop's re-test announcement verifYield("<fn>.load-running") keeps that
			// yield point as `.brPos 0`: running is announced as loaded, nothing depends on the value.
			act = ".brPos"
		default:
			die(s.Pos(), "condition not understood: %s", src(x.Cond))
		}
		t.consume(s.Pos(), act)
		var inner []string
		if act == ".brPos" {
			var tail bool
			inner, tail = t.stmtsOptTail(x.Body.List, "load-running")
			if tail {
				inner = append(inner, ".brPos 0")
			}
		} else {
			inner = t.stmts(x.Body.List, "")
		}
		return append([]string{fmt.Sprintf("%s %d", act, len(inner))}, inner...)
	case *ast.ForStmt:
		if x.Init != nil || x.Post != nil || x.Cond == nil || src(x.Cond) != "ctx.running > 0" {
			die(s.Pos(), "loop not understood: %s", text)
		}
		t.consume(s.Pos(), ".brPos")
		inner := t.stmts(x.Body.List, "load-running") // the re-test is announced at the end of the body
		n := len(inner) + 1
		out := append([]string{fmt.Sprintf(".brPos %d", n)}, inner...)
		return append(out, fmt.Sprintf(".jmpBack %d", n))
	case *ast.ExprStmt:
		if c, ok := x.X.(*ast.CallExpr); ok && src(c.Fun) == "ctx.closeOnce.Do" && len(c.Args) == 1 {
			fl, ok := c.Args[0].(*ast.FuncLit)
			if !ok {
				die(s.Pos(), "closeOnce.Do argument is not a function literal")
			}
			t.consume(s.Pos(), ".onceDo")
			inner := t.stmts(fl.Body.List, "once-exit")
			n := len(inner) + 1
			out := append([]string{fmt.Sprintf(".onceDo %d", n)}, inner...)
			return append(out, ".onceEnd")
		}
	case *ast.ReturnStmt:
		if t.pending != "" {
			die(s.Pos(), "yield point %q before a return", t.pending)
		}
		switch {
		case len(x.Results) == 0:
			return []string{".ret none 0"}
		case len(x.Results) == 1 && src(x.Results[0]) == "nil":
			return []string{".ret (some false) 0"}
		case len(x.Results) == 1 && strings.HasPrefix(src(x.Results[0]), "py.ExceptionNewf("):
			return []string{".ret (some true) 0"}
		}
	}
	die(s.Pos(), "statement shape not understood: %s", text)
	return nil
}

// mentions reports whether the subtree mentions ctx.<name> for one of the names
func mentions(n ast.Node, names map[string]bool) (found string) {
	ast.Inspect(n, func(m ast.Node) bool {
		if se, ok := m.(*ast.SelectorExpr); ok {
			if id, ok := se.X.(*ast.Ident); ok && id.Name == "ctx" && names[se.Sel.Name] {
				found = se.Sel.Name
			}
		}
		return found == ""
	})
	return
}

var lifecycleNames = map[string]bool{"closed": true, "closing": true, "running": true, "mu": true, "idle": true,
	"closeOnce": true, "done": true, "pushBusy": true, "popBusy": true, "Close": true, "Done": true,
	"RunCode": true, "ModuleInit": true, "ResolveAndCompile": true}

func isErrReturn(s ast.Stmt) bool {
	x, ok := s.(*ast.IfStmt)
	if !ok || x.Init != nil || x.Else != nil || src(x.Cond) != "err != nil" || len(x.Body.List) != 1 {
		return false
	}
	r, ok := x.Body.List[0].(*ast.ReturnStmt)
	return ok && len(r.Results) >= 1 && src(r.Results[len(r.Results)-1]) == "err"
}

func entry(fd *ast.FuncDecl) []string {
	var out []string
	add := func(a string) {
		if a == ".work" && len(out) > 0 && out[len(out)-1] == ".work" {
			return
		}
		out = append(out, a)
	}
	list := fd.Body.List
	for i := 0; i < len(list); i++ {
		s := list[i]
		text := src(s)
		switch {
		case text == "err := ctx.pushBusy()":
			add(".pushBusy")
		case text == "defer ctx.popBusy()":
			add(".deferPopBusy")
		case isErrReturn(s) && len(out) > 0 && (out[len(out)-1] == ".pushBusy" || (out[len(out)-1] == ".deferPopBusy" && len(out) > 1 && out[len(out)-2] == ".pushBusy")):
			add(".ifErrReturn")
		default:
			m := mentions(s, lifecycleNames)
			switch m {
			case "":
				if r, ok := s.(*ast.ReturnStmt); ok && i == len(list)-1 {
					// final return: `return vm.EvalCode(...)` is the Python body, another call is work, `return x, nil` is nothing
					for _, e := range r.Results {
						if c, ok := e.(*ast.CallExpr); ok {
							if src(c.Fun) == "vm.EvalCode" {
								add(".body")
							} else {
								add(".work")
							}
						}
					}
					continue
				}
				if strings.Contains(text, "vm.EvalCode(") {
					die(s.Pos(), "vm.EvalCode call in a shape not understood: %s", text)
				}
				add(".work")
			case "RunCode":
				// shape: [if cond {] _, err = ctx.RunCode(...); if err != nil { return …, err } [}]
				inner := []ast.Stmt{s}
				if x, ok := s.(*ast.IfStmt); ok && x.Else == nil && mentions(x.Cond, lifecycleNames) == "" {
					inner = x.Body.List
				}
				if len(inner) != 2 || !strings.Contains(src(inner[0]), "err = ctx.RunCode(") || !isErrReturn(inner[1]) {
					die(s.Pos(), "nested RunCode call shape not understood: %s", text)
				}
				add(".callRunCode")
				add(".ifErrReturn")
			default:
				die(s.Pos(), "%s touches lifecycle state ctx.%s in a shape not understood: %s", fd.Name.Name, m, text)
			}
		}
	}
	return out
}

func leanList(xs []string) string { return "[" + strings.Join(xs, ", ") + "]" }

func main() {
	repo := flag.String("repo", "/repo", "gpython tree")
	out := flag.String("out", "", "Generated.lean to (re)write")
	facts := flag.String("facts", "", "facts json to write")
	flag.BoolVar(&allowMissing, "allow-missing-yields", false, "accept a tree without the H1 hook calls")
	flag.Parse()
	dir := filepath.Join(*repo, "stdlib")
	pkgs, err := parser.ParseDir(fset, dir, func(fi os.FileInfo) bool { return !strings.HasSuffix(fi.Name(), "_test.go") }, parser.ParseComments)
	if err != nil {
		fmt.Fprintln(os.Stderr, "lifecycle extractor:", err)
		os.Exit(3)
	}
	fns := map[string]*ast.FuncDecl{}
	allowedIn := map[string]map[string]bool{ // which function may mention which private lifecycle name
		"NewContext": {"idle": true, "mu": true, "done": true, "closed": true, "closing": true},
		"pushBusy":   {"mu": true, "closed": true, "running": true},
		"popBusy":    {"mu": true, "running": true, "idle": true},
		"Close":      {"mu": true, "closed": true, "closing": true, "running": true, "idle": true, "closeOnce": true, "done": true},
		"Done":       {"done": true},
		"ModuleInit": {"pushBusy": true, "popBusy": true, "RunCode": true}, "RunCode": {"pushBusy": true, "popBusy": true},
		"ResolveAndCompile": {"pushBusy": true, "popBusy": true},
	}
	private := map[string]bool{"closed": true, "closing": true, "running": true, "mu": true, "idle": true, "closeOnce": true, "done": true, "pushBusy": true, "popBusy": true}
	for _, pkg := range pkgs {
		var names []string
		for n := range pkg.Files {
			names = append(names, n)
		}
		sort.Strings(names)
		for _, n := range names {
			for _, d := range pkg.Files[n].Decls {
				fd, ok := d.(*ast.FuncDecl)
				if !ok || fd.Body == nil {
					continue
				}
				onCtx := fd.Recv != nil && len(fd.Recv.List) == 1 && src(fd.Recv.List[0].Type) == "*context"
				if onCtx {
					fns[fd.Name.Name] = fd
				}
				// private lifecycle state may only be touched where the model knows about it
				ast.Inspect(fd.Body, func(m ast.Node) bool {
					if se, ok := m.(*ast.SelectorExpr); ok {
						if id, ok := se.X.(*ast.Ident); ok && id.Name == "ctx" && private[se.Sel.Name] {
							if !(onCtx || fd.Name.Name == "NewContext") || !allowedIn[fd.Name.Name][se.Sel.Name] {
								die(se.Pos(), "lifecycle state ctx.%s is touched in %s, which the model does not cover", se.Sel.Name, fd.Name.Name)
							}
						}
					}
					return true
				})
			}
		}
	}
	for _, need := range []string{"pushBusy", "popBusy", "Close", "Done", "RunCode", "ModuleInit", "ResolveAndCompile"} {
		if fns[need] == nil {
			fmt.Fprintf(os.Stderr, "lifecycle extractor: method (*context).%s not found\n", need)
			os.Exit(3)
		}
	}
	if strings.TrimSpace(src(fns["Done"].Body)) != "{\n\treturn ctx.done\n}" {
		die(fns["Done"].Pos(), "Done() is no longer `return ctx.done`")
	}
	var allYields []string
	body := func(name string) []string {
		t := &tr{fn: name}
		r := t.stmts(fns[name].Body.List, "")
		allYields = append(allYields, t.yields...)
		return r
	}
	push, pop, cl := body("pushBusy"), body("popBusy"), body("Close")
	var b bytes.Buffer
	fmt.Fprintf(&b, "-- GENERATED by verif/extract/lifecycle from stdlib/stdlib.go of the tree under verification.  Do not edit.\n")
	fmt.Fprintf(&b, "import GPy.C09.Model\nnamespace GPy.C09.Generated\n\n")
	fmt.Fprintf(&b, "/-- atomic actions of pushBusy / popBusy / Close and the prologue/epilogue order of the entry points -/\ndef src : Src where\n")
	fmt.Fprintf(&b, "  pushBusy := %s\n  popBusy := %s\n  close := %s\n", leanList(push), leanList(pop), leanList(cl))
	fmt.Fprintf(&b, "  runCode := %s\n  moduleInit := %s\n  resolve := %s\n\n", leanList(entry(fns["RunCode"])), leanList(entry(fns["ModuleInit"])), leanList(entry(fns["ResolveAndCompile"])))
	q := make([]string, len(allYields))
	for i, y := range allYields {
		q[i] = fmt.Sprintf("%q", y)
	}
	fmt.Fprintf(&b, "/-- H1 yield points in source order (one per shared-state access) -/\ndef yields : List String := %s\n\nend GPy.C09.Generated\n", leanList(q))
	if *out != "" {
		old, _ := os.ReadFile(*out)
		if !bytes.Equal(old, b.Bytes()) {
			if err := os.WriteFile(*out, b.Bytes(), 0o644); err != nil {
				fmt.Fprintln(os.Stderr, err)
				os.Exit(3)
			}
			fmt.Println("lifecycle extractor: rewrote", *out)
		}
	} else {
		os.Stdout.Write(b.Bytes())
	}
	if *facts != "" {
		fp := map[string]string{}
		for n, fd := range fns {
			if lifecycleNames[n] {
				fp[n] = fmt.Sprintf("%x", sha1.Sum([]byte(src(fd))))[:16]
			}
		}
		j, _ := json.MarshalIndent(map[string]interface{}{"fingerprints": fp, "yields": allYields, "generated_sha1": fmt.Sprintf("%x", sha1.Sum(b.Bytes()))}, "", " ")
		os.MkdirAll(filepath.Dir(*facts), 0o755)
		os.WriteFile(*facts, j, 0o644)
	}
}
