// extract/opcodes: regenerates lean/GPy/C12/Generated.lean from the gpython
// working tree: the opcode numbering and HAVE_ARGUMENT boundary of
// vm/opcodes.go and gpython's own stack-effect table (opcodeStackEffect, nArgs)
// of compile/instructions.go.  Uses go/ast only; fails loudly (exit 1) when the
// source shape is not the one it understands.
//
// usage: opcodes <repo> <out.lean>
package main

import (
	"fmt"
	"go/ast"
	"go/parser"
	"go/token"
	"os"
	"path/filepath"
	"strconv"
	"strings"
)

func die(format string, a ...interface{}) {
	fmt.Fprintf(os.Stderr, "extract/opcodes: "+format+"\n", a...)
	os.Exit(1)
}

type opc struct {
	name string
	val  int
}

func parseFile(path string) *ast.File {
	fset := token.NewFileSet()
	f, err := parser.ParseFile(fset, path, nil, 0)
	if err != nil {
		die("cannot parse %s: %v", path, err)
	}
	return f
}

func litInt(e ast.Expr) (int, bool) {
	b, ok := e.(*ast.BasicLit)
	if !ok || b.Kind != token.INT {
		return 0, false
	}
	v, err := strconv.ParseInt(b.Value, 0, 64)
	if err != nil {
		return 0, false
	}
	return int(v), true
}

// natural-number valued sub-expression over oparg
func trNat(e ast.Expr, param string) string {
	switch x := e.(type) {
	case *ast.Ident:
		if x.Name == param {
			return "oparg"
		}
	case *ast.BasicLit:
		if v, ok := litInt(x); ok {
			return strconv.Itoa(v)
		}
	case *ast.ParenExpr:
		return "(" + trNat(x.X, param) + ")"
	case *ast.CallExpr:
		if id, ok := x.Fun.(*ast.Ident); ok && id.Name == "int" && len(x.Args) == 1 {
			return trNat(x.Args[0], param)
		}
	case *ast.BinaryExpr:
		switch x.Op {
		case token.AND:
			return "(" + trNat(x.X, param) + " &&& " + trNat(x.Y, param) + ")"
		case token.SHR:
			return "(" + trNat(x.X, param) + " >>> " + trNat(x.Y, param) + ")"
		}
	}
	die("stack-effect expression: unsupported natural sub-expression %T", e)
	return ""
}

// integer valued expression
func trInt(e ast.Expr, param string) string {
	switch x := e.(type) {
	case *ast.BasicLit:
		if v, ok := litInt(x); ok {
			return fmt.Sprintf("(%d : Int)", v)
		}
	case *ast.ParenExpr:
		return "(" + trInt(x.X, param) + ")"
	case *ast.UnaryExpr:
		if x.Op == token.SUB {
			return "(- " + trInt(x.X, param) + ")"
		}
	case *ast.CallExpr:
		if id, ok := x.Fun.(*ast.Ident); ok && len(x.Args) == 1 {
			switch id.Name {
			case "int":
				return "((" + trNat(x.Args[0], param) + " : Nat) : Int)"
			case "nArgs":
				return "(nArgs " + trNat(x.Args[0], param) + ")"
			}
		}
	case *ast.BinaryExpr:
		switch x.Op {
		case token.ADD, token.SUB, token.MUL:
			return "(" + trInt(x.X, param) + " " + x.Op.String() + " " + trInt(x.Y, param) + ")"
		case token.AND, token.SHR:
			return "((" + trNat(x, param) + " : Nat) : Int)"
		}
	}
	die("stack-effect expression: unsupported integer expression %T", e)
	return ""
}

func main() {
	if len(os.Args) != 3 {
		die("usage: opcodes <repo> <out.lean>")
	}
	repo, out := os.Args[1], os.Args[2]

	// ---- vm/opcodes.go
	f := parseFile(filepath.Join(repo, "vm", "opcodes.go"))
	var ops []opc
	have := -1
	hasArgOK := false
	for _, d := range f.Decls {
		switch g := d.(type) {
		case *ast.GenDecl:
			if g.Tok != token.CONST {
				continue
			}
			for _, s := range g.Specs {
				vs := s.(*ast.ValueSpec)
				id, ok := vs.Type.(*ast.Ident)
				if !ok || id.Name != "OpCode" {
					continue
				}
				if len(vs.Names) != 1 || len(vs.Values) != 1 {
					die("vm/opcodes.go: OpCode constant %v is not of the form NAME OpCode = <int>", vs.Names)
				}
				v, ok := litInt(vs.Values[0])
				if !ok {
					die("vm/opcodes.go: OpCode constant %s has a non-literal value", vs.Names[0].Name)
				}
				if vs.Names[0].Name == "HAVE_ARGUMENT" {
					have = v
				} else {
					ops = append(ops, opc{vs.Names[0].Name, v})
				}
			}
		case *ast.FuncDecl:
			if g.Name.Name == "HAS_ARG" && g.Recv != nil && len(g.Body.List) == 1 {
				if r, ok := g.Body.List[0].(*ast.ReturnStmt); ok && len(r.Results) == 1 {
					if b, ok := r.Results[0].(*ast.BinaryExpr); ok && b.Op == token.GEQ {
						x, ok1 := b.X.(*ast.Ident)
						y, ok2 := b.Y.(*ast.Ident)
						if ok1 && ok2 && x.Name == g.Recv.List[0].Names[0].Name && y.Name == "HAVE_ARGUMENT" {
							hasArgOK = true
						}
					}
				}
			}
		}
	}
	if have < 0 || len(ops) < 50 {
		die("vm/opcodes.go: HAVE_ARGUMENT or the opcode constants were not found (%d opcodes)", len(ops))
	}
	if !hasArgOK {
		die("vm/opcodes.go: HAS_ARG is no longer `return op >= HAVE_ARGUMENT`")
	}
	seenV := map[int]string{}
	for _, o := range ops {
		if p, dup := seenV[o.val]; dup {
			die("vm/opcodes.go: opcodes %s and %s share the number %d", p, o.name, o.val)
		}
		seenV[o.val] = o.name
		if o.val < 0 || o.val > 255 {
			die("vm/opcodes.go: opcode %s = %d does not fit a byte", o.name, o.val)
		}
	}

	// ---- compile/instructions.go
	f = parseFile(filepath.Join(repo, "compile", "instructions.go"))
	var nargsExpr string
	type row struct {
		ops  []string
		expr string
	}
	var rows []row
	found := false
	for _, d := range f.Decls {
		g, ok := d.(*ast.FuncDecl)
		if !ok {
			continue
		}
		switch g.Name.Name {
		case "nArgs":
			if len(g.Body.List) != 1 || len(g.Type.Params.List) != 1 {
				die("compile/instructions.go: nArgs is not a single return")
			}
			r, ok := g.Body.List[0].(*ast.ReturnStmt)
			if !ok || len(r.Results) != 1 {
				die("compile/instructions.go: nArgs is not a single return")
			}
			nargsExpr = trInt(r.Results[0], g.Type.Params.List[0].Names[0].Name)
		case "opcodeStackEffect":
			found = true
			if len(g.Type.Params.List) != 2 {
				die("opcodeStackEffect: expected (opcode, oparg)")
			}
			opParam := g.Type.Params.List[0].Names[0].Name
			argParam := g.Type.Params.List[1].Names[0].Name
			if len(g.Body.List) != 1 {
				die("opcodeStackEffect: body is not a single switch")
			}
			sw, ok := g.Body.List[0].(*ast.SwitchStmt)
			if !ok {
				die("opcodeStackEffect: body is not a single switch")
			}
			if id, ok := sw.Tag.(*ast.Ident); !ok || id.Name != opParam {
				die("opcodeStackEffect: switch is not on the opcode parameter")
			}
			for _, st := range sw.Body.List {
				cc := st.(*ast.CaseClause)
				if cc.List == nil { // default
					if len(cc.Body) != 1 {
						die("opcodeStackEffect: default clause is not a single panic")
					}
					es, ok := cc.Body[0].(*ast.ExprStmt)
					if !ok {
						die("opcodeStackEffect: default clause is not a single panic")
					}
					ce, ok := es.X.(*ast.CallExpr)
					if !ok {
						die("opcodeStackEffect: default clause is not a single panic")
					}
					if id, ok := ce.Fun.(*ast.Ident); !ok || id.Name != "panic" {
						die("opcodeStackEffect: default clause is not a single panic")
					}
					continue
				}
				var names []string
				for _, e := range cc.List {
					se, ok := e.(*ast.SelectorExpr)
					if !ok {
						die("opcodeStackEffect: case label is not vm.<OPCODE>")
					}
					names = append(names, se.Sel.Name)
				}
				if len(cc.Body) != 1 {
					die("opcodeStackEffect: case %v has %d statements (expected 1)", names, len(cc.Body))
				}
				var expr string
				switch b := cc.Body[0].(type) {
				case *ast.ReturnStmt:
					if len(b.Results) != 1 {
						die("opcodeStackEffect: case %v: bad return", names)
					}
					expr = trInt(b.Results[0], argParam)
				case *ast.IfStmt:
					// if oparg == K { return A } else { return B }
					cond, ok := b.Cond.(*ast.BinaryExpr)
					if !ok || cond.Op != token.EQL || b.Init != nil || b.Else == nil {
						die("opcodeStackEffect: case %v: unsupported if", names)
					}
					k, ok := litInt(cond.Y)
					if id, ok2 := cond.X.(*ast.Ident); !ok || !ok2 || id.Name != argParam {
						die("opcodeStackEffect: case %v: unsupported if condition", names)
					}
					eb, ok := b.Else.(*ast.BlockStmt)
					if !ok || len(b.Body.List) != 1 || len(eb.List) != 1 {
						die("opcodeStackEffect: case %v: unsupported if bodies", names)
					}
					r1, ok1 := b.Body.List[0].(*ast.ReturnStmt)
					r2, ok2 := eb.List[0].(*ast.ReturnStmt)
					if !ok1 || !ok2 || len(r1.Results) != 1 || len(r2.Results) != 1 {
						die("opcodeStackEffect: case %v: unsupported if bodies", names)
					}
					expr = fmt.Sprintf("(if oparg = %d then %s else %s)", k, trInt(r1.Results[0], argParam), trInt(r2.Results[0], argParam))
				default:
					die("opcodeStackEffect: case %v: unsupported statement %T", names, b)
				}
				rows = append(rows, row{names, expr})
			}
		}
	}
	if !found || nargsExpr == "" || len(rows) < 40 {
		die("compile/instructions.go: opcodeStackEffect / nArgs not found or too small (%d rows)", len(rows))
	}
	known := map[string]bool{}
	for _, o := range ops {
		known[o.name] = true
	}

	var b strings.Builder
	b.WriteString("/- REGENERATED on every run by extract/opcodes from vm/opcodes.go and\n   compile/instructions.go of the gpython working tree.  Never edit. -/\nimport GPy.C12.Ops\nnamespace GPy.C12.Generated\nopen GPy.C12\n\n")
	fmt.Fprintf(&b, "/-- vm/opcodes.go: HAVE_ARGUMENT (`op.HAS_ARG() = op >= HAVE_ARGUMENT`) -/\ndef haveArgument : Nat := %d\n\n", have)
	b.WriteString("/-- vm/opcodes.go: the opcode constants in source order -/\ndef opTable : List (Op × Nat) := [\n")
	for i, o := range ops {
		sep := ","
		if i == len(ops)-1 {
			sep = ""
		}
		fmt.Fprintf(&b, "  (.%s, %d)%s\n", o.name, o.val, sep)
	}
	b.WriteString("]\n\n/-- byte → opcode -/\ndef opOfNat : Nat → Option Op\n")
	for _, o := range ops {
		fmt.Fprintf(&b, "  | %d => some .%s\n", o.val, o.name)
	}
	b.WriteString("  | _ => none\n\n/-- opcode → byte -/\ndef Op.toNat : Op → Nat\n")
	for _, o := range ops {
		fmt.Fprintf(&b, "  | .%s => %d\n", o.name, o.val)
	}
	fmt.Fprintf(&b, "\n/-- compile/instructions.go: nArgs -/\ndef nArgs (oparg : Nat) : Int := %s\n\n", nargsExpr)
	b.WriteString("/-- compile/instructions.go: opcodeStackEffect; `none` = the `panic(\"Unknown opcode in StackEffect\")` default -/\ndef opcodeStackEffect (op : Op) (oparg : Nat) : Option Int :=\n  match op with\n")
	covered := map[string]bool{}
	for _, r := range rows {
		for _, n := range r.ops {
			if !known[n] {
				die("opcodeStackEffect mentions vm.%s which vm/opcodes.go does not define", n)
			}
			if covered[n] {
				die("opcodeStackEffect has two cases for vm.%s", n)
			}
			covered[n] = true
			fmt.Fprintf(&b, "  | .%s => some %s\n", n, r.expr)
		}
	}
	if len(covered) < len(ops) {
		b.WriteString("  | _ => none\n")
	}
	b.WriteString("\n/-- opcodes with a row in opcodeStackEffect -/\ndef effectRows : List Op := [")
	first := true
	for _, o := range ops {
		if covered[o.name] {
			if !first {
				b.WriteString(", ")
			}
			first = false
			b.WriteString("." + o.name)
		}
	}
	b.WriteString("]\n\nend GPy.C12.Generated\n")

	old, _ := os.ReadFile(out)
	if string(old) == b.String() {
		fmt.Println("unchanged", out)
		return
	}
	if err := os.WriteFile(out, []byte(b.String()), 0o644); err != nil {
		die("write %s: %v", out, err)
	}
	fmt.Println("wrote", out)
}
