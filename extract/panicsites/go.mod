module panicsites

go 1.18
