// extract/panicsites: regenerates lean/GPy/C11/Generated.lean from the gpython working tree.
//
// Lists, for parser/, ast/, symtable/, compile/ (non-test files; y.go included: its semantic actions and the
// helper functions of grammar.y live there) every
//   - `panic(<payload>)` with a syntactic payload kind,
//   - call of the SyntaxError helpers: panicSyntaxErrorf / panicSyntaxError (panic with a located SyntaxError),
//     SyntaxErrorf / SyntaxError (the lexer's error channel),
//   - construction py.ExceptionNewf(py.<SyntaxError family>, ...) outside a panic argument,
//   - `recover()` with the conversion it applies (MakeSyntaxError / MakeException),
// as rows (file, function, kind, count).  Uses go/parser + go/ast only; exits 1 when a directory cannot be parsed.
//
// usage: panicsites -repo <repo> -out <Generated.lean> [-skeleton]
package main

import (
	"flag"
	"fmt"
	"go/ast"
	"go/parser"
	"go/token"
	"os"
	"path/filepath"
	"sort"
	"strings"
)

type key struct{ file, fn, kind string }

func die(format string, a ...interface{}) {
	fmt.Fprintf(os.Stderr, "extract/panicsites: "+format+"\n", a...)
	os.Exit(1)
}

func selName(e ast.Expr) string {
	switch x := e.(type) {
	case *ast.Ident:
		return x.Name
	case *ast.SelectorExpr:
		return selName(x.X) + "." + x.Sel.Name
	case *ast.ParenExpr:
		return selName(x.X)
	case *ast.StarExpr:
		return selName(x.X)
	case *ast.TypeAssertExpr:
		return selName(x.X)
	case *ast.CallExpr:
		return selName(x.Fun) + "()"
	}
	return "?"
}

func lastSel(e ast.Expr) string {
	switch x := e.(type) {
	case *ast.Ident:
		return x.Name
	case *ast.SelectorExpr:
		return x.Sel.Name
	}
	return ""
}

// identifiers assigned from py.MakeSyntaxError(...) inside fn
func synIdents(body *ast.BlockStmt) map[string]bool {
	out := map[string]bool{}
	ast.Inspect(body, func(n ast.Node) bool {
		as, ok := n.(*ast.AssignStmt)
		if !ok || len(as.Lhs) != 1 || len(as.Rhs) != 1 {
			return true
		}
		if c, ok := as.Rhs[0].(*ast.CallExpr); ok && lastSel(c.Fun) == "MakeSyntaxError" {
			if id, ok := as.Lhs[0].(*ast.Ident); ok {
				out[id.Name] = true
			}
		}
		return true
	})
	return out
}

func excClass(c *ast.CallExpr) string {
	if lastSel(c.Fun) == "ExceptionNewf" && len(c.Args) > 0 {
		return lastSel(c.Args[0])
	}
	return ""
}

func payloadKind(arg ast.Expr, syn map[string]bool) string {
	switch x := arg.(type) {
	case *ast.BasicLit:
		if x.Kind == token.STRING {
			return "panic:str"
		}
	case *ast.CallExpr:
		if selName(x.Fun) == "fmt.Sprintf" {
			return "panic:str"
		}
		if cls := excClass(x); cls != "" {
			return "panic:exc:" + cls
		}
		if lastSel(x.Fun) == "MakeSyntaxError" {
			return "panic:synexc"
		}
	case *ast.Ident:
		if syn[x.Name] {
			return "panic:synexc"
		}
		return "panic:err"
	}
	return "panic:other"
}

func main() {
	repo := flag.String("repo", "/repo", "gpython working tree")
	out := flag.String("out", "", "Generated.lean to write (only when changed)")
	skeleton := flag.Bool("skeleton", false, "print a skeleton of the expectation table")
	flag.Parse()
	counts := map[key]int{}
	for _, dir := range []string{"parser", "ast", "symtable", "compile"} {
		fset := token.NewFileSet()
		pkgs, err := parser.ParseDir(fset, filepath.Join(*repo, dir), func(fi os.FileInfo) bool {
			return !strings.HasSuffix(fi.Name(), "_test.go")
		}, 0)
		if err != nil {
			die("cannot parse %s: %v", dir, err)
		}
		if len(pkgs) == 0 {
			die("no Go package in %s", dir)
		}
		for _, pkg := range pkgs {
			for path, f := range pkg.Files {
				rel := dir + "/" + filepath.Base(path)
				for _, d := range f.Decls {
					fd, ok := d.(*ast.FuncDecl)
					if !ok || fd.Body == nil {
						continue
					}
					name := fd.Name.Name
					if fd.Recv != nil && len(fd.Recv.List) > 0 {
						name = strings.TrimPrefix(selName(fd.Recv.List[0].Type), "*") + "." + name
					}
					syn := synIdents(fd.Body)
					inPanicArg := map[ast.Node]bool{}
					ast.Inspect(fd.Body, func(n ast.Node) bool {
						c, ok := n.(*ast.CallExpr)
						if !ok {
							return true
						}
						fn := lastSel(c.Fun)
						if id, ok := c.Fun.(*ast.Ident); ok && id.Name == "panic" && len(c.Args) == 1 {
							counts[key{rel, name, payloadKind(c.Args[0], syn)}]++
							inPanicArg[c.Args[0]] = true
							return true
						}
						if id, ok := c.Fun.(*ast.Ident); ok && id.Name == "recover" {
							counts[key{rel, name, "recover:" + recoverConv(fd.Body)}]++
							return true
						}
						switch fn {
						case "panicSyntaxErrorf", "panicSyntaxError", "panicSyntaxErrorLinenof":
							counts[key{rel, name, "call:" + fn}]++
						case "SyntaxErrorf", "SyntaxError":
							if _, isSel := c.Fun.(*ast.SelectorExpr); isSel {
								counts[key{rel, name, "call:" + fn}]++
							}
						case "ExceptionNewf":
							if !inPanicArg[n] {
								switch cls := excClass(c); cls {
								case "SyntaxError", "IndentationError", "TabError":
									counts[key{rel, name, "mkexc:" + cls}]++
								}
							}
						}
						return true
					})
				}
			}
		}
	}
	keys := make([]key, 0, len(counts))
	for k := range counts {
		keys = append(keys, k)
	}
	sort.Slice(keys, func(i, j int) bool {
		a, b := keys[i], keys[j]
		if a.file != b.file {
			return a.file < b.file
		}
		if a.fn != b.fn {
			return a.fn < b.fn
		}
		return a.kind < b.kind
	})
	if len(keys) < 20 {
		die("only %d sites found: the source shape is not the one this extractor understands", len(keys))
	}
	var b strings.Builder
	b.WriteString("/- REGENERATED on every run by extract/panicsites (go/parser + go/ast) from parser/, ast/, symtable/, compile/ of the\n   gpython working tree.  Never edit.  `Props.panic_table_expected` proves it equal to the hand-written expectations. -/\nnamespace GPy.C11.Generated\n\n")
	b.WriteString("/-- (file, function, kind, number of such sites in the function) -/\ndef sites : List (String × String × String × Nat) := [\n")
	total := 0
	for i, k := range keys {
		sep := ","
		if i == len(keys)-1 {
			sep = ""
		}
		fmt.Fprintf(&b, "  (%q, %q, %q, %d)%s\n", k.file, k.fn, k.kind, counts[k], sep)
		total += counts[k]
	}
	fmt.Fprintf(&b, "]\n\ndef siteCount : Nat := %d\n\nend GPy.C11.Generated\n", total)
	if *skeleton {
		for _, k := range keys {
			exp := ".internalExplored"
			switch {
			case strings.HasPrefix(k.kind, "recover:"):
				exp = ".recoverSite"
			case k.kind == "call:SyntaxErrorf" || k.kind == "call:SyntaxError":
				exp = ".errorChannel"
			case k.kind == "panic:synexc" || strings.HasPrefix(k.kind, "call:panicSyntaxError") || strings.HasPrefix(k.kind, "mkexc:") || strings.HasPrefix(k.kind, "panic:exc:"):
				exp = ".syntaxPayload"
			}
			fmt.Printf("  (%q, %q, %q, %d, %s),\n", k.file, k.fn, k.kind, counts[k], exp)
		}
	}
	if *out != "" {
		old, _ := os.ReadFile(*out)
		if string(old) != b.String() {
			if err := os.WriteFile(*out, []byte(b.String()), 0o644); err != nil {
				die("cannot write %s: %v", *out, err)
			}
			fmt.Printf("panicsites: %d rows, %d sites, %s rewritten\n", len(keys), total, *out)
		} else {
			fmt.Printf("panicsites: %d rows, %d sites, %s unchanged\n", len(keys), total, *out)
		}
	}
}

// recoverConv: which conversion the function applies to a recovered value
func recoverConv(body *ast.BlockStmt) string {
	conv := "none"
	ast.Inspect(body, func(n ast.Node) bool {
		if c, ok := n.(*ast.CallExpr); ok {
			switch lastSel(c.Fun) {
			case "MakeSyntaxError":
				if conv == "none" {
					conv = "MakeSyntaxError"
				}
			case "MakeException":
				conv = "MakeException"
			}
		}
		return true
	})
	return conv
}
