module pkgvars

go 1.18
