// pkgvars: lists every package-level `var` of py/, vm/, stdlib/ and stdlib/*/ of the
// gpython tree and every write to such a variable that happens outside its declaration,
// and writes the table as lean/GPy/C08/Generated.lean.  Writes directly inside a top-level
// `func init()` or a package-level initialiser (not inside a function literal created
// there, which runs later) are only counted; all the others are listed as runtimeWrites.
//
//	pkgvars <repo> <out.lean>
package main

import (
	"bytes"
	"fmt"
	"go/ast"
	"go/parser"
	"go/printer"
	"go/token"
	"os"
	"path/filepath"
	"sort"
	"strings"
)

type pvar struct {
	dir, name, kind, file string
	line                  int
}

type write struct {
	dir, v, fn, how, file string
	line                  int
	init                  bool
}

type srcFile struct {
	rel string
	f   *ast.File
}

type pkg struct {
	dir    string
	listed bool // own vars are listed (py, vm, stdlib, stdlib/*); otherwise scanned for cross-package writes only
	files  []srcFile
	vars   map[string]*pvar
	specs  map[*ast.ValueSpec]bool // the package-level var specs
	types  map[string]ast.Expr
	funcs  map[string]bool
}

var (
	fset   = token.NewFileSet()
	pkgs   = map[string]*pkg{}
	writes []write
	basic  = map[string]bool{"bool": true, "string": true, "int": true, "int8": true, "int16": true, "int32": true, "int64": true,
		"uint": true, "uint8": true, "uint16": true, "uint32": true, "uint64": true, "uintptr": true, "byte": true, "rune": true,
		"float32": true, "float64": true, "complex64": true, "complex128": true}
	syncTypes = map[string]bool{"Mutex": true, "RWMutex": true, "Once": true, "WaitGroup": true, "Map": true, "Pool": true}
)

func die(a ...interface{}) {
	fmt.Fprintln(os.Stderr, append([]interface{}{"pkgvars:"}, a...)...)
	os.Exit(1)
}

func text(n ast.Node) string {
	var b bytes.Buffer
	printer.Fprint(&b, fset, n)
	return strings.Join(strings.Fields(b.String()), " ")
}

func kindOfType(p *pkg, t ast.Expr, depth int) string {
	switch t := t.(type) {
	case *ast.ParenExpr:
		return kindOfType(p, t.X, depth)
	case *ast.FuncType:
		return "func"
	case *ast.MapType:
		return "map"
	case *ast.ArrayType:
		if t.Len == nil {
			return "slice"
		}
	case *ast.StarExpr:
		return "ptr"
	case *ast.StructType:
		return "struct"
	case *ast.SelectorExpr: // value of a foreign type: only the sync ones are known to be structs
		if x, ok := t.X.(*ast.Ident); ok && x.Name == "sync" && syncTypes[t.Sel.Name] {
			return "struct"
		}
	case *ast.Ident:
		if basic[t.Name] {
			return "scalar"
		}
		if u, ok := p.types[t.Name]; ok && depth < 16 {
			return kindOfType(p, u, depth+1)
		}
	}
	return "other"
}

func kindOfValue(p *pkg, e ast.Expr) string {
	switch e := e.(type) {
	case *ast.ParenExpr:
		return kindOfValue(p, e.X)
	case *ast.FuncLit:
		return "func"
	case *ast.UnaryExpr:
		if e.Op == token.AND {
			return "ptr"
		}
		return "scalar"
	case *ast.BinaryExpr, *ast.BasicLit:
		return "scalar"
	case *ast.CompositeLit:
		if e.Type != nil {
			return kindOfType(p, e.Type, 0)
		}
	case *ast.Ident:
		if e.Name == "true" || e.Name == "false" {
			return "scalar"
		} else if p.funcs[e.Name] {
			return "func"
		}
	case *ast.CallExpr:
		switch f := e.Fun.(type) {
		case *ast.Ident:
			switch {
			case f.Name == "make" && len(e.Args) > 0:
				return kindOfType(p, e.Args[0], 0)
			case f.Name == "new":
				return "ptr"
			case basic[f.Name] || p.types[f.Name] != nil: // conversion
				return kindOfType(p, f, 0)
			}
		case *ast.ArrayType, *ast.MapType, *ast.FuncType, *ast.ParenExpr: // conversion
			return kindOfType(p, f, 0)
		}
		return "call"
	}
	return "other"
}

func specsOf(d ast.Decl, tok token.Token) []ast.Spec {
	if gd, ok := d.(*ast.GenDecl); ok && gd.Tok == tok {
		return gd.Specs
	}
	return nil
}

// load parses the non-test files of one directory and collects its package-level declarations.
func load(repo, dir string, listed bool) {
	paths, _ := filepath.Glob(filepath.Join(repo, dir, "*.go"))
	sort.Strings(paths)
	p := &pkg{dir: dir, listed: listed, vars: map[string]*pvar{}, specs: map[*ast.ValueSpec]bool{}, types: map[string]ast.Expr{}, funcs: map[string]bool{}}
	for _, path := range paths {
		if strings.HasSuffix(path, "_test.go") {
			continue
		}
		f, err := parser.ParseFile(fset, path, nil, parser.ParseComments)
		if err != nil {
			die("cannot parse", path, err)
		}
		ignored := false // `//go:build ignore` generators (py/gen.go is a package main of its own)
		for _, cg := range f.Comments {
			for _, c := range cg.List {
				ignored = ignored || cg.Pos() < f.Package && strings.TrimSpace(c.Text) == "//go:build ignore"
			}
		}
		if rel, _ := filepath.Rel(repo, path); !ignored {
			p.files = append(p.files, srcFile{rel, f})
		}
	}
	if len(p.files) == 0 {
		return
	}
	pkgs[dir] = p
	for _, sf := range p.files {
		for _, d := range sf.f.Decls {
			if fd, ok := d.(*ast.FuncDecl); ok && fd.Recv == nil {
				p.funcs[fd.Name.Name] = true
			}
			for _, s := range specsOf(d, token.TYPE) {
				p.types[s.(*ast.TypeSpec).Name.Name] = s.(*ast.TypeSpec).Type
			}
			for _, s := range specsOf(d, token.VAR) {
				p.specs[s.(*ast.ValueSpec)] = true
			}
		}
	}
	for _, sf := range p.files { // second pass: kinds need the complete type table of the package
		for _, d := range sf.f.Decls {
			for _, s := range specsOf(d, token.VAR) {
				vs := s.(*ast.ValueSpec)
				for i, id := range vs.Names {
					kind := "other"
					switch {
					case vs.Type != nil:
						kind = kindOfType(p, vs.Type, 0)
					case len(vs.Values) == len(vs.Names):
						kind = kindOfValue(p, vs.Values[i])
					case len(vs.Values) > 0:
						kind = "call"
					}
					if listed && id.Name != "_" {
						p.vars[id.Name] = &pvar{dir, id.Name, kind, sf.rel, fset.Position(id.Pos()).Line}
					}
				}
			}
		}
	}
}

// resolve strips selectors, indexes, stars, parens and slices from e and returns the package-level
// variable at the root (nil if the root is something else) and whether anything was stripped.
func resolve(p *pkg, imports map[string]string, e ast.Expr) (*pvar, bool) {
	stripped := false
	for {
		switch t := e.(type) {
		case *ast.ParenExpr:
			e = t.X
		case *ast.StarExpr:
			e, stripped = t.X, true
		case *ast.IndexExpr:
			e, stripped = t.X, true
		case *ast.SliceExpr:
			e, stripped = t.X, true
		case *ast.SelectorExpr:
			if id, ok := t.X.(*ast.Ident); ok && id.Obj == nil {
				if dir, ok := imports[id.Name]; ok { // pkgident.V
					if q := pkgs[dir]; q != nil && q.listed {
						return q.vars[t.Sel.Name], stripped
					}
					return nil, false
				}
			}
			e, stripped = t.X, true
		case *ast.Ident:
			if t.Obj != nil { // resolved in this file: a local unless declared by a package-level var spec
				if vs, ok := t.Obj.Decl.(*ast.ValueSpec); !ok || !p.specs[vs] {
					return nil, false
				}
			} // unresolved: declared in another file of the package (or a universe/import name)
			return p.vars[t.Name], stripped
		default:
			return nil, false
		}
	}
}

// walk records the writes below n; fn names the enclosing declaration, init tells whether
// code directly in n (not in a function literal) runs at package initialisation.
func walk(p *pkg, rel string, imports map[string]string, n ast.Node, fn string, init bool) {
	lit := 0
	var stack []ast.Node
	rec := func(e ast.Expr, how string) {
		if e == nil {
			return
		}
		v, stripped := resolve(p, imports, e)
		if v == nil || how == "call" && v.kind != "struct" {
			return
		}
		if how == "assign" && stripped {
			how = "elem"
		}
		name, isInit := fn, init
		if init && lit > 0 { // a closure created at init time runs later
			name, isInit = fn+".func", false
		}
		if v.dir != p.dir && p.dir == "." {
			name = "main:" + name
		} else if v.dir != p.dir {
			name = p.dir + ":" + name
		}
		writes = append(writes, write{v.dir, v.name, name, how, rel, fset.Position(e.Pos()).Line, isInit})
	}
	ast.Inspect(n, func(m ast.Node) bool {
		if m == nil {
			if _, ok := stack[len(stack)-1].(*ast.FuncLit); ok {
				lit--
			}
			stack = stack[:len(stack)-1]
			return true
		}
		stack = append(stack, m)
		switch s := m.(type) {
		case *ast.FuncLit:
			lit++
		case *ast.AssignStmt:
			if s.Tok != token.DEFINE { // := inside a function always declares new locals
				for _, l := range s.Lhs {
					rec(l, "assign")
				}
			}
		case *ast.IncDecStmt:
			rec(s.X, "assign")
		case *ast.RangeStmt:
			if s.Tok == token.ASSIGN {
				rec(s.Key, "assign")
				rec(s.Value, "assign")
			}
		case *ast.UnaryExpr:
			if s.Op == token.AND {
				rec(s.X, "addr")
			}
		case *ast.CallExpr:
			switch f := s.Fun.(type) {
			case *ast.Ident:
				if f.Obj == nil && (f.Name == "delete" || f.Name == "clear" || f.Name == "copy") && len(s.Args) > 0 {
					rec(s.Args[0], "elem")
				}
			case *ast.SelectorExpr:
				rec(f.X, "call")
			}
		}
		return true
	})
}

func scan(p *pkg, module string) {
	for _, sf := range p.files {
		imports := map[string]string{} // local package name -> directory in the repo
		for _, im := range sf.f.Imports {
			path := strings.Trim(im.Path.Value, "\"`")
			if !strings.HasPrefix(path, module+"/") {
				continue
			}
			dir := strings.TrimPrefix(path, module+"/")
			name := filepath.Base(dir)
			if im.Name != nil {
				name = im.Name.Name
			}
			imports[name] = dir
		}
		for _, d := range sf.f.Decls {
			for _, s := range specsOf(d, token.VAR) {
				for _, val := range s.(*ast.ValueSpec).Values {
					walk(p, sf.rel, imports, val, "<decl>", true)
				}
			}
			if fd, ok := d.(*ast.FuncDecl); ok && fd.Body != nil {
				name := fd.Name.Name
				if fd.Recv != nil && len(fd.Recv.List) == 1 {
					name = strings.TrimPrefix(text(fd.Recv.List[0].Type), "*") + "." + name
				}
				walk(p, sf.rel, imports, fd.Body, name, fd.Recv == nil && name == "init")
			}
		}
	}
}

func subdirs(repo, dir string) (out []string) {
	ents, _ := os.ReadDir(filepath.Join(repo, dir))
	for _, e := range ents {
		if e.IsDir() && e.Name() != "testdata" && !strings.HasPrefix(e.Name(), ".") {
			out = append(out, filepath.Join(dir, e.Name()))
		}
	}
	return
}

// leanList prints a list definition; comment[row], if any, goes after the separating comma.
func leanList(b *strings.Builder, doc, decl string, rows []string, comment map[string]string) {
	fmt.Fprintf(b, "/-- %s -/\ndef %s := [\n", doc, decl)
	for i, r := range rows {
		sep := ","
		if i == len(rows)-1 {
			sep = ""
		}
		if c := comment[r]; c != "" {
			sep += "   --" + c
		}
		fmt.Fprintf(b, "  %s%s\n", r, sep)
	}
	b.WriteString("]\n\n")
}

func main() {
	if len(os.Args) != 3 {
		fmt.Fprintln(os.Stderr, "usage: pkgvars <repo> <out.lean>")
		os.Exit(2)
	}
	repo, out := os.Args[1], os.Args[2]
	gomod, err := os.ReadFile(filepath.Join(repo, "go.mod"))
	if err != nil {
		die(err)
	}
	module := ""
	for _, l := range strings.Split(string(gomod), "\n") {
		if f := strings.Fields(l); len(f) == 2 && f[0] == "module" {
			module = f[1]
		}
	}
	if module == "" {
		die("no module line in go.mod")
	}
	for _, dir := range append([]string{"py", "vm", "stdlib"}, subdirs(repo, "stdlib")...) {
		load(repo, dir, true)
	}
	// scanned only for cross-package writes into the packages above
	for _, dir := range append([]string{".", "compile", "parser", "symtable", "ast", "repl", "marshal", "importlib"}, subdirs(repo, "repl")...) {
		load(repo, dir, false)
	}
	var vars []*pvar
	for _, p := range pkgs {
		scan(p, module)
		for _, v := range p.vars {
			vars = append(vars, v)
		}
	}
	sort.Slice(vars, func(i, j int) bool {
		return vars[i].dir < vars[j].dir || vars[i].dir == vars[j].dir && vars[i].name < vars[j].name
	})
	key := func(w write) string { return fmt.Sprintf("(%q, %q, %q, %q)", w.dir, w.v, w.fn, w.how) }
	sort.Slice(writes, func(i, j int) bool {
		a, b := writes[i], writes[j]
		if key(a) != key(b) {
			return key(a) < key(b)
		}
		return a.file < b.file || a.file == b.file && a.line < b.line
	})
	var varRows, rows []string // rows: the distinct runtime rows, in order
	for _, v := range vars {
		fmt.Printf("VAR %s %s %s:%d\n", v.dir, v.name, v.file, v.line)
		varRows = append(varRows, fmt.Sprintf("(%q, %q, %q)", v.dir, v.name, v.kind))
	}
	locs, initRows := map[string]string{}, map[string]bool{}
	for _, w := range writes {
		tag := ""
		if w.init {
			tag, initRows[key(w)] = " init", true
		} else {
			if locs[key(w)] == "" {
				rows = append(rows, key(w))
			}
			locs[key(w)] += fmt.Sprintf(" %s:%d", w.file, w.line)
		}
		fmt.Printf("WRITE %s %s %s %s %s:%d%s\n", w.dir, w.v, w.fn, w.how, w.file, w.line, tag)
	}
	fmt.Printf("SUMMARY vars=%d writes=%d runtimeRows=%d initRows=%d\n", len(vars), len(writes), len(rows), len(initRows))

	var b strings.Builder
	b.WriteString("-- REGENERATED by verif/extract/pkgvars from the Go sources of the tree under verification; do not edit.\n")
	b.WriteString("namespace GPy.C08.Generated\n\n")
	leanList(&b, "every package-level `var` of py/, vm/, stdlib/, stdlib/*/ : (package directory, name, kind)",
		"pkgVars : List (String × String × String)", varRows, nil)
	leanList(&b, "every write to one of them outside its declaration and outside `func init()`: (package directory, variable, enclosing function, how)",
		"runtimeWrites : List (String × String × String × String)", rows, locs)
	fmt.Fprintf(&b, "def initWriteCount : Nat := %d\n\nend GPy.C08.Generated\n", len(initRows))
	if old, _ := os.ReadFile(out); string(old) != b.String() {
		if err := os.MkdirAll(filepath.Dir(out), 0o755); err != nil {
			die(err)
		}
		if err := os.WriteFile(out, []byte(b.String()), 0o644); err != nil {
			die(err)
		}
	}
}
