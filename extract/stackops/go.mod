module stackops

go 1.18
