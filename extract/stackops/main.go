// stackops: for the opcode handlers of vm/eval.go that the C01 model transliterates, lists – in
// source order – the value-stack operations they perform (vm.POP / TOP / SECOND / THIRD / FOURTH /
// PEEK / SET_* / PUSH / DROP / DROPN / EXTEND / setTopAndCheckErr / Call) and the calls into
// package py whose arguments come from the stack, with the handler's local variables renamed to
// v1, v2, … in the order in which they are first bound.  So `b := vm.POP(); a := vm.TOP();
// return vm.setTopAndCheckErr(py.Sub(a, b))` becomes
//
//	v1=vm.POP() v2=vm.TOP() vm.setTopAndCheckErr(py.Sub(v2, v1))
//
// A renaming of locals, a comment or a change in error plumbing leaves the row unchanged; a
// reordering of pops or a swap of operand roles changes it.  The table is written as
// lean/GPy/C01/Generated.lean, where Props.lean pins it against the rows the model was written from.
//
//	stackops <repo> <out.lean> <handler>...
package main

import (
	"bytes"
	"fmt"
	"go/ast"
	"go/parser"
	"go/printer"
	"go/token"
	"os"
	"path/filepath"
	"regexp"
	"strings"
)

var fset = token.NewFileSet()

func text(n ast.Node) string {
	var b bytes.Buffer
	printer.Fprint(&b, fset, n)
	return strings.Join(strings.Fields(b.String()), " ")
}

// selector "vm.X" / "py.X" / "x.M__y__"
func callKind(c *ast.CallExpr) string {
	s, ok := c.Fun.(*ast.SelectorExpr)
	if !ok {
		if id, ok := c.Fun.(*ast.Ident); ok && (id.Name == "panic" || strings.HasPrefix(id.Name, "_") || id.Name == "unpack_iterable" || id.Name == "callInternal") {
			return id.Name
		}
		return ""
	}
	if x, ok := s.X.(*ast.Ident); ok {
		if x.Name == "vm" || x.Name == "py" {
			return x.Name + "." + s.Sel.Name
		}
		if strings.HasPrefix(s.Sel.Name, "M__") {
			return "." + s.Sel.Name
		}
	}
	return ""
}

type walker struct {
	toks  []string
	names map[string]string
	order []string
}

func (w *walker) bind(name string) string {
	if name == "_" || name == "err" {
		return name
	}
	if v, ok := w.names[name]; ok {
		return v
	}
	v := fmt.Sprintf("v%d", len(w.names)+1)
	w.names[name] = v
	w.order = append(w.order, name)
	return v
}

func (w *walker) rename(s string) string {
	for _, n := range w.order {
		re := regexp.MustCompile(`(^|[^A-Za-z0-9_.])` + regexp.QuoteMeta(n) + `($|[^A-Za-z0-9_])`)
		for re.MatchString(s) { // overlapping matches
			s = re.ReplaceAllString(s, "${1}"+w.names[n]+"${2}")
		}
	}
	return s
}

// emit the outermost interesting calls of an expression, left to right
func (w *walker) expr(e ast.Node, lhs string) {
	ast.Inspect(e, func(n ast.Node) bool {
		c, ok := n.(*ast.CallExpr)
		if !ok {
			return true
		}
		if k := callKind(c); k != "" {
			t := w.rename(text(c))
			if lhs != "" {
				t = lhs + "=" + t
			}
			w.toks = append(w.toks, t)
			return false
		}
		return true
	})
}

func (w *walker) stmt(s ast.Stmt) {
	switch x := s.(type) {
	case *ast.AssignStmt:
		lhs := ""
		if len(x.Rhs) == 1 {
			// the interesting binding: names on the left of one call
			var ls []string
			for _, l := range x.Lhs {
				if id, ok := l.(*ast.Ident); ok {
					ls = append(ls, id.Name)
				} else {
					ls = append(ls, text(l))
				}
			}
			// rename the right-hand side with the names known so far, then bind the new ones
			before := len(w.toks)
			w.expr(x.Rhs[0], "\x00")
			for i := range ls {
				if _, isId := x.Lhs[i].(*ast.Ident); isId {
					ls[i] = w.bind(ls[i])
				} else {
					ls[i] = w.rename(ls[i])
				}
			}
			lhs = strings.Join(ls, ",")
			for i := before; i < len(w.toks); i++ {
				w.toks[i] = strings.Replace(w.toks[i], "\x00", lhs, 1)
			}
			if before == len(w.toks) {
				// a plain copy such as `step = py.None` or `w := vm.frame.Code.Names[namei]`
				w.toks = append(w.toks, lhs+"="+w.rename(text(x.Rhs[0])))
			}
			return
		}
		for _, r := range x.Rhs {
			w.expr(r, "")
		}
	case *ast.BlockStmt:
		for _, y := range x.List {
			w.stmt(y)
		}
	case *ast.IfStmt:
		if x.Init != nil {
			w.stmt(x.Init)
		}
		w.toks = append(w.toks, "if("+w.rename(text(x.Cond))+")")
		w.stmt(x.Body)
		if x.Else != nil {
			w.toks = append(w.toks, "else")
			w.stmt(x.Else)
		}
		w.toks = append(w.toks, "fi")
	case *ast.SwitchStmt:
		tag := ""
		if x.Tag != nil {
			tag = w.rename(text(x.Tag))
		}
		w.toks = append(w.toks, "switch("+tag+")")
		for _, cc := range x.Body.List {
			c := cc.(*ast.CaseClause)
			if c.List == nil {
				w.toks = append(w.toks, "default")
			} else {
				var vs []string
				for _, v := range c.List {
					vs = append(vs, w.rename(text(v)))
				}
				w.toks = append(w.toks, "case("+strings.Join(vs, ",")+")")
			}
			for _, y := range c.Body {
				w.stmt(y)
			}
		}
		w.toks = append(w.toks, "end")
	case *ast.ForStmt:
		w.toks = append(w.toks, "for("+w.rename(text(x.Init))+";"+w.rename(text(x.Cond))+";"+w.rename(text(x.Post))+")")
		w.stmt(x.Body)
		w.toks = append(w.toks, "end")
	case *ast.RangeStmt:
		w.toks = append(w.toks, "range("+w.rename(text(x.X))+")")
		w.stmt(x.Body)
		w.toks = append(w.toks, "end")
	case *ast.ReturnStmt:
		before := len(w.toks)
		for _, r := range x.Results {
			w.expr(r, "")
		}
		if before == len(w.toks) {
			var rs []string
			for _, r := range x.Results {
				rs = append(rs, w.rename(text(r)))
			}
			w.toks = append(w.toks, "return("+strings.Join(rs, ",")+")")
		} else {
			w.toks[len(w.toks)-1] = "return " + w.toks[len(w.toks)-1]
		}
	case *ast.ExprStmt:
		w.expr(x.X, "")
	case *ast.DeclStmt:
		// var x T: binds the name
		if g, ok := x.Decl.(*ast.GenDecl); ok {
			for _, sp := range g.Specs {
				if vs, ok := sp.(*ast.ValueSpec); ok {
					for i, n := range vs.Names {
						v := w.bind(n.Name)
						if i < len(vs.Values) {
							w.toks = append(w.toks, v+"="+w.rename(text(vs.Values[i])))
						}
					}
				}
			}
		}
	case *ast.IncDecStmt, *ast.BranchStmt, *ast.LabeledStmt, *ast.DeferStmt, *ast.GoStmt, *ast.EmptyStmt:
		w.toks = append(w.toks, w.rename(text(x)))
	default:
		w.toks = append(w.toks, "?"+w.rename(text(x)))
	}
}

func lean(s string) string {
	return "\"" + strings.ReplaceAll(strings.ReplaceAll(s, "\\", "\\\\"), "\"", "\\\"") + "\""
}

func main() {
	if len(os.Args) < 4 {
		fmt.Fprintln(os.Stderr, "usage: stackops <repo> <out.lean> <handler>...")
		os.Exit(2)
	}
	repo, out, want := os.Args[1], os.Args[2], os.Args[3:]
	f, err := parser.ParseFile(fset, filepath.Join(repo, "vm", "eval.go"), nil, 0)
	if err != nil {
		fmt.Fprintln(os.Stderr, err)
		os.Exit(1)
	}
	decls := map[string]*ast.FuncDecl{}
	for _, d := range f.Decls {
		if fd, ok := d.(*ast.FuncDecl); ok && fd.Body != nil {
			name := fd.Name.Name
			if fd.Recv != nil {
				name = "Vm." + name
			}
			decls[name] = fd
		}
	}
	var b strings.Builder
	b.WriteString("/- REGENERATED by extract/stackops from vm/eval.go of the working tree on every run of ./check C01 – do not edit.\n")
	b.WriteString("   One row per opcode handler the C01 model transliterates: its value-stack operations and py calls in source order,\n")
	b.WriteString("   locals renamed v1, v2, … in binding order. -/\n")
	b.WriteString("namespace GPy.C01.Generated\n\n")
	b.WriteString("def stackOps : List (String × List String) := [\n")
	missing := 0
	for i, name := range want {
		fd, ok := decls[name]
		var toks []string
		if !ok {
			toks = []string{"MISSING"}
			missing++
		} else {
			w := &walker{names: map[string]string{}}
			// parameters other than vm keep their names (they are the opcode argument)
			w.stmt(fd.Body)
			toks = w.toks
		}
		fmt.Printf("ROW %s %s\n", name, strings.Join(toks, " ; "))
		var ls []string
		for _, t := range toks {
			ls = append(ls, lean(t))
		}
		sep := ","
		if i == len(want)-1 {
			sep = ""
		}
		fmt.Fprintf(&b, "  (%s, [%s])%s\n", lean(name), strings.Join(ls, ", "), sep)
	}
	b.WriteString("]\n\nend GPy.C01.Generated\n")
	old, _ := os.ReadFile(out)
	if string(old) != b.String() {
		if err := os.WriteFile(out, []byte(b.String()), 0o644); err != nil {
			fmt.Fprintln(os.Stderr, err)
			os.Exit(1)
		}
	}
	if missing > 0 {
		fmt.Printf("MISSING %d\n", missing)
	}
}
