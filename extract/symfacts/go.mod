module verifextract/symfacts

go 1.18
