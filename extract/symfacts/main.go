// extract/symfacts: prints (*SymTable).AnalyzeName of symtable/symtable.go as a term of the Lean type
// GPy.C03.Prog (lean/GPy/C03/ANTable.lean): the ORDER of the tests on the def-use flags and on the sets
// bound / global, and the operations (scope assignment, Add / Discard, SyntaxError, return) of each branch.
// It also records the Copy() calls of AnalyzeChildBlock and whether the copies are what AnalyzeBlock gets.
// The file is REGENERATED from the working tree on every run, so that the theorems of lean/GPy/C03/Props.lean
// which pin the extracted table to the model's table are re-checked against what the code says now.
//
// Subset understood (anything else becomes Act.unknown / Cond.unknown, which is never equal to the model's
// table, i.e. a lost tie rather than a wrong one):
//   - statements: `flags := symbol.Flags` (first statement only), `if c { … }` without else / init, `return`,
//     `scopes[name] = Scope…`, `st.Free = true`, `S.Add(name)`, `S.Discard(name)`,
//     `st.panicSyntaxErrorLinenof(symbol.Lineno, symbol.ColOffset, "<known message>", …)`
//   - conditions: `(flags & Def…) != 0`, `S == nil`, `S != nil`, `S.Contains(name)`, `st.Nested`, `!c`, `a && b`
//     with S one of the parameters bound / local / free / global
//
// usage: symfacts <repo-root> <out.lean>
package main

import (
	"fmt"
	"go/ast"
	"go/parser"
	"go/token"
	"os"
	"path/filepath"
	"strconv"
	"strings"
)

func die(format string, a ...interface{}) {
	fmt.Fprintf(os.Stderr, "extract/symfacts: "+format+"\n", a...)
	os.Exit(1)
}

// ---------------------------------------------------------------------------------------------
// name tables

var setIds = map[string]string{
	"bound":  "SetId.bound",
	"local":  "SetId.loc",
	"free":   "SetId.free",
	"global": "SetId.glob",
}

var flagIds = map[string]string{
	"DefGlobal":    "FlagId.defGlobal",
	"DefLocal":     "FlagId.defLocal",
	"DefParam":     "FlagId.defParam",
	"DefNonlocal":  "FlagId.defNonlocal",
	"DefUse":       "FlagId.defUse",
	"DefFree":      "FlagId.defFree",
	"DefFreeClass": "FlagId.defFreeClass",
	"DefImport":    "FlagId.defImport",
	"DefBound":     "FlagId.defBound",
}

var scopeIds = map[string]string{
	"ScopeLocal":          "Scope.local",
	"ScopeGlobalExplicit": "Scope.globalExplicit",
	"ScopeGlobalImplicit": "Scope.globalImplicit",
	"ScopeFree":           "Scope.free",
	"ScopeCell":           "Scope.cell",
}

var panicMsgs = map[string]string{
	"name '%s' is parameter and global":                "Err.paramAndGlobal",
	"name '%s' is nonlocal and global":                 "Err.nonlocalAndGlobal",
	"name '%s' is parameter and nonlocal":              "Err.paramAndNonlocal",
	"nonlocal declaration not allowed at module level": "Err.nonlocalAtModule",
	"no binding for nonlocal '%s' found":               "Err.noBindingNonlocal",
}

// ---------------------------------------------------------------------------------------------
// the Prog term

type prog struct {
	kind string // "done" | "act" | "ite"
	arg  string // act: the Act term; ite: the Cond term
	thn  *prog  // ite only
	rest *prog  // act, ite
}

var done = &prog{kind: "done"}

type counters struct{ ifs, acts, unknowns int }

type translator struct {
	recv string // receiver name of AnalyzeName (st)
	n    counters
}

func isIdent(e ast.Expr, name string) bool {
	id, ok := e.(*ast.Ident)
	return ok && id.Name == name
}

// x.sel with x an identifier: returns (x, sel)
func selOf(e ast.Expr) (string, string, bool) {
	s, ok := e.(*ast.SelectorExpr)
	if !ok {
		return "", "", false
	}
	x, ok := s.X.(*ast.Ident)
	if !ok {
		return "", "", false
	}
	return x.Name, s.Sel.Name, true
}

func strip(e ast.Expr) ast.Expr {
	for {
		p, ok := e.(*ast.ParenExpr)
		if !ok {
			return e
		}
		e = p.X
	}
}

func isZero(e ast.Expr) bool {
	l, ok := strip(e).(*ast.BasicLit)
	return ok && l.Kind == token.INT && l.Value == "0"
}

// S.method(name) with S one of the four set parameters
func setCall(e ast.Expr, method string) (string, bool) {
	c, ok := e.(*ast.CallExpr)
	if !ok || len(c.Args) != 1 || c.Ellipsis.IsValid() || !isIdent(c.Args[0], "name") {
		return "", false
	}
	x, sel, ok := selOf(c.Fun)
	if !ok || sel != method {
		return "", false
	}
	s, ok := setIds[x]
	return s, ok
}

func (t *translator) cond(e ast.Expr) string {
	e = strip(e)
	switch e := e.(type) {
	case *ast.BinaryExpr:
		switch e.Op {
		case token.LAND:
			return "Cond.and " + atom(t.cond(e.X)) + " " + atom(t.cond(e.Y))
		case token.NEQ, token.EQL:
			l, r := strip(e.X), strip(e.Y)
			// (flags & DefX) != 0
			if b, ok := l.(*ast.BinaryExpr); ok && e.Op == token.NEQ && b.Op == token.AND && isZero(r) &&
				isIdent(strip(b.X), "flags") {
				if id, ok := strip(b.Y).(*ast.Ident); ok {
					if f, ok := flagIds[id.Name]; ok {
						return "Cond.flag " + f
					}
				}
			}
			// S == nil, S != nil
			if id, ok := l.(*ast.Ident); ok && isIdent(r, "nil") {
				if s, ok := setIds[id.Name]; ok {
					if e.Op == token.EQL {
						return "Cond.isNil " + s
					}
					return "Cond.notNil " + s
				}
			}
		}
	case *ast.UnaryExpr:
		if e.Op == token.NOT {
			return "Cond.not " + atom(t.cond(e.X))
		}
	case *ast.CallExpr:
		if s, ok := setCall(e, "Contains"); ok {
			return "Cond.has " + s
		}
	case *ast.SelectorExpr:
		if x, sel, ok := selOf(e); ok && x == t.recv && sel == "Nested" {
			return "Cond.nested"
		}
	}
	t.n.unknowns++
	return "Cond.unknown"
}

// a simple (non-if) statement as an Act term
func (t *translator) act(s ast.Stmt) string {
	switch s := s.(type) {
	case *ast.ReturnStmt:
		if len(s.Results) == 0 {
			return "Act.ret"
		}
	case *ast.AssignStmt:
		if s.Tok != token.ASSIGN || len(s.Lhs) != 1 || len(s.Rhs) != 1 {
			break
		}
		// scopes[name] = ScopeX
		if ix, ok := s.Lhs[0].(*ast.IndexExpr); ok && isIdent(ix.X, "scopes") && isIdent(ix.Index, "name") {
			if id, ok := strip(s.Rhs[0]).(*ast.Ident); ok {
				if sc, ok := scopeIds[id.Name]; ok {
					return "Act.setScope " + sc
				}
			}
			break
		}
		// st.Free = true
		if x, sel, ok := selOf(s.Lhs[0]); ok && x == t.recv && sel == "Free" && isIdent(strip(s.Rhs[0]), "true") {
			return "Act.setFree"
		}
	case *ast.ExprStmt:
		if set, ok := setCall(s.X, "Add"); ok {
			return "Act.add " + set
		}
		if set, ok := setCall(s.X, "Discard"); ok {
			return "Act.discard " + set
		}
		// st.panicSyntaxErrorLinenof(symbol.Lineno, symbol.ColOffset, "<format>", ...)
		c, ok := s.X.(*ast.CallExpr)
		if !ok || len(c.Args) < 3 {
			break
		}
		if x, sel, ok := selOf(c.Fun); !ok || x != t.recv || sel != "panicSyntaxErrorLinenof" {
			break
		}
		if x, sel, ok := selOf(c.Args[0]); !ok || x != "symbol" || sel != "Lineno" {
			break
		}
		if x, sel, ok := selOf(c.Args[1]); !ok || x != "symbol" || sel != "ColOffset" {
			break
		}
		lit, ok := c.Args[2].(*ast.BasicLit)
		if !ok || lit.Kind != token.STRING {
			break
		}
		msg, err := strconv.Unquote(lit.Value)
		if err != nil {
			break
		}
		if e, ok := panicMsgs[msg]; ok {
			return "Act.panic " + e
		}
	}
	t.n.unknowns++
	return "Act.unknown"
}

// `flags := symbol.Flags`
func isFlagsDecl(s ast.Stmt) bool {
	a, ok := s.(*ast.AssignStmt)
	if !ok || a.Tok != token.DEFINE || len(a.Lhs) != 1 || len(a.Rhs) != 1 || !isIdent(a.Lhs[0], "flags") {
		return false
	}
	x, sel, ok := selOf(a.Rhs[0])
	return ok && x == "symbol" && sel == "Flags"
}

func (t *translator) stmts(list []ast.Stmt) *prog {
	if len(list) == 0 {
		return done
	}
	s := list[0]
	if ifs, ok := s.(*ast.IfStmt); ok && ifs.Else == nil && ifs.Init == nil {
		t.n.ifs++
		c := t.cond(ifs.Cond)
		thn := t.stmts(ifs.Body.List)
		return &prog{kind: "ite", arg: c, thn: thn, rest: t.stmts(list[1:])}
	}
	t.n.acts++
	a := t.act(s)
	return &prog{kind: "act", arg: a, rest: t.stmts(list[1:])}
}

func (t *translator) body(list []ast.Stmt) *prog {
	if len(list) > 0 && isFlagsDecl(list[0]) {
		list = list[1:]
	}
	return t.stmts(list)
}

func atom(s string) string {
	if strings.ContainsRune(s, ' ') {
		return "(" + s + ")"
	}
	return s
}

// fully parenthesised; the `rest` of a statement stays at the indentation of the statement, the body of an
// `if` is indented, so the layout follows the Go source
func (p *prog) format(ind string) string {
	switch p.kind {
	case "act":
		return ind + "(Prog.act " + atom(p.arg) + "\n" + p.rest.format(ind) + ")"
	case "ite":
		return ind + "(Prog.ite " + atom(p.arg) + "\n" + p.thn.format(ind+"    ") + "\n" + p.rest.format(ind) + ")"
	}
	return ind + "Prog.done"
}

// ---------------------------------------------------------------------------------------------
// AnalyzeChildBlock

var copyPos = map[string]int{"bound": 0, "free": 1, "global": 2}

func childBlockCopies(fd *ast.FuncDecl) string {
	recv := recvName(fd)
	type cp struct{ set, tmp string }
	var copies []cp
	for _, s := range fd.Body.List {
		a, ok := s.(*ast.AssignStmt)
		if !ok || a.Tok != token.DEFINE || len(a.Lhs) != 1 || len(a.Rhs) != 1 {
			continue
		}
		lhs, ok := a.Lhs[0].(*ast.Ident)
		if !ok {
			continue
		}
		c, ok := a.Rhs[0].(*ast.CallExpr)
		if !ok || len(c.Args) != 0 {
			continue
		}
		x, sel, ok := selOf(c.Fun)
		if !ok || sel != "Copy" {
			continue
		}
		if _, ok := copyPos[x]; !ok {
			continue
		}
		copies = append(copies, cp{x, lhs.Name})
	}
	// every st.AnalyzeBlock(a0, a1, a2) call, and every later write to a temporary
	var calls []*ast.CallExpr
	rewritten := map[string]bool{}
	ast.Inspect(fd.Body, func(n ast.Node) bool {
		switch n := n.(type) {
		case *ast.CallExpr:
			if x, sel, ok := selOf(n.Fun); ok && x == recv && sel == "AnalyzeBlock" {
				calls = append(calls, n)
			}
		case *ast.AssignStmt:
			if n.Tok != token.DEFINE {
				for _, l := range n.Lhs {
					if id, ok := l.(*ast.Ident); ok {
						rewritten[id.Name] = true
					}
				}
			}
		}
		return true
	})
	var items []string
	for _, c := range copies {
		passed := len(calls) > 0 && !rewritten[c.tmp]
		for _, call := range calls {
			pos := copyPos[c.set]
			if len(call.Args) != 3 || !isIdent(call.Args[pos], c.tmp) {
				passed = false
			}
		}
		set := setIds[c.set]
		// short form of the constructor, as in the documented output
		items = append(items, fmt.Sprintf("(.%s, %v)", strings.TrimPrefix(set, "SetId."), passed))
	}
	return "[" + strings.Join(items, ", ") + "]"
}

// ---------------------------------------------------------------------------------------------

func recvName(fd *ast.FuncDecl) string {
	if fd.Recv == nil || len(fd.Recv.List) != 1 || len(fd.Recv.List[0].Names) != 1 {
		return ""
	}
	return fd.Recv.List[0].Names[0].Name
}

// method `name` with receiver *SymTable
func findMethod(f *ast.File, name string) *ast.FuncDecl {
	for _, d := range f.Decls {
		fd, ok := d.(*ast.FuncDecl)
		if !ok || fd.Name.Name != name || fd.Recv == nil || len(fd.Recv.List) != 1 || fd.Body == nil {
			continue
		}
		star, ok := fd.Recv.List[0].Type.(*ast.StarExpr)
		if !ok || !isIdent(star.X, "SymTable") {
			continue
		}
		return fd
	}
	return nil
}

// the parameter names in order
func paramNames(fd *ast.FuncDecl) []string {
	var out []string
	for _, fl := range fd.Type.Params.List {
		for _, n := range fl.Names {
			out = append(out, n.Name)
		}
	}
	return out
}

func main() {
	if len(os.Args) != 3 {
		die("usage: symfacts <repo-root> <out.lean>")
	}
	src := filepath.Join(os.Args[1], "symtable", "symtable.go")
	fset := token.NewFileSet()
	file, err := parser.ParseFile(fset, src, nil, 0)
	if err != nil {
		die("parse %s: %v", src, err)
	}
	an := findMethod(file, "AnalyzeName")
	if an == nil {
		die("%s: method (*SymTable).AnalyzeName not found", src)
	}
	t := &translator{recv: recvName(an)}
	var p *prog
	want := "scopes name symbol bound local free global"
	if got := strings.Join(paramNames(an), " "); got != want || t.recv == "" {
		// the identifiers the translation keys on mean something else: nothing is recognised
		fmt.Fprintf(os.Stderr, "extract/symfacts: AnalyzeName has parameters (%s), expected (%s): body not translated\n", got, want)
		t.n.acts, t.n.unknowns = 1, 1
		p = &prog{kind: "act", arg: "Act.unknown", rest: done}
	} else {
		p = t.body(an.Body.List)
	}

	copies := "[]"
	if cb := findMethod(file, "AnalyzeChildBlock"); cb != nil {
		copies = childBlockCopies(cb)
	} else {
		fmt.Fprintf(os.Stderr, "extract/symfacts: %s: method (*SymTable).AnalyzeChildBlock not found, childBlockCopies := []\n", src)
	}

	var b strings.Builder
	b.WriteString("/- GENERATED by extract/symfacts from symtable/symtable.go (AnalyzeName, AnalyzeChildBlock) — do not edit -/\n")
	b.WriteString("import GPy.C03.ANTable\n")
	b.WriteString("namespace GPy.C03.Generated\n")
	b.WriteString("open GPy.C03\n\n")
	b.WriteString("/-- (*SymTable).AnalyzeName as the code has it: order of the tests and the operations of each branch -/\n")
	b.WriteString("def analyzeNameFacts : Prog :=\n")
	b.WriteString(p.format("  "))
	b.WriteString("\n\n")
	b.WriteString("/-- AnalyzeChildBlock: the Copy() calls in order; `true` = AnalyzeBlock receives the copy in that parameter position -/\n")
	b.WriteString("def childBlockCopies : CopyFacts := " + copies + "\n\n")
	b.WriteString("end GPy.C03.Generated\n")

	out := os.Args[2]
	if err := os.MkdirAll(filepath.Dir(out), 0o755); err != nil {
		die("%v", err)
	}
	if err := os.WriteFile(out, []byte(b.String()), 0o644); err != nil {
		die("%v", err)
	}
	fmt.Printf("extract/symfacts: AnalyzeName: %d if-tests, %d actions, %d unknowns; AnalyzeChildBlock copies %s -> %s\n",
		t.n.ifs, t.n.acts, t.n.unknowns, copies, out)
}
