module yaccfacts

go 1.18
