// yaccfacts: read the expression cascade `test … power` of parser/grammar.y and
// regenerate lean/GPy/C06/Generated.lean (the precedence-level table the Lean
// parser is driven by).  Any rule shape it does not know is a hard error, so that
// an edit to the grammar either changes the table (and breaks
// `generated_table_eq_python34`) or stops the check.
package main

import (
	"crypto/sha1"
	"encoding/json"
	"flag"
	"fmt"
	"os"
	"regexp"
	"sort"
	"strings"
)

type alt struct {
	syms   []string
	action string
}

// orule: one grammar rule (one alternative) in order of appearance; goyacc numbers them 1, 2, …
type orule struct {
	lhs       string
	syms      []string
	action    string
	hasAction bool
}

var ordered []orule  // filled by parseRules
var midRule []string // nonterminals having a mid-rule action (filled by parseRules)

func fail(format string, a ...interface{}) {
	fmt.Fprintf(os.Stderr, "yaccfacts: "+format+"\n", a...)
	os.Exit(1)
}

// parseRules splits the rules section into nonterminal -> alternatives
func parseRules(src string) map[string][]alt {
	parts := strings.SplitN(src, "\n%%", 3)
	if len(parts) < 2 {
		fail("no %%%% section")
	}
	s := parts[1]
	rules := map[string][]alt{}
	i := 0
	n := len(s)
	cur := ""
	var syms []string
	action := ""
	hasAction := false
	ordered = nil
	midRule = nil
	flush := func() {
		if cur != "" {
			rules[cur] = append(rules[cur], alt{syms, action})
			ordered = append(ordered, orule{cur, syms, action, hasAction})
		}
		syms, action, hasAction = nil, "", false
	}
	sym := func(w string) {
		if hasAction {
			// goyacc turns a mid-rule action into a hidden rule `$$N:` and shifts the numbering
			midRule = append(midRule, cur)
		}
		syms = append(syms, w)
	}
	for i < n {
		c := s[i]
		switch {
		case c == ' ' || c == '\t' || c == '\n' || c == '\r':
			i++
		case strings.HasPrefix(s[i:], "//"):
			for i < n && s[i] != '\n' {
				i++
			}
		case strings.HasPrefix(s[i:], "/*"):
			j := strings.Index(s[i+2:], "*/")
			if j < 0 {
				fail("unterminated comment")
			}
			i += j + 4
		case c == '{':
			depth := 0
			j := i
			for j < n {
				switch {
				case s[j] == '\'' && j+2 < n && s[j+2] == '\'':
					j += 3
					continue
				case s[j] == '"':
					j++
					for j < n && s[j] != '"' {
						if s[j] == '\\' {
							j++
						}
						j++
					}
				case strings.HasPrefix(s[j:], "//"):
					for j < n && s[j] != '\n' {
						j++
					}
					continue
				case s[j] == '{':
					depth++
				case s[j] == '}':
					depth--
				}
				j++
				if depth == 0 {
					break
				}
			}
			action += s[i:j]
			hasAction = true
			i = j
		case c == '|':
			flush()
			i++
		case c == ';':
			flush()
			cur = ""
			i++
		case c == '\'':
			sym(s[i : i+3])
			i += 3
		default:
			j := i
			for j < n && (s[j] == '_' || s[j] >= '0' && s[j] <= '9' || s[j] >= 'a' && s[j] <= 'z' || s[j] >= 'A' && s[j] <= 'Z') {
				j++
			}
			if j == i {
				fail("unexpected character %q in rules section", c)
			}
			word := s[i:j]
			k := j
			for k < n && (s[k] == ' ' || s[k] == '\t' || s[k] == '\n') {
				k++
			}
			if k < n && s[k] == ':' {
				flush()
				cur = word
				i = k + 1
			} else {
				sym(word)
				i = j
			}
		}
	}
	flush()
	return rules
}

var tokP = map[string]string{
	"'|'": "vbar", "'^'": "circumflex", "'&'": "amper", "LTLT": "ltlt", "GTGT": "gtgt", "'+'": "plus", "'-'": "minus",
	"'*'": "star", "'/'": "slash", "'%'": "percent", "DIVDIV": "divdiv", "'~'": "tilde", "STARSTAR": "starstar",
	"'<'": "less", "'>'": "greater", "EQEQ": "eqeq", "GTEQ": "gteq", "LTEQ": "lteq", "PLINGEQ": "plingeq", "LTGT": "ltgt",
}
var tokK = map[string]string{"OR": "or_", "AND": "and_", "NOT": "not_", "IN": "in_", "IS": "is_", "IF": "if_", "ELSE": "else_"}
var binOps = map[string]string{"Add": "add", "Sub": "sub", "Mult": "mult", "Div": "div", "Modulo": "modulo", "Pow": "pow", "LShift": "lshift",
	"RShift": "rshift", "BitOr": "bitor", "BitXor": "bitxor", "BitAnd": "bitand", "FloorDiv": "floordiv"}
var unOps = map[string]string{"Not": "not", "UAdd": "uadd", "USub": "usub", "Invert": "invert"}
var boolOps = map[string]string{"Or": "or", "And": "and"}
var cmpOps = map[string]string{"Lt": "lt", "Gt": "gt", "Eq": "eq", "GtE": "gte", "LtE": "lte", "NotEq": "noteq", "In": "in_", "NotIn": "notin", "Is": "is", "IsNot": "isnot"}

func tokLean(t string) string {
	if p, ok := tokP[t]; ok {
		return "(.p ." + p + ")"
	}
	if k, ok := tokK[t]; ok {
		return "(.k ." + k + ")"
	}
	fail("unknown token %s", t)
	return ""
}
func tokShort(t string) string { s := tokLean(t); return s[1 : len(s)-1] }

var opRe = regexp.MustCompile(`Op:\s*ast\.(\w+)`)
var cmpRe = regexp.MustCompile(`\$\$\s*=\s*ast\.(\w+)`)

// ---------------------------------------------------------------------------------------------
// Rule facts: for every MODELLED nonterminal the right-hand sides (as written in grammar.y) and a
// fingerprint of the normalised semantic action, both of grammar.y and of the `case N:` of parser/y.go
// (goyacc numbers the rules 1, 2, … in order of appearance; rule 0 is $accept; a rule without an
// action has no case).  grammar.y and y.go must agree on EVERY rule (modelled or not), otherwise the
// extractor fails naming the rule: y.go is what runs, grammar.y is what the Lean grammar was read from.
// ---------------------------------------------------------------------------------------------

// modelled: the nonterminals the Lean grammar (Model.lean section 5, Stmt.lean) transliterates, plus
// the list-like helpers their rules reference.  One pinned theorem per name in lean/GPy/C06/RulePins.lean.
var modelled = []string{
	"inputs", "single_input", "file_input", "nl_or_stmt", "eval_input", "nls",
	"optional_arglist", "optional_arglist_call", "decorator", "decorators", "classdef_or_funcdef", "decorated",
	"optional_return_type", "funcdef", "parameters", "optional_typedargslist",
	"tfpdeftest", "tfpdeftests", "tfpdeftests1", "optional_tfpdef", "typedargslist", "tfpdef",
	"vfpdeftest", "vfpdeftests", "vfpdeftests1", "optional_vfpdef", "varargslist", "vfpdef",
	"expr_stmt", "yield_expr_or_testlist", "yield_expr_or_testlist_star_expr", "equals_yield_expr_or_testlist_star_expr",
	"test_or_star_exprs", "test_or_star_expr", "optional_comma", "testlist_star_expr", "augassign",
	"del_stmt", "return_stmt",
	"dot", "dots", "from_arg", "import_from_arg", "import_from", "import_as_name", "dotted_as_name",
	"import_as_names", "dotted_as_names", "dotted_name", "names", "global_stmt", "nonlocal_stmt", "tests",
	"optional_else", "for_stmt", "with_items", "with_stmt", "with_item",
	"test", "test_nocond", "lambdef", "lambdef_nocond", "star_expr",
	"power", "trailers", "strings", "atom", "trailer", "subscripts", "subscriptlist", "subscript", "sliceop",
	"expr_or_star_expr", "expr_or_star_exprs", "exprlist", "testlist", "testlistraw",
	"test_colon_tests", "dictorsetmaker", "classdef", "arguments", "optional_arguments", "arguments2", "arglist", "argument",
	"comp_iter", "comp_for", "comp_if", "yield_expr",
}

// ygoExceptions: rules whose y.go action legitimately cannot be matched textually against grammar.y
// after normalisation.  Key: "lhs: rhs"; the pair of fingerprints (grammar.y, y.go) was compared by
// hand and is accepted as equivalent; any other pair is a mismatch.
var ygoExceptions = map[string]struct{ gfp, yfp, why string }{
	// grammar.y: `for i, item := range(extslice.Dims) {`   y.go: `for i, item := range extslice.Dims {`
	// (y.go went through gofmt -s, which drops the redundant parentheses); rest of the action identical
	"trailer: '[' subscriptlist ']'": {"c686eb5dc0ed", "e441b9e5e6aa", "gofmt -s removed the parentheses of range(extslice.Dims)"},
}

var (
	reValG  = regexp.MustCompile(`\$(<\w+>)?\$`)
	reArgG  = regexp.MustCompile(`\$(<\w+>)?(\d+)`)
	reValY  = regexp.MustCompile(`\byyVAL\.\w+`)
	reArgY  = regexp.MustCompile(`\byyDollar\[(\d+)\]\.\w+`)
	reSlice = regexp.MustCompile(`^yyDollar=yyS\[yypt-\d+:yypt\+1\]`)
)

// stripCode removes comments (hence `//line` directives) and all white space outside string and
// character literals.
func stripCode(s string) string {
	var sb strings.Builder
	n := len(s)
	for i := 0; i < n; {
		c := s[i]
		switch {
		case c == ' ' || c == '\t' || c == '\n' || c == '\r':
			i++
		case strings.HasPrefix(s[i:], "//"):
			for i < n && s[i] != '\n' {
				i++
			}
		case strings.HasPrefix(s[i:], "/*"):
			j := strings.Index(s[i+2:], "*/")
			if j < 0 {
				i = n
			} else {
				i += j + 4
			}
		case c == '"' || c == '\'':
			j := i + 1
			for j < n && s[j] != c {
				if s[j] == '\\' {
					j++
				}
				j++
			}
			if j >= n {
				j = n - 1
			}
			sb.WriteString(s[i : j+1])
			i = j + 1
		case c == '`':
			j := strings.IndexByte(s[i+1:], '`')
			if j < 0 {
				sb.WriteString(s[i:])
				i = n
			} else {
				sb.WriteString(s[i : i+j+2])
				i += j + 2
			}
		default:
			sb.WriteByte(c)
			i++
		}
	}
	return sb.String()
}

func normGrammar(a string) string {
	// substitute before stripping: white space delimits the identifiers
	a = reValG.ReplaceAllString(a, "$$$$")
	a = reArgG.ReplaceAllString(a, "$$$2")
	return stripCode(a)
}

func normYgo(a string) string {
	a = reValY.ReplaceAllString(a, "$$$$")
	a = reArgY.ReplaceAllString(a, "$$$1")
	return reSlice.ReplaceAllString(stripCode(a), "")
}

func fp(norm string) string {
	if norm == "" {
		return ""
	}
	return fmt.Sprintf("%x", sha1.Sum([]byte(norm)))[:12]
}

var reCase = regexp.MustCompile(`(?m)^\tcase (\d+):\n`)

// parseYgo: rule number -> raw text of the `case N:` body of the action switch of y.go
func parseYgo(src string) map[int]string {
	k := strings.Index(src, "\tswitch yynt {\n")
	if k < 0 {
		fail("y.go: no `switch yynt {` action switch")
	}
	body := src[k:]
	e := strings.Index(body, "\n\t}\n\tgoto yystack")
	if e < 0 {
		fail("y.go: end of the action switch not found")
	}
	body = body[:e+1]
	locs := reCase.FindAllStringSubmatchIndex(body, -1)
	res := map[int]string{}
	for i, l := range locs {
		var num int
		fmt.Sscanf(body[l[2]:l[3]], "%d", &num)
		end := len(body)
		if i+1 < len(locs) {
			end = locs[i+1][0]
		}
		if _, dup := res[num]; dup {
			fail("y.go: duplicate case %d", num)
		}
		res[num] = body[l[1]:end]
	}
	return res
}

func leanStr(s string) string {
	return `"` + strings.NewReplacer(`\`, `\\`, `"`, `\"`).Replace(s) + `"`
}
func leanList(xs []string) string {
	q := make([]string, len(xs))
	for i, x := range xs {
		q[i] = leanStr(x)
	}
	return "[" + strings.Join(q, ", ") + "]"
}
func leanIdent(nt string) string { return "r_" + nt }

func writeIfChanged(path, text, what string) {
	old, _ := os.ReadFile(path)
	if string(old) == text {
		fmt.Fprintf(infoOut, "yaccfacts: %s, %s unchanged\n", what, path)
		return
	}
	if err := os.WriteFile(path, []byte(text), 0o644); err != nil {
		fail("%v", err)
	}
	fmt.Fprintf(infoOut, "yaccfacts: %s, %s REWRITTEN\n", what, path)
}

// ruleFacts writes GeneratedRules.lean / the TSV and returns the disagreements grammar.y <-> y.go
func ruleFacts(ygoPath, leanOut, tsvOut string) []string {
	var errs []string
	if len(midRule) > 0 {
		// a mid-rule action makes goyacc insert a hidden rule, which would shift every later number
		fail("grammar.y has mid-rule actions (in %s): rule numbering of y.go not modelled", strings.Join(midRule, ", "))
	}
	yb, err := os.ReadFile(ygoPath)
	if err != nil {
		fail("%v", err)
	}
	cases := parseYgo(string(yb))
	type ruleData struct {
		alts     [][]string
		nums     []int
		afp, yfp []string
	}
	data := map[string]*ruleData{}
	var order []string
	used := map[int]bool{}
	for i, r := range ordered {
		num := i + 1
		g := ""
		if r.hasAction {
			g = normGrammar(r.action)
		}
		y := ""
		raw, has := cases[num]
		if has {
			y = normYgo(raw)
			used[num] = true
		}
		name := fmt.Sprintf("rule %d (%s: %s)", num, r.lhs, strings.Join(r.syms, " "))
		if ex, ok := ygoExceptions[r.lhs+": "+strings.Join(r.syms, " ")]; ok && g != y && ex.gfp == fp(g) && ex.yfp == fp(y) {
			fmt.Fprintf(infoOut, "yaccfacts: %s: accepted textual difference grammar.y %s / y.go %s (%s)\n", name, ex.gfp, ex.yfp, ex.why)
		} else if r.hasAction != has {
			errs = append(errs, fmt.Sprintf("%s: action in grammar.y=%v but `case %d:` in y.go=%v", name, r.hasAction, num, has))
		} else if g != y {
			errs = append(errs, fmt.Sprintf("%s: the action of grammar.y and `case %d:` of y.go DISAGREE (y.go was not regenerated from this grammar.y, or was edited)\n    grammar.y: %s\n    y.go     : %s", name, num, clip(g), clip(y)))
		}
		d := data[r.lhs]
		if d == nil {
			d = &ruleData{}
			data[r.lhs] = d
			order = append(order, r.lhs)
		}
		syms := r.syms
		if syms == nil {
			syms = []string{}
		}
		d.alts = append(d.alts, syms)
		d.nums = append(d.nums, num)
		d.afp = append(d.afp, fp(g))
		d.yfp = append(d.yfp, fp(y))
	}
	for num := range cases {
		if !used[num] {
			errs = append(errs, fmt.Sprintf("y.go has `case %d:` but grammar.y has only %d rules", num, len(ordered)))
		}
	}
	sort.Strings(errs)
	for _, m := range modelled {
		if data[m] == nil {
			fail("modelled nonterminal %s has no rule in grammar.y", m)
		}
	}
	isModelled := map[string]bool{}
	for _, m := range modelled {
		isModelled[m] = true
	}
	// emit in grammar order
	var names []string
	for _, nt := range order {
		if isModelled[nt] {
			names = append(names, nt)
		}
	}
	var sb, tsv, pins strings.Builder
	pins.WriteString(pinsHeader)
	sb.WriteString(`/-
GENERATED by extract/yaccfacts from parser/grammar.y and parser/y.go – do not edit.
Regenerated on every ` + "`./check C06`" + `.  For every modelled nonterminal: its alternatives exactly as spelled in
grammar.y ([] = the empty alternative), the fingerprint (12 hex digits of sha1) of each alternative's
normalised action in grammar.y ("" = no action) and of the corresponding ` + "`case N:`" + ` of y.go (goyacc rule
number N = position of the alternative in grammar.y, from 1).  ` + "`GPy.C06.RulePins`" + ` pins every rule, one
theorem per nonterminal.
-/
namespace GPy.C06.GeneratedRules

structure Rule where
  lhs      : String
  alts     : List (List String)
  actionFp : List String
  ygoFp    : List String
deriving DecidableEq, Repr, Inhabited

`)
	for _, nt := range names {
		d := data[nt]
		nums := make([]string, len(d.nums))
		for i, x := range d.nums {
			nums[i] = fmt.Sprint(x)
		}
		var body strings.Builder
		body.WriteString("  lhs := " + leanStr(nt) + "\n  alts := [\n")
		for i, a := range d.alts {
			sep := ","
			if i == len(d.alts)-1 {
				sep = ""
			}
			body.WriteString("    " + leanList(a) + sep + "\n")
		}
		body.WriteString("  ]\n  actionFp := " + leanList(d.afp) + "\n  ygoFp := " + leanList(d.yfp) + "\n\n")
		sb.WriteString(fmt.Sprintf("/-- grammar.y rules %s -/\ndef %s : Rule where\n", strings.Join(nums, ", "), leanIdent(nt)) + body.String())
		pins.WriteString("def expected_" + nt + " : Rule where\n" + body.String() +
			"theorem rule_" + nt + "_pinned : GeneratedRules.lookup " + leanStr(nt) + " = some expected_" + nt + " := by decide\n\n")
		aj, _ := json.Marshal(d.alts)
		tsv.WriteString(nt + "\t" + string(aj) + "\t" + strings.Join(d.afp, ",") + "\t" + strings.Join(d.yfp, ",") + "\n")
	}
	sb.WriteString("def rules : List Rule := [\n")
	for i, nt := range names {
		if i > 0 {
			sb.WriteString(",\n")
		}
		sb.WriteString("  " + leanIdent(nt))
	}
	sb.WriteString("\n]\n\n/-- the modelled nonterminals, in grammar order -/\ndef modelled : List String := rules.map (·.lhs)\n\n" +
		"def lookup (nt : String) : Option Rule := rules.find? (·.lhs == nt)\n\n" +
		"/-- goyacc rule numbers of the alternatives (informative, not pinned: they shift when a rule is added above) -/\n" +
		"def ruleNumbers : List (String × List Nat) := [\n")
	for i, nt := range names {
		d := data[nt]
		nums := make([]string, len(d.nums))
		for j, x := range d.nums {
			nums[j] = fmt.Sprint(x)
		}
		sep := ","
		if i == len(names)-1 {
			sep = ""
		}
		sb.WriteString("  (" + leanStr(nt) + ", [" + strings.Join(nums, ", ") + "])" + sep + "\n")
	}
	sb.WriteString("]\n\n/-- number of rules of the whole grammar.y (modelled or not) -/\ndef totalRules : Nat := " + fmt.Sprint(len(ordered)) + "\n\nend GPy.C06.GeneratedRules\n")
	what := fmt.Sprintf("%d modelled nonterminals of %d (%d rules, %d y.go cases)", len(names), len(order), len(ordered), len(cases))
	if leanOut != "" {
		writeIfChanged(leanOut, sb.String(), what)
	}
	if tsvOut != "" {
		writeIfChanged(tsvOut, tsv.String(), what)
	}
	if printPins {
		pins.WriteString("/-- everything the Lean grammar was written against, in grammar order -/\ndef expected : List Rule := [\n")
		for i, nt := range names {
			if i > 0 {
				pins.WriteString(",\n")
			}
			pins.WriteString("  expected_" + nt)
		}
		pins.WriteString("\n]\n\n/-- no modelled nonterminal appeared or disappeared -/\n" +
			"theorem modelled_pinned : GeneratedRules.modelled = expected.map (·.lhs) := by decide\n\nend GPy.C06.RulePins\n")
		fmt.Print(pins.String())
	}
	return errs
}

// printPins: print a fresh RulePins.lean to stdout (for a human re-baselining the pins after reading the
// grammar change and updating the Lean grammar; ./check never does this)
var printPins bool
var infoOut = os.Stdout

const pinsHeader = `/-
HAND-MAINTAINED pins of the grammar rules the Lean grammar model (Model.lean section 5, Stmt.lean) was
written against: right-hand sides as spelled in parser/grammar.y and fingerprints of the semantic
actions (grammar.y and the ` + "`case N:`" + ` of parser/y.go).  NOT rewritten by ./check: GeneratedRules.lean is
regenerated from the repository on every run, and a rule whose shape or action changed breaks the
obligation that NAMES it (rule_<nonterminal>_pinned).  To re-baseline after the model has been brought
up to date with a grammar change: copy the new ` + "`r_<nt>`" + ` from GeneratedRules.lean into ` + "`expected_<nt>`" + ` here
(or ` + "`go run ./extract/yaccfacts -grammar … -ygo … -print-pins`" + `) and refresh facts/C06.rules.tsv.
-/
import GPy.C06.GeneratedRules
namespace GPy.C06.RulePins
open GPy.C06.GeneratedRules (Rule)

`

func clip(s string) string {
	if len(s) > 300 {
		return s[:300] + "…"
	}
	return s
}

func main() {
	grammar := flag.String("grammar", "/repo/parser/grammar.y", "grammar.y")
	out := flag.String("out", "", "Generated.lean to (re)write")
	rulesOut := flag.String("rules-out", "", "GeneratedRules.lean to (re)write (needs -ygo)")
	rulesTsv := flag.String("rules-tsv", "", "plain TSV of the rule facts: nt, alternatives (JSON), action fingerprints, y.go fingerprints")
	ygo := flag.String("ygo", "", "parser/y.go")
	flag.BoolVar(&printPins, "print-pins", false, "print a fresh lean/GPy/C06/RulePins.lean to stdout and nothing else (manual re-baselining; needs -ygo)")
	flag.Parse()
	if printPins {
		infoOut = os.Stderr
	}
	b, err := os.ReadFile(*grammar)
	if err != nil {
		fail("%v", err)
	}
	rules := parseRules(string(b))
	if *rulesOut != "" || *rulesTsv != "" || *ygo != "" {
		if *ygo == "" {
			fail("-rules-out/-rules-tsv need -ygo")
		}
		errs := ruleFacts(*ygo, *rulesOut, *rulesTsv)
		if printPins {
			if len(errs) > 0 {
				fail("grammar.y and y.go disagree: %s", strings.Join(errs, "\n"))
			}
			return
		}
		if len(errs) > 0 {
			for _, e := range errs {
				fmt.Fprintf(os.Stderr, "yaccfacts: RULE MISMATCH %s\n", e)
			}
			defer func() {
				var short []string
				for _, e := range errs {
					short = append(short, strings.SplitN(e, "\n", 2)[0])
				}
				fmt.Fprintf(os.Stderr, "yaccfacts: FAILED: grammar.y and y.go disagree on %d rule(s): %s\n", len(errs), clip(strings.Join(short, "; ")))
				os.Exit(1)
			}()
		}
	}
	var names, levels []string
	index := map[string]int{}
	cur := "test"
	type pend struct {
		idx          int
		tok, op, rhs string
	}
	var power *pend
	for {
		alts, ok := rules[cur]
		if !ok {
			fail("no rule for %s", cur)
		}
		index[cur] = len(names)
		names = append(names, cur)
		next := ""
		var left, pre []string
		kind := ""
		nary := ""
		chain := false
		for _, a := range alts {
			sy := a.syms
			switch {
			case cur == "test" && len(sy) == 1 && sy[0] == "lambdef":
			case cur == "test" && len(sy) == 5 && sy[1] == "IF" && sy[3] == "ELSE" && sy[0] == sy[2] && sy[4] == cur && strings.Contains(a.action, "ast.IfExp") &&
				strings.Contains(a.action, "Test:$3") && strings.Contains(a.action, "Body: $1") && strings.Contains(a.action, "Orelse: $5"):
				kind = "ternary"
				if next != "" && next != sy[0] {
					fail("%s: inconsistent operand %s", cur, sy[0])
				}
				next = sy[0]
			case cur == "power" && len(sy) == 2 && sy[0] == "atom" && sy[1] == "trailers":
			case cur == "power" && len(sy) == 4 && sy[0] == "atom" && sy[1] == "trailers" && strings.Contains(a.action, "ast.BinOp") && strings.Contains(a.action, "Right: $4"):
				m := opRe.FindStringSubmatch(a.action)
				if m == nil || binOps[m[1]] == "" {
					fail("power: no operator in action")
				}
				power = &pend{len(names) - 1, tokP[sy[2]], binOps[m[1]], sy[3]}
				kind = "power"
			case len(sy) == 1 && sy[0] != cur:
				if next != "" && next != sy[0] {
					fail("%s: inconsistent operand %s", cur, sy[0])
				}
				next = sy[0]
			case len(sy) == 3 && sy[0] == cur && sy[1] == "comp_op" && strings.Contains(a.action, "ast.Compare"):
				chain = true
				kind = "chain"
				if next != "" && next != sy[2] {
					fail("%s: inconsistent operand %s", cur, sy[2])
				}
				next = sy[2]
			case len(sy) == 3 && sy[0] == cur && strings.Contains(a.action, "ast.BoolOp"):
				m := opRe.FindStringSubmatch(a.action)
				if m == nil || boolOps[m[1]] == "" || tokK[sy[1]] == "" {
					fail("%s: unknown BoolOp alternative", cur)
				}
				if !strings.Contains(a.action, "boolop.Values = append(boolop.Values, $3)") {
					fail("%s: BoolOp alternative does not flatten", cur)
				}
				nary = fmt.Sprintf(".nary .%s .%s", tokK[sy[1]], boolOps[m[1]])
				kind = "nary"
				if next != "" && next != sy[2] {
					fail("%s: inconsistent operand %s", cur, sy[2])
				}
				next = sy[2]
			case len(sy) == 3 && sy[0] == cur && strings.Contains(a.action, "ast.BinOp") && strings.Contains(a.action, "Left: $1") && strings.Contains(a.action, "Right: $3"):
				m := opRe.FindStringSubmatch(a.action)
				if m == nil || binOps[m[1]] == "" || tokP[sy[1]] == "" {
					fail("%s: unknown BinOp alternative %v", cur, sy)
				}
				left = append(left, fmt.Sprintf("(.%s, .%s)", tokP[sy[1]], binOps[m[1]]))
				kind = "left"
				if next != "" && next != sy[2] {
					fail("%s: inconsistent operand %s", cur, sy[2])
				}
				next = sy[2]
			case len(sy) == 2 && sy[1] == cur && strings.Contains(a.action, "ast.UnaryOp") && strings.Contains(a.action, "Operand: $2"):
				m := opRe.FindStringSubmatch(a.action)
				if m == nil || unOps[m[1]] == "" {
					fail("%s: unknown UnaryOp alternative", cur)
				}
				pre = append(pre, fmt.Sprintf("(%s, .%s)", tokShort(sy[0]), unOps[m[1]]))
				kind = "pre"
			default:
				fail("%s: unknown alternative shape %v", cur, sy)
			}
		}
		switch kind {
		case "ternary":
			levels = append(levels, ".ternary")
		case "nary":
			levels = append(levels, nary)
		case "left":
			levels = append(levels, ".left ["+strings.Join(left, ", ")+"]")
		case "pre":
			levels = append(levels, ".pre ["+strings.Join(pre, ", ")+"]")
		case "chain":
			_ = chain
			var ops []string
			for _, a := range rules["comp_op"] {
				if strings.Contains(a.action, "SyntaxError") {
					continue // `<>`: always a syntax error
				}
				m := cmpRe.FindStringSubmatch(a.action)
				if m == nil || cmpOps[m[1]] == "" {
					fail("comp_op: unknown alternative %v", a.syms)
				}
				switch len(a.syms) {
				case 1:
					ops = append(ops, fmt.Sprintf("(.one %s, .%s)", tokLean(a.syms[0]), cmpOps[m[1]]))
				case 2:
					ops = append(ops, fmt.Sprintf("(.two %s %s, .%s)", tokLean(a.syms[0]), tokLean(a.syms[1]), cmpOps[m[1]]))
				default:
					fail("comp_op: unknown alternative %v", a.syms)
				}
			}
			levels = append(levels, ".chain ["+strings.Join(ops, ", ")+"]")
		case "power":
			levels = append(levels, "") // filled below
		default:
			fail("%s: no operator alternative found", cur)
		}
		if cur == "power" {
			break
		}
		if next == "" {
			fail("%s: no operand nonterminal", cur)
		}
		if _, seen := index[next]; seen {
			fail("cascade loops at %s", next)
		}
		cur = next
	}
	if power == nil {
		fail("power: no `atom trailers TOK factor` alternative")
	}
	rhs, ok := index[power.rhs]
	if !ok {
		fail("power: right operand %s is not a cascade level", power.rhs)
	}
	levels[power.idx] = fmt.Sprintf(".power .%s .%s %d", power.tok, power.op, rhs)
	var sb strings.Builder
	sb.WriteString(`/-
GENERATED by extract/yaccfacts from parser/grammar.y (rules test … power) – do not edit.
Regenerated on every ` + "`./check C06`; `Props.generated_table_eq_python34`" + ` proves it equal to the
Python 3.4 reference table by ` + "`decide`" + `.
-/
import GPy.C06.Syntax
namespace GPy.C06.Generated

def levelNames : List String :=
  [`)
	for i, n := range names {
		if i > 0 {
			sb.WriteString(", ")
		}
		sb.WriteString(`"` + n + `"`)
	}
	sb.WriteString("]\n\ndef table : List Level := [\n  " + strings.Join(levels, ",\n  ") + "\n]\n\nend GPy.C06.Generated\n")
	text := sb.String()
	if *out == "" {
		fmt.Print(text)
		return
	}
	old, _ := os.ReadFile(*out)
	if string(old) == text {
		fmt.Printf("yaccfacts: %d levels, %s unchanged\n", len(levels), *out)
		return
	}
	if err := os.WriteFile(*out, []byte(text), 0o644); err != nil {
		fail("%v", err)
	}
	fmt.Printf("yaccfacts: %d levels, %s REWRITTEN\n", len(levels), *out)
}
