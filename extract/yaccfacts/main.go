// yaccfacts: read the expression cascade `test … power` of parser/grammar.y and
// regenerate lean/GPy/C06/Generated.lean (the precedence-level table the Lean
// parser is driven by).  Any rule shape it does not know is a hard error, so that
// an edit to the grammar either changes the table (and breaks
// `generated_table_eq_python34`) or stops the check.
package main

import (
	"flag"
	"fmt"
	"os"
	"regexp"
	"strings"
)

type alt struct {
	syms   []string
	action string
}

func fail(format string, a ...interface{}) {
	fmt.Fprintf(os.Stderr, "yaccfacts: "+format+"\n", a...)
	os.Exit(1)
}

// parseRules splits the rules section into nonterminal -> alternatives
func parseRules(src string) map[string][]alt {
	parts := strings.SplitN(src, "\n%%", 3)
	if len(parts) < 2 {
		fail("no %%%% section")
	}
	s := parts[1]
	rules := map[string][]alt{}
	i := 0
	n := len(s)
	cur := ""
	var syms []string
	action := ""
	flush := func() {
		if cur != "" {
			rules[cur] = append(rules[cur], alt{syms, action})
		}
		syms, action = nil, ""
	}
	for i < n {
		c := s[i]
		switch {
		case c == ' ' || c == '\t' || c == '\n' || c == '\r':
			i++
		case strings.HasPrefix(s[i:], "//"):
			for i < n && s[i] != '\n' {
				i++
			}
		case strings.HasPrefix(s[i:], "/*"):
			j := strings.Index(s[i+2:], "*/")
			if j < 0 {
				fail("unterminated comment")
			}
			i += j + 4
		case c == '{':
			depth := 0
			j := i
			for j < n {
				switch {
				case s[j] == '\'' && j+2 < n && s[j+2] == '\'':
					j += 3
					continue
				case s[j] == '"':
					j++
					for j < n && s[j] != '"' {
						if s[j] == '\\' {
							j++
						}
						j++
					}
				case strings.HasPrefix(s[j:], "//"):
					for j < n && s[j] != '\n' {
						j++
					}
					continue
				case s[j] == '{':
					depth++
				case s[j] == '}':
					depth--
				}
				j++
				if depth == 0 {
					break
				}
			}
			action += s[i:j]
			i = j
		case c == '|':
			flush()
			i++
		case c == ';':
			flush()
			cur = ""
			i++
		case c == '\'':
			syms = append(syms, s[i:i+3])
			i += 3
		default:
			j := i
			for j < n && (s[j] == '_' || s[j] >= '0' && s[j] <= '9' || s[j] >= 'a' && s[j] <= 'z' || s[j] >= 'A' && s[j] <= 'Z') {
				j++
			}
			if j == i {
				fail("unexpected character %q in rules section", c)
			}
			word := s[i:j]
			k := j
			for k < n && (s[k] == ' ' || s[k] == '\t' || s[k] == '\n') {
				k++
			}
			if k < n && s[k] == ':' {
				flush()
				cur = word
				i = k + 1
			} else {
				syms = append(syms, word)
				i = j
			}
		}
	}
	flush()
	return rules
}

var tokP = map[string]string{
	"'|'": "vbar", "'^'": "circumflex", "'&'": "amper", "LTLT": "ltlt", "GTGT": "gtgt", "'+'": "plus", "'-'": "minus",
	"'*'": "star", "'/'": "slash", "'%'": "percent", "DIVDIV": "divdiv", "'~'": "tilde", "STARSTAR": "starstar",
	"'<'": "less", "'>'": "greater", "EQEQ": "eqeq", "GTEQ": "gteq", "LTEQ": "lteq", "PLINGEQ": "plingeq", "LTGT": "ltgt",
}
var tokK = map[string]string{"OR": "or_", "AND": "and_", "NOT": "not_", "IN": "in_", "IS": "is_", "IF": "if_", "ELSE": "else_"}
var binOps = map[string]string{"Add": "add", "Sub": "sub", "Mult": "mult", "Div": "div", "Modulo": "modulo", "Pow": "pow", "LShift": "lshift",
	"RShift": "rshift", "BitOr": "bitor", "BitXor": "bitxor", "BitAnd": "bitand", "FloorDiv": "floordiv"}
var unOps = map[string]string{"Not": "not", "UAdd": "uadd", "USub": "usub", "Invert": "invert"}
var boolOps = map[string]string{"Or": "or", "And": "and"}
var cmpOps = map[string]string{"Lt": "lt", "Gt": "gt", "Eq": "eq", "GtE": "gte", "LtE": "lte", "NotEq": "noteq", "In": "in_", "NotIn": "notin", "Is": "is", "IsNot": "isnot"}

func tokLean(t string) string {
	if p, ok := tokP[t]; ok {
		return "(.p ." + p + ")"
	}
	if k, ok := tokK[t]; ok {
		return "(.k ." + k + ")"
	}
	fail("unknown token %s", t)
	return ""
}
func tokShort(t string) string { s := tokLean(t); return s[1 : len(s)-1] }

var opRe = regexp.MustCompile(`Op:\s*ast\.(\w+)`)
var cmpRe = regexp.MustCompile(`\$\$\s*=\s*ast\.(\w+)`)

func main() {
	grammar := flag.String("grammar", "/repo/parser/grammar.y", "grammar.y")
	out := flag.String("out", "", "Generated.lean to (re)write")
	flag.Parse()
	b, err := os.ReadFile(*grammar)
	if err != nil {
		fail("%v", err)
	}
	rules := parseRules(string(b))
	var names, levels []string
	index := map[string]int{}
	cur := "test"
	type pend struct{ idx int; tok, op, rhs string }
	var power *pend
	for {
		alts, ok := rules[cur]
		if !ok {
			fail("no rule for %s", cur)
		}
		index[cur] = len(names)
		names = append(names, cur)
		next := ""
		var left, pre []string
		kind := ""
		nary := ""
		chain := false
		for _, a := range alts {
			sy := a.syms
			switch {
			case cur == "test" && len(sy) == 1 && sy[0] == "lambdef":
			case cur == "test" && len(sy) == 5 && sy[1] == "IF" && sy[3] == "ELSE" && sy[0] == sy[2] && sy[4] == cur && strings.Contains(a.action, "ast.IfExp") &&
				strings.Contains(a.action, "Test:$3") && strings.Contains(a.action, "Body: $1") && strings.Contains(a.action, "Orelse: $5"):
				kind = "ternary"
				if next != "" && next != sy[0] {
					fail("%s: inconsistent operand %s", cur, sy[0])
				}
				next = sy[0]
			case cur == "power" && len(sy) == 2 && sy[0] == "atom" && sy[1] == "trailers":
			case cur == "power" && len(sy) == 4 && sy[0] == "atom" && sy[1] == "trailers" && strings.Contains(a.action, "ast.BinOp") && strings.Contains(a.action, "Right: $4"):
				m := opRe.FindStringSubmatch(a.action)
				if m == nil || binOps[m[1]] == "" {
					fail("power: no operator in action")
				}
				power = &pend{len(names) - 1, tokP[sy[2]], binOps[m[1]], sy[3]}
				kind = "power"
			case len(sy) == 1 && sy[0] != cur:
				if next != "" && next != sy[0] {
					fail("%s: inconsistent operand %s", cur, sy[0])
				}
				next = sy[0]
			case len(sy) == 3 && sy[0] == cur && sy[1] == "comp_op" && strings.Contains(a.action, "ast.Compare"):
				chain = true
				kind = "chain"
				if next != "" && next != sy[2] {
					fail("%s: inconsistent operand %s", cur, sy[2])
				}
				next = sy[2]
			case len(sy) == 3 && sy[0] == cur && strings.Contains(a.action, "ast.BoolOp"):
				m := opRe.FindStringSubmatch(a.action)
				if m == nil || boolOps[m[1]] == "" || tokK[sy[1]] == "" {
					fail("%s: unknown BoolOp alternative", cur)
				}
				if !strings.Contains(a.action, "boolop.Values = append(boolop.Values, $3)") {
					fail("%s: BoolOp alternative does not flatten", cur)
				}
				nary = fmt.Sprintf(".nary .%s .%s", tokK[sy[1]], boolOps[m[1]])
				kind = "nary"
				if next != "" && next != sy[2] {
					fail("%s: inconsistent operand %s", cur, sy[2])
				}
				next = sy[2]
			case len(sy) == 3 && sy[0] == cur && strings.Contains(a.action, "ast.BinOp") && strings.Contains(a.action, "Left: $1") && strings.Contains(a.action, "Right: $3"):
				m := opRe.FindStringSubmatch(a.action)
				if m == nil || binOps[m[1]] == "" || tokP[sy[1]] == "" {
					fail("%s: unknown BinOp alternative %v", cur, sy)
				}
				left = append(left, fmt.Sprintf("(.%s, .%s)", tokP[sy[1]], binOps[m[1]]))
				kind = "left"
				if next != "" && next != sy[2] {
					fail("%s: inconsistent operand %s", cur, sy[2])
				}
				next = sy[2]
			case len(sy) == 2 && sy[1] == cur && strings.Contains(a.action, "ast.UnaryOp") && strings.Contains(a.action, "Operand: $2"):
				m := opRe.FindStringSubmatch(a.action)
				if m == nil || unOps[m[1]] == "" {
					fail("%s: unknown UnaryOp alternative", cur)
				}
				pre = append(pre, fmt.Sprintf("(%s, .%s)", tokShort(sy[0]), unOps[m[1]]))
				kind = "pre"
			default:
				fail("%s: unknown alternative shape %v", cur, sy)
			}
		}
		switch kind {
		case "ternary":
			levels = append(levels, ".ternary")
		case "nary":
			levels = append(levels, nary)
		case "left":
			levels = append(levels, ".left ["+strings.Join(left, ", ")+"]")
		case "pre":
			levels = append(levels, ".pre ["+strings.Join(pre, ", ")+"]")
		case "chain":
			_ = chain
			var ops []string
			for _, a := range rules["comp_op"] {
				if strings.Contains(a.action, "SyntaxError") {
					continue // `<>`: always a syntax error
				}
				m := cmpRe.FindStringSubmatch(a.action)
				if m == nil || cmpOps[m[1]] == "" {
					fail("comp_op: unknown alternative %v", a.syms)
				}
				switch len(a.syms) {
				case 1:
					ops = append(ops, fmt.Sprintf("(.one %s, .%s)", tokLean(a.syms[0]), cmpOps[m[1]]))
				case 2:
					ops = append(ops, fmt.Sprintf("(.two %s %s, .%s)", tokLean(a.syms[0]), tokLean(a.syms[1]), cmpOps[m[1]]))
				default:
					fail("comp_op: unknown alternative %v", a.syms)
				}
			}
			levels = append(levels, ".chain ["+strings.Join(ops, ", ")+"]")
		case "power":
			levels = append(levels, "") // filled below
		default:
			fail("%s: no operator alternative found", cur)
		}
		if cur == "power" {
			break
		}
		if next == "" {
			fail("%s: no operand nonterminal", cur)
		}
		if _, seen := index[next]; seen {
			fail("cascade loops at %s", next)
		}
		cur = next
	}
	if power == nil {
		fail("power: no `atom trailers TOK factor` alternative")
	}
	rhs, ok := index[power.rhs]
	if !ok {
		fail("power: right operand %s is not a cascade level", power.rhs)
	}
	levels[power.idx] = fmt.Sprintf(".power .%s .%s %d", power.tok, power.op, rhs)
	var sb strings.Builder
	sb.WriteString(`/-
GENERATED by extract/yaccfacts from parser/grammar.y (rules test … power) – do not edit.
Regenerated on every ` + "`./check C06`; `Props.generated_table_eq_python34`" + ` proves it equal to the
Python 3.4 reference table by ` + "`decide`" + `.
-/
import GPy.C06.Syntax
namespace GPy.C06.Generated

def levelNames : List String :=
  [`)
	for i, n := range names {
		if i > 0 {
			sb.WriteString(", ")
		}
		sb.WriteString(`"` + n + `"`)
	}
	sb.WriteString("]\n\ndef table : List Level := [\n  " + strings.Join(levels, ",\n  ") + "\n]\n\nend GPy.C06.Generated\n")
	text := sb.String()
	if *out == "" {
		fmt.Print(text)
		return
	}
	old, _ := os.ReadFile(*out)
	if string(old) == text {
		fmt.Printf("yaccfacts: %d levels, %s unchanged\n", len(levels), *out)
		return
	}
	if err := os.WriteFile(*out, []byte(text), 0o644); err != nil {
		fail("%v", err)
	}
	fmt.Printf("yaccfacts: %d levels, %s REWRITTEN\n", len(levels), *out)
}
