package main

// C01 harness: one input line = "<family> <mode> <bad> <python source, newline escaped as \\n>".
//   mode R: compile + run in a fresh module namespace that holds the probe prelude;
//   mode C: compile only (V = "-").
// V = "L:<log events ;-separated> V:<name>=<value>,... X:<exception class or ->"
// R = the module code object disassembled: opcode names from vm.OpCode.String(),
//     EXTENDED_ARG folded, jump targets as instruction indices, names/consts by text.

import (
	"fmt"
	"math/big"
	"sort"
	"strconv"
	"strings"

	"github.com/go-python/gpython/compile"
	"github.com/go-python/gpython/py"
	_ "github.com/go-python/gpython/stdlib"
	"github.com/go-python/gpython/vm"
)

const c01Prelude = `
log = []
BAD = 0
def ev(i, v):
    log.append(i)
    if i == BAD:
        raise ValueError("probe")
    return v
def f(*a):
    log.append(('f', a))
    return ('f', a)
def g(*a):
    log.append(('g', a))
    return ('g', a)
def h(*a, **k):
    log.append(('h', a, k))
    return ('h', a, k)
class C1:
    def __getitem__(self, key):
        log.append(('gi', 1, key))
        return 100
    def __setitem__(self, key, v):
        log.append(('si', 1, key, v))
    def __delitem__(self, key):
        log.append(('di', 1, key))
    def __contains__(self, x):
        log.append(('in', 1, x))
        return True
class C2:
    def __getitem__(self, key):
        log.append(('gi', 2, key))
        return 200
    def __setitem__(self, key, v):
        log.append(('si', 2, key, v))
    def __delitem__(self, key):
        log.append(('di', 2, key))
    def __contains__(self, x):
        log.append(('in', 2, x))
        return False
class O1:
    def __getattr__(self, n):
        log.append(('ga', 1, n))
        return 1000 + len(n)
    def __setattr__(self, n, v):
        log.append(('sa', 1, n, v))
    def __delattr__(self, n):
        log.append(('da', 1, n))
class O2:
    def __getattr__(self, n):
        log.append(('ga', 2, n))
        return 2000 + len(n)
    def __setattr__(self, n, v):
        log.append(('sa', 2, n, v))
    def __delattr__(self, n):
        log.append(('da', 2, n))
c1 = C1()
c2 = C2()
o1 = O1()
o2 = O2()
x = 5
y = 7
z = 'ab'
`

var c01Ctx py.Context
var c01PreludeCode *py.Code

func c01Show(o py.Object) string {
	switch x := o.(type) {
	case nil:
		return "<nil>"
	case py.Int:
		return strconv.FormatInt(int64(x), 10)
	case *py.BigInt:
		return (*big.Int)(x).String()
	case py.String:
		return "'" + string(x) + "'"
	case py.NoneType:
		return "None"
	case py.Bool:
		if x {
			return "True"
		}
		return "False"
	case py.Float:
		return "F"
	case py.Bytes:
		return "b'" + string(x) + "'"
	case py.Tuple:
		parts := make([]string, len(x))
		for i, e := range x {
			parts[i] = c01Show(e)
		}
		return "(" + strings.Join(parts, ",") + ")"
	case *py.List:
		parts := make([]string, len(x.Items))
		for i, e := range x.Items {
			parts[i] = c01Show(e)
		}
		return "[" + strings.Join(parts, ",") + "]"
	case py.StringDict:
		keys := make([]string, 0, len(x))
		for k := range x {
			keys = append(keys, k)
		}
		sort.Strings(keys)
		parts := make([]string, len(keys))
		for i, k := range keys {
			parts[i] = "'" + k + "':" + c01Show(x[k])
		}
		return "{" + strings.Join(parts, ",") + "}"
	case *py.Slice:
		if x.Step != nil && x.Step != py.None {
			return "slice(" + c01Show(x.Start) + "," + c01Show(x.Stop) + "," + c01Show(x.Step) + ")"
		}
		return "slice(" + c01Show(x.Start) + "," + c01Show(x.Stop) + ")"
	case *py.Function:
		return "<fn " + x.Name + ">"
	case *py.Code:
		return "<code>"
	}
	return "<" + o.Type().Name + ">"
}

// c01Const renders a constant of a code object; a nested code object (lambda / def) is
// rendered with its parameter list and its own listing
func c01Const(o py.Object) string {
	if c, ok := o.(*py.Code); ok {
		return "<code " + c01Sig(c) + ": " + c01Dis(c) + ">"
	}
	return c01Show(o)
}

// c01Sig = "[pos,...;kwonly,...;*vararg or -;**kwarg or -]" from the code object
func c01Sig(c *py.Code) string {
	vn := c.Varnames
	get := func(i int) string {
		if i < len(vn) {
			return vn[i]
		}
		return "?"
	}
	na, nk := int(c.Argcount), int(c.Kwonlyargcount)
	pos := make([]string, na)
	for i := range pos {
		pos[i] = get(i)
	}
	kwo := make([]string, nk)
	for i := range kwo {
		kwo[i] = get(na + i)
	}
	next := na + nk
	va, kw := "-", "-"
	if c.Flags&py.CO_VARARGS != 0 {
		va = "*" + get(next)
		next++
	}
	if c.Flags&py.CO_VARKEYWORDS != 0 {
		kw = "**" + get(next)
	}
	return "[" + strings.Join(pos, ",") + ";" + strings.Join(kwo, ",") + ";" + va + ";" + kw + "]"
}

var c01Rel = map[vm.OpCode]bool{
	vm.JUMP_FORWARD: true, vm.SETUP_WITH: true, vm.FOR_ITER: true,
	vm.SETUP_LOOP: true, vm.SETUP_EXCEPT: true, vm.SETUP_FINALLY: true,
}
var c01Abs = map[vm.OpCode]bool{
	vm.JUMP_ABSOLUTE: true, vm.POP_JUMP_IF_FALSE: true, vm.POP_JUMP_IF_TRUE: true,
	vm.JUMP_IF_FALSE_OR_POP: true, vm.JUMP_IF_TRUE_OR_POP: true, vm.CONTINUE_LOOP: true,
}
var c01Name = map[vm.OpCode]bool{
	vm.LOAD_NAME: true, vm.STORE_NAME: true, vm.DELETE_NAME: true, vm.LOAD_ATTR: true, vm.STORE_ATTR: true,
	vm.DELETE_ATTR: true, vm.LOAD_GLOBAL: true, vm.STORE_GLOBAL: true, vm.IMPORT_NAME: true, vm.IMPORT_FROM: true,
}

// c01Dis decodes code.Code into "OP(arg) OP ..." with instruction-index jump targets
func c01Dis(code *py.Code) string {
	b := []byte(code.Code)
	type ins struct {
		off, next int
		op        vm.OpCode
		arg       int
		hasArg    bool
	}
	var list []ins
	index := map[int]int{} // byte offset -> instruction index
	ext := 0
	i := 0
	for i < len(b) {
		start := i
		op := vm.OpCode(b[i])
		i++
		arg := 0
		has := op.HAS_ARG()
		if has {
			arg = int(b[i]) | int(b[i+1])<<8 | ext<<16
			i += 2
		}
		if op == vm.EXTENDED_ARG {
			ext = arg
			continue
		}
		ext = 0
		index[start] = len(list)
		list = append(list, ins{start, i, op, arg, has})
	}
	index[len(b)] = len(list)
	out := make([]string, len(list))
	for k, in := range list {
		name := in.op.String()
		if in.op == vm.STORE_NAME { // stringer prints the alias HAVE_ARGUMENT (same value 90)
			name = "STORE_NAME"
		}
		switch {
		case !in.hasArg:
			out[k] = name
		case c01Rel[in.op]:
			t, ok := index[in.next+in.arg]
			if !ok {
				t = -1
			}
			out[k] = fmt.Sprintf("%s(%d)", name, t)
		case c01Abs[in.op]:
			t, ok := index[in.arg]
			if !ok {
				t = -1
			}
			out[k] = fmt.Sprintf("%s(%d)", name, t)
		case in.op == vm.LOAD_CONST:
			cs := c01Const(code.Consts[in.arg])
			// the qualified name pushed right after a code object: only its last component is
			// modelled ("<lambda>.<locals>.<lambda>" -> "<lambda>")
			if k > 0 && list[k-1].op == vm.LOAD_CONST {
				if _, isCode := code.Consts[list[k-1].arg].(*py.Code); isCode {
					if i := strings.LastIndex(cs, ".<locals>."); i >= 0 {
						cs = "'" + cs[i+len(".<locals>."):]
					}
				}
			}
			out[k] = name + "(" + cs + ")"
		case in.op == vm.LOAD_FAST || in.op == vm.STORE_FAST || in.op == vm.DELETE_FAST:
			out[k] = name + "(" + code.Varnames[in.arg] + ")"
		case c01Name[in.op]:
			out[k] = name + "(" + code.Names[in.arg] + ")"
		default:
			out[k] = fmt.Sprintf("%s(%d)", name, in.arg)
		}
	}
	return strings.Join(out, " ")
}

var c01Vars = []string{"r", "x", "y", "z", "u", "v"}

func c01Handler(args []string) handler {
	c01Ctx = py.NewContext(py.DefaultContextOpts())
	var err error
	c01PreludeCode, err = compile.Compile(c01Prelude, "<prelude>", py.ExecMode, 0, true)
	if err != nil {
		panic(err)
	}
	return func(line string) (string, string) {
		parts := strings.SplitN(line, " ", 4)
		if len(parts) != 4 {
			return "BADINPUT", "-"
		}
		mode, badS, src := parts[1], parts[2], strings.ReplaceAll(parts[3], "\\n", "\n")
		code, err := compile.Compile(src, "<case>", py.ExecMode, 0, true)
		if err != nil {
			return errClass(err), "-"
		}
		dis := c01Dis(code)
		if mode == "C" {
			return "-", dis
		}
		globals := py.NewStringDict()
		if _, err := c01Ctx.RunCode(c01PreludeCode, globals, globals, nil); err != nil {
			return "PRELUDE:" + errClass(err), dis
		}
		bad, _ := strconv.Atoi(badS)
		globals["BAD"] = py.Int(bad)
		_, err = c01Ctx.RunCode(code, globals, globals, nil)
		x := "-"
		if err != nil {
			x = strings.TrimPrefix(errClass(err), "E:")
		}
		var ev []string
		if l, ok := globals["log"].(*py.List); ok {
			for _, e := range l.Items {
				ev = append(ev, c01Show(e))
			}
		}
		var vs []string
		for _, n := range c01Vars {
			if v, ok := globals[n]; ok {
				vs = append(vs, n+"="+c01Show(v))
			}
		}
		return "L:" + strings.Join(ev, ";") + " V:" + strings.Join(vs, ",") + " X:" + x, dis
	}
}

func init() { handlers["C01"] = c01Handler }
