package main

// C02 harness: control flow and exceptions.
//
// input  : ev=<i>:<a>.<a>..,<i>:..;it=<i>:<n>,..;ex=<i>:<r>.<r>..,..;src=<python source, "\n" escaped>
//          ev actions: v<int> (return that int) | r<ExceptionClassName> (raise it); exhausted script: v0
//          it        : length of every iterator created by probe i (default 0)
//          ex        : results of successive __exit__ calls of cm(i): N T F 1 0 (default N); L = call the program's
//                      helper xl() (a Python loop in a frame of its own) and answer None
//          a function f that contains a yield is called as `r = drive(f())`: drive calls next() until the
//          generator is exhausted, logs y<value> per yielded value and returns the StopIteration value
// V      : <path log>|<outcome>    outcome = R:<repr of f()'s result> | E:<class>@<fn>:<line>,<fn>:<line>..
// R      : <decoded bytecode of f>|<instruction trace of f's frame (hook H2)>
//          bytecode: NAME:arg:line per instruction; EXTENDED_ARG folded; jump targets as ->instruction index
//          trace   : idx:stacklen:blocks   blocks = kind(L/E/F/H) level > handler index, bottom to top

import (
	"fmt"
	"strconv"
	"strings"

	"github.com/go-python/gpython/compile"
	"github.com/go-python/gpython/py"
	_ "github.com/go-python/gpython/stdlib"
	"github.com/go-python/gpython/vm"
)

type c02World struct {
	log     []string
	ev      map[int][]string
	itLen   map[int]int
	ex      map[int][]string
	ctx     py.Context
	globals py.StringDict
}

func (w *c02World) logf(format string, a ...interface{}) {
	w.log = append(w.log, fmt.Sprintf(format, a...))
}

// probe iterator
type c02Iter struct {
	w      *c02World
	i      int
	remain int
	k      int
}

var c02IterType = py.NewType("probeiter", "C02 probe iterator")

func (it *c02Iter) Type() *py.Type { return c02IterType }
func (it *c02Iter) M__iter__() (py.Object, error) {
	return it, nil
}
func (it *c02Iter) M__next__() (py.Object, error) {
	it.w.logf("n%d", it.i)
	if it.remain == 0 {
		return nil, py.StopIteration
	}
	it.remain--
	it.k++
	return py.Int(it.k), nil
}

// probe context manager
type c02CM struct {
	w *c02World
	i int
}

var c02CMType = py.NewType("probecm", "C02 probe context manager")

func (c *c02CM) Type() *py.Type { return c02CMType }
func (c *c02CM) M__enter__() (py.Object, error) {
	c.w.logf("en%d", c.i)
	return py.None, nil
}
func (c *c02CM) M__exit__(t, v, tb py.Object) (py.Object, error) {
	name := "None"
	if tt, ok := t.(*py.Type); ok {
		name = tt.Name
	} else if t != py.None {
		name = "?" + t.Type().Name
	}
	c.w.logf("ex%d:%s", c.i, name)
	acts := c.w.ex[c.i]
	a := "N"
	if len(acts) > 0 {
		a = acts[0]
		c.w.ex[c.i] = acts[1:]
	}
	switch a {
	case "L":
		// this __exit__ runs a Python loop of its own (helper xl of the program: a frame and a Vm of its
		// own, continue through try/finally) before it answers None
		xl, ok := c.w.globals["xl"]
		if !ok {
			panic("exit script L but no helper xl in the program")
		}
		if _, err := py.Call(xl, nil, nil); err != nil {
			return nil, err
		}
		return py.None, nil
	case "T":
		return py.True, nil
	case "F":
		return py.False, nil
	case "1":
		return py.Int(1), nil
	case "0":
		return py.Int(0), nil
	}
	return py.None, nil
}

func c02ParseScript(s string) map[int][]string {
	m := map[int][]string{}
	if s == "" {
		return m
	}
	for _, ent := range strings.Split(s, ",") {
		kv := strings.SplitN(ent, ":", 2)
		i, _ := strconv.Atoi(kv[0])
		if len(kv) > 1 && kv[1] != "" {
			m[i] = strings.Split(kv[1], ".")
		} else {
			m[i] = nil
		}
	}
	return m
}

var c02RelJumps = map[vm.OpCode]bool{vm.JUMP_FORWARD: true, vm.SETUP_WITH: true, vm.FOR_ITER: true,
	vm.SETUP_LOOP: true, vm.SETUP_EXCEPT: true, vm.SETUP_FINALLY: true}
var c02AbsJumps = map[vm.OpCode]bool{vm.JUMP_IF_FALSE_OR_POP: true, vm.JUMP_IF_TRUE_OR_POP: true, vm.JUMP_ABSOLUTE: true,
	vm.POP_JUMP_IF_FALSE: true, vm.POP_JUMP_IF_TRUE: true, vm.CONTINUE_LOOP: true}

type c02Instr struct {
	off  int // offset of the first byte (the EXTENDED_ARG prefix if any)
	end  int // offset after the last byte
	op   vm.OpCode
	arg  int
	harg bool
}

// decode the byte code; returns instructions and a map byte offset -> instruction index for every byte
func c02Decode(code *py.Code) ([]c02Instr, map[int]int) {
	b := []byte(code.Code)
	var out []c02Instr
	byOff := map[int]int{}
	ext, start, haveExt := 0, 0, false
	for i := 0; i < len(b); {
		if !haveExt {
			start = i
		}
		op := vm.OpCode(b[i])
		i++
		arg := 0
		if op.HAS_ARG() {
			arg = int(b[i]) | int(b[i+1])<<8
			i += 2
		}
		if op == vm.EXTENDED_ARG {
			ext = arg
			haveExt = true
			continue
		}
		if haveExt {
			arg |= ext << 16
		}
		haveExt = false
		for k := start; k < i; k++ {
			byOff[k] = len(out)
		}
		out = append(out, c02Instr{off: start, end: i, op: op, arg: arg, harg: op.HAS_ARG()})
	}
	byOff[len(b)] = len(out)
	return out, byOff
}

func c02ConstRepr(o py.Object) string {
	switch x := o.(type) {
	case py.Int:
		return strconv.Itoa(int(x))
	case py.NoneType:
		return "None"
	case py.String:
		return "'" + string(x) + "'"
	}
	return "<" + o.Type().Name + ">"
}

func c02RenderCode(code *py.Code) (string, map[int]int) {
	ins, byOff := c02Decode(code)
	var sb []string
	for _, in := range ins {
		arg := ""
		switch {
		case !in.harg:
		case c02RelJumps[in.op]:
			arg = "->" + strconv.Itoa(byOff[in.end+in.arg])
		case c02AbsJumps[in.op]:
			arg = "->" + strconv.Itoa(byOff[in.arg])
		case in.op == vm.LOAD_GLOBAL || in.op == vm.LOAD_NAME || in.op == vm.STORE_NAME || in.op == vm.STORE_GLOBAL || in.op == vm.DELETE_NAME || in.op == vm.LOAD_ATTR:
			arg = code.Names[in.arg]
		case in.op == vm.LOAD_CONST:
			arg = c02ConstRepr(code.Consts[in.arg])
		case in.op == vm.LOAD_FAST || in.op == vm.STORE_FAST || in.op == vm.DELETE_FAST:
			arg = code.Varnames[in.arg]
		default:
			arg = strconv.Itoa(in.arg)
		}
		sb = append(sb, fmt.Sprintf("%s:%s:%d", in.op.String(), arg, code.Addr2Line(int32(in.off))))
	}
	return strings.Join(sb, " "), byOff
}

func c02FindCode(code *py.Code, name string) *py.Code {
	for _, c := range code.Consts {
		if cc, ok := c.(*py.Code); ok {
			if cc.Name == name {
				return cc
			}
			if r := c02FindCode(cc, name); r != nil {
				return r
			}
		}
	}
	return nil
}

// the value carried by a StopIteration (None when it carries none)
func c02StopValue(err error) py.Object {
	var value py.Object
	switch e := err.(type) {
	case py.ExceptionInfo:
		value = e.Value
	case *py.ExceptionInfo:
		value = e.Value
	case *py.Exception:
		value = e
	}
	if exc, ok := value.(*py.Exception); ok {
		if args, ok := exc.Args.(py.Tuple); ok && len(args) > 0 {
			return args[0]
		}
	}
	return py.None
}

func c02Outcome(err error) string {
	var ei *py.ExceptionInfo
	switch e := err.(type) {
	case py.ExceptionInfo:
		ei = &e
	case *py.ExceptionInfo:
		ei = e
	case *py.Exception:
		return "E:" + e.Type().Name + "@-"
	default:
		return "E:?" + fmt.Sprintf("%T", err)
	}
	name := "?"
	if ei.Type != nil {
		name = ei.Type.Name
	}
	var tbs []string
	for tb := ei.Traceback; tb != nil; tb = tb.Next {
		tbs = append(tbs, fmt.Sprintf("%s:%d", tb.Frame.Code.Name, tb.Lineno))
	}
	return "E:" + name + "@" + strings.Join(tbs, ",")
}

// xm=<raised>:<caught>,<caught>..  ->  py.ExceptionGivenMatches(class, class | tuple)
func c02Match(arg string) (string, string) {
	ctx := py.NewContext(py.DefaultContextOpts())
	defer ctx.Close()
	builtins := ctx.Store().Builtins.Globals
	kv := strings.SplitN(arg, ":", 2)
	err := builtins[kv[0]]
	var exc py.Object
	names := []string{}
	if kv[1] != "" {
		names = strings.Split(kv[1], ",")
	}
	if len(names) == 1 {
		exc = builtins[names[0]]
	} else {
		t := py.Tuple{}
		for _, n := range names {
			t = append(t, builtins[n])
		}
		exc = t
	}
	res := py.ExceptionGivenMatches(err, exc)
	// an instance of the class must match in the same way
	inst := py.ExceptionNewf(err.(*py.Type), "x")
	if py.ExceptionGivenMatches(inst, exc) != res {
		return "instance/class disagree", ""
	}
	if res {
		return "T", ""
	}
	return "F", ""
}

// ln=<k><line>,..  ->  Instructions.Lnotab() then Code.Addr2Line at every byte
func c02Lnotab(arg string) (string, string) {
	var is compile.Instructions
	if arg != "" {
		for _, e := range strings.Split(arg, ",") {
			line, _ := strconv.Atoi(e[1:])
			var in compile.Instruction
			switch e[0] {
			case 'o':
				in = &compile.Op{Op: vm.NOP}
			case 'a':
				in = &compile.OpArg{Op: vm.LOAD_CONST, Arg: 1}
			case 'x':
				in = &compile.OpArg{Op: vm.LOAD_CONST, Arg: 0x10000}
			case 'l':
				in = &compile.Label{}
			default:
				panic("bad ln kind")
			}
			in.SetLineno(line)
			is = append(is, in)
		}
	}
	is.Pass(0)
	total := 0
	for _, in := range is {
		total += int(in.Size())
	}
	tab := is.Lnotab()
	code := &py.Code{Firstlineno: 1, Lnotab: string(tab)}
	var v []string
	prev, n := -1, 0
	for p := 0; p < total; p++ {
		l := int(code.Addr2Line(int32(p)))
		if l == prev {
			n++
			continue
		}
		if n > 0 {
			v = append(v, fmt.Sprintf("%d*%d", prev, n))
		}
		prev, n = l, 1
	}
	if n > 0 {
		v = append(v, fmt.Sprintf("%d*%d", prev, n))
	}
	var r []string
	for i := 0; i+1 < len(tab); i += 2 {
		r = append(r, fmt.Sprintf("%d.%d", tab[i], tab[i+1]))
	}
	return strings.Join(v, ","), strings.Join(r, " ")
}

func c02Run(line string) (string, string) {
	if strings.HasPrefix(line, "xm=") {
		return c02Match(line[3:])
	}
	if strings.HasPrefix(line, "ln=") {
		return c02Lnotab(line[3:])
	}
	// programs: "<label> ev=..;it=..;ex=..;src=.."
	if j := strings.Index(line, " "); j >= 0 && !strings.HasPrefix(line, "ev=") {
		line = line[j+1:]
	}
	sec := map[string]string{}
	rest := line
	for _, key := range []string{"ev", "it", "ex"} {
		p := key + "="
		if !strings.HasPrefix(rest, p) {
			panic("bad C02 input, expected " + p)
		}
		j := strings.Index(rest, ";")
		sec[key] = rest[len(p):j]
		rest = rest[j+1:]
	}
	if !strings.HasPrefix(rest, "src=") {
		panic("bad C02 input, expected src=")
	}
	src := strings.ReplaceAll(rest[4:], "\\n", "\n")

	w := &c02World{ev: c02ParseScript(sec["ev"]), ex: c02ParseScript(sec["ex"]), itLen: map[int]int{}}
	for i, v := range c02ParseScript(sec["it"]) {
		if len(v) > 0 {
			w.itLen[i], _ = strconv.Atoi(v[0])
		}
	}
	ctx := py.NewContext(py.DefaultContextOpts())
	defer ctx.Close()
	w.ctx = ctx
	builtins := ctx.Store().Builtins.Globals

	code, err := py.Compile(src+"\n", "<c02>", py.ExecMode, 0, true)
	if err != nil {
		return "|" + strings.SplitN(c02Outcome(err), "@", 2)[0] + "@compile", ""
	}
	fcode := c02FindCode(code, "f")
	if fcode == nil {
		panic("no function f in the source")
	}
	codeText, byOff := c02RenderCode(fcode)

	evFn := func(self py.Object, args py.Tuple) (py.Object, error) {
		i := int(args[0].(py.Int))
		w.logf("e%d", i)
		acts := w.ev[i]
		a := "v0"
		if len(acts) > 0 {
			a = acts[0]
			w.ev[i] = acts[1:]
		}
		if a[0] == 'r' {
			cls, ok := builtins[a[1:]].(*py.Type)
			if !ok {
				panic("unknown exception class " + a[1:])
			}
			return nil, py.ExceptionNewf(cls, "probe %d", i)
		}
		n, _ := strconv.Atoi(a[1:])
		return py.Int(n), nil
	}
	itFn := func(self py.Object, args py.Tuple) (py.Object, error) {
		i := int(args[0].(py.Int))
		w.logf("i%d", i)
		return &c02Iter{w: w, i: i, remain: w.itLen[i]}, nil
	}
	cmFn := func(self py.Object, args py.Tuple) (py.Object, error) {
		i := int(args[0].(py.Int))
		return &c02CM{w: w, i: i}, nil
	}
	driveFn := func(self py.Object, args py.Tuple) (py.Object, error) {
		g := args[0]
		for n := 0; n < 100000; n++ {
			v, err := py.Next(g)
			if err != nil {
				if py.IsException(py.StopIteration, err) {
					return c02StopValue(err), nil
				}
				return nil, err
			}
			w.logf("y%s", c02ConstRepr(v))
		}
		panic("drive: generator does not end")
	}
	module, err := ctx.ModuleInit(&py.ModuleImpl{
		Info: py.ModuleInfo{Name: "c02main"},
		Methods: []*py.Method{
			py.MustNewMethod("ev", evFn, 0, ""),
			py.MustNewMethod("it", itFn, 0, ""),
			py.MustNewMethod("cm", cmFn, 0, ""),
			py.MustNewMethod("drive", driveFn, 0, ""),
		},
	})
	if err != nil {
		panic(err)
	}

	w.globals = module.Globals
	var trace []string
	kinds := "LEFH"
	vm.VerifInstrHook = func(frame *py.Frame, op vm.OpCode, arg int32, pc int32) {
		if frame.Code != fcode {
			return
		}
		if op == vm.EXTENDED_ARG {
			return
		}
		var bl []string
		for _, b := range frame.Blockstack {
			h := -1
			if b.Handler >= 0 {
				h = byOff[int(b.Handler)]
			}
			bl = append(bl, fmt.Sprintf("%c%d>%d", kinds[b.Type], b.Level, h))
		}
		trace = append(trace, fmt.Sprintf("%d:%d:%s", byOff[int(pc)], len(frame.Stack), strings.Join(bl, ".")))
	}
	defer func() { vm.VerifInstrHook = nil }()

	_, err = py.RunCode(ctx, code, "<c02>", module)
	outcome := ""
	if err != nil {
		outcome = c02Outcome(err)
	} else {
		r, ok := module.Globals["r"]
		if !ok {
			outcome = "R:<unset>"
		} else {
			outcome = "R:" + c02ConstRepr(r)
		}
	}
	return strings.Join(w.log, " ") + "|" + outcome, codeText + "|" + strings.Join(trace, " ")
}

func init() {
	handlers["C02"] = func(args []string) handler {
		return c02Run
	}
}
