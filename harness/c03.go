package main

// C03 harness: one input line = a Python program (newlines encoded as the two
// characters `\n`).  The program is
//   (a) parsed and analysed by symtable.NewSymTable several times (Go's map
//       iteration order differs between runs); the per-block dump – block type,
//       name, every symbol's scope (V) and def-use flags, Varnames (R) – must be
//       identical in every repetition;
//   (b) compiled by compile.Compile and run in a fresh globals dict in which
//       `p` is a Go function that records the value it is called with.
// V = "<scope dump> # <outputs>;<ok | E:Class>"   or   "E:SyntaxError"
// R = "<flags/varnames dump>"

import (
	"bytes"
	"fmt"
	"sort"
	"strings"
	"sync"

	"github.com/go-python/gpython/ast"
	"github.com/go-python/gpython/compile"
	"github.com/go-python/gpython/parser"
	"github.com/go-python/gpython/py"
	_ "github.com/go-python/gpython/stdlib"
	"github.com/go-python/gpython/symtable"
)

var c03ScopeName = map[symtable.Scope]string{
	symtable.ScopeInvalid:        "?",
	symtable.ScopeLocal:          "L",
	symtable.ScopeGlobalExplicit: "GE",
	symtable.ScopeGlobalImplicit: "GI",
	symtable.ScopeFree:           "F",
	symtable.ScopeCell:           "C",
}

var c03TypeName = map[symtable.BlockType]string{
	symtable.FunctionBlock: "F", symtable.ClassBlock: "C", symtable.ModuleBlock: "M",
}

// names that belong to the test scaffolding, not to the scope tree
func c03Hidden(name string) bool { return name == "p" }

// implementation-internal names of comprehension blocks: listed in R only
func c03HiddenV(name string) bool { return strings.HasPrefix(name, ".") || strings.HasPrefix(name, "_[") }

func c03Dump(st *symtable.SymTable, v, r *bytes.Buffer) {
	names := make([]string, 0, len(st.Symbols))
	for n := range st.Symbols {
		if !c03Hidden(n) {
			names = append(names, n)
		}
	}
	sort.Strings(names)
	fmt.Fprintf(v, "%s:%s{", c03TypeName[st.Type], st.Name)
	fmt.Fprintf(r, "%s{", st.Name)
	first := true
	for i, n := range names {
		s := st.Symbols[n]
		if i > 0 {
			r.WriteByte(',')
		}
		fmt.Fprintf(r, "%s=%d:%s", n, s.Flags, c03ScopeName[s.Scope])
		if c03HiddenV(n) {
			continue
		}
		if !first {
			v.WriteByte(',')
		}
		first = false
		if st.Type == symtable.ModuleBlock {
			// every name of the module block is a module global
			fmt.Fprintf(v, "%s=G", n)
		} else {
			fmt.Fprintf(v, "%s=%s", n, c03ScopeName[s.Scope])
		}
	}
	fmt.Fprintf(r, ";%s", strings.Join(st.Varnames, ","))
	if st.NeedsClassClosure {
		r.WriteString(";ncc")
	}
	for _, ch := range st.Children {
		v.WriteByte(' ')
		r.WriteByte(' ')
		c03Dump(ch, v, r)
	}
	v.WriteByte('}')
	r.WriteByte('}')
}

func c03Sym(tree ast.Ast) (string, string) {
	st, err := symtable.NewSymTable(tree, "<c03>")
	if err != nil {
		return errClass(err), "-"
	}
	var v, r bytes.Buffer
	c03Dump(st, &v, &r)
	return v.String(), r.String()
}

func c03Show(o py.Object) string {
	switch x := o.(type) {
	case py.Int:
		return fmt.Sprintf("%d", int64(x))
	case py.String:
		return "S"
	case py.Tuple:
		if len(x) == 0 {
			return "()"
		}
	case py.StringDict:
		if len(x) == 0 {
			return "{}"
		}
	case *py.Type:
		return "T"
	case *py.Method:
		return "B"
	}
	return "<" + o.Type().Name + ">"
}

var (
	c03CtxOnce sync.Once
	c03Ctx     py.Context
)

func c03Run(src string) string {
	code, err := compile.Compile(src, "<c03>", py.ExecMode, 0, true)
	if err != nil {
		return "compile:" + errClass(err)
	}
	c03CtxOnce.Do(func() { c03Ctx = py.NewContext(py.DefaultContextOpts()) })
	var out []string
	rec := py.MustNewMethod("p", func(self py.Object, args py.Tuple) (py.Object, error) {
		for _, a := range args {
			out = append(out, c03Show(a))
		}
		return py.None, nil
	}, 0, "")
	globals := py.StringDict{"__name__": py.String("__main__"), "p": rec}
	_, err = c03Ctx.RunCode(code, globals, globals, nil)
	res := "ok"
	if err != nil {
		res = errClass(err)
	}
	return strings.Join(out, ",") + ";" + res
}

func init() {
	handlers["C03"] = func(args []string) handler {
		reps := 8
		return func(line string) (string, string) {
			src := strings.ReplaceAll(line, `\n`, "\n")
			tree, err := parser.ParseString(src, py.ExecMode)
			if err != nil {
				return "parse:" + errClass(err), "-"
			}
			v, r := c03Sym(tree)
			for i := 1; i < reps; i++ {
				v2, r2 := c03Sym(tree)
				if (v2 != v || r2 != r) && !(strings.HasPrefix(v, "E:") && strings.HasPrefix(v2, "E:")) {
					return "NONDET[" + v + " / " + v2 + "]", r + " / " + r2
				}
			}
			if strings.HasPrefix(v, "E:") {
				// the compiler must reject it as well
				if _, err := compile.Compile(src, "<c03>", py.ExecMode, 0, true); err == nil {
					return "SYMTABLE-ONLY:" + v, "-"
				}
				return v, "-"
			}
			return v + " # " + c03Run(src), r
		}
	}
}
