package main

// C04: call arguments bind to parameters.  One context is kept alive; a `def` is compiled once per
// distinct signature text, every call expression is compiled (EvalMode) and evaluated in the module
// globals, i.e. each case runs parser -> compiler -> Vm.Call -> Function.M__call__ -> EvalCode.
//
// input:  `<class> | def f(<sig>): return (<params>,) ## f(<call>)`
//         `go:<sig>:<route>/<class> | <call expression on c04m.<fn> / o.<fn> / T.<fn>>`
// V:      canonical text of the returned tuple (ints decimal, tuples "(a b)", dicts "{k:v}" sorted),
//         or E:<exception class>

import (
	"fmt"
	"sort"
	"strings"

	"github.com/go-python/gpython/py"
	_ "github.com/go-python/gpython/stdlib"
)

type c04Obj struct{}

var c04T = py.NewType("C04T", "C04 receiver type")

func (o *c04Obj) Type() *py.Type { return c04T }

var c04Inst = &c04Obj{}

func c04Self(self py.Object) py.Object {
	switch x := self.(type) {
	case *py.Module:
		if x == nil {
			return py.String("N")
		}
		return py.String("M")
	case *c04Obj:
		return py.String("O")
	case nil:
		return py.String("nil")
	}
	return py.String(fmt.Sprintf("?%T", self))
}

// the four Go signatures py.NewMethod supports; each reports what it received
func c04fa(self py.Object, args py.Tuple) (py.Object, error) {
	return py.Tuple{c04Self(self), args, py.None}, nil
}
func c04fk(self py.Object, args py.Tuple, kwargs py.StringDict) (py.Object, error) {
	if kwargs == nil {
		return py.Tuple{c04Self(self), args, py.String("nilmap")}, nil
	}
	return py.Tuple{c04Self(self), args, kwargs}, nil
}
func c04fn(self py.Object) (py.Object, error) {
	return py.Tuple{c04Self(self), py.Tuple{}, py.None}, nil
}
func c04f1(self py.Object, a py.Object) (py.Object, error) {
	return py.Tuple{c04Self(self), py.Tuple{a}, py.None}, nil
}

func c04Methods() []*py.Method {
	return []*py.Method{
		py.MustNewMethod("fa", c04fa, 0, ""),
		py.MustNewMethod("fk", c04fk, 0, ""),
		py.MustNewMethod("fn", c04fn, 0, ""),
		py.MustNewMethod("f1", c04f1, 0, ""),
	}
}

func init() {
	py.RegisterModule(&py.ModuleImpl{
		Info:    py.ModuleInfo{Name: "c04m", Doc: "C04 Go callables"},
		Methods: c04Methods(),
	})
	for _, m := range c04Methods() {
		c04T.Dict[m.Name] = m
	}
}

func c04Show(o py.Object) string {
	switch x := o.(type) {
	case py.Int:
		return fmt.Sprintf("%d", int64(x))
	case py.String:
		return string(x)
	case py.NoneType:
		return "-"
	case *c04Obj:
		return "O"
	case py.Tuple:
		vs := make([]string, len(x))
		for i, e := range x {
			vs[i] = c04Show(e)
		}
		return "(" + strings.Join(vs, " ") + ")"
	case *py.List:
		vs := make([]string, len(x.Items))
		for i, e := range x.Items {
			vs[i] = c04Show(e)
		}
		return "[" + strings.Join(vs, " ") + "]"
	case py.StringDict:
		keys := make([]string, 0, len(x))
		for k := range x {
			keys = append(keys, k)
		}
		sort.Strings(keys)
		vs := make([]string, len(keys))
		for i, k := range keys {
			vs[i] = k + ":" + c04Show(x[k])
		}
		return "{" + strings.Join(vs, " ") + "}"
	}
	return fmt.Sprintf("?%T", o)
}

type c04State struct {
	ctx     py.Context
	globals py.StringDict
	lastDef string
}

func c04New() *c04State {
	ctx := py.NewContext(py.DefaultContextOpts())
	code, err := py.Compile("import c04m\n", "<c04>", py.ExecMode, 0, true)
	if err != nil {
		panic(err)
	}
	mod, err := py.RunCode(ctx, code, "<c04>", nil)
	if err != nil {
		panic(err)
	}
	mod.Globals["o"] = c04Inst
	mod.Globals["T"] = c04T
	mod.Globals["g"] = py.Int(0) // the global the generated bodies test (`if g: t = 1` never runs)
	return &c04State{ctx: ctx, globals: mod.Globals}
}

func (s *c04State) exec(src string, mode py.CompileMode) (py.Object, error) {
	code, err := py.Compile(src+"\n", "<c04>", mode, 0, true)
	if err != nil {
		return nil, err
	}
	return s.ctx.RunCode(code, s.globals, s.globals, nil)
}

// ---- round 3: callees with a body (`loc:` cases) ----

// c04ShowL is c04Show with every other object (an instance of a Python class) shown as "O"
func c04ShowL(o py.Object) string {
	switch x := o.(type) {
	case py.Int, py.String, py.NoneType, *c04Obj:
		return c04Show(o)
	case py.Tuple:
		vs := make([]string, len(x))
		for i, e := range x {
			vs[i] = c04ShowL(e)
		}
		return "(" + strings.Join(vs, " ") + ")"
	case py.StringDict:
		keys := make([]string, 0, len(x))
		for k := range x {
			keys = append(keys, k)
		}
		sort.Strings(keys)
		vs := make([]string, len(keys))
		for i, k := range keys {
			vs[i] = k + ":" + c04ShowL(x[k])
		}
		return "{" + strings.Join(vs, " ") + "}"
	}
	return "O"
}

func c04Code(f py.Object) *py.Code {
	switch x := f.(type) {
	case *py.Function:
		return x.Code
	case *py.BoundMethod:
		return c04Code(x.Method)
	}
	return nil
}

func c04Layout(co *py.Code) string {
	c2a := "nil"
	if co.Cell2arg != nil {
		vs := make([]string, len(co.Cell2arg))
		for i, b := range co.Cell2arg {
			vs[i] = fmt.Sprintf("%d", b)
		}
		c2a = strings.Join(vs, ",")
	}
	return "vn=" + strings.Join(co.Varnames, ",") + "|cv=" + strings.Join(co.Cellvars, ",") +
		"|fv=" + strings.Join(co.Freevars, ",") + "|c2a=" + c2a
}

// the snapshot dict shown over every name of the code object (unbound: "name=-"), sorted by name
func c04Namespace(co *py.Code, snap py.StringDict) string {
	seen := map[string]bool{}
	var names []string
	for _, l := range [][]string{co.Varnames, co.Cellvars, co.Freevars} {
		for _, n := range l {
			if !seen[n] {
				seen[n] = true
				names = append(names, n)
			}
		}
	}
	for n := range snap {
		if !seen[n] {
			seen[n] = true
			names = append(names, n+"!") // a key that is no variable of the code object
		}
	}
	sort.Strings(names)
	vs := make([]string, len(names))
	for i, n := range names {
		if v, ok := snap[strings.TrimSuffix(n, "!")]; ok {
			vs[i] = n + "=" + c04ShowL(v)
		} else {
			vs[i] = n + "=-"
		}
	}
	return "{" + strings.Join(vs, " ") + "}"
}

func c04Raw(lp []py.Object) string {
	vs := make([]string, len(lp))
	for i, o := range lp {
		switch x := o.(type) {
		case nil:
			vs[i] = "-"
		case *py.Cell:
			if x.Get() == nil {
				vs[i] = "c[-]"
			} else {
				vs[i] = "c[" + c04ShowL(x.Get()) + "]"
			}
		default:
			vs[i] = c04ShowL(o)
		}
	}
	return strings.Join(vs, " ")
}

// run one `loc:` call: `f(...)` source, or `@ <tuple source> @ <dict source or ->` = py.Call from Go
func (s *c04State) locCall(call string) (string, string) {
	f := s.globals["f"]
	co := c04Code(f)
	if co == nil {
		return "E:nofunction", ""
	}
	layout := c04Layout(co)
	var res py.Object
	var err error
	if strings.HasPrefix(call, "@ ") {
		parts := strings.SplitN(call[2:], " @ ", 2)
		var t, d py.Object
		if t, err = s.exec(parts[0], py.EvalMode); err != nil {
			return "E:harness-" + errClass(err), layout
		}
		var kw py.StringDict
		if parts[1] != "-" {
			if d, err = s.exec(parts[1], py.EvalMode); err != nil {
				return "E:harness-" + errClass(err), layout
			}
			kw = d.(py.StringDict)
		}
		res, err = py.Call(f, t.(py.Tuple), kw)
	} else {
		res, err = s.exec(call, py.EvalMode)
	}
	if err != nil {
		return errClass(err), layout
	}
	prefix := ""
	if g, ok := res.(*py.Generator); ok {
		prefix = "gen:"
		layout += "|lp=" + c04Raw(g.Frame.Localsplus)
		if res, err = py.Next(g); err != nil {
			return "gen:" + errClass(err), layout
		}
	}
	snap, ok := res.(py.StringDict)
	if !ok {
		return prefix + "?" + c04ShowL(res), layout
	}
	return prefix + c04Namespace(co, snap), layout
}

func init() {
	handlers["C04"] = func(args []string) handler {
		st := c04New()
		return func(line string) (string, string) {
			i := strings.Index(line, " | ")
			if i < 0 {
				panic("bad case " + line)
			}
			body := line[i+3:]
			call := body
			if j := strings.Index(body, " ## "); j >= 0 {
				def := strings.ReplaceAll(body[:j], "\\n", "\n")
				call = body[j+4:]
				if def != st.lastDef {
					st.lastDef = ""
					delete(st.globals, "f")
					if _, err := st.exec(def, py.ExecMode); err != nil {
						return errClass(err), ""
					}
					st.lastDef = def
				}
			}
			if strings.HasPrefix(line, "loc:") {
				return st.locCall(call)
			}
			res, err := st.exec(call, py.EvalMode)
			if err != nil {
				return errClass(err), ""
			}
			return c04Show(res), ""
		}
	}
}
