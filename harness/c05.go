package main

// C05 harness: every case is rendered to Python source, compiled by the real compiler
// and run on the real VM in a stdlib context (one context and one prelude per process,
// fresh globals per case).
//
//	it <consumer> <kind> <script> [<kind> <script>]     iterator-protocol case
//	gen <templates> <ops>                               generator-history case
import (
	"fmt"
	"sort"
	"strconv"
	"strings"

	"github.com/go-python/gpython/compile"
	"github.com/go-python/gpython/py"
	_ "github.com/go-python/gpython/stdlib"
)

const c05Prelude = `
def RAISE(k):
    if k == 0:
        raise ValueError('v')
    if k == 1:
        raise KeyError('k')
    if k == 2:
        raise TypeError('t')
    if k == 3:
        raise ZeroDivisionError('z')
    if k == 4:
        raise IndexError('i')
    if k == 5:
        raise RuntimeError('r')
    if k == 6:
        raise AttributeError('a')
    raise LookupError('l')

def perform(c):
    t = c[0]
    if t == 0:
        return c[1]
    if t == 1:
        raise StopIteration
    if t == 2:
        raise StopIteration()
    if t == 3:
        raise StopIteration(c[1])
    RAISE(c[1])

class It:
    def __init__(self, codes):
        self.codes = codes
        self.i = 0
    def __iter__(self):
        return self
    def __next__(self):
        i = self.i
        if i >= len(self.codes):
            raise StopIteration
        self.i = i + 1
        return perform(self.codes[i])

class GI:
    def __init__(self, codes):
        self.codes = codes
    def __getitem__(self, i):
        if i >= len(self.codes):
            raise IndexError('end')
        c = self.codes[i]
        if c[0] == 1:
            raise IndexError
        return perform(c)

def G(codes):
    i = 0
    while i < len(codes):
        c = codes[i]
        i = i + 1
        t = c[0]
        if t == 0:
            yield c[1]
        elif t == 1:
            return
        elif t == 2:
            raise StopIteration()
        elif t == 3:
            return c[1]
        else:
            RAISE(c[1])

def forloop(it):
    out = []
    for x in it:
        out.append(x)
    return out

def forbreak(it, stop):
    out = []
    for x in it:
        if x == stop:
            break
        out.append(x)
    return out

def starf(*a):
    return a

def pairup(v):
    return (v, v)

def outer(it):
    r = yield from it
    return r

def yfdrive(it):
    g = outer(it)
    out = []
    while True:
        try:
            out.append(next(g))
        except StopIteration as e:
            a = e.args
            if len(a) == 0:
                return (out, None)
            return (out, a[0])

# generator bodies for the history cases
def A(n):
    tot = 0
    i = 0
    while i < n:
        x = yield tot * 100 + i
        if x == 6:
            raise KeyError('a')
        if x is not None:
            tot = tot + x
        i = i + 1
    return tot

def F(n, log):
    i = 0
    try:
        while i < n:
            x = yield i
            if x == 7:
                raise KeyError('k')
            if x == 8:
                return 80 + i
            i = i + 1
    finally:
        log.append(i)
    yield 50 + i
    log.append(99)

def D(n):
    r = yield from A(n)
    yield 1000 + r

def H(n, log):
    for i in range(n):
        try:
            x = yield i * 2
        finally:
            log.append(i)
        if x is not None:
            yield x + 1

def excname(e):
    if isinstance(e, KeyError):
        return 'KeyError'
    if isinstance(e, IndexError):
        return 'IndexError'
    if isinstance(e, LookupError):
        return 'LookupError'
    if isinstance(e, ValueError):
        return 'ValueError'
    if isinstance(e, TypeError):
        return 'TypeError'
    if isinstance(e, ZeroDivisionError):
        return 'ZeroDivisionError'
    if isinstance(e, NotImplementedError):
        return 'NotImplementedError'
    if isinstance(e, RuntimeError):
        return 'RuntimeError'
    if isinstance(e, AttributeError):
        return 'AttributeError'
    if isinstance(e, GeneratorExit):
        return 'GeneratorExit'
    return 'other'

def YF(n, log):
    r = yield from F(n, log)
    yield r

def E(n, log):
    try:
        raise KeyError('k')
    except KeyError:
        x = yield 1
        log.append(1)
        raise

def obs(g, v, first):
    try:
        if first:
            r = next(g)
        else:
            r = g.send(v)
        return ('y', r)
    except StopIteration as e:
        return ('s', e.args)
    except BaseException as e:
        return ('e', excname(e))

def obsclose(g):
    try:
        g.close()
        return ('c', None)
    except StopIteration as e:
        return ('s', e.args)
    except BaseException as e:
        return ('e', excname(e))

def obsthrow(g, exc):
    try:
        return ('y', g.throw(exc))
    except StopIteration as e:
        return ('s', e.args)
    except BaseException as e:
        return ('e', excname(e))

# ---- round 3: the return value of a generator ----
def GEN0():
    yield 0

def RG(v):
    yield 1
    return v

def RGF(v):
    try:
        yield 1
        return v
    finally:
        pass

def RGN(v):
    return v
    yield 0

def RGB(v):
    yield 1
    return

def RGE(v):
    yield 1

def RGX(v):
    for i in range(3):
        try:
            try:
                yield 1
                return v
            except KeyError:
                pass
        finally:
            i = i + 1

def RGC(v):
    try:
        yield 1
    except KeyError:
        return v

def DG(x):
    r = yield from x
    return r

def OBYF(x, v):
    r = yield from x
    yield ('r', r is v, r)

def drive_send(g):
    out = []
    try:
        out.append(next(g))
        while True:
            out.append(g.send(5))
    except StopIteration:
        return out

def obsargs(x, v):
    out = []
    while True:
        try:
            out.append(next(x))
        except StopIteration as e:
            a = e.args
            return (out, a, len(a) == 1 and a[0] is v)

def obsvalue(x, v):
    out = []
    while True:
        try:
            out.append(next(x))
        except StopIteration as e:
            return (out, e.value, e.value is v)

def obsnextd(x):
    return [next(x, 'D'), next(x, 'D'), next(x, 'D')]

def obsyfthrow(g):
    out = [next(g)]
    out.append(g.throw(KeyError))
    return out

def obsargsthrow(x, v):
    out = [next(x)]
    try:
        out.append(x.throw(KeyError))
        return 'NOSTOP'
    except StopIteration as e:
        a = e.args
        return (out, a, len(a) == 1 and a[0] is v)

def CN(e):
    t = type(e)
    if t is KeyError:
        return 'KeyError'
    if t is LookupError:
        return 'LookupError'
    if t is StopIteration:
        return 'StopIteration'
    if t is GeneratorExit:
        return 'GeneratorExit'
    if t is BaseException:
        return 'BaseException'
    if t is Exception:
        return 'Exception'
    if t is ValueError:
        return 'ValueError'
    if t is TypeError:
        return 'TypeError'
    if t is RuntimeError:
        return 'RuntimeError'
    return '?'

def TGI():
    try:
        yield 1
    except BaseException as e:
        yield e

def TGO():
    yield 1

def obsthr(mode, typ, val, hasval):
    if mode == 'in':
        x = TGI()
    else:
        x = TGO()
    if mode != 'new':
        next(x)
    if mode == 'in':
        try:
            if hasval:
                e = x.throw(typ, val)
            else:
                e = x.throw(typ)
        except TypeError:
            return 'E:TypeError'
        return ('y', (CN(e), e.args, e is typ, e is val))
    try:
        if hasval:
            x.throw(typ, val)
        else:
            x.throw(typ)
        return 'NORAISE'
    except BaseException as e:
        return ('raised', (CN(e), e.args, e is typ, e is val))

def negkey(v):
    return -v

def kv(v):
    return ('k' + str(v), v)

def reenter():
    def rec():
        yield next(h)
    h = rec()
    return [obs(h, None, True), obs(h, None, True)]
`

var c05Exc = []string{"value", "key", "type", "zeroDiv", "index", "runtime", "attr", "lookup"}

var c05ExcPy = map[string]string{"value": "ValueError", "key": "KeyError", "type": "TypeError", "zeroDiv": "ZeroDivisionError",
	"index": "IndexError", "runtime": "RuntimeError", "attr": "AttributeError", "lookup": "LookupError", "genExit": "GeneratorExit"}

// canonical text of a Python value
func c05Show(o py.Object) string {
	switch x := o.(type) {
	case nil:
		return "nil"
	case py.NoneType:
		return "None"
	case py.Bool:
		if x {
			return "True"
		}
		return "False"
	case py.Int:
		return strconv.FormatInt(int64(x), 10)
	case py.String:
		return "'" + string(x) + "'"
	case py.Tuple:
		p := make([]string, len(x))
		for i, e := range x {
			p[i] = c05Show(e)
		}
		return "T[" + strings.Join(p, ", ") + "]"
	case *py.List:
		p := make([]string, len(x.Items))
		for i, e := range x.Items {
			p[i] = c05Show(e)
		}
		return "L[" + strings.Join(p, ", ") + "]"
	case *py.Set:
		var p []string
		it, _ := py.Iter(x)
		for {
			e, err := py.Next(it)
			if err != nil {
				break
			}
			p = append(p, c05Show(e))
		}
		sort.Strings(p)
		return "S[" + strings.Join(p, ", ") + "]"
	case *py.Exception:
		args, _ := x.Args.(py.Tuple)
		p := make([]string, len(args))
		for i, e := range args {
			p[i] = c05Show(e)
		}
		return "X:" + x.Base.Name + "(" + strings.Join(p, ", ") + ")"
	case *py.Type:
		return "C:" + x.Name
	case *py.Generator:
		return "G"
	case py.StringDict:
		var p []string
		for k, v := range x {
			p = append(p, k+"="+c05Show(v))
		}
		sort.Strings(p)
		return "D[" + strings.Join(p, ", ") + "]"
	}
	return fmt.Sprintf("?%T", o)
}

func c05Err(err error) string {
	cls := errClass(err)
	if cls != "E:StopIteration" {
		return cls
	}
	var val py.Object
	switch e := err.(type) {
	case py.ExceptionInfo:
		val = e.Value
	case *py.ExceptionInfo:
		val = e.Value
	case *py.Exception:
		val = e
	}
	if exc, ok := val.(*py.Exception); ok {
		if args, ok := exc.Args.(py.Tuple); ok && len(args) > 0 && args[0] != py.None {
			return "E:StopIteration(" + c05Show(args[0]) + ")"
		}
	}
	return "E:StopIteration()"
}

// script text -> Python list of step codes
func c05Codes(script string, getitem bool) string {
	if script == "-" || script == "" {
		return "[]"
	}
	var out []string
	for _, st := range strings.Split(script, ",") {
		switch st[0] {
		case 'i':
			out = append(out, "(0, "+st[1:]+")")
		case 'a':
			out = append(out, "(0, '"+st[1:]+"')")
		case 'p': // pair a:b of ints
			ab := strings.SplitN(st[1:], ":", 2)
			out = append(out, "(0, ("+ab[0]+", "+ab[1]+"))")
		case 'n':
			out = append(out, "(0, None)")
		case 'S':
			out = append(out, "(1, None)")
		case 'I':
			out = append(out, "(2, None)")
		case 'V':
			out = append(out, "(3, "+st[1:]+")")
		case 'R':
			k := -1
			for i, n := range c05Exc {
				if n == st[1:] {
					k = i
				}
			}
			if k < 0 {
				panic("bad exception " + st)
			}
			out = append(out, "(4, "+strconv.Itoa(k)+")")
		default:
			panic("bad step " + st)
		}
	}
	return "[" + strings.Join(out, ", ") + "]"
}

func c05Producer(kind, script string) string {
	if strings.HasPrefix(kind, "retg:") { // a generator of template <tmpl> returning the value <script> under <depth> delegators
		k := strings.Split(kind, ":")
		depth, _ := strconv.Atoi(k[2])
		return c05RetChain(k[1], depth, script)
	}
	switch kind {
	case "user":
		return "It(" + c05Codes(script, false) + ")"
	case "gen":
		return "G(" + c05Codes(script, false) + ")"
	case "mapped":
		return "map(perform, " + c05Codes(script, false) + ")"
	case "getitem":
		return "GI(" + c05Codes(script, true) + ")"
	case "builtin": // list iterator over the items
		var vs []string
		if script != "-" {
			for _, st := range strings.Split(script, ",") {
				switch st[0] {
				case 'i':
					vs = append(vs, st[1:])
				case 'a':
					vs = append(vs, "'"+st[1:]+"'")
				case 'n':
					vs = append(vs, "None")
				default:
					panic("builtin producer: item steps only")
				}
			}
		}
		return "iter([" + strings.Join(vs, ", ") + "])"
	case "genexp": // generator expression over a user iterator (FOR_ITER inside a generator frame)
		return "(x for x in It(" + c05Codes(script, false) + "))"
	}
	panic("bad producer kind " + kind)
}

func c05ItSource(f []string) string {
	cons := strings.Split(f[1], ":")
	p := c05Producer(f[2], f[3])
	// adapter
	if len(cons) >= 2 {
		switch cons[len(cons)-1] {
		case "enum":
			p = "enumerate(" + p + ")"
			cons = cons[:len(cons)-1]
		case "map":
			p = "map(pairup, " + p + ")"
			cons = cons[:len(cons)-1]
		case "filter":
			p = "filter(None, " + p + ")"
			cons = cons[:len(cons)-1]
		case "zip":
			p = "zip(" + p + ", " + c05Producer(f[4], f[5]) + ")"
			cons = cons[:len(cons)-1]
		}
	}
	switch cons[0] {
	case "list", "tuple", "set", "sorted", "all", "any", "sum", "min", "max":
		return "RES = " + cons[0] + "(" + p + ")"
	case "maxkey":
		return "RES = max(" + p + ", key=negkey)"
	case "minkeyd":
		return "RES = min(" + p + ", key=negkey, default=" + cons[1] + ")"
	case "sortedkey":
		return "RES = sorted(" + p + ", key=negkey)"
	case "extend":
		return "l = [5]\nl.extend(" + p + ")\nRES = l"
	case "iadd":
		return "l = [5]\nl += " + p + "\nRES = l"
	case "setupdate":
		return "s = {2, 4}\ns.update(" + p + ")\nRES = s"
	case "dictupdate":
		return "d = {'a': 0}\nd.update(map(kv, " + p + "))\nRES = [(k, d[k]) for k in sorted(d)]"
	case "slice":
		return "l = [5, 0, 6]\nl[1:2] = " + p + "\nRES = l"
	case "next": // next() wants an iterator: a __getitem__ sequence / enumerate object is only iterable
		return "RES = next(iter(" + p + "))"
	case "sumstart":
		return "RES = sum(" + p + ", " + cons[1] + ")"
	case "nextd":
		return "RES = next(iter(" + p + "), " + cons[1] + ")"
	case "maxd", "mind":
		return "RES = " + cons[0][:3] + "(" + p + ", default=" + cons[1] + ")"
	case "in":
		return "RES = (" + cons[1] + " in " + p + ")"
	case "join":
		return "RES = ','.join(" + p + ")"
	case "for":
		return "RES = forloop(" + p + ")"
	case "forbreak":
		return "RES = forbreak(" + p + ", " + cons[1] + ")"
	case "comp":
		return "RES = [x for x in " + p + "]"
	case "setcomp":
		return "RES = {x for x in " + p + "}"
	case "star":
		return "RES = starf(*" + p + ")"
	case "yf":
		return "RES = yfdrive(" + p + ")"
	case "unpack":
		n, _ := strconv.Atoi(cons[1])
		var vars []string
		for i := 0; i < n; i++ {
			vars = append(vars, fmt.Sprintf("a%d", i))
		}
		lhs := strings.Join(vars, ", ")
		if n == 1 {
			lhs += ","
		}
		tup := "(" + strings.Join(vars, ", ")
		if n == 1 {
			tup += ","
		}
		tup += ")"
		if n == 0 {
			return "[] = " + p + "\nRES = ((), None, ())"
		}
		return lhs + " = " + p + "\nRES = (" + tup + ", None, ())"
	case "unpackex":
		n, _ := strconv.Atoi(cons[1])
		m, _ := strconv.Atoi(cons[2])
		var pre, post []string
		for i := 0; i < n; i++ {
			pre = append(pre, fmt.Sprintf("a%d", i))
		}
		for i := 0; i < m; i++ {
			post = append(post, fmt.Sprintf("b%d", i))
		}
		all := append(append(append([]string{}, pre...), "*st"), post...)
		tup := func(v []string) string {
			s := "(" + strings.Join(v, ", ")
			if len(v) == 1 {
				s += ","
			}
			return s + ")"
		}
		return strings.Join(all, ", ") + ", = " + p + "\nRES = (" + tup(pre) + ", st, " + tup(post) + ")"
	}
	panic("bad consumer " + f[1])
}

func c05GenSource(f []string) string {
	var b strings.Builder
	gens := strings.Split(f[1], ",")
	if strings.HasPrefix(f[1], "body:") {
		// `body:<python source of def B(LG) with \n escapes, spaces as \s> <ops>`: one generator g0 = B(LOG0)
		src := strings.ReplaceAll(strings.ReplaceAll(strings.TrimPrefix(f[1], "body:"), "\\n", "\n"), "\\s", " ")
		b.WriteString(src + "\nLOG0 = []\ng0 = B(LOG0)\n")
		gens = []string{"B"}
	}
	for i, g := range gens {
		if g == "B" {
			continue
		}
		n := g[1:]
		fmt.Fprintf(&b, "LOG%d = []\n", i)
		switch g[0] {
		case 'A':
			fmt.Fprintf(&b, "g%d = A(%s)\n", i, n)
		case 'F':
			fmt.Fprintf(&b, "g%d = F(%s, LOG%d)\n", i, n, i)
		case 'D':
			fmt.Fprintf(&b, "g%d = D(%s)\n", i, n)
		case 'H':
			fmt.Fprintf(&b, "g%d = H(%s, LOG%d)\n", i, n, i)
		case 'E':
			fmt.Fprintf(&b, "g%d = E(%s, LOG%d)\n", i, n, i)
		case 'G':
			fmt.Fprintf(&b, "g%d = YF(%s, LOG%d)\n", i, n, i)
		default:
			panic("bad template " + g)
		}
	}
	b.WriteString("OBS = []\n")
	if len(f) > 2 && f[2] != "-" {
		for _, op := range strings.Split(f[2], ",") {
			switch op[0] {
			case 'n':
				fmt.Fprintf(&b, "OBS.append(obs(g%s, None, True))\n", op[1:])
			case 's':
				gv := strings.SplitN(op[1:], ":", 2)
				fmt.Fprintf(&b, "OBS.append(obs(g%s, %s, False))\n", gv[0], gv[1])
			case 'r':
				b.WriteString("OBS.extend(reenter())\n")
			case 'c':
				fmt.Fprintf(&b, "OBS.append(obsclose(g%s))\n", op[1:])
			case 't':
				ge := strings.SplitN(op[1:], ":", 2)
				fmt.Fprintf(&b, "OBS.append(obsthrow(g%s, %s))\n", ge[0], c05ExcPy[ge[1]])
			default:
				panic("bad op " + op)
			}
		}
	}
	var logs []string
	for i := range gens {
		logs = append(logs, fmt.Sprintf("LOG%d", i))
	}
	fmt.Fprintf(&b, "RES = (OBS, [%s])\n", strings.Join(logs, ", "))
	return b.String()
}

// round 3: `ret <tmpl> <depth> <obs> <expr>` and `thr <mode> <typ> <val|->`
func c05RetChain(tmpl string, depth int, v string) string {
	fn := map[string]string{"plain": "RG", "fin": "RGF", "noyield": "RGN", "bare": "RGB", "fall": "RGE", "nested": "RGX", "catch": "RGC"}[tmpl]
	if fn == "" {
		panic("bad return template " + tmpl)
	}
	p := fn + "(" + v + ")"
	for i := 0; i < depth; i++ {
		p = "DG(" + p + ")"
	}
	return p
}

func c05RetSource(f []string) string {
	depth, _ := strconv.Atoi(f[2])
	src := "V = " + f[4] + "\n"
	ch := c05RetChain(f[1], depth, "V")
	switch f[3] {
	case "yf":
		return src + "RES = list(OBYF(" + ch + ", V))"
	case "yfsend":
		return src + "RES = drive_send(OBYF(" + ch + ", V))"
	case "args":
		return src + "RES = obsargs(" + ch + ", V)"
	case "value":
		return src + "RES = obsvalue(" + ch + ", V)"
	case "nextd":
		return src + "RES = obsnextd(" + ch + ")"
	case "yfthrow":
		return src + "RES = obsyfthrow(OBYF(" + ch + ", V))"
	case "argsthrow":
		return src + "RES = obsargsthrow(" + ch + ", V)"
	}
	panic("bad observer " + f[3])
}

func c05ThrSource(f []string) string {
	src := "TYP = " + f[2] + "\n"
	if f[3] == "-" {
		return src + "RES = obsthr('" + f[1] + "', TYP, None, False)"
	}
	return src + "VAL = " + f[3] + "\nRES = obsthr('" + f[1] + "', TYP, VAL, True)"
}

func c05ShowGen(res py.Object) string {
	t := res.(py.Tuple)
	var parts []string
	for _, o := range t[0].(*py.List).Items {
		ot := o.(py.Tuple)
		switch string(ot[0].(py.String)) {
		case "y":
			parts = append(parts, "y:"+c05Show(ot[1]))
		case "s":
			args := ot[1].(py.Tuple)
			if len(args) == 0 || args[0] == py.None {
				parts = append(parts, "s:")
			} else {
				parts = append(parts, "s:"+c05Show(args[0]))
			}
		case "e":
			parts = append(parts, "e:"+string(ot[1].(py.String)))
		case "c":
			parts = append(parts, "c:")
		}
	}
	return strings.Join(parts, " ") + " |" + c05Show(t[1])
}

func init() {
	handlers["C05"] = func(args []string) handler {
		ctx := py.NewContext(py.DefaultContextOpts())
		pre, err := ctx.Store().NewModule(ctx, &py.ModuleImpl{Info: py.ModuleInfo{FileDesc: "c05prelude"}})
		if err != nil {
			panic(err)
		}
		code, err := compile.Compile(c05Prelude, "c05prelude", py.ExecMode, 0, true)
		if err != nil {
			panic(err)
		}
		if _, err = ctx.RunCode(code, pre.Globals, pre.Globals, nil); err != nil {
			panic(fmt.Sprint("prelude: ", err))
		}
		return func(line string) (string, string) {
			f := strings.Fields(line)
			var src string
			switch f[0] {
			case "it":
				src = c05ItSource(f)
			case "gen", "body":
				src = c05GenSource(f)
			case "ret":
				src = c05RetSource(f)
			case "thr":
				src = c05ThrSource(f)
			case "src": // raw source (debugging): rest of the line with \n escapes
				src = strings.ReplaceAll(strings.TrimPrefix(line, "src "), "\\n", "\n")
			default:
				panic("bad case " + line)
			}
			code, err := compile.Compile(src+"\n", "<c05>", py.ExecMode, 0, true)
			if err != nil {
				return "COMPILE:" + errClass(err), src
			}
			g := pre.Globals.Copy()
			_, err = ctx.RunCode(code, g, g, nil)
			if err != nil {
				return c05Err(err), "-"
			}
			res, ok := g["RES"]
			if !ok {
				return "NORES", "-"
			}
			if str, ok := res.(py.String); ok && (f[0] == "ret" || f[0] == "thr") {
				return string(str), ""
			}
			if f[0] == "gen" || f[0] == "body" {
				return c05ShowGen(res), ""
			}
			return c05Show(res), ""
		}
	}
}
