package main

// C06 harness: parse / lex / decode texts with the real gpython parser package
// and print the result in the canonical S-expression form shared with the Lean
// side (lean/GPy/C06/Gen.lean).
//
// input line := kind ' ' args, text arguments are encoded (c06Dec)
//   ev  <text>        parser.ParseString(text, eval)   -> sexp of the Expression body
//   ex  <text>        parser.ParseString(text, exec)   -> sexp of the Module body
//   si  <text>        parser.ParseString(text, single) -> sexp of the Interactive body
//   ac  <mode> <text> accept/reject only               -> ACCEPT | E:SyntaxError
//   lx  <mode> <text> parser.LexString                 -> token stream
//   esc <s|b> <text>  parser.DecodeEscape              -> [code points] / [bytes]

import (
	"bytes"
	"fmt"
	"math/big"
	"reflect"
	"strconv"
	"strings"
	"unicode/utf8"

	"github.com/go-python/gpython/ast"
	"github.com/go-python/gpython/parser"
	"github.com/go-python/gpython/py"
)

// c06Dec decodes the single-line encoding of a text: \n \t \r \\ \s (space) \xHH (one byte) \u{HEX} (code point)
func c06Dec(s string) string {
	var b bytes.Buffer
	for i := 0; i < len(s); i++ {
		c := s[i]
		if c != '\\' {
			b.WriteByte(c)
			continue
		}
		i++
		switch s[i] {
		case 'n':
			b.WriteByte('\n')
		case 't':
			b.WriteByte('\t')
		case 'r':
			b.WriteByte('\r')
		case 's':
			b.WriteByte(' ')
		case '\\':
			b.WriteByte('\\')
		case 'x':
			v, _ := strconv.ParseUint(s[i+1:i+3], 16, 8)
			b.WriteByte(byte(v))
			i += 2
		case 'u':
			j := strings.IndexByte(s[i:], '}')
			v, _ := strconv.ParseUint(s[i+2:i+j], 16, 32)
			b.WriteRune(rune(v))
			i += j
		default:
			panic("bad encoding")
		}
	}
	return b.String()
}

func c06Err(err error) string {
	cls := errClass(err)
	switch cls {
	case "E:SyntaxError", "E:IndentationError", "E:TabError":
		return "E:SyntaxError"
	}
	return cls
}

func c06Ints(bs []int) string {
	ss := make([]string, len(bs))
	for i, b := range bs {
		ss[i] = strconv.Itoa(b)
	}
	return "[" + strings.Join(ss, ",") + "]"
}

func c06Runes(s string) string {
	var out []int
	for len(s) > 0 {
		r, n := utf8.DecodeRuneInString(s)
		if r == utf8.RuneError && n == 1 {
			out = append(out, -int(s[0])) // invalid UTF-8 byte: negative
		} else {
			out = append(out, int(r))
		}
		s = s[n:]
	}
	return c06Ints(out)
}

func c06Bytes(s []byte) string {
	out := make([]int, len(s))
	for i, b := range s {
		out[i] = int(b)
	}
	return c06Ints(out)
}

// c06Float prints a float through its shortest round-trip decimal as <digits>e<exp10> (digits without trailing zeros)
func c06Float(f float64) string {
	s := strconv.FormatFloat(f, 'e', -1, 64) // d.ddddde±xx
	neg := ""
	if strings.HasPrefix(s, "-") {
		neg, s = "-", s[1:]
	}
	ei := strings.IndexByte(s, 'e')
	if ei < 0 {
		return neg + s // inf / nan
	}
	mant, exps := s[:ei], s[ei+1:]
	exp, _ := strconv.Atoi(exps)
	digits := strings.Replace(mant, ".", "", 1)
	exp -= len(digits) - 1
	for len(digits) > 1 && strings.HasSuffix(digits, "0") {
		digits = digits[:len(digits)-1]
		exp++
	}
	if digits == "0" {
		exp = 0
	}
	return fmt.Sprintf("%s%se%d", neg, digits, exp)
}

func c06Obj(o py.Object) string {
	switch x := o.(type) {
	case nil:
		return "-"
	case py.Int:
		return strconv.FormatInt(int64(x), 10)
	case *py.BigInt:
		return (*big.Int)(x).String()
	case py.Float:
		return "F:" + c06Float(float64(x))
	case py.Complex:
		return "J:" + c06Float(real(complex128(x))) + ":" + c06Float(imag(complex128(x)))
	case py.String:
		return "s" + c06Runes(string(x))
	case py.Bytes:
		return "b" + c06Bytes([]byte(x))
	case py.NoneType:
		return "None"
	case py.Bool:
		if x {
			return "True"
		}
		return "False"
	}
	return fmt.Sprintf("?%T", o)
}

var c06Skip = map[string]bool{"StmtBase": true, "ExprBase": true, "ModBase": true, "SliceBase": true, "Pos": true}

// c06Sexp: generic reflective walker: (TypeName field1 field2 ...) in struct field order;
// nil -> -, slices -> [a b c], Ctx omitted when Load, identifiers as text ("" -> ""),
func c06Sexp(v reflect.Value) string {
	if !v.IsValid() {
		return "-"
	}
	switch v.Kind() {
	case reflect.Interface, reflect.Ptr:
		if v.IsNil() {
			return "-"
		}
		if v.Kind() == reflect.Interface {
			if o, ok := v.Interface().(py.Object); ok {
				if _, isAst := v.Interface().(ast.Ast); !isAst {
					return c06Obj(o)
				}
			}
		}
		return c06Sexp(v.Elem())
	case reflect.Slice:
		if v.Type().Elem().Kind() == reflect.Uint8 {
			return "b" + c06Bytes(v.Bytes())
		}
		parts := make([]string, v.Len())
		for i := range parts {
			parts[i] = c06Sexp(v.Index(i))
		}
		return "[" + strings.Join(parts, " ") + "]"
	case reflect.String:
		switch v.Type().Name() {
		case "Identifier":
			if v.String() == "" {
				return `""`
			}
			return v.String()
		}
		return "s" + c06Runes(v.String())
	case reflect.Int:
		if s, ok := v.Interface().(fmt.Stringer); ok {
			return strings.TrimSuffix(s.String(), "()")
		}
		return strconv.FormatInt(v.Int(), 10)
	case reflect.Bool:
		return strconv.FormatBool(v.Bool())
	case reflect.Struct:
		t := v.Type()
		parts := []string{t.Name()}
		for i := 0; i < t.NumField(); i++ {
			f := t.Field(i)
			if c06Skip[f.Name] {
				continue
			}
			if f.Name == "Ctx" {
				if c := v.Field(i).Interface().(ast.ExprContext); c != ast.Load {
					parts = append(parts, strings.TrimSuffix(c.String(), "()"))
				}
				continue
			}
			parts = append(parts, c06Sexp(v.Field(i)))
		}
		return "(" + strings.Join(parts, " ") + ")"
	}
	return fmt.Sprintf("?%s", v.Kind())
}

func c06Mode(m string) py.CompileMode {
	switch m {
	case "eval":
		return py.EvalMode
	case "single":
		return py.SingleMode
	}
	return py.ExecMode
}

func c06Parse(text string, mode py.CompileMode) (string, string) {
	tree, err := parser.ParseString(text, mode)
	if err != nil {
		return c06Err(err), "-"
	}
	switch m := tree.(type) {
	case *ast.Expression:
		return c06Sexp(reflect.ValueOf(m.Body)), ""
	case *ast.Module:
		return c06Sexp(reflect.ValueOf(m.Body)), ""
	case *ast.Interactive:
		return c06Sexp(reflect.ValueOf(m.Body)), ""
	}
	return fmt.Sprintf("?%T", tree), ""
}

var c06TokRe = strings.NewReplacer("\t", " ", "\n", " ")

func c06Lex(text string, mode py.CompileMode) (string, string) {
	lts, err := parser.LexString(text, mode)
	if err != nil {
		return c06Err(err), "-"
	}
	parts := make([]string, 0, len(lts))
	for i := range lts {
		// LexToken fields are unexported: use its String() form `"name" (num) [= T{v}] line:col`
		s := lts[i].String()
		q := strings.Index(s[1:], `"`) + 1
		name := s[1:q]
		rest := s[q+1:]
		val := ""
		if k := strings.Index(rest, "= "); k >= 0 {
			val = rest[k+2 : strings.LastIndex(rest, " ")]
		}
		_ = val
		parts = append(parts, name)
	}
	return strings.Join(parts, " "), ""
}

func init() {
	handlers["C06"] = func(args []string) handler {
		return func(line string) (string, string) {
			f := strings.SplitN(line, " ", 3)
			switch f[0] {
			case "ev":
				return c06Parse(c06Dec(strings.Join(f[1:], " ")), py.EvalMode)
			case "ex":
				return c06Parse(c06Dec(strings.Join(f[1:], " ")), py.ExecMode)
			case "si":
				return c06Parse(c06Dec(strings.Join(f[1:], " ")), py.SingleMode)
			case "ac":
				v, _ := c06Parse(c06Dec(f[2]), c06Mode(f[1]))
				if !strings.HasPrefix(v, "E:") {
					v = "ACCEPT"
				}
				return v, ""
			case "lx":
				return c06Lex(c06Dec(f[2]), c06Mode(f[1]))
			case "esc":
				in := bytes.NewBufferString(c06Dec(f[2]))
				out, err := parser.DecodeEscape(in, f[1] == "b")
				if err != nil {
					return "E:ValueError", "-"
				}
				if f[1] == "b" {
					return "b" + c06Bytes(out.Bytes()), ""
				}
				return "s" + c06Runes(out.String()), ""
			}
			panic("bad case " + line)
		}
	}
}
