package main

import (
	"fmt"
	"math/big"
	"strings"

	"github.com/go-python/gpython/py"
	_ "github.com/go-python/gpython/stdlib"
)

// errClass maps a Go error from the py API to "E:<exception class name>"
func errClass(err error) string {
	switch e := err.(type) {
	case *py.Exception:
		return "E:" + e.Type().Name
	case py.ExceptionInfo:
		if t := e.Type; t != nil {
			return "E:" + t.Name
		}
	case *py.ExceptionInfo:
		if t := e.Type; t != nil {
			return "E:" + t.Name
		}
	}
	return "E:?" + fmt.Sprintf("%T", err)
}

func c07Obj(s string) py.Object {
	switch s[0] {
	case 'i':
		n, _ := new(big.Int).SetString(s[1:], 10)
		return py.Int(n.Int64())
	case 'b':
		n, _ := new(big.Int).SetString(s[1:], 10)
		return (*py.BigInt)(n)
	case 't':
		return py.NewBool(s[1] == '1')
	case 'n':
		return py.None
	}
	panic("bad operand " + s)
}

func c07Show(o py.Object) (string, string) {
	switch x := o.(type) {
	case py.Int:
		return fmt.Sprintf("%d", int64(x)), "i"
	case *py.BigInt:
		return (*big.Int)(x).String(), "b"
	case py.Bool:
		if x {
			return "True", "t"
		}
		return "False", "t"
	case py.Float:
		return "F", "f"
	case py.Tuple:
		vs, rs := []string{}, ""
		for _, e := range x {
			v, r := c07Show(e)
			vs = append(vs, v)
			rs += r
		}
		return "(" + strings.Join(vs, ", ") + ")", rs
	}
	return fmt.Sprintf("?%T", o), "?"
}

var c07Bin = map[string]func(a, b py.Object) (py.Object, error){
	"add": py.Add, "sub": py.Sub, "mul": py.Mul, "floordiv": py.FloorDiv, "mod": py.Mod,
	"lshift": py.Lshift, "rshift": py.Rshift, "and": py.And, "or": py.Or, "xor": py.Xor,
	"lt": py.Lt, "le": py.Le, "eq": py.Eq, "ne": py.Ne, "gt": py.Gt, "ge": py.Ge,
}

var c07Un = map[string]func(a py.Object) (py.Object, error){
	"neg": py.Neg, "abs": py.Abs, "invert": py.Invert, "bool": py.MakeBool,
}

var c07Ctx py.Context

func c07Builtin(name string) py.Object {
	if c07Ctx == nil {
		c07Ctx = py.NewContext(py.DefaultContextOpts())
	}
	return c07Ctx.Store().Builtins.Globals[name]
}

func init() {
	handlers["C07"] = func(args []string) handler {
		return func(line string) (string, string) {
			f := strings.Fields(line)
			var res py.Object
			var err error
			switch f[0] {
			case "bin":
				res, err = c07Bin[f[1]](c07Obj(f[2]), c07Obj(f[3]))
			case "un":
				res, err = c07Un[f[1]](c07Obj(f[2]))
			case "divmod":
				var q, r py.Object
				q, r, err = py.DivMod(c07Obj(f[1]), c07Obj(f[2]))
				if err == nil {
					res = py.Tuple{q, r}
				}
			case "int":
				// int <base> [text]
				var base int
				fmt.Sscanf(f[1], "%d", &base)
				i := strings.Index(line, "[")
				txt := line[i+1 : len(line)-1]
				txt = strings.NewReplacer("\\s", " ", "\\t", "\t", "\\n", "\n").Replace(txt)
				res, err = py.IntFromString(txt, base)
			case "render":
				o := c07Obj(f[2])
				var sres py.Object
				if f[1] == "str" {
					sres, err = py.Str(o)
				} else {
					sres, err = py.Call(c07Builtin(f[1]), py.Tuple{o}, nil)
				}
				if err != nil {
					return errClass(err), "-"
				}
				return string(sres.(py.String)), ""
			case "pow":
				res, err = py.Pow(c07Obj(f[1]), c07Obj(f[2]), c07Obj(f[3]))
			default:
				panic("bad case " + line)
			}
			if err != nil {
				return errClass(err), "-"
			}
			return c07Show(res)
		}
	}
}
