package main

// C08 harness: one input line = one scenario (see lean/GPy/C08/Gen.lean)
//
//	<family> <n> <free> <seed> <opts>|<c>:<python>|<c>:<python>|...
//
// n contexts are created, context i with the ContextOpts named by the i-th two-letter entry of <opts>
// (SysArgs then SysPaths, each N = nil slice, E = empty slice, S = supplied; no <opts> = all SS); statement <c>:<python> runs in the __main__ module of context c, on the
// goroutine that owns context c, in the order of the line (deterministic hand-over), each statement
// compiled once per source text (so identical statements of different contexts share ONE *py.Code).
// Every context gets the builtins o(v) / k() / ox(e) that append to that context's trace.
//
// V = T0=[..];T1=[..];..|walk=disjoint|shared   (+ |typedict-changed:.. |impl-changed:.. |conc=DIFF.. on failure)
// R = the module.global slots that hold a writable object reachable from two contexts.
//
// After the scheduled run the Go object graph is walked by reflection from every context's module
// store AND from the Globals of every registered module implementation (the registry is reached by
// linkname): a writable Python object (list, dict, set, module, heap type, instance, function, bound
// method, exception, cell, generator, frame) reached from two contexts, or from a context and the registry, breaks `DisjointR`.  The
// dictionaries of the built-in types and the Globals of the registered module implementations are
// compared with a snapshot (and restored, so that one scenario cannot poison the next).
// free = 1: the n programs additionally run freely on n goroutines (GOMAXPROCS 1/4/16, seeded
// yields, half of the contexts compiling their statements themselves = concurrent py.Compile, the
// others sharing code objects) and every context's trace must equal its trace when run alone.

import (
	"fmt"
	"math/rand"
	"os"
	"reflect"
	"runtime"
	"sort"
	"strconv"
	"strings"
	"sync"
	"time"
	"unsafe"

	"github.com/go-python/gpython/py"
	_ "github.com/go-python/gpython/stdlib"
)

// ---------- rendering of observed values (mirror of GPy.C08.renderVal) ----------

func c08Scalar(v py.Object) string {
	switch x := v.(type) {
	case nil:
		return "NIL"
	case py.Int:
		return strconv.FormatInt(int64(x), 10)
	case py.String:
		return "'" + string(x) + "'"
	case py.Float:
		return "f" + strconv.FormatFloat(float64(x), 'g', -1, 64)
	case py.NoneType:
		return "None"
	}
	return "*"
}

func c08Render(v py.Object) string {
	switch x := v.(type) {
	case *py.Module:
		name, _ := x.Globals["__name__"].(py.String)
		return "<module " + string(name) + ">"
	case *py.Type:
		if x.Name == "" {
			return "<instance>"
		}
		return "<class " + x.Name + ">"
	case *py.Method:
		return "<fn " + x.Name + ">"
	case *py.File:
		return "<file>"
	case *py.List:
		ss := make([]string, len(x.Items))
		for i, it := range x.Items {
			ss[i] = c08Scalar(it)
		}
		return "[" + strings.Join(ss, ",") + "]"
	case py.Tuple:
		ss := make([]string, len(x))
		for i, it := range x {
			ss[i] = c08Scalar(it)
		}
		return "(" + strings.Join(ss, ",") + ")"
	case py.StringDict:
		keys := make([]string, 0, len(x))
		for k := range x {
			keys = append(keys, k)
		}
		sort.Strings(keys)
		ss := make([]string, len(keys))
		for i, k := range keys {
			ss[i] = k + "=" + c08Scalar(x[k])
		}
		return "{" + strings.Join(ss, ",") + "}"
	}
	s := c08Scalar(v)
	if s == "*" {
		return fmt.Sprintf("<%T>", v)
	}
	return s
}

// ---------- one context with its trace ----------

type c08Ctx struct {
	id    int
	ctx   py.Context
	main  *py.Module
	trace []string
}

// c08Opts: the ContextOpts of context id.  opt = two letters, SysArgs then SysPaths, each
// N (nil slice), E (empty, non-nil slice) or S (supplied: ['c8', '<id>'] / ['/p<id>']).
func c08Opts(id int, opt string) py.ContextOpts {
	if len(opt) != 2 {
		opt = "SS"
	}
	var o py.ContextOpts
	switch opt[0] {
	case 'E':
		o.SysArgs = []string{}
	case 'S':
		o.SysArgs = []string{"c8", strconv.Itoa(id)}
	}
	switch opt[1] {
	case 'E':
		o.SysPaths = []string{}
	case 'S':
		o.SysPaths = []string{"/p" + strconv.Itoa(id)}
	}
	return o
}

// c08OptOf: the opts letters of context i in a comma-separated list (missing: SS)
func c08OptOf(opts []string, i int) string {
	if i < len(opts) && len(opts[i]) == 2 {
		return opts[i]
	}
	return "SS"
}

func c08NewCtx(id int, opt string) *c08Ctx {
	c := &c08Ctx{id: id}
	c.ctx = py.NewContext(c08Opts(id, opt))
	c08Install(c)
	return c
}

// c08Install: the observation builtins o / k / ox and the __main__ module of a context
func c08Install(c *c08Ctx) {
	bi := c.ctx.Store().Builtins.Globals
	bi["o"] = py.MustNewMethod("o", func(self py.Object, args py.Tuple) (py.Object, error) {
		c.trace = append(c.trace, c08Render(args[0]))
		return py.None, nil
	}, 0, "")
	bi["k"] = py.MustNewMethod("k", func(self py.Object, args py.Tuple) (py.Object, error) {
		c.trace = append(c.trace, "ok")
		return py.None, nil
	}, 0, "")
	bi["ox"] = py.MustNewMethod("ox", func(self py.Object, args py.Tuple) (py.Object, error) {
		cls := "?"
		switch e := args[0].(type) {
		case *py.Exception:
			cls = e.Type().Name
		case *py.Type:
			cls = e.Name
		}
		c.trace = append(c.trace, "E:"+cls)
		return py.None, nil
	}, 0, "")
	m, err := c.ctx.ModuleInit(&py.ModuleImpl{Info: py.ModuleInfo{FileDesc: "<c8>"}})
	if err != nil {
		panic(err)
	}
	c.main = m
}

func (c *c08Ctx) run(code *py.Code) {
	defer func() {
		if e := recover(); e != nil {
			c.trace = append(c.trace, "PANIC:"+strings.ReplaceAll(strings.ReplaceAll(fmt.Sprint(e), "\n", " "), "\t", " "))
		}
	}()
	_, err := c.ctx.RunCode(code, c.main.Globals, c.main.Globals, nil)
	if err != nil {
		c.trace = append(c.trace, "UNCAUGHT:"+errClass(err))
	}
}

func c08Compile(src string) *py.Code {
	code, err := py.Compile(src, "<c8>", py.ExecMode, 0, true)
	if err != nil {
		panic("compile: " + err.Error() + " in " + src)
	}
	return code
}

type c08Step struct {
	c   int
	src string
}

func c08Traces(cs []*c08Ctx) string {
	parts := make([]string, len(cs))
	for i, c := range cs {
		parts[i] = fmt.Sprintf("T%d=[%s]", i, strings.Join(c.trace, ","))
	}
	return strings.Join(parts, ";")
}

// ---------- process-wide state: snapshot / compare / restore ----------

// the process-wide registry of module implementations (py.gRuntime is not exported and there is no
// API to enumerate it: the variable is reached by linkname, so that EVERY registered implementation is
// snapshot and walked, not a hand-written list of names)
//
//go:linkname c08Runtime github.com/go-python/gpython/py.gRuntime
var c08Runtime py.Runtime

func c08ImplNames() []string {
	var out []string
	for n := range c08Runtime.ModuleImpls {
		// source-defined modules registered by C:sharedcode have no Globals
		if !strings.HasPrefix(n, "c8src") {
			out = append(out, n)
		}
	}
	sort.Strings(out)
	return out
}

type c08Snapshot struct {
	typeDicts map[*py.Type]py.StringDict
	implGlobs map[string]py.StringDict
	implLists map[string][]py.Object    // "<impl>.<global>" -> items of a list held in an implementation's Globals
	implDicts map[string]py.StringDict  // "<impl>.<global>" -> entries of a dict held in an implementation's Globals
}

var c08Snap *c08Snapshot

func c08Ident(v py.Object) string {
	rv := reflect.ValueOf(v)
	switch rv.Kind() {
	case reflect.Ptr, reflect.Map, reflect.Slice, reflect.Func, reflect.Chan, reflect.UnsafePointer:
		return fmt.Sprintf("%T@%x", v, rv.Pointer())
	}
	return fmt.Sprintf("%T=%v", v, v)
}

func c08DictDiff(name string, was, now py.StringDict) []string {
	var out []string
	for k, v := range was {
		if nv, ok := now[k]; !ok || c08Ident(nv) != c08Ident(v) {
			out = append(out, name+"."+k)
		}
	}
	for k := range now {
		if _, ok := was[k]; !ok {
			out = append(out, name+"."+k)
		}
	}
	sort.Strings(out)
	return out
}

func c08Restore(dst, from py.StringDict) {
	for k := range dst {
		delete(dst, k)
	}
	for k, v := range from {
		dst[k] = v
	}
}

// c08CheckShared compares the process-wide dictionaries with the snapshot, restores them and
// returns what had changed
func c08CheckShared(types map[*py.Type]bool) (typeChanged, implChanged []string) {
	if c08Snap == nil {
		c08Snap = &c08Snapshot{typeDicts: map[*py.Type]py.StringDict{}, implGlobs: map[string]py.StringDict{},
			implLists: map[string][]py.Object{}, implDicts: map[string]py.StringDict{}}
		for _, n := range c08ImplNames() {
			if impl := py.GetModuleImpl(n); impl != nil {
				c08Snap.implGlobs[n] = impl.Globals.Copy()
				for k, v := range impl.Globals {
					switch x := v.(type) {
					case *py.List:
						c08Snap.implLists[n+"."+k] = append([]py.Object{}, x.Items...)
					case py.StringDict:
						c08Snap.implDicts[n+"."+k] = x.Copy()
					}
				}
			}
		}
	}
	for t := range types {
		was, ok := c08Snap.typeDicts[t]
		if !ok {
			c08Snap.typeDicts[t] = t.Dict.Copy()
			continue
		}
		if d := c08DictDiff(t.Name, was, t.Dict); len(d) > 0 {
			typeChanged = append(typeChanged, d...)
			c08Restore(t.Dict, was)
		}
	}
	for n, was := range c08Snap.implGlobs {
		impl := py.GetModuleImpl(n)
		if d := c08DictDiff(n, was, impl.Globals); len(d) > 0 {
			implChanged = append(implChanged, d...)
			c08Restore(impl.Globals, was)
		}
	}
	// the CONTENTS of the lists and dicts held in implementation Globals (sys.path, sys.argv, os.environ):
	// no context may change them (each module instance has its own copy)
	for key, was := range c08Snap.implLists {
		i := strings.IndexByte(key, '.')
		if l, ok := py.GetModuleImpl(key[:i]).Globals[key[i+1:]].(*py.List); ok {
			same := len(l.Items) == len(was)
			for j := 0; same && j < len(was); j++ {
				same = c08Ident(l.Items[j]) == c08Ident(was[j])
			}
			if !same {
				implChanged = append(implChanged, key+"[]")
				l.Items = append([]py.Object{}, was...)
			}
		}
	}
	for key, was := range c08Snap.implDicts {
		i := strings.IndexByte(key, '.')
		if d, ok := py.GetModuleImpl(key[:i]).Globals[key[i+1:]].(py.StringDict); ok {
			if len(c08DictDiff(key, was, d)) > 0 {
				implChanged = append(implChanged, key+"{}")
				c08Restore(d, was)
			}
		}
	}
	sort.Strings(typeChanged)
	sort.Strings(implChanged)
	return
}

// ---------- heap walk ----------

type c08Id struct {
	p uintptr
	t reflect.Type
}

type c08Walker struct {
	seen    map[c08Id]bool
	mutable map[c08Id]string // writable python objects reached, with the access path
	frozen  map[uintptr]bool // dictionaries of built-in types (refuse writes from Python)
	types   map[*py.Type]bool
	nodes   int
}

var (
	c08TList     = reflect.TypeOf((*py.List)(nil))
	c08TSet      = reflect.TypeOf((*py.Set)(nil))
	c08TModule   = reflect.TypeOf((*py.Module)(nil))
	c08TType     = reflect.TypeOf((*py.Type)(nil))
	c08TFunction = reflect.TypeOf((*py.Function)(nil))
	c08TMethod   = reflect.TypeOf((*py.Method)(nil))
	c08TExc      = reflect.TypeOf((*py.Exception)(nil))
	c08TCell     = reflect.TypeOf((*py.Cell)(nil))
	c08TGen      = reflect.TypeOf((*py.Generator)(nil))
	c08TFrame    = reflect.TypeOf((*py.Frame)(nil))
	c08TFile     = reflect.TypeOf((*py.File)(nil))
	c08TImpl     = reflect.TypeOf((*py.ModuleImpl)(nil))
	c08TSDict    = reflect.TypeOf(py.StringDict(nil))
	c08TCode     = reflect.TypeOf((*py.Code)(nil))
)

func c08IsStatic(t *py.Type) bool { return t.Flags&py.TPFLAGS_HEAPTYPE == 0 && t.Name != "" }

func (w *c08Walker) walk(v reflect.Value, path string, depth int) {
	if !v.IsValid() || depth > 200 {
		return
	}
	w.nodes++
	switch v.Kind() {
	case reflect.Interface:
		if !v.IsNil() {
			w.walk(v.Elem(), path, depth+1)
		}
	case reflect.Ptr:
		if v.IsNil() {
			return
		}
		id := c08Id{v.Pointer(), v.Type()}
		if w.seen[id] {
			return
		}
		w.seen[id] = true
		switch v.Type() {
		case c08TFile, c08TImpl:
			// process resources (os.Stdin/out/err) and the registry entry (checked by snapshot)
			return
		case c08TList, c08TSet, c08TModule, c08TFunction, c08TCell, c08TGen, c08TFrame:
			w.mutable[id] = path
		case c08TExc:
			// an exception object accepts no attribute write from Python (SetAttrString: no __setattr__, no
			// IGetDict); its Dict is filled by Go code when a SyntaxError is built
			if e := (*py.Exception)(unsafe.Pointer(v.Pointer())); e.Dict != nil {
				w.frozen[reflect.ValueOf(e.Dict).Pointer()] = true
			}
		case c08TMethod:
			if m := (*py.Method)(unsafe.Pointer(v.Pointer())); m.Module != nil {
				w.mutable[id] = path
			}
		case c08TType:
			t := (*py.Type)(unsafe.Pointer(v.Pointer()))
			if c08IsStatic(t) {
				w.types[t] = true
				w.frozen[reflect.ValueOf(t.Dict).Pointer()] = true
			} else {
				w.mutable[id] = path
			}
		}
		pkg := v.Type().Elem().PkgPath()
		if pkg == "sync" || pkg == "os" || pkg == "reflect" || pkg == "time" || pkg == "math/big" || pkg == "sync/atomic" {
			return
		}
		w.walk(v.Elem(), path, depth+1)
	case reflect.Map:
		if v.IsNil() {
			return
		}
		id := c08Id{v.Pointer(), v.Type()}
		if w.seen[id] {
			return
		}
		w.seen[id] = true
		if v.Type() == c08TSDict && !w.frozen[v.Pointer()] {
			w.mutable[id] = path
		}
		keys := v.MapKeys()
		if v.Type().Key().Kind() == reflect.String {
			sort.Slice(keys, func(i, j int) bool { return keys[i].String() < keys[j].String() })
		}
		for _, k := range keys {
			kp := path + "[?]"
			if k.Kind() == reflect.String {
				kp = path + "." + k.String()
			} else {
				w.walk(k, kp+"(key)", depth+1)
			}
			w.walk(v.MapIndex(k), kp, depth+1)
		}
	case reflect.Slice:
		if v.IsNil() || v.Len() == 0 {
			return
		}
		ek := v.Type().Elem().Kind()
		if ek != reflect.Interface && ek != reflect.Ptr && ek != reflect.Struct && ek != reflect.Map && ek != reflect.Slice {
			return
		}
		for i := 0; i < v.Len(); i++ {
			w.walk(v.Index(i), path+"["+strconv.Itoa(i)+"]", depth+1)
		}
	case reflect.Struct:
		pkg := v.Type().PkgPath()
		if pkg == "sync" || pkg == "os" || pkg == "reflect" || pkg == "time" || pkg == "sync/atomic" {
			return
		}
		for i := 0; i < v.NumField(); i++ {
			f := v.Field(i)
			name := v.Type().Field(i).Name
			if v.Type() == c08TModule.Elem() && name == "ModuleImpl" {
				continue
			}
			if !f.CanInterface() {
				if !f.CanAddr() {
					continue
				}
				f = reflect.NewAt(f.Type(), unsafe.Pointer(f.UnsafeAddr())).Elem()
			}
			sub := path
			if v.Type() != c08TModule.Elem() && v.Type() != c08TList.Elem() {
				sub = path + "/" + name
			}
			w.walk(f, sub, depth+1)
		}
	}
}

func c08Walk(c *c08Ctx) *c08Walker {
	w := &c08Walker{seen: map[c08Id]bool{}, mutable: map[c08Id]string{}, frozen: map[uintptr]bool{}, types: map[*py.Type]bool{}}
	// static types first, so that their dictionaries are known to be frozen before they are met as maps
	w.walk(reflect.ValueOf(c.ctx.Store()), "store", 0)
	w.walk(reflect.ValueOf(c.main), "__main__", 0)
	// a dictionary met before its (static) type: forget it
	for id := range w.mutable {
		if id.t == c08TSDict && w.frozen[id.p] {
			delete(w.mutable, id)
		}
	}
	return w
}

// c08WalkImpls walks from the Globals of EVERY registered module implementation (the process-wide
// registry): what is reachable from there is reachable by every context that instantiates the module later
func c08WalkImpls() *c08Walker {
	w := &c08Walker{seen: map[c08Id]bool{}, mutable: map[c08Id]string{}, frozen: map[uintptr]bool{}, types: map[*py.Type]bool{}}
	for _, n := range c08ImplNames() {
		if impl := py.GetModuleImpl(n); impl != nil {
			w.walk(reflect.ValueOf(impl.Globals), "impl:"+n, 0)
		}
	}
	for id := range w.mutable {
		if id.t == c08TSDict && w.frozen[id.p] {
			delete(w.mutable, id)
		}
	}
	return w
}

// c08Disjoint walks all contexts and the registry; a writable object reachable from two contexts, or
// from a context and from an implementation's Globals, is shared.  Returns the verdict, the canonical
// slots (R) and the access paths
func c08Disjoint(cs []*c08Ctx) (verdict, slots string, paths []string, types map[*py.Type]bool) {
	types = map[*py.Type]bool{}
	ws := make([]*c08Walker, len(cs)+1)
	label := func(i int) string {
		if i == len(cs) {
			return "registry"
		}
		return fmt.Sprintf("ctx%d", i)
	}
	for i, c := range cs {
		ws[i] = c08Walk(c)
		for t := range ws[i].types {
			types[t] = true
		}
	}
	ws[len(cs)] = c08WalkImpls()
	shared := map[c08Id][]string{}
	for i, w := range ws {
		for id, p := range w.mutable {
			for j, w2 := range ws {
				if j != i {
					if p2, ok := w2.mutable[id]; ok {
						if _, done := shared[id]; !done {
							shared[id] = []string{label(i) + ":" + p, label(j) + ":" + p2}
						}
						break
					}
				}
			}
		}
	}
	if len(shared) == 0 {
		return "disjoint", "", nil, types
	}
	direct := map[string]bool{}
	nested := 0
	for id, ps := range shared {
		paths = append(paths, fmt.Sprintf("%v reachable as %s and as %s", id.t, ps[0], ps[1]))
		found := false
		for _, c := range cs {
			storeMods := c08StoreModules(c.ctx.Store())
			for mn, m := range storeMods {
				for k, v := range m.Globals {
					rv := reflect.ValueOf(v)
					if !rv.IsValid() {
						continue
					}
					switch rv.Kind() {
					case reflect.Ptr, reflect.Map:
						if rv.Pointer() == id.p && rv.Type() == id.t {
							direct[mn+"."+k] = true
							found = true
						}
					}
				}
			}
		}
		if !found {
			nested++
		}
	}
	for id := range shared {
		if id.t == c08TModule {
			// a whole module leaked: its Context field makes the entire store of its context reachable
			return "shared", "module", paths, types
		}
	}
	ds := make([]string, 0, len(direct))
	for d := range direct {
		ds = append(ds, d)
	}
	sort.Strings(ds)
	sort.Strings(paths)
	slots = strings.Join(ds, ",")
	if nested > 0 {
		slots += fmt.Sprintf("+nested:%d", nested)
	}
	return "shared", slots, paths, types
}

func c08StoreModules(s *py.ModuleStore) map[string]*py.Module {
	f := reflect.ValueOf(s).Elem().FieldByName("modules")
	f = reflect.NewAt(f.Type(), unsafe.Pointer(f.UnsafeAddr())).Elem()
	return f.Interface().(map[string]*py.Module)
}

// ---------- free-running concurrency ----------

func c08Programs(n int, steps []c08Step) [][]string {
	progs := make([][]string, n)
	for _, s := range steps {
		progs[s.c] = append(progs[s.c], s.src)
	}
	return progs
}

// c08Solo: every program in a fresh context, alone
func c08Solo(progs [][]string, cache map[string]*py.Code, opts []string) []string {
	out := make([]string, len(progs))
	for i, p := range progs {
		c := c08NewCtx(i, c08OptOf(opts, i))
		for _, src := range p {
			c.run(cache[src])
		}
		out[i] = strings.Join(c.trace, ",")
		c.ctx.Close()
	}
	return out
}

func c08Free(progs [][]string, cache map[string]*py.Code, seed int64, gmp int, opts []string) []string {
	old := runtime.GOMAXPROCS(gmp)
	defer runtime.GOMAXPROCS(old)
	n := len(progs)
	cs := make([]*c08Ctx, n)
	for i := range cs {
		cs[i] = c08NewCtx(i, c08OptOf(opts, i))
	}
	var wg sync.WaitGroup
	start := make(chan struct{})
	for i := range cs {
		wg.Add(1)
		go func(i int) {
			defer wg.Done()
			rng := rand.New(rand.NewSource(seed*1000 + int64(i)))
			<-start
			for _, src := range progs[i] {
				switch rng.Intn(4) {
				case 0:
					runtime.Gosched()
				case 1:
					time.Sleep(time.Duration(rng.Intn(50)) * time.Microsecond)
				}
				code := cache[src]
				if i%2 == 1 {
					code = c08Compile(src) // concurrent py.Compile
				}
				cs[i].run(code)
			}
		}(i)
	}
	close(start)
	wg.Wait()
	out := make([]string, n)
	for i, c := range cs {
		out[i] = strings.Join(c.trace, ",")
		c.ctx.Close()
	}
	return out
}

// ---------- special scenarios: shared code objects, concurrent compile ----------

var c08BigPrograms = []string{
	"def fib(n):\n    a, b = 0, 1\n    for i in range(n):\n        a, b = b, a + b\n    return a\nacc = []\nfor j in range(60):\n    acc.append(fib(j) % 1000)\no(len(acc))\no(acc[59])\n",
	"class P:\n    def __init__(self, v):\n        self.v = v\n    def get(self):\n        return self.v\ndef gen(n):\n    for i in range(n):\n        yield P(i).get()\ntot = 0\nfor x in gen(300):\n    tot = tot + x\no(tot)\nd = {}\nfor i in range(100):\n    d[str(i)] = [i]\no(len(d))\n",
	"import sys, os\nfor rep in range(40):\n    b = len(sys.path)\n    sys.path.append('/x')\n    n = len(sys.path) - b\n    sys.path.pop()\n    a = len(sys.argv)\n    sys.argv.append('y')\n    n = n * 10 + len(sys.argv) - a\n    sys.argv.pop()\n    os.environ['ZQ'] = '1'\n    n = n * 10 + len(os.environ)\n    del os.environ['ZQ']\n    if n != 111:\n        o(n)\no('done')\n",
	"def mk(k):\n    def inner(x):\n        return x * k\n    return inner\nfs = [mk(i) for i in range(20)]\no(sum([f(3) for f in fs]))\ntry:\n    [][1]\nexcept IndexError as e:\n    ox(e)\nimport math\no(int(math.sqrt(1764)))\ns = 'abc' * 50\no(len(s.upper()))\n",
}

// c08COpt: the ContextOpts of context i in the family-C scenarios: two thirds of the contexts are
// created WITHOUT SysArgs/SysPaths (empty or nil), as an embedder that passes py.ContextOpts{} does
func c08COpt(i int) string { return []string{"EE", "NN", "SS", "NE", "SN"}[i%5] }

func c08SharedCode(n int, seed int64) string {
	var bad []string
	// a registered implementation given as SOURCE is compiled by the first context that imports it
	// (stdlib.ModuleInit stores impl.Code): let n fresh contexts import it at once
	py.RegisterModule(&py.ModuleImpl{Info: py.ModuleInfo{Name: fmt.Sprintf("c8src%d", seed)}, CodeSrc: "val = 41 + 1\n"})
	{
		imp := c08Compile(fmt.Sprintf("import c8src%d\no(c8src%d.val)\n", seed, seed))
		cs := make([]*c08Ctx, n)
		for i := range cs {
			cs[i] = c08NewCtx(i, c08COpt(i))
		}
		var wg sync.WaitGroup
		for i := range cs {
			wg.Add(1)
			go func(i int) {
				defer wg.Done()
				cs[i].run(imp)
			}(i)
		}
		wg.Wait()
		for i, c := range cs {
			if got := strings.Join(c.trace, ","); got != "42" {
				bad = append(bad, fmt.Sprintf("import of a source module: ctx%d got [%s] want [42]", i, got))
			}
			c.ctx.Close()
		}
	}
	for pi, src := range c08BigPrograms {
		code := c08Compile(src)
		solo := c08NewCtx(0, "SS")
		solo.run(code)
		want := strings.Join(solo.trace, ",")
		solo.ctx.Close()
		for _, gmp := range []int{1, 4, 16} {
			old := runtime.GOMAXPROCS(gmp)
			cs := make([]*c08Ctx, n)
			for i := range cs {
				cs[i] = c08NewCtx(i, c08COpt(i))
			}
			var wg sync.WaitGroup
			for i := range cs {
				wg.Add(1)
				go func(i int) {
					defer wg.Done()
					for rep := 0; rep < 3; rep++ {
						cs[i].trace = nil
						cs[i].run(code) // ONE *py.Code, n contexts at once
					}
				}(i)
			}
			wg.Wait()
			runtime.GOMAXPROCS(old)
			for i, c := range cs {
				if got := strings.Join(c.trace, ","); got != want {
					bad = append(bad, fmt.Sprintf("prog%d gmp%d ctx%d got [%s] want [%s]", pi, gmp, i, got, want))
				}
				c.ctx.Close()
			}
		}
	}
	if len(bad) > 0 {
		return "DIFF:" + strings.Join(bad, " / ")
	}
	return "same"
}

// c08SrcFile: n contexts import the SAME source file (one directory on every context's sys.path), each
// mutates the module's globals and the objects they hold (list, dict, class, through a function of the
// module) and observes them: every context must see what it sees when it is the only one, sequentially
// and on n goroutines at once, and the heap walk must find the contexts disjoint.
// c08SameName: n contexts whose sys.path name DIFFERENT directories (k of them), each directory holding a module of the
// SAME name with different content: every context must import the file of ITS OWN search path (value, __file__), whatever
// the other contexts imported before or import at the same moment.  Expected V: "own".
func c08SameName(n int, seed int64) string {
	root, err := os.MkdirTemp("", "c8same")
	if err != nil {
		panic(err)
	}
	defer os.RemoveAll(root)
	k := 2 + int(seed%3) // 2..4 directories
	mod := "c8dup"
	dirs := make([]string, k)
	for d := 0; d < k; d++ {
		dirs[d] = fmt.Sprintf("%s/d%d", root, d)
		if err := os.MkdirAll(dirs[d], 0o755); err != nil {
			panic(err)
		}
		body := fmt.Sprintf("val = %d\nlst = [%d]\ndef where():\n    return %d\n", 100+d, d, d)
		if err := os.WriteFile(dirs[d]+"/"+mod+".py", []byte(body), 0o644); err != nil {
			panic(err)
		}
	}
	forms := []string{"import c8dup\no(c8dup.val)\no(c8dup.where())\no(c8dup.lst)\n", "from c8dup import val, where\no(val)\no(where())\n",
		"from c8dup import *\no(val)\no(lst)\n", "import c8dup as q\nq.lst.append(9)\no(q.val)\no(q.lst)\n"}
	newCtx := func(i int) *c08Ctx {
		c := &c08Ctx{id: i}
		c.ctx = py.NewContext(py.ContextOpts{SysPaths: []string{dirs[i%k]}})
		c08Install(c)
		return c
	}
	codes := make([]*py.Code, n)
	want := make([]string, n)
	for i := 0; i < n; i++ {
		d := i % k
		switch (i + int(seed)) % len(forms) {
		case 0:
			want[i] = fmt.Sprintf("%d,%d,[%d]", 100+d, d, d)
		case 1:
			want[i] = fmt.Sprintf("%d,%d", 100+d, d)
		case 2:
			want[i] = fmt.Sprintf("%d,[%d]", 100+d, d)
		case 3:
			want[i] = fmt.Sprintf("%d,[%d,9]", 100+d, d)
		}
		codes[i] = c08Compile(forms[(i+int(seed))%len(forms)])
	}
	var bad []string
	for _, gmp := range []int{0, 1, 4, 16} { // 0 = one after the other
		cs := make([]*c08Ctx, n)
		for i := range cs {
			cs[i] = newCtx(i)
		}
		if gmp == 0 {
			for i := range cs {
				cs[i].run(codes[i])
			}
		} else {
			old := runtime.GOMAXPROCS(gmp)
			var wg sync.WaitGroup
			for i := range cs {
				wg.Add(1)
				go func(i int) {
					defer wg.Done()
					cs[i].run(codes[i])
				}(i)
			}
			wg.Wait()
			runtime.GOMAXPROCS(old)
		}
		for i, c := range cs {
			if got := strings.Join(c.trace, ","); got != want[i] {
				bad = append(bad, fmt.Sprintf("gmp%d ctx%d(dir%d) got [%s] want [%s]", gmp, i, i%k, got, want[i]))
			}
		}
		if verdict, slots, paths, _ := c08Disjoint(cs); verdict != "disjoint" {
			bad = append(bad, fmt.Sprintf("gmp%d walk=%s:%s %s", gmp, verdict, slots, strings.Join(paths, " ; ")))
		}
		for _, c := range cs {
			c.ctx.Close()
		}
	}
	if len(bad) > 0 {
		if len(bad) > 4 {
			bad = bad[:4]
		}
		return "FOREIGN:" + strings.Join(bad, " / ")
	}
	return "own"
}

func c08SrcFile(n int, seed int64) string {
	dir, err := os.MkdirTemp("", "c8file")
	if err != nil {
		panic(err)
	}
	defer os.RemoveAll(dir)
	mod := fmt.Sprintf("c8file%d", seed)
	body := "val = 1\nlst = [1, 2]\ncfg = {'k': 1}\ndef get():\n    return lst\nclass K:\n    a = 1\n"
	if err := os.WriteFile(dir+"/"+mod+".py", []byte(body), 0o644); err != nil {
		panic(err)
	}
	prog := func(i int) string {
		return fmt.Sprintf("import %s as m\nm.val = m.val + %d\nm.lst.append(%d)\nm.cfg['k'] = %d\nm.cfg['n%d'] = 1\nm.K.a = %d\nm.get().append(%d)\nm.extra%d = []\n"+
			"o(m.val)\no(m.lst)\no(m.cfg)\no(m.K.a)\no(len(m.get()))\nimport sys\nsys.path.append('/x%d')\no(len(sys.path))\n", mod, i, i, i, i, i, i, i, i)
	}
	newCtx := func(i int) *c08Ctx {
		c := &c08Ctx{id: i}
		c.ctx = py.NewContext(py.ContextOpts{SysPaths: []string{dir}})
		c08Install(c)
		return c
	}
	codes := make([]*py.Code, n)
	want := make([]string, n)
	for i := 0; i < n; i++ {
		codes[i] = c08Compile(prog(i))
		solo := newCtx(i)
		solo.run(codes[i])
		want[i] = strings.Join(solo.trace, ",")
		solo.ctx.Close()
	}
	var bad []string
	for _, gmp := range []int{0, 1, 4, 16} { // 0 = one after the other
		cs := make([]*c08Ctx, n)
		for i := range cs {
			cs[i] = newCtx(i)
		}
		if gmp == 0 {
			for i := range cs {
				cs[i].run(codes[i])
			}
		} else {
			old := runtime.GOMAXPROCS(gmp)
			var wg sync.WaitGroup
			for i := range cs {
				wg.Add(1)
				go func(i int) {
					defer wg.Done()
					cs[i].run(codes[i])
				}(i)
			}
			wg.Wait()
			runtime.GOMAXPROCS(old)
		}
		for i, c := range cs {
			if got := strings.Join(c.trace, ","); got != want[i] {
				bad = append(bad, fmt.Sprintf("gmp%d ctx%d got [%s] want [%s]", gmp, i, got, want[i]))
			}
		}
		if verdict, slots, paths, _ := c08Disjoint(cs); verdict != "disjoint" {
			bad = append(bad, fmt.Sprintf("gmp%d walk=%s:%s %s", gmp, verdict, slots, strings.Join(paths, " ; ")))
		}
		for _, c := range cs {
			c.ctx.Close()
		}
	}
	if len(bad) > 0 {
		if len(bad) > 6 {
			bad = bad[:6]
		}
		return "DIFF:" + strings.Join(bad, " / ")
	}
	return "same"
}

func c08CodeDump(c *py.Code) string {
	var b strings.Builder
	fmt.Fprintf(&b, "%x|%v|%v|%v|%d|%d|%x", c.Code, c.Names, c.Varnames, c.Cellvars, c.Stacksize, c.Flags, c.Lnotab)
	for _, k := range c.Consts {
		if sub, ok := k.(*py.Code); ok {
			b.WriteString("{" + c08CodeDump(sub) + "}")
		} else {
			fmt.Fprintf(&b, "<%T:%v>", k, k)
		}
	}
	return b.String()
}

func c08ConcCompile(n int) string {
	want := make([]string, len(c08BigPrograms))
	for i, src := range c08BigPrograms {
		want[i] = c08CodeDump(c08Compile(src))
	}
	var mu sync.Mutex
	var bad []string
	for _, gmp := range []int{1, 4, 16} {
		old := runtime.GOMAXPROCS(gmp)
		var wg sync.WaitGroup
		for g := 0; g < n; g++ {
			wg.Add(1)
			go func(g int) {
				defer wg.Done()
				for rep := 0; rep < 4; rep++ {
					i := (g + rep) % len(c08BigPrograms)
					if got := c08CodeDump(c08Compile(c08BigPrograms[i])); got != want[i] {
						mu.Lock()
						bad = append(bad, fmt.Sprintf("prog%d gmp%d goroutine%d", i, gmp, g))
						mu.Unlock()
					}
				}
			}(g)
		}
		wg.Wait()
		runtime.GOMAXPROCS(old)
	}
	if len(bad) > 0 {
		return "DIFF:" + strings.Join(bad, " / ")
	}
	return "same"
}

// ---------- one scenario ----------

func c08Case(line string) (string, string) {
	parts := strings.Split(line, "|")
	head := strings.Fields(parts[0])
	if len(head) < 4 {
		panic("bad scenario head")
	}
	n, _ := strconv.Atoi(head[1])
	free := head[2] == "1"
	seed, _ := strconv.ParseInt(head[3], 10, 64)
	var opts []string
	if len(head) >= 5 {
		opts = strings.Split(head[4], ",")
	}
	if strings.HasPrefix(head[0], "C:sharedcode") {
		return c08SharedCode(n, seed), ""
	}
	if strings.HasPrefix(head[0], "C:compile") {
		return c08ConcCompile(n), ""
	}
	if strings.HasPrefix(head[0], "C:srcfile") {
		return c08SrcFile(n, seed), ""
	}
	if strings.HasPrefix(head[0], "C:samename") {
		return c08SameName(n, seed), ""
	}
	var steps []c08Step
	cache := map[string]*py.Code{}
	for _, p := range parts[1:] {
		i := strings.IndexByte(p, ':')
		c, _ := strconv.Atoi(p[:i])
		src := strings.ReplaceAll(p[i+1:], "\\n", "\n")
		steps = append(steps, c08Step{c, src})
		if _, ok := cache[src]; !ok {
			cache[src] = c08Compile(src)
		}
	}
	// scheduled run: each context has its own goroutine; statements are handed over one at a time
	cs := make([]*c08Ctx, n)
	chans := make([]chan *py.Code, n)
	done := make(chan struct{})
	for i := range cs {
		cs[i] = c08NewCtx(i, c08OptOf(opts, i))
		chans[i] = make(chan *py.Code)
		go func(i int) {
			for code := range chans[i] {
				cs[i].run(code)
				done <- struct{}{}
			}
		}(i)
	}
	if c08Snap == nil {
		// first scenario of the process: baseline of the built-in type dictionaries and implementations
		_, _, _, types := c08Disjoint(cs)
		c08CheckShared(types)
	}
	for _, s := range steps {
		chans[s.c] <- cache[s.src]
		<-done
	}
	for i := range chans {
		close(chans[i])
	}
	v := c08Traces(cs)
	verdict, slots, paths, types := c08Disjoint(cs)
	v += "|walk=" + verdict
	if verdict == "shared" {
		if slots != "" {
			v += ":" + slots
		} else {
			v += ":" + strings.Join(paths, " ; ")
		}
	}
	if len(paths) > 0 && os.Getenv("C08_VERBOSE") != "" {
		fmt.Fprintln(os.Stderr, "shared:", strings.Join(paths, "\n        "))
	}
	tc, ic := c08CheckShared(types)
	if len(tc) > 0 {
		v += "|typedict-changed:" + strings.Join(tc, ",")
	}
	if len(ic) > 0 {
		v += "|impl-changed:" + strings.Join(ic, ",")
	}
	for _, c := range cs {
		c.ctx.Close()
	}
	r := ""
	if free {
		progs := c08Programs(n, steps)
		solo := c08Solo(progs, cache, opts)
		var diffs []string
		for _, gmp := range []int{1, 4, 16} {
			for rep := int64(0); rep < 2; rep++ {
				got := c08Free(progs, cache, seed*10+rep, gmp, opts)
				for i := range got {
					if got[i] != solo[i] {
						diffs = append(diffs, fmt.Sprintf("ctx%d gmp%d rep%d got [%s] solo [%s]", i, gmp, rep, got[i], solo[i]))
					}
				}
			}
		}
		c08CheckShared(types)
		if len(diffs) > 0 {
			v += "|conc=DIFF:" + strings.Join(diffs, " / ")
		}
	}
	return v, r
}

func init() {
	handlers["C08"] = func(args []string) handler {
		py.RegisterModule(&py.ModuleImpl{
			Info: py.ModuleInfo{Name: "c8a"},
			Methods: []*py.Method{py.MustNewMethod("f", func(self py.Object, args py.Tuple) (py.Object, error) {
				return py.None, nil
			}, 0, "")},
			Globals: py.StringDict{"val": py.Int(7), "name": py.String("c8a"), "tup": py.Tuple{py.Int(1), py.Int(2)},
				"lst": py.NewListFromItems([]py.Object{py.Int(1), py.Int(2)}), "cfg": py.StringDict{"ck": py.Int(1)}},
		})
		// a SOURCE-defined registered module: its body runs in every context that imports it
		py.RegisterModule(&py.ModuleImpl{Info: py.ModuleInfo{Name: "c8s"}, CodeSrc: "val = 41 + 1\nlst = [1, 2]\ncfg = {'ck': 1}\n"})
		// the environment of the test process is not part of the scenario: os.environ starts empty
		if impl := py.GetModuleImpl("os"); impl != nil {
			if env, ok := impl.Globals["environ"].(py.StringDict); ok {
				for k := range env {
					delete(env, k)
				}
			}
		}
		return c08Case
	}
}
