//go:build verif

package main

// C09 harness: drives real goroutines through one model schedule with hook H1
// (stdlib.VerifYield).  Token-passing scheduler: every goroutine parks at each yield
// point until the schedule hands it the token; it is released into a blocking
// primitive only when the model says the action is enabled (tokens `t`), or on purpose
// to confirm that it really blocks (tokens `bt`, quiescence window).  After every
// token the observable state is recorded: Done closed?, callback count, and per thread
// not-started/running/ok/error/panic + number of Python bodies run.
//   V = verdict of the monitor (Go transcription of GPy.C09.checkObs) or STUCK/…,
//   R = the observation trace and the yield points consumed (compared with the model).

import (
	"fmt"
	"os"
	"runtime"
	"strconv"
	"strings"
	"sync"
	"sync/atomic"
	"time"

	"github.com/go-python/gpython/py"
	"github.com/go-python/gpython/stdlib"
)

type c09Thread struct {
	id       int
	kind     byte
	arrive   chan string
	resume   chan struct{}
	parkedAt string
	loose    string // "" or the yield suffix it was released into
	finished bool
	started  bool
	result   byte // k e p x
	bodies   int32
	after    bool
	goid     int64
}

type c09Run struct {
	ctx     py.Context
	ths     []*c09Thread
	byGo    sync.Map // goid -> *c09Thread
	cb      int32
	freeRun int32
	wg      sync.WaitGroup
}

var c09Cur atomic.Value // *c09Run

func goid() int64 {
	var buf [64]byte
	n := runtime.Stack(buf[:], false)
	s := string(buf[len("goroutine "):n])
	if i := strings.IndexByte(s, ' '); i > 0 {
		s = s[:i]
	}
	id, _ := strconv.ParseInt(s, 10, 64)
	return id
}

var c09StackBuf = make([]byte, 1<<20)

// c09GoState returns the scheduler state of goroutine id as runtime.Stack prints it ("running", "runnable",
// "sync.Mutex.Lock", "sync.Cond.Wait", "chan receive", …; "" if the goroutine is not listed).  It is how the
// harness KNOWS that a goroutine it released into mu.Lock() has joined the mutex's wait queue (sync.Mutex wakes
// its waiters in arrival order), instead of guessing from a quiescence window.
func c09GoState(id int64) string {
	n := runtime.Stack(c09StackBuf, true)
	txt := string(c09StackBuf[:n])
	key := fmt.Sprintf("goroutine %d [", id)
	i := strings.Index(txt, key)
	for i > 0 && txt[i-1] != '\n' {
		j := strings.Index(txt[i+1:], key)
		if j < 0 {
			return ""
		}
		i += 1 + j
	}
	if i < 0 {
		return ""
	}
	rest := txt[i+len(key):]
	e := strings.IndexAny(rest, "],")
	if e < 0 {
		return ""
	}
	return rest[:e]
}

func c09InMutexQueue(st string) bool { return st == "sync.Mutex.Lock" || st == "semacquire" }

// waitQueued polls until goroutine th is parked inside mu.Lock() (true) or has come through to its next yield
// point / the deadline passes (false)
func (th *c09Thread) waitQueued(d time.Duration) bool {
	deadline := time.Now().Add(d)
	for {
		if c09InMutexQueue(c09GoState(th.goid)) {
			return true
		}
		if len(th.arrive) > 0 || time.Now().After(deadline) {
			return false
		}
		time.Sleep(20 * time.Microsecond)
	}
}

func c09Self() (*c09Run, *c09Thread) {
	r, _ := c09Cur.Load().(*c09Run)
	if r == nil {
		return nil, nil
	}
	th, ok := r.byGo.Load(goid())
	if !ok {
		return r, nil
	}
	return r, th.(*c09Thread)
}

func c09Yield(point string) {
	r, th := c09Self()
	if th == nil || atomic.LoadInt32(&r.freeRun) != 0 {
		return
	}
	th.arrive <- point
	<-th.resume
}

var (
	c09Body        *py.Method
	c09Code        *py.Code
	c09ImpCode     [8]*py.Code
	c09ResPath     string
	c09Quiesce     = 4 * time.Millisecond
	c09Timeout     = 400 * time.Millisecond // first attempt; a STUCK/DEADLOCK verdict is confirmed with c09LongTimeout
	c09LongTimeout = 2 * time.Second
	c09Confirmed   = 0 // confirmed stuck verdicts so far in this process
)

func c09MustCompile(src, name string) *py.Code {
	c, err := py.Compile(src, name, py.ExecMode, 0, true)
	if err != nil {
		panic(err)
	}
	return c
}

func c09Init() {
	runtime.GOMAXPROCS(2) // token passing: one runnable goroutine at a time; more Ps only add wake-up latency
	stdlib.VerifYield = c09Yield
	c09Body = py.MustNewMethod("body", func(self py.Object) (py.Object, error) {
		if _, th := c09Self(); th != nil {
			atomic.AddInt32(&th.bodies, 1)
		}
		return py.None, nil
	}, 0, "count one Python body")
	c09Code = c09MustCompile("body()\n", "<c09>")
	for i := range c09ImpCode {
		name := fmt.Sprintf("c09imp%d", i)
		py.RegisterModule(&py.ModuleImpl{Info: py.ModuleInfo{Name: name}, Code: c09Code, Methods: []*py.Method{c09Body}})
		c09ImpCode[i] = c09MustCompile("body()\nimport "+name+"\nbody()\n", "<c09i>")
	}
	f, err := os.CreateTemp("", "c09res*.py")
	if err != nil {
		panic(err)
	}
	f.WriteString("x = 1\n")
	f.Close()
	c09ResPath = f.Name()
	if v := os.Getenv("C09_QUIESCE_MS"); v != "" {
		if n, err := strconv.Atoi(v); err == nil {
			c09Quiesce = time.Duration(n) * time.Millisecond
		}
	}
}

func c09Ordinary(err error) byte {
	if err == nil {
		return 'k'
	}
	if c := errClass(err); strings.HasPrefix(c, "E:") && !strings.Contains(c, "?") {
		return 'e'
	}
	return 'x'
}

func (r *c09Run) launch(th *c09Thread) {
	r.wg.Add(1)
	ready := make(chan struct{})
	go func() {
		defer r.wg.Done()
		th.goid = goid()
		r.byGo.Store(th.goid, th)
		close(ready)
		defer func() {
			if e := recover(); e != nil {
				th.result = 'p'
			}
			th.arrive <- "FIN"
		}()
		ctx := r.ctx
		switch th.kind {
		case 'R':
			g := py.StringDict{"body": c09Body}
			_, err := ctx.RunCode(c09Code, g, g, nil)
			th.result = c09Ordinary(err)
		case 'I':
			g := py.StringDict{"body": c09Body}
			_, err := ctx.RunCode(c09ImpCode[th.id], g, g, nil)
			th.result = c09Ordinary(err)
		case 'M':
			_, err := ctx.ModuleInit(&py.ModuleImpl{Info: py.ModuleInfo{Name: fmt.Sprintf("c09mi%d", th.id)}, Code: c09Code, Methods: []*py.Method{c09Body}})
			th.result = c09Ordinary(err)
		case 'V':
			out, err := ctx.ResolveAndCompile(c09ResPath, py.CompileOpts{CurDir: "/"})
			th.result = c09Ordinary(err)
			if err == nil && out.Code == nil {
				th.result = 'x'
			}
		case 'C':
			th.result = c09Ordinary(ctx.Close())
		case 'D':
			c09Yield("D.wait-done")
			<-ctx.Done()
			th.result = 'k'
		default:
			panic("bad kind")
		}
	}()
	<-ready
}

// release hands the token to a parked goroutine (it must be waiting in c09Yield)
func (th *c09Thread) release(d time.Duration) bool {
	select {
	case th.resume <- struct{}{}:
		return true
	case <-time.After(d):
		return false
	}
}

// wait for thread th to park at its next yield point or finish
func (th *c09Thread) await(d time.Duration) bool {
	select {
	case m := <-th.arrive:
		if m == "FIN" {
			th.finished = true
			th.parkedAt = ""
		} else {
			th.parkedAt = m
		}
		th.loose = ""
		return true
	case <-time.After(d):
		return false
	}
}

func suffix(y string) string {
	if i := strings.IndexByte(y, '.'); i >= 0 {
		return y[i+1:]
	}
	return y
}

type c09TObs struct {
	st     byte
	bodies int
}
type c09Obs struct {
	done bool
	cb   int
	ths  []c09TObs
}

func (r *c09Run) observe() c09Obs {
	o := c09Obs{cb: int(atomic.LoadInt32(&r.cb))}
	select {
	case <-r.ctx.Done():
		o.done = true
	default:
	}
	for _, th := range r.ths {
		st := byte('r')
		switch {
		case th.finished && th.result == 'p':
			st = 'p'
		case !th.started:
			st = 'n'
		case th.finished:
			st = th.result
		}
		o.ths = append(o.ths, c09TObs{st, int(atomic.LoadInt32(&th.bodies))})
	}
	return o
}

func (o c09Obs) text() string {
	var b strings.Builder
	d := 0
	if o.done {
		d = 1
	}
	fmt.Fprintf(&b, "D%dC%d:", d, o.cb)
	for _, t := range o.ths {
		fmt.Fprintf(&b, "%c%d", t.st, t.bodies)
	}
	return b.String()
}

func c09IsExec(k byte) bool { return k == 'R' || k == 'M' || k == 'V' || k == 'I' }

var c09Bodies = map[byte]int{'R': 1, 'M': 1, 'V': 0, 'I': 3}

func fin(st byte) bool { return st == 'k' || st == 'e' }

// transcription of GPy.C09.checkObs (Spec.lean); keep the two in step
func c09Check(kinds string, p, o c09Obs, after []bool) string {
	for _, t := range o.ths {
		if t.st == 'p' {
			return "panic"
		}
		if t.st == 'x' {
			return "not-an-ordinary-error"
		}
	}
	if o.cb > 1 {
		return "callbacks-twice"
	}
	if o.done && o.cb != 1 {
		return "done-before-callbacks"
	}
	if p.done && !o.done {
		return "done-reopened"
	}
	closeReturned := false
	for i, t := range o.ths {
		if kinds[i] == 'C' && fin(t.st) {
			closeReturned = true
		}
	}
	for i, t := range o.ths {
		k, tp := kinds[i], p.ths[i]
		if k == 'C' {
			if t.st == 'e' {
				return "close-returned-error"
			}
			if t.st == 'k' && !o.done {
				return "close-returned-before-done"
			}
		}
		if k == 'D' && fin(t.st) && !o.done {
			return "done-wait-returned-early"
		}
		if c09IsExec(k) {
			inFlight := t.st == 'r' && t.bodies > 0
			switch {
			case inFlight && closeReturned:
				return "close-returned-while-execution-in-flight"
			case inFlight && o.done:
				return "done-while-execution-in-flight"
			case t.bodies > tp.bodies && p.cb > 0:
				return "body-ran-after-callbacks"
			case after[i] && t.bodies > 0:
				return "executed-after-close"
			case after[i] && t.st == 'k':
				return "admitted-after-close"
			case t.st == 'k' && t.bodies != c09Bodies[k]:
				return "success-without-complete-run"
			case t.st == 'e' && t.bodies != 0:
				return "error-after-partial-run"
			}
		}
	}
	return ""
}

// c09RunCase: a schedule the implementation cannot follow is first seen with a short timeout and then
// confirmed once with a long one (a loaded machine must not produce a false alarm); after 3 confirmed
// cases the short timeout alone is believed, so that a tree with a real deadlock is still checked quickly.
func c09RunCase(line string) (string, string) {
	first := c09Timeout
	if c09Confirmed >= 3 {
		first = c09Timeout / 10
	}
	v, r := c09RunOnce(line, first)
	if (strings.HasPrefix(v, "STUCK") || strings.HasPrefix(v, "DEADLOCK")) && c09Confirmed < 3 {
		v, r = c09RunOnce(line, c09LongTimeout)
		if strings.HasPrefix(v, "STUCK") || strings.HasPrefix(v, "DEADLOCK") {
			c09Confirmed++
		}
	}
	return v, r
}

func c09RunOnce(line string, timeout time.Duration) (string, string) {
	f := strings.Fields(line)
	if len(f) < 1 {
		return "BADCASE", "-"
	}
	kinds := f[0]
	sched := ""
	if len(f) > 1 {
		sched = f[1]
	}
	r := &c09Run{ctx: py.NewContext(py.DefaultContextOpts())}
	c09Cur.Store(r)
	if _, err := r.ctx.ModuleInit(&py.ModuleImpl{Info: py.ModuleInfo{Name: "c09cb"},
		OnContextClosed: func(*py.Module) { atomic.AddInt32(&r.cb, 1) }}); err != nil {
		return "SETUP:" + err.Error(), "-"
	}
	verdict := ""
	for i := 0; i < len(kinds); i++ {
		th := &c09Thread{id: i, kind: kinds[i], arrive: make(chan string, 4), resume: make(chan struct{})}
		r.ths = append(r.ths, th)
		r.launch(th)
		if !th.await(timeout) {
			verdict = fmt.Sprintf("STUCK@launch:%d", i)
		}
	}
	prev := c09Obs{ths: make([]c09TObs, len(kinds))}
	for i := range prev.ths {
		prev.ths[i].st = 'n'
	}
	after := make([]bool, len(kinds))
	var obsTxt, ys []string
	step := 0
	for i := 0; i < len(sched) && verdict == ""; step++ {
		probe := false
		if sched[i] == 'b' {
			probe = true
			i++
		}
		t := int(sched[i] - '0')
		i++
		if t < 0 || t >= len(r.ths) {
			return "BADCASE", "-"
		}
		th := r.ths[t]
		closeReturnedBefore := false
		for j, x := range prev.ths {
			if kinds[j] == 'C' && fin(x.st) {
				closeReturnedBefore = true
			}
		}
		switch {
		case th.finished:
			verdict = fmt.Sprintf("DIVERGED@%d:%d:thread-finished-earlier-than-the-model-says", step, t)
		case probe:
			if th.loose != "" {
				verdict = fmt.Sprintf("BADCASE@%d:probe-on-loose", step)
				break
			}
			y := suffix(th.parkedAt)
			if !th.release(timeout) {
				verdict = fmt.Sprintf("STUCK@%d:%d:not-parked", step, t)
				break
			}
			if y == "lock" && th.waitQueued(timeout) {
				// positively blocked: the goroutine sits in the mutex's wait queue (behind those queued earlier)
				th.loose = y
				ys = append(ys, fmt.Sprintf("%d:blocked", t))
			} else if th.await(c09Quiesce) {
				verdict = fmt.Sprintf("NOTBLOCKED@%d:%d:%s", step, t, y)
			} else {
				th.loose = y
				ys = append(ys, fmt.Sprintf("%d:blocked", t))
			}
		case th.loose != "":
			y := th.loose
			if !th.await(timeout) {
				verdict = fmt.Sprintf("STUCK@%d:%d:%s", step, t, y)
				break
			}
			if !th.started {
				th.started, after[t] = true, closeReturnedBefore
			}
			if y == "wait" {
				y = "wake"
			}
			ys = append(ys, fmt.Sprintf("%d:%s", t, y))
		default:
			y := suffix(th.parkedAt)
			if !th.started {
				th.started, after[t] = true, closeReturnedBefore
			}
			if !th.release(timeout) {
				verdict = fmt.Sprintf("STUCK@%d:%d:not-parked", step, t)
				break
			}
			if y == "wait" { // Cond.Wait: releases the mutex and sleeps; it comes back by itself
				th.loose = "wait"
			} else if !th.await(timeout) {
				verdict = fmt.Sprintf("STUCK@%d:%d:%s", step, t, y)
				break
			}
			ys = append(ys, fmt.Sprintf("%d:%s", t, y))
			if y == "broadcast" {
				// a woken Cond sleeper re-acquires the mutex inside Wait: let it join the mutex's wait queue
				// (behind probe-released lockers already there) before anything else is released
				for _, w := range r.ths {
					if w.loose == "wait" {
						w.waitQueued(timeout)
					}
				}
			}
		}
		if verdict != "" {
			break
		}
		o := r.observe()
		obsTxt = append(obsTxt, o.text())
		if why := c09Check(kinds, prev, o, after); why != "" {
			verdict = fmt.Sprintf("BAD@%d:%s", step, why)
		}
		prev = o
	}
	// teardown: let everything run freely, close the context, every goroutine must end
	atomic.StoreInt32(&r.freeRun, 1)
	for _, th := range r.ths {
		close(th.resume)
	}
	closed := make(chan struct{})
	go func() { r.ctx.Close(); close(closed) }()
	allDone := make(chan struct{})
	go func() { r.wg.Wait(); <-closed; close(allDone) }()
	select {
	case <-allDone:
	case <-time.After(timeout):
		if verdict == "" {
			verdict = "DEADLOCK@teardown"
		}
	}
	if verdict == "" {
		// final state after the free run: still no panic, Done closed, callbacks once
		o := r.observe()
		for _, th := range r.ths {
			if th.result == 'p' {
				verdict = "BAD@teardown:panic"
			}
		}
		if verdict == "" && (!o.done || o.cb != 1) {
			verdict = "BAD@teardown:done-or-callbacks"
		}
	}
	if verdict == "" {
		verdict = "OK"
	}
	return verdict, strings.Join(obsTxt, "|") + ";" + strings.Join(ys, " ")
}

func init() {
	handlers["C09"] = func(args []string) handler {
		c09Init()
		return c09RunCase
	}
}
