package main

// C11 harness: the compile pipeline is total.
//
// Every text is run through compile.Compile (= py.Compile: parser.Parse ->
// symtable.NewSymTable -> compileAst -> Assemble) in the three modes.  The
// outcome of ONE (text, mode) is canonicalised to
//
//	code            a code object was returned
//	E:SyntaxError   a *py.Exception whose class is SyntaxError or a subclass
//	                (IndentationError, TabError) AND whose Dict carries filename, lineno, offset
//	BAD:<what>      anything else: BAD:E:<Class> (other exception class, e.g. SystemError),
//	                BAD:noloc:<Class> (SyntaxError family without location), BAD:PANIC:<msg>,
//	                BAD:hang (watchdog 2 s), BAD:crash (the child process died), BAD:nil
//
// `gpyh C11` is a supervisor: it forwards every input line to a child process
// (`gpyh C11 child`) and waits for its answer.  A child that hangs on one
// input answers BAD:hang and exits; a child that dies (fatal error: stack
// overflow, out of memory ...) is noticed by the supervisor, which then
// re-runs the batch element by element in fresh children to attribute the
// crash to its input.
//
// input line kinds (texts are encoded, see c06Dec; spaces are \s):
//
//	alpha <enc f0> <enc f1> ...    the Lean generator's alphabet must equal c11Alphabet
//	seq <joiner> <i1> .. <ik>      all texts  A[i1] j .. j A[ik] j A[l]  for every l, x {exec, eval, single}
//	                               V = ok | BAD:.. mode=.. text=..   R = lexer digest (see c11Digest)
//	one <mode> <text>              V = ok | BAD:..                   R = lexer digest
//	oneE <mode> <text>             V = code | E:SyntaxError | BAD:.. R = lexer digest   (model predicts a lexer error)
//	big <kind> <n>                 generated large program (see c11Big)  V = ok | BAD:<what>
//	mut <seed> <shard> <nshards> <perfile>   byte/token mutations of every .py file under $VERIF_REPO,
//	                               files i with i % nshards == shard, x 3 modes; V = ok | BAD:.. replay=mut1 ...
//	mut1 <file> <kind> <a> <b> <mode>        one mutation (replay)
//
// lexer digest: for every (text, mode) of the line, in order, one character:
// '?' text outside the lexer model's alphabet, 'E' parser.LexString returned a SyntaxError-family error,
// 'X' LexString returned something else, otherwise the number of tokens in base 36 (capped at 'z');
// followed by '/' and the FNV-1a hash (hex) of all token-name streams.

import (
	"bufio"
	"fmt"
	"hash/fnv"
	"io"
	"os"
	"os/exec"
	"path/filepath"
	"sort"
	"strconv"
	"strings"
	"syscall"
	"time"
	"unicode"
	"unicode/utf8"

	"github.com/go-python/gpython/compile"
	"github.com/go-python/gpython/py"
)

// c11Alphabet: the fragments of the exhaustive exploration (must equal GPy.C11.alphabet; checked by the `alpha` case)
var c11Alphabet = []string{
	// keywords
	"if", "else", "def", "class", "return", "lambda", "for", "in", "while", "try", "except", "finally",
	"with", "as", "import", "from", "yield", "not", "pass", "break", "global", "nonlocal", "del", "None",
	// operators and delimiters
	"(", ")", "[", "]", "{", "}", ":", ",", ".", "=", "+", "-", "*", "**", "==", "+=", "->", "...", "@", ";", "<>", "!",
	// names
	"x", "f", "__class__", "\u00e9",
	// literals, also malformed ones
	"1", "0777", "1e", "1.5j", "0x", "'a'", "'abc", `"""`, "b'\u00e9'", `r'\'`, `'\x'`,
	// line structure, control bytes, non-ASCII
	"\\", "#c", "\n", "\n  ", "\n\t", "\n ", "\r", "\x00", "\x01", "\x0c", "\xff", "\u00a0", "\u03bb", "$", "?", " ",
}

var c11Modes = []py.CompileMode{py.ExecMode, py.EvalMode, py.SingleMode}
var c11ModeNames = []string{"exec", "eval", "single"}

const c11Watchdog = 2 * time.Second

// c11Enc is the inverse of c06Dec (single-line encoding)
func c11Enc(s string) string {
	var b strings.Builder
	for len(s) > 0 {
		r, n := utf8.DecodeRuneInString(s)
		switch {
		case r == utf8.RuneError && n == 1:
			fmt.Fprintf(&b, "\\x%02x", s[0])
		case r == '\n':
			b.WriteString("\\n")
		case r == '\t':
			b.WriteString("\\t")
		case r == '\r':
			b.WriteString("\\r")
		case r == ' ':
			b.WriteString("\\s")
		case r == '\\':
			b.WriteString("\\\\")
		case r < 32 || r == 127:
			fmt.Fprintf(&b, "\\x%02x", r)
		case r >= 128:
			fmt.Fprintf(&b, "\\u{%x}", r)
		default:
			b.WriteRune(r)
		}
		s = s[n:]
	}
	return b.String()
}

// c11Class: canonical outcome of one compile result
func c11Class(code *py.Code, err error) string {
	if err == nil {
		if code == nil {
			return "BAD:nil"
		}
		return "code"
	}
	e, ok := err.(*py.Exception)
	if !ok {
		if ei, ok2 := err.(*py.ExceptionInfo); ok2 && ei.Type != nil {
			return "BAD:E:" + ei.Type.Name
		}
		return fmt.Sprintf("BAD:err:%T", err)
	}
	t := e.Type()
	if t == nil {
		return "BAD:E:nil-type"
	}
	if t != py.SyntaxError && !t.IsSubtype(py.SyntaxError) {
		return "BAD:E:" + t.Name
	}
	for _, k := range []string{"filename", "lineno", "offset"} {
		if _, ok := e.Dict[k]; !ok {
			return "BAD:noloc:" + t.Name
		}
	}
	if _, ok := e.Dict["lineno"].(py.Int); !ok {
		return "BAD:noloc:" + t.Name
	}
	return "E:SyntaxError"
}

// c11CompileOnce runs one compile with a recover and a watchdog.  hung=true means the
// goroutine is still running (the caller must end the process).
func c11CompileOnce(text string, mode py.CompileMode) (v string, hung bool) {
	done := make(chan string, 1)
	go func() {
		defer func() {
			if r := recover(); r != nil {
				msg := strings.ReplaceAll(fmt.Sprint(r), "\n", " ")
				msg = strings.ReplaceAll(msg, "\t", " ")
				if len(msg) > 80 {
					msg = msg[:80]
				}
				done <- "BAD:PANIC:" + msg
			}
		}()
		code, err := compile.Compile(text, "<c11>", mode, 0, true)
		done <- c11Class(code, err)
	}()
	// watchdog: 2 s of CPU time of this (single-worker) process, so that a loaded machine does not produce
	// false hangs; absolute cap 30 s of wall time
	start := time.Now()
	cpu0 := c11CPU()
	tick := time.NewTicker(50 * time.Millisecond)
	defer tick.Stop()
	for {
		select {
		case v = <-done:
			return v, false
		case <-tick.C:
			if (time.Since(start) >= c11Watchdog && c11CPU()-cpu0 >= c11Watchdog) || time.Since(start) >= 30*time.Second {
				return "BAD:hang", true
			}
		}
	}
}

// c11CPU: user+system CPU time consumed by this process
func c11CPU() time.Duration {
	var ru syscall.Rusage
	if err := syscall.Getrusage(syscall.RUSAGE_SELF, &ru); err != nil {
		return 0
	}
	return time.Duration(ru.Utime.Nano() + ru.Stime.Nano())
}

// c11Covered: the lexer model (lean/GPy/C06/Model.lean) represents the text faithfully:
// valid UTF-8, and every non-ASCII rune is one of the model's sample identifier characters or is in no identifier class
func c11Covered(text string) bool {
	if !utf8.ValidString(text) {
		return false
	}
	for _, r := range text {
		if r < 128 {
			continue
		}
		switch r {
		case 0xE9, 0x3BB, 0x4E2D, 0x301, 0x661:
			continue
		}
		if unicode.In(r, unicode.Lu, unicode.Ll, unicode.Lt, unicode.Lm, unicode.Lo, unicode.Nl, unicode.Mn, unicode.Mc, unicode.Nd, unicode.Pc) {
			return false
		}
	}
	return true
}

type c11Digest struct {
	chars strings.Builder
	h     interface {
		io.Writer
		Sum32() uint32
	}
}

func newC11Digest() *c11Digest { return &c11Digest{h: fnv.New32a()} }

const c11B36 = "0123456789abcdefghijklmnopqrstuvwxyz"

func (d *c11Digest) add(text string, mode py.CompileMode) {
	if !c11Covered(text) {
		d.chars.WriteByte('?')
		return
	}
	v := func() (v string) {
		defer func() {
			if r := recover(); r != nil {
				v = "X"
			}
		}()
		v, _ = c06Lex(text, mode)
		return v
	}()
	switch {
	case v == "E:SyntaxError":
		d.chars.WriteByte('E')
		_, _ = d.h.Write([]byte("E;"))
	case v == "X" || strings.HasPrefix(v, "E:"):
		d.chars.WriteByte('X')
	default:
		n := 0
		if v != "" {
			n = strings.Count(v, " ") + 1
		}
		if n > 35 {
			n = 35
		}
		d.chars.WriteByte(c11B36[n])
		_, _ = d.h.Write([]byte(v))
		_, _ = d.h.Write([]byte(";"))
	}
}

func (d *c11Digest) String() string { return fmt.Sprintf("%s/%08x", d.chars.String(), d.h.Sum32()) }

// ---------------------------------------------------------------------------
// large generated programs (assembler exploration)

// c11Big builds the text of a generated large program
func c11Big(kind string, n int) string {
	var b strings.Builder
	switch kind {
	case "flat": // n assignments at module level: no jump at all
		for i := 0; i < n; i++ {
			b.WriteString("a=1\n")
		}
	case "for": // a for loop whose body has n assignments (6 bytes each): SETUP_LOOP/FOR_ITER span the body
		b.WriteString("for x in y:\n")
		for i := 0; i < n; i++ {
			b.WriteString(" a=1\n")
		}
	case "deffor": // the same inside a function
		b.WriteString("def f(y):\n for x in y:\n")
		for i := 0; i < n; i++ {
			b.WriteString("  a=1\n")
		}
	case "ifafter": // n assignments, then a small if/else: the jumps are short but lie beyond the body
		for i := 0; i < n; i++ {
			b.WriteString("a=1\n")
		}
		b.WriteString("if a:\n b=1\nelse:\n b=2\n")
	case "whileafter": // n assignments, then a small while loop (absolute jump back to a target beyond n*6)
		for i := 0; i < n; i++ {
			b.WriteString("a=1\n")
		}
		b.WriteString("while a:\n b=1\n")
	case "ifelse": // if with n assignments in the body: POP_JUMP_IF_FALSE (absolute) + JUMP_FORWARD (relative) over the else part
		b.WriteString("if a:\n")
		for i := 0; i < n; i++ {
			b.WriteString(" a=1\n")
		}
		b.WriteString("else:\n")
		for i := 0; i < n; i++ {
			b.WriteString(" a=2\n")
		}
	case "paren": // n nested parentheses
		b.WriteString(strings.Repeat("(", n) + "1" + strings.Repeat(")", n) + "\n")
	case "unary": // n nested unary minus
		b.WriteString(strings.Repeat("-", n) + "1\n")
	case "nestif": // n nested if statements
		for i := 0; i < n; i++ {
			b.WriteString(strings.Repeat(" ", i) + "if a:\n")
		}
		b.WriteString(strings.Repeat(" ", n) + "pass\n")
	case "binchain": // a + a + ... (left-nested BinOp chain of depth n)
		b.WriteString("a" + strings.Repeat("+a", n) + "\n")
	case "longname":
		b.WriteString(strings.Repeat("a", n) + "\n")
	case "longstr":
		b.WriteString("'" + strings.Repeat("a", n) + "'\n")
	case "manylines":
		b.WriteString(strings.Repeat("\n", n) + "a\n")
	default:
		panic("bad big kind " + kind)
	}
	return b.String()
}

// ---------------------------------------------------------------------------
// mutations of the repository's .py files

func c11Repo() string {
	if r := os.Getenv("VERIF_REPO"); r != "" {
		return r
	}
	return "/repo"
}

var c11FilesCache []string

func c11Files() []string {
	if c11FilesCache != nil {
		return c11FilesCache
	}
	var out []string
	root := c11Repo()
	_ = filepath.Walk(root, func(p string, info os.FileInfo, err error) error {
		if err != nil {
			return nil
		}
		if info.IsDir() && info.Name() == ".git" {
			return filepath.SkipDir
		}
		if !info.IsDir() && strings.HasSuffix(p, ".py") {
			rel, _ := filepath.Rel(root, p)
			out = append(out, rel)
		}
		return nil
	})
	sort.Strings(out)
	c11FilesCache = out
	return out
}

// c11Tokens splits a text into coarse tokens (identifier/number runs, single other bytes) as [start,end) offsets
func c11Tokens(s string) [][2]int {
	var out [][2]int
	i := 0
	isw := func(c byte) bool {
		return c == '_' || (c >= '0' && c <= '9') || (c >= 'a' && c <= 'z') || (c >= 'A' && c <= 'Z') || c >= 128
	}
	for i < len(s) {
		j := i + 1
		if isw(s[i]) {
			for j < len(s) && isw(s[j]) {
				j++
			}
		} else if s[i] == ' ' {
			for j < len(s) && s[j] == ' ' {
				j++
			}
		}
		out = append(out, [2]int{i, j})
		i = j
	}
	return out
}

var c11MutKinds = []string{"none", "bdel", "bdup", "bswap", "tdel", "tdup", "tswap", "trunc", "bset", "tins"}

// c11Mutate applies mutation `kind` with parameters a, b (reduced modulo the sizes) to src
func c11Mutate(src, kind string, a, b int) string {
	if len(src) == 0 {
		return src
	}
	switch kind {
	case "none":
		return src
	case "bdel":
		i := a % len(src)
		return src[:i] + src[i+1:]
	case "bdup":
		i := a % len(src)
		return src[:i+1] + src[i:]
	case "bswap":
		if len(src) < 2 {
			return src
		}
		i := a % (len(src) - 1)
		bs := []byte(src)
		bs[i], bs[i+1] = bs[i+1], bs[i]
		return string(bs)
	case "trunc":
		return src[:a%len(src)]
	case "bset":
		i := a % len(src)
		repl := []byte{0, '\n', '\t', ' ', '(', ')', '\'', '"', '\\', ':', 0xff, '\r', '0', '.', 'e', '#'}
		bs := []byte(src)
		bs[i] = repl[b%len(repl)]
		return string(bs)
	}
	toks := c11Tokens(src)
	if len(toks) == 0 {
		return src
	}
	i := a % len(toks)
	t := toks[i]
	switch kind {
	case "tdel":
		return src[:t[0]] + src[t[1]:]
	case "tdup":
		return src[:t[1]] + src[t[0]:]
	case "tswap":
		j := b % len(toks)
		if i > j {
			i, j = j, i
		}
		if i == j {
			return src
		}
		ti, tj := toks[i], toks[j]
		return src[:ti[0]] + src[tj[0]:tj[1]] + src[ti[1]:tj[0]] + src[ti[0]:ti[1]] + src[tj[1]:]
	case "tins":
		f := c11Alphabet[b%len(c11Alphabet)]
		return src[:t[0]] + f + " " + src[t[0]:]
	}
	panic("bad mutation kind " + kind)
}

type c11Rng struct{ s uint64 }

func (r *c11Rng) next() uint64 {
	r.s += 0x9E3779B97F4A7C15
	z := r.s
	z = (z ^ (z >> 30)) * 0xBF58476D1CE4E5B9
	z = (z ^ (z >> 27)) * 0x94D049BB133111EB
	return z ^ (z >> 31)
}

// ---------------------------------------------------------------------------
// child: evaluates one line; exits after reporting a hang

type c11Child struct {
	stats map[string]int
}

// runText: outcome of text in every mode of `modes`; returns the first BAD (with mode) or ""
func (c *c11Child) runText(text string, modes []int, dg *c11Digest) (bad string, hung bool) {
	for _, m := range modes {
		v, h := c11CompileOnce(text, c11Modes[m])
		c.stats[v]++
		if dg != nil {
			dg.add(text, c11Modes[m])
		}
		if v != "code" && v != "E:SyntaxError" {
			if bad == "" {
				bad = fmt.Sprintf("%s mode=%s text=%s", v, c11ModeNames[m], c11Enc(text))
			}
			if h {
				return bad, true
			}
		}
	}
	return bad, false
}

var c11AllModes = []int{0, 1, 2}

func c11ModeIndex(m string) int {
	for i, n := range c11ModeNames {
		if n == m {
			return i
		}
	}
	panic("bad mode " + m)
}

func c11SeqTexts(f []string) []string {
	joiner := ""
	if f[1] == "1" {
		joiner = " "
	}
	prefix := ""
	for _, s := range f[2:] {
		i, err := strconv.Atoi(s)
		if err != nil || i < 0 || i >= len(c11Alphabet) {
			panic("bad seq index " + s)
		}
		prefix += c11Alphabet[i] + joiner
	}
	out := make([]string, len(c11Alphabet))
	for l, a := range c11Alphabet {
		out[l] = prefix + a
	}
	return out
}

func (c *c11Child) eval(line string) (v, r string, hung bool) {
	f := strings.Split(line, " ")
	switch f[0] {
	case "alpha":
		if len(f)-1 != len(c11Alphabet) {
			return fmt.Sprintf("BAD:alphabet-size %d != %d", len(f)-1, len(c11Alphabet)), "-", false
		}
		for i, a := range c11Alphabet {
			if c11Enc(a) != f[i+1] {
				return fmt.Sprintf("BAD:alphabet[%d] %s != %s", i, c11Enc(a), f[i+1]), "-", false
			}
		}
		return "ok", "", false
	case "seq":
		dg := newC11Digest()
		bad := ""
		for _, text := range c11SeqTexts(f) {
			b, h := c.runText(text, c11AllModes, dg)
			if b != "" && bad == "" {
				bad = b
			}
			if h {
				return bad, "-", true
			}
		}
		if bad != "" {
			return bad, dg.String(), false
		}
		return "ok", dg.String(), false
	case "one", "oneE":
		text := c06Dec(f[2])
		m := c11ModeIndex(f[1])
		dg := newC11Digest()
		if f[0] == "oneE" {
			v, h := c11CompileOnce(text, c11Modes[m])
			dg.add(text, c11Modes[m])
			return v, dg.String(), h
		}
		bad, h := c.runText(text, []int{m}, dg)
		if bad != "" {
			return bad, dg.String(), h
		}
		return "ok", dg.String(), false
	case "big":
		n, _ := strconv.Atoi(f[2])
		text := c11Big(f[1], n)
		for _, m := range c11AllModes {
			if m == 1 && f[1] != "paren" && f[1] != "unary" && f[1] != "binchain" && f[1] != "longname" && f[1] != "longstr" {
				continue // statements are not eval input
			}
			v, h := c11CompileOnce(text, c11Modes[m])
			if v != "code" && v != "E:SyntaxError" {
				// the class only (no text): the model predicts this V for recorded findings
				if i := strings.Index(v, " "); i >= 0 {
					v = v[:i]
				}
				return v, "mode=" + c11ModeNames[m], h
			}
		}
		return "ok", "", false
	case "mut":
		seed, _ := strconv.ParseUint(f[1], 10, 64)
		shard, _ := strconv.Atoi(f[2])
		nsh, _ := strconv.Atoi(f[3])
		per, _ := strconv.Atoi(f[4])
		files := c11Files()
		if len(files) == 0 {
			return "BAD:no-py-files-under " + c11Repo(), "-", false
		}
		nmut := 0
		for i, fn := range files {
			if i%nsh != shard {
				continue
			}
			data, err := os.ReadFile(filepath.Join(c11Repo(), fn))
			if err != nil {
				continue
			}
			src := string(data)
			rng := &c11Rng{s: seed*1000003 + uint64(i)}
			for k := 0; k < per; k++ {
				kind := c11MutKinds[k%len(c11MutKinds)]
				a, b := int(rng.next()>>33), int(rng.next()>>33)
				text := c11Mutate(src, kind, a, b)
				nmut++
				for _, m := range c11AllModes {
					v, h := c11CompileOnce(text, c11Modes[m])
					c.stats[v]++
					if v != "code" && v != "E:SyntaxError" {
						return fmt.Sprintf("%s replay=mut1 %s %s %d %d %s", v, fn, kind, a, b, c11ModeNames[m]), "-", h
					}
				}
			}
		}
		return "ok", fmt.Sprintf("files=%d mutations=%d", len(files), nmut), false
	case "mut1":
		a, _ := strconv.Atoi(f[3])
		b, _ := strconv.Atoi(f[4])
		data, err := os.ReadFile(filepath.Join(c11Repo(), f[1]))
		if err != nil {
			return "BAD:cannot-read " + f[1], "-", false
		}
		text := c11Mutate(string(data), f[2], a, b)
		v, h := c11CompileOnce(text, c11Modes[c11ModeIndex(f[5])])
		if v == "code" || v == "E:SyntaxError" {
			v = "ok"
		}
		return v, "", h
	}
	panic("bad C11 case " + line)
}

func c11ChildMain() {
	c := &c11Child{stats: map[string]int{}}
	in := bufio.NewScanner(os.Stdin)
	in.Buffer(make([]byte, 1<<20), 1<<26)
	out := bufio.NewWriter(os.Stdout)
	for in.Scan() {
		v, r, hung := func() (v, r string, hung bool) {
			defer func() {
				if e := recover(); e != nil {
					v, r, hung = "BAD:PANIC-in-harness:"+strings.ReplaceAll(fmt.Sprint(e), "\n", " "), "-", false
				}
			}()
			return c.eval(in.Text())
		}()
		fmt.Fprintf(out, "%s\t%s\n", v, r)
		out.Flush()
		if hung {
			os.Exit(3)
		}
	}
	os.Exit(0)
}

// ---------------------------------------------------------------------------
// supervisor

type c11Sup struct {
	cmd    *exec.Cmd
	stdin  io.WriteCloser
	stdout *bufio.Reader
}

func (s *c11Sup) start() {
	cmd := exec.Command(os.Args[0], "C11", "child")
	cmd.Env = append(os.Environ(), "GOMEMLIMIT=2GiB")
	cmd.Stderr = nil
	var err error
	s.stdin, err = cmd.StdinPipe()
	if err != nil {
		panic(err)
	}
	so, err := cmd.StdoutPipe()
	if err != nil {
		panic(err)
	}
	s.stdout = bufio.NewReaderSize(so, 1<<20)
	if err := cmd.Start(); err != nil {
		panic(err)
	}
	s.cmd = cmd
}

func (s *c11Sup) stop() {
	if s.cmd != nil {
		_ = s.stdin.Close()
		_ = s.cmd.Process.Kill()
		_, _ = s.cmd.Process.Wait()
		s.cmd = nil
	}
}

// ask sends one line and waits for the answer; ok=false when the child died or did not answer in time
func (s *c11Sup) ask(line string, budget time.Duration) (ans string, ok bool) {
	if s.cmd == nil {
		s.start()
	}
	if _, err := io.WriteString(s.stdin, line+"\n"); err != nil {
		s.stop()
		return "", false
	}
	type res struct {
		s   string
		err error
	}
	ch := make(chan res, 1)
	rd := s.stdout
	go func() {
		l, err := rd.ReadString('\n')
		ch <- res{l, err}
	}()
	select {
	case r := <-ch:
		if r.err != nil {
			s.stop()
			return "", false
		}
		ans = strings.TrimRight(r.s, "\n")
		if strings.HasPrefix(ans, "BAD:hang") {
			s.stop() // the child exits after reporting a hang
		}
		return ans, true
	case <-time.After(budget):
		s.stop()
		return "", false
	}
}

func c11Budget(line string) time.Duration {
	switch {
	case strings.HasPrefix(line, "seq "):
		return 60 * time.Second
	case strings.HasPrefix(line, "mut "):
		return 600 * time.Second
	case strings.HasPrefix(line, "big "):
		return 30 * time.Second
	}
	return 10 * time.Second
}

func init() {
	handlers["C11"] = func(args []string) handler {
		if len(args) > 0 && args[0] == "child" {
			c11ChildMain()
		}
		sup := &c11Sup{}
		return func(line string) (string, string) {
			ans, ok := sup.ask(line, c11Budget(line))
			if ok {
				f := strings.SplitN(ans, "\t", 2)
				if len(f) < 2 {
					f = append(f, "")
				}
				return f[0], f[1]
			}
			// the child died or stalled: attribute the crash to one element of the batch
			f := strings.Split(line, " ")
			if f[0] == "seq" {
				for _, text := range c11SeqTexts(f) {
					for _, m := range c11ModeNames {
						one := "one " + m + " " + c11Enc(text)
						if _, ok := sup.ask(one, 10*time.Second); !ok {
							return fmt.Sprintf("BAD:crash mode=%s text=%s", m, c11Enc(text)), "-"
						}
					}
				}
				return "BAD:crash (not reproduced element by element) line=" + line, "-"
			}
			if f[0] == "big" {
				return "BAD:crash", "-"
			}
			return "BAD:crash line=" + line, "-"
		}
	}
}
