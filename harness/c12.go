package main

// C12 harness: compiles a program with the real compiler, dumps every (nested)
// code object in a canonical one-line form, runs the program under hook H2
// recording every distinct (code object, pc, stack depth, stack kinds, block
// stack) the VM really is in before dispatching an instruction, and hands both to
// the PROVED verifier (`gpymodel C12verify`, a co-process) which answers with
// one verdict line.  V = "ok" | REJECT … | MISMATCH … ; R = run statistics.
// [C12-ext2 g3] Besides the distinct states (`T` lines) the harness pairs, per *py.Frame, every observation with the
// previous one of the same frame and reports every distinct pair as `S idx pc1 depth1 kinds1 blocks1 pc2 depth2 kinds2 blocks2`
// (the verifier checks it against the abstract machine's step relation: STEP-MISMATCH) and the first observation of every
// frame as `I idx pc depth kinds blocks` (must be pc 0, empty stack, no block: START-MISMATCH).

import (
	"bufio"
	"encoding/hex"
	"encoding/json"
	"fmt"
	"os"
	"os/exec"
	"path/filepath"
	"regexp"
	"sort"
	"strconv"
	"strings"
	"syscall"
	"time"

	"github.com/go-python/gpython/compile"
	"github.com/go-python/gpython/py"
	_ "github.com/go-python/gpython/stdlib"
	"github.com/go-python/gpython/vm"
)

type c12Abort struct{}

type c12Stats struct {
	Programs     int            `json:"programs"`
	Objects      int            `json:"objects"`
	Observations int            `json:"observations"`
	// [C12-ext2 g3] begin
	Transitions int `json:"transitions"`
	FrameStarts int `json:"frame_starts"`
	// [C12-ext2 g3] end
	Depth map[string]int `json:"depth"` // [C12-ext2 g1] dw/deq/dclosed/dexcl/dthm/dbelow summed over the verifier's replies
	Instructions int64          `json:"instructions"`
	Aborted      int            `json:"aborted_runs"`
	Opcodes      map[string]int `json:"opcodes_executed"`
	Shapes       map[string]int `json:"shapes"`
	StaticOps    map[string]int `json:"opcodes_emitted"`
	MaxBlocks    int            `json:"max_block_depth"`
	MaxDepth     int            `json:"max_stack_depth"`
}

func c12Unescape(s string) string {
	var b strings.Builder
	for i := 0; i < len(s); i++ {
		if s[i] == '\\' && i+1 < len(s) {
			i++
			switch s[i] {
			case 'n':
				b.WriteByte('\n')
			case 't':
				b.WriteByte('\t')
			case '\\':
				b.WriteByte('\\')
			default:
				b.WriteByte('\\')
				b.WriteByte(s[i])
			}
		} else {
			b.WriteByte(s[i])
		}
	}
	return b.String()
}

func c12Collect(code *py.Code, list *[]*py.Code, idx map[*py.Code]int) {
	if _, ok := idx[code]; ok {
		return
	}
	idx[code] = len(*list)
	*list = append(*list, code)
	for _, k := range code.Consts {
		if sub, ok := k.(*py.Code); ok {
			c12Collect(sub, list, idx)
		}
	}
}

func c12Hex(s string) string {
	if len(s) == 0 {
		return "-"
	}
	return hex.EncodeToString([]byte(s))
}

func c12Dump(i int, c *py.Code, nlines int) string {
	ks := make([]byte, len(c.Consts))
	for j, k := range c.Consts {
		switch k.(type) {
		case *py.Code:
			ks[j] = 'C'
		default:
			if k == py.None {
				ks[j] = 'N'
			} else {
				ks[j] = 'O'
			}
		}
	}
	kss := string(ks)
	if kss == "" {
		kss = "-"
	}
	name := strings.Map(func(r rune) rune {
		if r <= ' ' || r > '~' {
			return '_'
		}
		return r
	}, c.Name)
	if name == "" {
		name = "_"
	}
	return fmt.Sprintf("O %d %s %s %d %d %d %d %s %d %d %d %s", i, c12Hex(c.Code), kss, len(c.Names), len(c.Varnames),
		len(c.Cellvars)+len(c.Freevars), c.Stacksize, c12Hex(c.Lnotab), c.Firstlineno, nlines, c.Flags, name)
}

var c12BT = [...]string{"L", "X", "F", "H"}

// ints that cannot be a vm.why code: only the first observation of a shape is kept
var c12IntRe = regexp.MustCompile(`I(-[0-9]+|[0-9]{2,}|[7-9])`)

func c12Kind(o py.Object) string {
	if o == nil {
		return "O"
	}
	if o == py.None {
		return "N"
	}
	if i, ok := o.(py.Int); ok {
		// values that can be a vm.why code (0..6) are reported exactly; other ints are
		// reported exactly too, but de-duplicated by shape only (see c12Key)
		return "I" + strconv.FormatInt(int64(i), 10)
	}
	if py.ExceptionClassCheck(o) {
		return "E"
	}
	return "O"
}


// ---- family `asm`: the real assembler on a hand-built instruction stream

func c12AsmSummary(bs []byte) string {
	h := uint64(7)
	for _, b := range bs {
		h = (h*131 + uint64(b) + 1) % 2147483647
	}
	n := len(bs)
	if n > 48 {
		n = 48
	}
	return fmt.Sprintf("len=%d h=%d head=%s", len(bs), h, hex.EncodeToString(bs[:n]))
}

// decode the operand the emitted bytes of one instruction carry (EXTENDED_ARG prefix included)
func c12AsmArg(out []byte) (uint32, bool) {
	switch len(out) {
	case 3:
		return uint32(out[1]) | uint32(out[2])<<8, true
	case 6:
		if vm.OpCode(out[0]) != vm.EXTENDED_ARG {
			return 0, false
		}
		return uint32(out[4]) | uint32(out[5])<<8 | uint32(out[1])<<16 | uint32(out[2])<<24, true
	}
	return 0, false
}

func c12Asm(line string) (string, string) {
	var is compile.Instructions
	labels := map[int]*compile.Label{}
	label := func(id int) *compile.Label {
		if l, ok := labels[id]; ok {
			return l
		}
		l := new(compile.Label)
		labels[id] = l
		return l
	}
	num := func(s string) (int, int) {
		parts := strings.SplitN(s, ":", 2)
		a, err := strconv.Atoi(parts[0])
		if err != nil {
			panic("bad asm token " + s)
		}
		b := 0
		if len(parts) == 2 {
			if b, err = strconv.Atoi(parts[1]); err != nil {
				panic("bad asm token " + s)
			}
		}
		return a, b
	}
	for _, tok := range strings.Fields(line) {
		a, b := num(tok[1:])
		switch tok[0] {
		case 'o':
			is.Add(&compile.Op{Op: vm.OpCode(a)})
		case 'a':
			is.Add(&compile.OpArg{Op: vm.OpCode(a), Arg: uint32(b)})
		case 'l':
			is.Add(label(a))
		case 'J':
			is.Add(&compile.JumpAbs{OpArg: compile.OpArg{Op: vm.OpCode(a)}, Dest: label(b)})
		case 'j':
			is.Add(&compile.JumpRel{OpArg: compile.OpArg{Op: vm.OpCode(a)}, Dest: label(b)})
		case 'p':
			for k := 0; k < a; k++ {
				is.Add(&compile.OpArg{Op: vm.LOAD_CONST, Arg: 0})
			}
		default:
			panic("bad asm token " + tok)
		}
	}
	code, asmPanic := "", ""
	func() {
		defer func() {
			if e := recover(); e != nil {
				asmPanic = fmt.Sprint(e)
			}
		}()
		code = is.Assemble()
	}()
	depth := "panic"
	func() {
		defer func() { _ = recover() }()
		depth = strconv.Itoa(is.StackDepth())
	}()
	if asmPanic != "" {
		// nothing was emitted: C12 (a property of emitted code) holds vacuously; the message is compared with the model
		return "ok", "panic:" + asmPanic + " depth=" + depth
	}
	// SPEC, checked on the emitted bytes only (Output() in stream order): offsets are the running sum of the
	// emitted sizes, and every jump's operand designates the offset of its label
	offs := make([]uint32, len(is))
	lab := map[*compile.Label]uint32{}
	off := uint32(0)
	for k, in := range is {
		offs[k] = off
		if l, ok := in.(*compile.Label); ok {
			lab[l] = off
		}
		off += uint32(len(in.Output()))
	}
	v := "ok"
	if int(off) != len(code) {
		v = fmt.Sprintf("BADASM total size %d != len(code) %d", off, len(code))
	}
	for k, in := range is {
		out := in.Output()
		switch j := in.(type) {
		case *compile.JumpAbs:
			arg, ok := c12AsmArg(out)
			if want, placed := lab[j.Dest]; !ok || !placed || arg != want {
				v = fmt.Sprintf("BADASM item %d: absolute jump operand %d, label at %d", k, arg, want)
			}
		case *compile.JumpRel:
			arg, ok := c12AsmArg(out)
			if want, placed := lab[j.Dest]; !ok || !placed || offs[k]+uint32(len(out))+arg != want {
				v = fmt.Sprintf("BADASM item %d: relative jump lands on %d, label at %d", k, offs[k]+uint32(len(out))+arg, want)
			}
		}
	}
	return v, c12AsmSummary([]byte(code)) + " depth=" + depth
}

// [C12-ext2 g4] begin
// ---- family `tb`: `T tb <variant> <escaped source>`: compile and run the program, take the REAL traceback of the
// escaping exception.  V = `name:line … E:<class>` (outermost frame first); the dumped code objects and one
// `L idx lasti lineno` line per entry go to the co-process, which recomputes each line with the Lean addr2line at
// lasti-1; R = `a2l=ok lines=<n>` or the co-process's complaint.
func c12Traceback(line string, vin *bufio.Writer, vout *bufio.Reader) (string, string) {
	parts := strings.SplitN(line, " ", 4)
	if len(parts) != 4 {
		panic("bad case " + line)
	}
	desc := "<" + parts[1] + ":" + parts[2] + ">"
	src := c12Unescape(parts[3])
	if !strings.HasSuffix(src, "\n") {
		src += "\n"
	}
	nlines := strings.Count(src, "\n") + 1
	code, err := py.Compile(src, desc, py.ExecMode, 0, true)
	if err != nil {
		return "nocompile:" + errClass(err), strings.Map(func(r rune) rune {
			if r == '\t' || r == '\n' {
				return ' '
			}
			return r
		}, fmt.Sprint(err))
	}
	var list []*py.Code
	idx := map[*py.Code]int{}
	c12Collect(code, &list, idx)
	var runErr error
	gopanic := ""
	func() {
		defer func() {
			if e := recover(); e != nil {
				gopanic = fmt.Sprint(e)
			}
		}()
		ctx := py.NewContext(py.DefaultContextOpts())
		defer func() {
			defer func() { _ = recover() }()
			ctx.Close()
		}()
		_, runErr = py.RunCode(ctx, code, desc, nil)
	}()
	if gopanic != "" {
		return "PANIC", gopanic
	}
	if runErr == nil {
		return "noexception", "-"
	}
	var tb *py.Traceback
	cls := errClass(runErr)
	switch e := runErr.(type) {
	case py.ExceptionInfo:
		tb = e.Traceback
	case *py.ExceptionInfo:
		tb = e.Traceback
	default:
		return "notraceback " + cls, "-"
	}
	var ents, ls []string
	for ; tb != nil; tb = tb.Next {
		ents = append(ents, fmt.Sprintf("%s:%d", tb.Frame.Code.Name, tb.Lineno))
		if i, ok := idx[tb.Frame.Code]; ok {
			ls = append(ls, fmt.Sprintf("L %d %d %d", i, tb.Lasti, tb.Lineno))
		}
		// the real Addr2Line at Lasti-1 must be what the entry carries (vm/eval.go AddTraceback)
		if got := tb.Frame.Code.Addr2Line(tb.Lasti - 1); got != tb.Lineno {
			return strings.Join(ents, " ") + " " + cls, fmt.Sprintf("entry line %d but Code.Addr2Line(Lasti-1) = %d", tb.Lineno, got)
		}
	}
	v := strings.Join(ents, " ") + " " + cls
	for i, c := range list {
		vin.WriteString(c12Dump(i, c, nlines))
		vin.WriteByte('\n')
	}
	for _, l := range ls {
		vin.WriteString(l)
		vin.WriteByte('\n')
	}
	vin.WriteString("E\n")
	if err := vin.Flush(); err != nil {
		return v, "VERIFIER-DIED:" + err.Error()
	}
	reply, err := vout.ReadString('\n')
	if err != nil {
		return v, "VERIFIER-DIED:" + err.Error()
	}
	reply = strings.TrimSpace(reply)
	if strings.HasPrefix(reply, "ok ") {
		n := "0"
		if k := strings.Index(reply, " lines="); k >= 0 {
			n = reply[k+7:]
		}
		return v, "a2l=ok lines=" + n
	}
	return v, reply
}

// [C12-ext2 g4] end

func init() {
	handlers["C12"] = func(args []string) handler {
		if len(args) < 1 {
			fmt.Fprintln(os.Stderr, "usage: gpyh C12 <path to gpymodel> [instruction budget]")
			os.Exit(2)
		}
		budget := int64(300000)
		if len(args) > 1 {
			if b, err := strconv.ParseInt(args[1], 10, 64); err == nil {
				budget = b
			}
		}
		watchdog := 25 * time.Second
		repo := os.Getenv("VERIF_REPO")
		if repo == "" {
			repo = "/repo"
		}
		statsPath := os.Getenv("C12_STATS")
		// protocol output keeps the real stdout; everything the Python programs print goes to /dev/null
		realOut, err := syscall.Dup(1)
		if err == nil {
			if devnull, err2 := os.OpenFile(os.DevNull, os.O_WRONLY, 0); err2 == nil {
				_ = syscall.Dup2(int(devnull.Fd()), 1)
				os.Stdout = os.NewFile(uintptr(realOut), "protocol-stdout")
			}
		}
		vm.PrintExpr = func(string) {}
		py.InputHook = func(string) (string, error) { return "", py.ExceptionNewf(py.EOFError, "no input in the harness") }

		cmd := exec.Command(args[0], "C12verify")
		cmd.Stderr = os.Stderr
		win, err := cmd.StdinPipe()
		if err != nil {
			panic(err)
		}
		rout, err := cmd.StdoutPipe()
		if err != nil {
			panic(err)
		}
		if err := cmd.Start(); err != nil {
			fmt.Fprintln(os.Stderr, "cannot start the verifier co-process:", err)
			os.Exit(2)
		}
		vin := bufio.NewWriterSize(win, 1<<20)
		vout := bufio.NewReaderSize(rout, 1<<20)

		stats := &c12Stats{Opcodes: map[string]int{}, Shapes: map[string]int{}, StaticOps: map[string]int{}}
		flushStats := func() {
			if statsPath == "" {
				return
			}
			b, _ := json.Marshal(stats)
			_ = os.WriteFile(fmt.Sprintf("%s.%d.json", statsPath, os.Getpid()), b, 0o644)
		}

		return func(line string) (string, string) {
			// wall-clock watchdog: a case that hangs (possible when the VM under test is broken) kills
			// this worker; checks/common.py reports the case as CRASH:<this message> and restarts after it
			wd := time.AfterFunc(watchdog, func() {
				fmt.Fprintf(os.Stderr, "C12 watchdog: case did not finish within %v (VM hung or ran away outside the instruction budget)\n", watchdog)
				if protoOut != nil {
					_ = protoOut.Flush() // the main goroutine is stuck inside this case and is not writing
				}
				os.Exit(3)
			})
			defer wd.Stop()
			var src, desc string
			isFile := false
			switch {
			case strings.HasPrefix(line, "A "):
				return c12Asm(line[2:])
			// [C12-ext2 g4] begin
			case strings.HasPrefix(line, "T "):
				return c12Traceback(line, vin, vout)
			// [C12-ext2 g4] end
			case strings.HasPrefix(line, "F file "):
				isFile = true
				desc = strings.TrimSpace(line[7:])
				b, err := os.ReadFile(filepath.Join(repo, desc))
				if err != nil {
					return "ok", "unreadable"
				}
				src = string(b)
			case strings.HasPrefix(line, "G "):
				// G <family> <variant> <escaped source>
				parts := strings.SplitN(line, " ", 4)
				if len(parts) != 4 {
					panic("bad case " + line)
				}
				desc = "<" + parts[1] + ":" + parts[2] + ">"
				src = c12Unescape(parts[3])
			default:
				panic("bad case " + line)
			}
			if !strings.HasSuffix(src, "\n") {
				src += "\n"
			}
			nlines := strings.Count(src, "\n") + 1
			code, err := py.Compile(src, desc, py.ExecMode, 0, true)
			if err != nil {
				if isFile {
					return "ok", "nocompile"
				}
				msg := strings.Map(func(r rune) rune {
					if r == '\t' || r == '\n' {
						return ' '
					}
					return r
				}, fmt.Sprint(err))
				if len(msg) > 200 {
					msg = msg[:200]
				}
				return "nocompile:" + errClass(err), msg
			}
			var list []*py.Code
			idx := map[*py.Code]int{}
			c12Collect(code, &list, idx)
			stats.Programs++
			stats.Objects += len(list)
			for _, c := range list {
				bs := []byte(c.Code)
				for i := 0; i < len(bs); {
					op := vm.OpCode(bs[i])
					stats.StaticOps[op.String()]++
					if op.HAS_ARG() {
						i += 3
					} else {
						i++
					}
				}
			}

			// ---- run under the hook
			seen := map[string]int32{} // [C12-ext2 g3] de-duplication key -> state id (was a set)
			var obs []string
			// [C12-ext2 g3] begin
			// consecutive observations of the SAME frame (nested calls run other frames in between; a suspended
			// generator frame is observed again when it is resumed): every distinct pair (state id, state id) is
			// reported once as an `S` line, the first observation of every frame as an `I` line.  The map keeps the
			// frames alive, so a frame pointer is never re-used within one program; it is dropped after the program.
			type c12Prev struct {
				sid  int32
				rest string // "pc depth kinds blocks" of the previous observation
			}
			frames := map[*py.Frame]c12Prev{}
			seenTrans := map[uint64]struct{}{}
			seenInit := map[int32]struct{}{}
			var trans, inits []string
			// [C12-ext2 g3] end
			var n int64
			aborted := false
			skipNext := false
			var kb strings.Builder
			vm.VerifInstrHook = func(frame *py.Frame, opcode vm.OpCode, arg int32, pc int32) {
				n++
				if aborted || n > budget {
					aborted = true
					panic(c12Abort{})
				}
				if skipNext { // the instruction an EXTENDED_ARG prefixes: fused with it in the model
					skipNext = false
					return
				}
				if opcode == vm.EXTENDED_ARG {
					skipNext = true
				}
				i, ok := idx[frame.Code]
				if !ok {
					return
				}
				if len(frame.Blockstack) > stats.MaxBlocks {
					stats.MaxBlocks = len(frame.Blockstack)
				}
				if len(frame.Stack) > stats.MaxDepth {
					stats.MaxDepth = len(frame.Stack)
				}
				kb.Reset()
				kb.WriteString("T ")
				kb.WriteString(strconv.Itoa(i))
				kb.WriteByte(' ')
				kb.WriteString(strconv.Itoa(int(pc)))
				kb.WriteByte(' ')
				kb.WriteString(strconv.Itoa(len(frame.Stack)))
				kb.WriteByte(' ')
				if len(frame.Stack) == 0 {
					kb.WriteByte('-')
				}
				for j, o := range frame.Stack {
					if j > 0 {
						kb.WriteByte(',')
					}
					kb.WriteString(c12Kind(o))
				}
				kb.WriteByte(' ')
				if len(frame.Blockstack) == 0 {
					kb.WriteByte('-')
				}
				for j, b := range frame.Blockstack {
					if j > 0 {
						kb.WriteByte(',')
					}
					h := b.Handler
					if b.Type == py.TryBlockExceptHandler {
						h = 0
					}
					kb.WriteString(c12BT[b.Type])
					kb.WriteByte(':')
					kb.WriteString(strconv.Itoa(int(h)))
					kb.WriteByte(':')
					kb.WriteString(strconv.Itoa(b.Level))
				}
				key := kb.String()
				if trace := os.Getenv("C12_TRACE"); trace != "" && frame.Code.Name == trace {
					fmt.Fprintln(os.Stderr, key, opcode.String(), arg)
				}
				dk := key
				if strings.Contains(key, "I") {
					dk = c12IntRe.ReplaceAllString(key, "I*")
				}
				sid, dup := seen[dk]
				// [C12-ext2 g3] begin
				if !dup {
					sid = int32(len(seen))
				}
				{
					idxEnd := 2 + strings.IndexByte(key[2:], ' ')
					rest := key[idxEnd+1:]
					if prev, ok := frames[frame]; ok {
						tk := uint64(uint32(prev.sid))<<32 | uint64(uint32(sid))
						if _, d := seenTrans[tk]; !d {
							seenTrans[tk] = struct{}{}
							trans = append(trans, "S"+key[1:idxEnd]+" "+prev.rest+" "+rest)
						}
					} else if _, d := seenInit[sid]; !d {
						seenInit[sid] = struct{}{}
						inits = append(inits, "I"+key[1:])
					}
					frames[frame] = c12Prev{sid, rest}
				}
				// [C12-ext2 g3] end
				if !dup {
					seen[dk] = sid
					obs = append(obs, key)
					stats.Opcodes[opcode.String()]++
					if opcode == vm.END_FINALLY || opcode == vm.WITH_CLEANUP {
						top := "empty"
						if len(frame.Stack) > 0 {
							top = c12Kind(frame.Stack[len(frame.Stack)-1])
						}
						stats.Shapes[opcode.String()+"/"+top]++
					}
				}
			}
			runErr := ""
			func() {
				defer func() {
					vm.VerifInstrHook = nil
					if e := recover(); e != nil {
						if _, ok := e.(c12Abort); ok {
							return
						}
						runErr = "gopanic"
					}
				}()
				ctx := py.NewContext(py.DefaultContextOpts())
				defer func() {
					defer func() { _ = recover() }()
					ctx.Close()
				}()
				_, err := py.RunCode(ctx, code, desc, nil)
				if err != nil {
					runErr = strings.TrimPrefix(errClass(err), "E:")
				}
			}()
			stats.Instructions += n
			stats.Observations += len(obs)
			// [C12-ext2 g3] begin
			stats.Transitions += len(trans)
			stats.FrameStarts += len(inits)
			frames = nil
			// [C12-ext2 g3] end
			if aborted {
				stats.Aborted++
			}

			// ---- hand everything to the proved verifier
			for i, c := range list {
				vin.WriteString(c12Dump(i, c, nlines))
				vin.WriteByte('\n')
				if os.Getenv("C12_DEBUG") != "" {
					fmt.Fprintln(os.Stderr, c12Dump(i, c, nlines))
				}
			}
			sort.Strings(obs)
			for _, o := range obs {
				vin.WriteString(o)
				vin.WriteByte('\n')
			}
			// [C12-ext2 g3] begin
			sort.Strings(inits)
			sort.Strings(trans)
			for _, o := range inits {
				vin.WriteString(o)
				vin.WriteByte('\n')
			}
			for _, o := range trans {
				vin.WriteString(o)
				vin.WriteByte('\n')
				if os.Getenv("C12_DEBUG") != "" {
					fmt.Fprintln(os.Stderr, o)
				}
			}
			// [C12-ext2 g3] end
			vin.WriteString("E\n")
			if err := vin.Flush(); err != nil {
				return "VERIFIER-DIED:" + err.Error(), "-"
			}
			reply, err := vout.ReadString('\n')
			if err != nil {
				return "VERIFIER-DIED:" + err.Error(), "-"
			}
			reply = strings.TrimSpace(reply)
			// [C12-ext2 g1] begin: gpython's StackDepth() (Lean model) evaluated on every emitted object by the co-process
			if strings.HasPrefix(reply, "ok ") {
				if stats.Depth == nil {
					stats.Depth = map[string]int{}
				}
				for _, tok := range strings.Fields(reply) {
					if kv := strings.SplitN(tok, "=", 2); len(kv) == 2 && strings.HasPrefix(kv[0], "d") && kv[0] != "depth" {
						if v, err := strconv.Atoi(kv[1]); err == nil {
							stats.Depth[kv[0]] += v
						}
					}
				}
			}
			// [C12-ext2 g1] end
			flushStats()
			r := fmt.Sprintf("instr=%d run=%s", n, runErr)
			if aborted {
				r += " aborted"
			}
			if strings.HasPrefix(reply, "ok ") {
				return "ok", reply[3:] + " " + r
			}
			return reply, r
		}
	}
}
