package main

// C13 harness: sequence operations through the exported py API.
//
// input line:  <op> <args...>        (tokens separated by one space)
//   sequence  L:1,2,3 (list)  T:1,2 (tuple)  S:97,8364 (str, code points)  B:1,255 (bytes)
//             R:start,stop,step (range built by RangeNew; integers outside int64 become *BigInt)
//   key       i:<int> | n (None) | x (a float: no __index__) | t0/t1 (bool)
//             s:<a>:<b>:<c>  slice, each component  n | <int> | x | t0 | t1
//   value     a sequence token | e:<int> (a plain int) | self
//   ops       get SEQ KEY | set SEQ KEY VAL | del SEQ KEY | add A B | iadd A B | iadd3 X Y Z W
//             mul SEQ i:<n> | rmul SEQ i:<n> | len SEQ | in SEQ ELEM | cmp <op> A B | iter SEQ
//             hist BASE BUILT DERIVE MUT...   a short history: a = BASE or ctor(BASE) (BUILT = - cT cL cB);
//               b derived from a (al | sl=a/b/c | cr=SEQ | cl=SEQ | mr=n | ml=n | cT | cL | cB); then growing
//               operations on the object b (ia=SRC | im=n | ap=x | ex=SRC | ss=a/b/c=SRC | ds=a/b/c | si=i=x | di=i,
//               SRC = a | b | SEQ); V = A=..|B=..|R=.. rendered after the last operation, R = storage sharing
// output  V = <result>|<operand 1 afterwards>|<operand 2 afterwards>   R = representation detail

import (
	"fmt"
	"math/big"
	"strconv"
	"strings"
	"unsafe"

	"github.com/go-python/gpython/py"
)

func c13Int(s string) py.Object {
	n, ok := new(big.Int).SetString(s, 10)
	if !ok {
		panic("bad int " + s)
	}
	if n.IsInt64() {
		return py.Int(n.Int64())
	}
	return (*py.BigInt)(n)
}

func c13Nums(s string) []string {
	if s == "" {
		return nil
	}
	return strings.Split(s, ",")
}

func c13Seq(tok string) (py.Object, error) {
	kind, body := tok[0], tok[2:]
	switch kind {
	case 'L', 'T':
		items := []py.Object{}
		for _, n := range c13Nums(body) {
			items = append(items, c13Int(n))
		}
		if kind == 'L' {
			return py.NewListFromItems(items), nil
		}
		return py.Tuple(items), nil
	case 'S':
		rs := []rune{}
		for _, n := range c13Nums(body) {
			v, _ := strconv.Atoi(n)
			rs = append(rs, rune(v))
		}
		return py.String(string(rs)), nil
	case 'B':
		bs := []byte{}
		for _, n := range c13Nums(body) {
			v, _ := strconv.Atoi(n)
			bs = append(bs, byte(v))
		}
		return py.Bytes(bs), nil
	case 'R':
		args := py.Tuple{}
		for _, n := range c13Nums(body) {
			args = append(args, c13Comp(n))
		}
		return py.RangeNew(py.RangeType, args, nil)
	}
	panic("bad sequence " + tok)
}

func c13Comp(s string) py.Object {
	switch s {
	case "n":
		return py.None
	case "x":
		return py.Float(1.5)
	case "t0":
		return py.False
	case "t1":
		return py.True
	}
	return c13Int(s)
}

func c13Key(tok string) py.Object {
	switch {
	case strings.HasPrefix(tok, "i:"):
		return c13Int(tok[2:])
	case strings.HasPrefix(tok, "s:"):
		f := strings.Split(tok[2:], ":")
		return py.NewSlice(c13Comp(f[0]), c13Comp(f[1]), c13Comp(f[2]))
	}
	return c13Comp(tok)
}

func c13Elem(o py.Object) string {
	switch x := o.(type) {
	case nil:
		return "NIL"
	case py.Int:
		return strconv.FormatInt(int64(x), 10)
	case *py.BigInt:
		return (*big.Int)(x).String()
	case py.String:
		rs := []rune(string(x))
		if len(rs) == 1 {
			return strconv.Itoa(int(rs[0]))
		}
		return "?str"
	}
	return fmt.Sprintf("?%T", o)
}

func c13Join(items []py.Object) string {
	out := make([]string, len(items))
	for i, e := range items {
		out[i] = c13Elem(e)
	}
	return strings.Join(out, ",")
}

// drain an iterator (at most 40 elements)
func c13Drain(o py.Object) ([]py.Object, error) {
	it, err := py.Iter(o)
	if err != nil {
		return nil, err
	}
	var out []py.Object
	for i := 0; i < 40; i++ {
		e, err := py.Next(it)
		if err != nil {
			if py.IsException(py.StopIteration, err) {
				return out, nil
			}
			return nil, err
		}
		out = append(out, e)
	}
	return append(out, py.String("…")), nil
}

// c13Show renders a value; the second result is representation detail
func c13Show(o py.Object) (string, string) {
	switch x := o.(type) {
	case nil:
		return "NIL", ""
	case py.NoneType:
		return "None", ""
	case py.Bool:
		if x {
			return "True", ""
		}
		return "False", ""
	case py.Int, *py.BigInt:
		return "I:" + c13Elem(o), ""
	case *py.List:
		return "L:" + c13Join(x.Items), ""
	case py.Tuple:
		return "T:" + c13Join(x), ""
	case py.String:
		rs := []rune(string(x))
		out := make([]string, len(rs))
		for i, r := range rs {
			out[i] = strconv.Itoa(int(r))
		}
		return "S:" + strings.Join(out, ","), ""
	case py.Bytes:
		out := make([]string, len(x))
		for i, b := range x {
			out[i] = strconv.Itoa(int(b))
		}
		return "B:" + strings.Join(out, ","), ""
	case *py.Range:
		items, err := c13Drain(x)
		if err != nil {
			return "R:" + errClass(err), ""
		}
		return fmt.Sprintf("R:%s#%d", c13Join(items), int64(x.Length)), fmt.Sprintf("%d,%d,%d", int64(x.Start), int64(x.Stop), int64(x.Step))
	}
	return fmt.Sprintf("?%T", o), ""
}

var c13Cmp = map[string]func(a, b py.Object) (py.Object, error){
	"lt": py.Lt, "le": py.Le, "eq": py.Eq, "ne": py.Ne, "gt": py.Gt, "ge": py.Ge,
}

// scribble over a list result so that sharing with an operand becomes visible
func c13Scribble(res py.Object, operands ...py.Object) {
	l, ok := res.(*py.List)
	if !ok {
		return
	}
	for _, o := range operands {
		if o == res {
			return
		}
	}
	for i := range l.Items {
		l.Items[i] = py.Int(77)
	}
	l.Items = append(l.Items, py.Int(78))
}

// ---- short histories (slice-header model) ----

type c13Win struct {
	base uintptr
	len  int
	cap  int
	sz   uintptr
}

// the first word of a Go slice header is the data pointer
func c13Window(o py.Object) (c13Win, bool) {
	switch x := o.(type) {
	case *py.List:
		return c13Win{*(*uintptr)(unsafe.Pointer(&x.Items)), len(x.Items), cap(x.Items), unsafe.Sizeof(py.Object(nil))}, true
	case py.Tuple:
		return c13Win{*(*uintptr)(unsafe.Pointer(&x)), len(x), cap(x), unsafe.Sizeof(py.Object(nil))}, true
	case py.Bytes:
		return c13Win{*(*uintptr)(unsafe.Pointer(&x)), len(x), cap(x), 1}, true
	}
	return c13Win{}, false
}

// number of elements in [a, a+n) ∩ [b, b+m) (byte addresses, element size sz)
func c13Overlap(a uintptr, n int, b uintptr, m int, sz uintptr) int {
	lo, hi := a, a+uintptr(n)*sz
	if b > lo {
		lo = b
	}
	if e := b + uintptr(m)*sz; e < hi {
		hi = e
	}
	if hi <= lo {
		return 0
	}
	return int((hi - lo) / sz)
}

func c13Sharing(objs []py.Object) string {
	names := []struct {
		nm   string
		i, j int
	}{{"ab", 0, 1}, {"ar1", 0, 2}, {"ar2", 0, 3}, {"br1", 1, 2}, {"br2", 1, 3}, {"r1r2", 2, 3}}
	var parts []string
	for _, p := range names {
		if p.i >= len(objs) || p.j >= len(objs) || objs[p.i] == nil || objs[p.j] == nil {
			continue
		}
		x, y := objs[p.i], objs[p.j]
		if lx, ok := x.(*py.List); ok {
			if ly, ok := y.(*py.List); ok && lx == ly {
				parts = append(parts, p.nm+":=")
				continue
			}
		}
		wx, ok1 := c13Window(x)
		wy, ok2 := c13Window(y)
		if !ok1 || !ok2 || wx.sz != wy.sz || wx.cap == 0 || wy.cap == 0 {
			continue
		}
		// the two capacity windows must belong to one array
		if c13Overlap(wx.base, wx.cap, wy.base, wy.cap, wx.sz) == 0 {
			continue
		}
		l := c13Overlap(wx.base, wx.len, wy.base, wy.len, wx.sz)
		sx := c13Overlap(wx.base+uintptr(wx.len)*wx.sz, wx.cap-wx.len, wy.base, wy.len, wx.sz)
		sy := c13Overlap(wy.base+uintptr(wy.len)*wy.sz, wy.cap-wy.len, wx.base, wx.len, wx.sz)
		if l == 0 && sx == 0 && sy == 0 {
			continue
		}
		parts = append(parts, fmt.Sprintf("%s:%d/%d/%d", p.nm, l, sx, sy))
	}
	return strings.Join(parts, ";")
}

func c13SliceOf(s string) py.Object {
	f := strings.Split(s, "/")
	return py.NewSlice(c13Comp(f[0]), c13Comp(f[1]), c13Comp(f[2]))
}

func c13Ctor(k string, a py.Object) (py.Object, error) {
	switch k {
	case "cT":
		return py.TupleNew(py.TupleType, py.Tuple{a}, nil)
	case "cL":
		return py.ListNew(py.ListType, py.Tuple{a}, nil)
	case "cB":
		return py.BytesNew(py.BytesType, py.Tuple{a}, nil)
	}
	panic("bad constructor " + k)
}

func c13Method(o py.Object, name string, arg py.Object) (py.Object, error) {
	m, err := py.GetAttrString(o, name)
	if err != nil {
		return nil, err
	}
	return py.Call(m, py.Tuple{arg}, nil)
}

func c13Hist(f []string) (string, string) {
	a, err := c13Seq(f[1])
	if err == nil && f[2] != "-" {
		a, err = c13Ctor(f[2], a)
	}
	if err != nil {
		return errClass(err) + "@a", ""
	}
	show := func(o py.Object) string { v, _ := c13Show(o); return v }
	// derive b
	var b py.Object
	d := f[3]
	switch {
	case d == "al":
		b = a
	case strings.HasPrefix(d, "sl="):
		b, err = py.GetItem(a, c13SliceOf(d[3:]))
	case strings.HasPrefix(d, "cr="), strings.HasPrefix(d, "cl="):
		var c py.Object
		c, err = c13Seq(d[3:])
		if err == nil {
			if d[1] == 'r' {
				b, err = py.Add(a, c)
			} else {
				b, err = py.Add(c, a)
			}
		}
	case strings.HasPrefix(d, "mr="):
		b, err = py.Mul(a, c13Int(d[3:]))
	case strings.HasPrefix(d, "ml="):
		b, err = py.Mul(c13Int(d[3:]), a)
	default:
		b, err = c13Ctor(d, a)
	}
	if err != nil {
		return errClass(err) + "@b|A=" + show(a), ""
	}
	src := func(s string) (py.Object, error) {
		switch s {
		case "a":
			return a, nil
		case "b":
			return b, nil
		}
		return c13Seq(s)
	}
	objs := []py.Object{a, b}
	var results []string
	for _, m := range f[4:] {
		if m == "" {
			continue
		}
		var r py.Object
		var merr error
		op, arg := m[:2], m[3:]
		switch op {
		case "ia":
			var c py.Object
			if c, merr = src(arg); merr == nil {
				r, merr = py.IAdd(b, c)
			}
		case "im":
			r, merr = py.IMul(b, c13Int(arg))
		case "ap":
			if _, merr = c13Method(b, "append", c13Int(arg)); merr == nil {
				r = b
			}
		case "ex":
			var c py.Object
			if c, merr = src(arg); merr == nil {
				if _, merr = c13Method(b, "extend", c); merr == nil {
					r = b
				}
			}
		case "ss":
			i := strings.Index(arg, "=")
			var c py.Object
			if c, merr = src(arg[i+1:]); merr == nil {
				if _, merr = py.SetItem(b, c13SliceOf(arg[:i]), c); merr == nil {
					r = b
				}
			}
		case "ds":
			if _, merr = py.DelItem(b, c13SliceOf(arg)); merr == nil {
				r = b
			}
		case "si":
			i := strings.Index(arg, "=")
			if _, merr = py.SetItem(b, c13Comp(arg[:i]), c13Int(arg[i+1:])); merr == nil {
				r = b
			}
		case "di":
			if _, merr = py.DelItem(b, c13Comp(arg)); merr == nil {
				r = b
			}
		default:
			panic("bad mutation " + m)
		}
		if merr != nil {
			results = append(results, errClass(merr))
			objs = append(objs, nil)
		} else {
			results = append(results, "")
			objs = append(objs, r)
		}
	}
	// everything is rendered after the last operation
	v := "A=" + show(a) + "|B=" + show(b)
	for i, e := range results {
		if e != "" {
			v += "|R=" + e
		} else {
			v += "|R=" + show(objs[2+i])
		}
	}
	return v, c13Sharing(objs)
}

func c13Run(line string) (string, string) {
	f := strings.Split(line, " ")
	if f[0] == "hist" {
		return c13Hist(f)
	}
	var res py.Object
	var err error
	var ops []py.Object
	seq := func(tok string) py.Object {
		o, e := c13Seq(tok)
		if e != nil {
			err = e
			return nil
		}
		ops = append(ops, o)
		return o
	}
	switch f[0] {
	case "get":
		if a := seq(f[1]); a != nil {
			res, err = py.GetItem(a, c13Key(f[2]))
		}
	case "set":
		if a := seq(f[1]); a != nil {
			var v py.Object
			switch {
			case f[3] == "self":
				v = a
			case strings.HasPrefix(f[3], "e:"):
				v = c13Int(f[3][2:])
			default:
				v = seq(f[3])
			}
			if err == nil {
				res, err = py.SetItem(a, c13Key(f[2]), v)
			}
		}
	case "del":
		if a := seq(f[1]); a != nil {
			res, err = py.DelItem(a, c13Key(f[2]))
		}
	case "add", "iadd":
		a := seq(f[1])
		var b py.Object
		if a != nil {
			if f[2] == "self" {
				b = a
			} else {
				b = seq(f[2])
			}
		}
		if err == nil {
			if f[0] == "add" {
				res, err = py.Add(a, b)
			} else {
				res, err = py.IAdd(a, b)
			}
		}
	case "iadd3":
		x, y, z, w := seq(f[1]), seq(f[2]), seq(f[3]), seq(f[4])
		if err == nil {
			var r1, r2, r3 py.Object
			r1, err = py.IAdd(x, y)
			if err == nil {
				r2, err = py.IAdd(r1, z)
			}
			if err == nil {
				r3, err = py.IAdd(r1, w)
			}
			if err == nil {
				res = py.Tuple{r2, r3}
				v2, _ := c13Show(r2)
				v3, _ := c13Show(r3)
				return v2 + "|" + v3, ""
			}
		}
	case "mul", "rmul":
		if a := seq(f[1]); a != nil {
			n := c13Key(f[2])
			if f[0] == "mul" {
				res, err = py.Mul(a, n)
			} else {
				res, err = py.Mul(n, a)
			}
		}
	case "len":
		if a := seq(f[1]); a != nil {
			res, err = py.Len(a)
		}
	case "in":
		if a := seq(f[1]); a != nil {
			var e py.Object
			if strings.HasPrefix(f[2], "e:") {
				e = c13Int(f[2][2:])
			} else {
				e, _ = c13Seq(f[2])
			}
			var found bool
			found, err = py.SequenceContains(a, e)
			res = py.NewBool(found)
		}
	case "cmp":
		a := seq(f[2])
		var b py.Object
		if a != nil {
			b = seq(f[3])
		}
		if err == nil {
			res, err = c13Cmp[f[1]](a, b)
		}
	case "iter":
		if a := seq(f[1]); a != nil {
			var items []py.Object
			items, err = c13Drain(a)
			if err == nil {
				res = py.Tuple(items)
			}
		}
	default:
		panic("bad case " + line)
	}
	v, r := "", ""
	if err != nil {
		v = errClass(err)
	} else {
		v, r = c13Show(res)
		if f[0] == "iter" {
			v = "it:" + v[2:]
		}
		c13Scribble(res, ops...)
	}
	for _, o := range ops {
		ov, _ := c13Show(o)
		v += "|" + ov
	}
	return v, r
}

func init() {
	handlers["C13"] = func(args []string) handler {
		return func(line string) (v string, r string) {
			defer func() {
				if e := recover(); e != nil {
					v, r = "PANIC", ""
				}
			}()
			return c13Run(line)
		}
	}
}
