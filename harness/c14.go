package main

// C14 harness.  One input line = one operation on real gpython objects (see lean/GPy/C14/Gen.lean).
//
//	m <method> <self> <arg>...      py.GetAttrString(self, method) then py.Call        (string methods)
//	f <builtin> <arg>...            builtin len / chr / ord / list / repr               (through py.Call)
//	o <operator> <a> <b>            in / lt le eq ne gt ge / mul / rmul / add / getitem (py API the VM uses)
//	rt <value>                      compiled program: r = repr(x); y = eval(r); V = (y == x and same types), R = r
//	rta / rts <value>               the same with ascii(x) (r must also be pure ASCII) / str(x)
//	lit <escaped source text>       compiled program `x = <text>`: the value the lexer + DecodeEscape produce
//	ev <expression>                 (probing only) compiled program: repr of the expression's value
//
// Values (space separated tokens, prefix form):
//
//	s:<esc>   str   (printable ASCII except space and backslash literal, \uXXXX, \UXXXXXXXX)
//	y:<hex>   bytes
//	i<dec>    int (py.Int when it fits int64, else *py.BigInt)
//	n         None          t0/t1 bool        f<16 hex digits> float bits
//	T<k> v1 .. vk   tuple   L<k> v1 .. vk   list   D<k> key1 v1 .. keyk vk   dict (str keys)   S <start> <stop> <step>   slice object
//
// Output V: the same encoding (lists as `[a,b]`, tuples as `(a,b)`), `E:<Class>` for exceptions and
// `PANIC` for a Go panic.
import (
	"fmt"
	"math"
	"math/big"
	"strconv"
	"strings"

	"github.com/go-python/gpython/py"
	_ "github.com/go-python/gpython/stdlib"
)

func c14Esc(s string) string {
	var b strings.Builder
	for _, c := range s {
		switch {
		case c > 0x20 && c < 0x7f && c != '\\':
			b.WriteRune(c)
		case c < 0x10000:
			fmt.Fprintf(&b, "\\u%04x", c)
		default:
			fmt.Fprintf(&b, "\\U%08x", c)
		}
	}
	return b.String()
}

// c14EscBytes shows a Go string that may be invalid UTF-8 byte by byte after a marker
func c14Show(s string) string {
	for i, c := range s {
		if c == 0xFFFD {
			// a genuine U+FFFD is the three bytes EF BF BD
			if !strings.HasPrefix(s[i:], "\xef\xbf\xbd") {
				return "s!" + fmt.Sprintf("%x", s)
			}
		}
	}
	return "s:" + c14Esc(s)
}

func c14Unesc(s string) string {
	var b strings.Builder
	for i := 0; i < len(s); {
		if s[i] == '\\' && i+1 < len(s) && s[i+1] == 'u' {
			v, _ := strconv.ParseUint(s[i+2:i+6], 16, 32)
			b.WriteString(c14Rune(rune(v)))
			i += 6
		} else if s[i] == '\\' && i+1 < len(s) && s[i+1] == 'U' {
			v, _ := strconv.ParseUint(s[i+2:i+10], 16, 32)
			b.WriteString(c14Rune(rune(v)))
			i += 10
		} else {
			b.WriteByte(s[i])
			i++
		}
	}
	return b.String()
}

func c14Rune(r rune) string { return string(r) }

type c14Reader struct {
	toks []string
	i    int
}

func (r *c14Reader) more() bool { return r.i < len(r.toks) }

func (r *c14Reader) value() py.Object {
	t := r.toks[r.i]
	r.i++
	switch {
	case strings.HasPrefix(t, "s:"):
		return py.String(c14Unesc(t[2:]))
	case strings.HasPrefix(t, "y:"):
		bs := make([]byte, 0, len(t)/2)
		for j := 2; j+1 < len(t); j += 2 {
			v, _ := strconv.ParseUint(t[j:j+2], 16, 8)
			bs = append(bs, byte(v))
		}
		return py.Bytes(bs)
	case t == "S":
		start := r.value()
		stop := r.value()
		step := r.value()
		return py.NewSlice(start, stop, step)
	case t == "n":
		return py.None
	case t == "t0":
		return py.False
	case t == "t1":
		return py.True
	case t[0] == 'i':
		n, ok := new(big.Int).SetString(t[1:], 10)
		if !ok {
			panic("bad int " + t)
		}
		if n.IsInt64() {
			return py.Int(n.Int64())
		}
		return (*py.BigInt)(n)
	case t[0] == 'f':
		v, _ := strconv.ParseUint(t[1:], 16, 64)
		return py.Float(math.Float64frombits(v))
	case t[0] == 'D':
		k, _ := strconv.Atoi(t[1:])
		d := py.StringDict{}
		for j := 0; j < k; j++ {
			key := r.value().(py.String)
			d[string(key)] = r.value()
		}
		return d
	case t[0] == 'T' || t[0] == 'L':
		k, _ := strconv.Atoi(t[1:])
		items := make([]py.Object, 0, k)
		for j := 0; j < k; j++ {
			items = append(items, r.value())
		}
		if t[0] == 'T' {
			return py.Tuple(items)
		}
		return py.NewListFromItems(items)
	}
	panic("bad value token " + t)
}

func c14Render(o py.Object) string {
	switch x := o.(type) {
	case nil:
		return "NIL"
	case py.String:
		return c14Show(string(x))
	case py.Bytes:
		return "y:" + fmt.Sprintf("%x", []byte(x))
	case py.Int:
		return strconv.FormatInt(int64(x), 10)
	case *py.BigInt:
		return (*big.Int)(x).String()
	case py.Bool:
		if x {
			return "True"
		}
		return "False"
	case py.NoneType:
		return "None"
	case py.Float:
		return fmt.Sprintf("f%016x", math.Float64bits(float64(x)))
	case *py.List:
		ss := []string{}
		for _, it := range x.Items {
			ss = append(ss, c14Render(it))
		}
		return "[" + strings.Join(ss, ",") + "]"
	case py.Tuple:
		ss := []string{}
		for _, it := range x {
			ss = append(ss, c14Render(it))
		}
		return "(" + strings.Join(ss, ",") + ")"
	}
	if o == py.NotImplemented {
		return "NotImplemented"
	}
	return fmt.Sprintf("?%T", o)
}

// same value AND same types all the way down (1 == True and 1 == 1.0 must not count as a round trip)
func c14Same(a, b py.Object) bool {
	switch x := a.(type) {
	case py.String:
		y, ok := b.(py.String)
		return ok && x == y
	case py.Bytes:
		y, ok := b.(py.Bytes)
		return ok && string(x) == string(y)
	case py.Int:
		switch y := b.(type) {
		case py.Int:
			return x == y
		case *py.BigInt:
			return (*big.Int)(y).IsInt64() && (*big.Int)(y).Int64() == int64(x)
		}
		return false
	case *py.BigInt:
		switch y := b.(type) {
		case py.Int:
			return (*big.Int)(x).IsInt64() && (*big.Int)(x).Int64() == int64(y)
		case *py.BigInt:
			return (*big.Int)(x).Cmp((*big.Int)(y)) == 0
		}
		return false
	case py.Bool:
		y, ok := b.(py.Bool)
		return ok && x == y
	case py.NoneType:
		_, ok := b.(py.NoneType)
		return ok
	case py.Float:
		y, ok := b.(py.Float)
		return ok && math.Float64bits(float64(x)) == math.Float64bits(float64(y))
	case py.StringDict:
		y, ok := b.(py.StringDict)
		if !ok || len(x) != len(y) {
			return false
		}
		for k, v := range x {
			w, ok := y[k]
			if !ok || !c14Same(v, w) {
				return false
			}
		}
		return true
	case py.Tuple:
		y, ok := b.(py.Tuple)
		if !ok || len(x) != len(y) {
			return false
		}
		for i := range x {
			if !c14Same(x[i], y[i]) {
				return false
			}
		}
		return true
	case *py.List:
		y, ok := b.(*py.List)
		if !ok || len(x.Items) != len(y.Items) {
			return false
		}
		for i := range x.Items {
			if !c14Same(x.Items[i], y.Items[i]) {
				return false
			}
		}
		return true
	}
	return false
}

var c14Ctx py.Context

func c14Context() py.Context {
	if c14Ctx == nil {
		c14Ctx = py.NewContext(py.DefaultContextOpts())
	}
	return c14Ctx
}

func c14Builtin(name string) py.Object {
	return c14Context().Store().Builtins.Globals[name]
}

// c14Run compiles and runs `src` as a module body with the given globals preset; returns the globals
func c14Run(src string, preset py.StringDict) (py.StringDict, error) {
	ctx := c14Context()
	code, err := py.Compile(src, "<c14>", py.ExecMode, 0, true)
	if err != nil {
		return nil, err
	}
	g := py.StringDict{"__builtins__": ctx.Store().Builtins}
	for k, v := range preset {
		g[k] = v
	}
	_, err = ctx.RunCode(code, g, g, nil)
	return g, err
}

var c14Cmp = map[string]func(a, b py.Object) (py.Object, error){
	"lt": py.Lt, "le": py.Le, "eq": py.Eq, "ne": py.Ne, "gt": py.Gt, "ge": py.Ge,
	"mul": py.Mul, "add": py.Add, "getitem": py.GetItem,
}

func c14Handle(line string) (v string, r string) {
	defer func() {
		if e := recover(); e != nil {
			v, r = "PANIC", strings.ReplaceAll(strings.ReplaceAll(fmt.Sprint(e), "\n", " "), "\t", " ")
		}
	}()
	f := strings.Fields(line)
	rd := &c14Reader{toks: f, i: 2}
	var res py.Object
	var err error
	switch f[0] {
	case "m":
		self := rd.value()
		args := py.Tuple{}
		for rd.more() {
			args = append(args, rd.value())
		}
		var meth py.Object
		meth, err = py.GetAttrString(self, f[1])
		if err == nil {
			res, err = py.Call(meth, args, nil)
		}
	case "f":
		args := py.Tuple{}
		for rd.more() {
			args = append(args, rd.value())
		}
		res, err = py.Call(c14Builtin(f[1]), args, nil)
	case "o":
		a := rd.value()
		b := rd.value()
		switch f[1] {
		case "in": // a in b
			var found bool
			found, err = py.SequenceContains(b, a)
			res = py.NewBool(found)
		case "iter":
			items := []py.Object{}
			err = py.Iterate(a, func(o py.Object) bool { items = append(items, o); return false })
			res = py.NewListFromItems(items)
		default:
			res, err = c14Cmp[f[1]](a, b)
		}
	case "rt", "rta", "rts":
		// rt: repr, rta: ascii (the text must be ASCII too), rts: str (of a container = its repr)
		rd.i = 1
		x := rd.value()
		fn := map[string]string{"rt": "repr", "rta": "ascii", "rts": "str"}[f[0]]
		var g py.StringDict
		g, err = c14Run("r = "+fn+"(x)\ny = eval(r)\n", py.StringDict{"x": x})
		rs := ""
		if g != nil {
			if s, ok := g["r"].(py.String); ok {
				rs = c14Show(string(s))
				if f[0] == "rta" {
					for i := 0; i < len(s); i++ {
						if s[i] >= 0x80 {
							return "False:nonascii", rs
						}
					}
				}
			}
		}
		if err != nil {
			return errClass(err), rs
		}
		if c14Same(x, g["y"]) {
			return "True", rs
		}
		return "False:" + c14Render(g["y"]), rs
	case "lit":
		var g py.StringDict
		g, err = c14Run("x = "+c14Unesc(f[1])+"\n", nil)
		if err != nil {
			return errClass(err), ""
		}
		return c14Render(g["x"]), ""
	case "ev":
		var g py.StringDict
		g, err = c14Run("x = repr("+strings.Join(f[1:], " ")+")\n", nil)
		if err != nil {
			return errClass(err), fmt.Sprint(err)
		}
		return string(g["x"].(py.String)), ""
	default:
		panic("bad case " + line)
	}
	if err != nil {
		return errClass(err), ""
	}
	return c14Render(res), ""
}

func init() {
	handlers["C14"] = func(args []string) handler {
		return c14Handle
	}
}
