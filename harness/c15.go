package main

import (
	"fmt"
	"math"
	"math/big"
	"strconv"
	"strings"

	"github.com/go-python/gpython/py"
	_ "github.com/go-python/gpython/stdlib/builtin"
)

// Operand encoding (all single tokens):
//   f<16 hex digits>  float64 bit pattern        i<dec>  py.Int      b<dec>  *py.BigInt
//   t0 / t1           bool                       n       None
//   c<16hex>:<16hex>  complex (real, imag bit patterns)
func c15Obj(s string) py.Object {
	switch s[0] {
	case 'f':
		u, err := strconv.ParseUint(s[1:], 16, 64)
		if err != nil {
			panic("bad float operand " + s)
		}
		return py.Float(math.Float64frombits(u))
	case 'c':
		p := strings.Split(s[1:], ":")
		re, _ := strconv.ParseUint(p[0], 16, 64)
		im, _ := strconv.ParseUint(p[1], 16, 64)
		return py.Complex(complex(math.Float64frombits(re), math.Float64frombits(im)))
	case 'i':
		n, _ := new(big.Int).SetString(s[1:], 10)
		return py.Int(n.Int64())
	case 'b':
		n, _ := new(big.Int).SetString(s[1:], 10)
		return (*py.BigInt)(n)
	case 't':
		return py.NewBool(s[1] == '1')
	case 'n':
		return py.None
	}
	panic("bad operand " + s)
}

func c15Float(x float64) string {
	if x != x {
		return "fnan"
	}
	return fmt.Sprintf("f%016x", math.Float64bits(x))
}

// c15Show renders a result: V = value (floats as bit patterns), R = representation
func c15Show(o py.Object) (string, string) {
	switch x := o.(type) {
	case py.Int:
		return fmt.Sprintf("%d", int64(x)), "i"
	case *py.BigInt:
		return (*big.Int)(x).String(), "b"
	case py.Bool:
		if x {
			return "True", "t"
		}
		return "False", "t"
	case py.Float:
		return c15Float(float64(x)), "f"
	case py.Complex:
		return "c" + c15Float(real(complex128(x)))[1:] + ":" + c15Float(imag(complex128(x)))[1:], "c"
	case py.String:
		return "s" + string(x), "s"
	case py.NoneType:
		return "None", "n"
	case py.Tuple:
		vs, rs := []string{}, ""
		for _, e := range x {
			v, r := c15Show(e)
			vs = append(vs, v)
			rs += r
		}
		return "(" + strings.Join(vs, ", ") + ")", rs
	}
	if o == py.NotImplemented {
		return "NotImplemented", "N"
	}
	return fmt.Sprintf("?%T", o), "?"
}

var c15Bin = map[string]func(a, b py.Object) (py.Object, error){
	"add": py.Add, "sub": py.Sub, "mul": py.Mul, "truediv": py.TrueDiv, "floordiv": py.FloorDiv, "mod": py.Mod,
	"lt": py.Lt, "le": py.Le, "eq": py.Eq, "ne": py.Ne, "gt": py.Gt, "ge": py.Ge,
	"pow": func(a, b py.Object) (py.Object, error) { return py.Pow(a, b, py.None) },
}

var c15Un = map[string]func(a py.Object) (py.Object, error){
	"neg": py.Neg, "pos": py.Pos, "abs": py.Abs, "bool": py.MakeBool,
	"int": py.MakeInt, "float": py.MakeFloat, "str": py.Str, "repr": py.Repr,
	// float(repr(x)): the text must read back as the same double
	"rt": func(a py.Object) (py.Object, error) {
		s, err := py.Repr(a)
		if err != nil {
			return nil, err
		}
		return py.FloatFromString(string(s.(py.String)))
	},
}

func c15Builtin(name string, args py.Tuple) (py.Object, error) {
	impl := py.GetModuleImpl("builtins")
	for _, m := range impl.Methods {
		if m.Name == name {
			return m.Call(nil, args)
		}
	}
	panic("no builtin " + name)
}

func init() {
	handlers["C15"] = func(args []string) handler {
		return func(line string) (string, string) {
			f := strings.Fields(line)
			var res py.Object
			var err error
			objs := func(ss []string) py.Tuple {
				t := py.Tuple{}
				for _, s := range ss {
					t = append(t, c15Obj(s))
				}
				return t
			}
			switch f[0] {
			case "bin":
				if f[1] == "divmod" {
					var q, r py.Object
					q, r, err = py.DivMod(c15Obj(f[2]), c15Obj(f[3]))
					if err == nil {
						res = py.Tuple{q, r}
					}
				} else {
					res, err = c15Bin[f[1]](c15Obj(f[2]), c15Obj(f[3]))
				}
			case "un":
				res, err = c15Un[f[1]](c15Obj(f[2]))
			case "divmod":
				var q, r py.Object
				q, r, err = py.DivMod(c15Obj(f[1]), c15Obj(f[2]))
				if err == nil {
					res = py.Tuple{q, r}
				}
			case "round":
				// round <ndigits or -> <number>
				if f[1] == "-" {
					res, err = c15Builtin("round", py.Tuple{c15Obj(f[2])})
				} else {
					res, err = c15Builtin("round", py.Tuple{c15Obj(f[2]), c15Obj(f[1])})
				}
			case "bi":
				switch f[1] {
				case "sum":
					// sum(list) : first operand is the list's first element
					res, err = c15Builtin("sum", py.Tuple{py.NewListFromItems(objs(f[2:]))})
				case "min", "max", "pow", "divmod", "abs":
					a := objs(f[2:])
					if f[1] == "abs" {
						res, err = c15Builtin("abs", a)
					} else {
						res, err = c15Builtin(f[1], a)
					}
				default:
					panic("bad builtin " + f[1])
				}
			default:
				panic("bad case " + line)
			}
			if err != nil {
				return errClass(err), "-"
			}
			// a float power with a complex result (negative ** fraction): the value comes from
			// cmplx.Pow and is not specified bit for bit, only that it is a complex number
			if _, isC := res.(py.Complex); isC && len(f) > 3 && f[1] == "pow" && f[2][0] != 'c' && f[3][0] != 'c' {
				return "complex", "c"
			}
			return c15Show(res)
		}
	}
}
