package main

// C16 harness: builds a class hierarchy by compiling and running Python `class`
// statements on the real interpreter, reads `Type.Mro`, then performs attribute
// reads / writes / deletes and isinstance tests as compiled Python statements.
//
// input line:  <family> <classes> <insts> <ops>      (family: generator family, ignored here)
//   classes : `;`-separated declarations of K1..Kn, each `<bases>/<members>`
//             bases   = digits (0 = object, d = K<d>) or `-` (no bases written)
//             members = sequence of 2-char pairs <name><kind> or `-`;
//                       kind v = plain value, f = function, c = classmethod, s = staticmethod
//   insts   : digits, instance i<k> (k = 1..) is created from class K<d>; or `-`
//   ops     : `;`-separated or `-`
//             g<obj>.<name>          read          (obj = K<d> | i<d>)
//             s<obj>.<name>=<val>    write         (val = w<d> plain value | g<d> function |
//                                                   c<d> classmethod(g<d>) | t<d> staticmethod(g<d>))
//             d<obj>.<name>          delete
//             n<inst>.<cls>          isinstance(inst, cls)
//             u<cls>.<cls>           Type.IsSubtype (Go API)
//             N<inst>.<a>,<a>..      isinstance(inst, (a, a, ..))   (`-` = the empty tuple; a = K<d> | i<d>)
//             U<inst>.<cls>          inst.IsSubtype(cls) (Go API: the receiver has no MRO, the Base chain is walked)
//   members : the one-letter names G / S / I stand for the hooks __getattr__ / __setattr__ / __init__; kind f gives the
//             standard body (__getattr__ returns ('hook', tag, self, name); __setattr__ appends (tag, self, name, value) to
//             the module's LOG and does not store; __init__ does `self.a = tag`), kind v a non-callable string
//   family `api`: the classes are built by calling py.TypeNew(py.TypeType, (name, bases, dict)) directly (no class
//             statement, no __build_class__, no Type.M__call__/TypeInit), instances by py.Call, reads / writes / deletes by
//             py.GetAttrString / py.SetAttrString / py.DeleteAttrString
// output V:  K1=K1.O;K2=K2.K1.O|r1;r2;...|log     (a rejected class: `K3=E:TypeError|`, then nothing else)
// output R:  Go representation of every read result

import (
	"fmt"
	"strings"

	"github.com/go-python/gpython/py"
	_ "github.com/go-python/gpython/stdlib"
)

type c16Env struct {
	ctx py.Context
	mod *py.Module
}

func (e *c16Env) run(src string) error {
	code, err := py.Compile(src+"\n", "<c16>", py.ExecMode, 0, true)
	if err != nil {
		return err
	}
	_, err = e.ctx.RunCode(code, e.mod.Globals, e.mod.Globals, nil)
	return err
}

func (e *c16Env) obj(name string) py.Object {
	if name == "object" {
		return py.ObjectType
	}
	o, ok := e.mod.Globals[name]
	if !ok {
		panic("no object " + name)
	}
	return o
}

func c16ObjName(s string) string {
	if s[0] == 'K' && s[1] == '0' {
		return "object"
	}
	return s
}

func c16ClassSrc(k int, decl string) string {
	parts := strings.SplitN(decl, "/", 2)
	var b strings.Builder
	fmt.Fprintf(&b, "class K%d", k)
	if parts[0] != "-" {
		names := []string{}
		for _, d := range parts[0] {
			if d == '0' {
				names = append(names, "object")
			} else {
				names = append(names, "K"+string(d))
			}
		}
		b.WriteString("(" + strings.Join(names, ", ") + ")")
	}
	b.WriteString(":\n")
	if parts[1] == "-" {
		b.WriteString("    pass\n")
		return b.String()
	}
	for i := 0; i+1 < len(parts[1]); i += 2 {
		name, kind := c16FullName(string(parts[1][i])), parts[1][i+1]
		tag := fmt.Sprintf("K%d.%s", k, name)
		if kind == 'f' && strings.HasPrefix(name, "__") {
			b.WriteString(c16HookSrc("    ", name, name, tag))
			continue
		}
		switch kind {
		case 'v':
			fmt.Fprintf(&b, "    %s = '%s'\n", name, tag)
		case 'f':
			fmt.Fprintf(&b, "    def %s(*a): return ('%s',) + a\n", name, tag)
		case 'c':
			fmt.Fprintf(&b, "    @classmethod\n    def %s(*a): return ('%s',) + a\n", name, tag)
		case 's':
			fmt.Fprintf(&b, "    @staticmethod\n    def %s(*a): return ('%s',) + a\n", name, tag)
		default:
			panic("bad member kind")
		}
	}
	return b.String()
}

func c16FullName(n string) string {
	switch n {
	case "G":
		return "__getattr__"
	case "S":
		return "__setattr__"
	case "I":
		return "__init__"
	}
	return n
}

// standard body of a hook function
func c16HookSrc(indent, defName, hook, tag string) string {
	switch hook {
	case "__getattr__":
		return fmt.Sprintf("%sdef %s(self, name): return ('hook', '%s', self, name)\n", indent, defName, tag)
	case "__setattr__":
		return fmt.Sprintf("%sdef %s(self, name, v): LOG.append(('%s', self, name, v))\n", indent, defName, tag)
	case "__init__":
		return fmt.Sprintf("%sdef %s(self): self.a = '%s'\n", indent, defName, tag)
	}
	panic("bad hook " + hook)
}

// build class K<k> by calling py.TypeNew directly
func (e *c16Env) apiClass(k int, decl string) error {
	parts := strings.SplitN(decl, "/", 2)
	bases := py.Tuple{}
	if parts[0] != "-" {
		for _, d := range parts[0] {
			if d == '0' {
				bases = append(bases, py.ObjectType)
			} else {
				bases = append(bases, e.mod.Globals["K"+string(d)])
			}
		}
	}
	dict := py.StringDict{"__module__": py.String("c16case"), "__qualname__": py.String(fmt.Sprintf("K%d", k))}
	if parts[1] != "-" {
		for i := 0; i+1 < len(parts[1]); i += 2 {
			name, kind := c16FullName(string(parts[1][i])), parts[1][i+1]
			tag := fmt.Sprintf("K%d.%s", k, name)
			fn := fmt.Sprintf("_f%d_%d", k, i)
			var src string
			switch {
			case kind == 'v':
				src = fmt.Sprintf("%s = '%s'\n", fn, tag)
			case kind == 'f' && strings.HasPrefix(name, "__"):
				src = c16HookSrc("", fn, name, tag)
			case kind == 'f':
				src = fmt.Sprintf("def %s(*a): return ('%s',) + a\n", fn, tag)
			case kind == 'c':
				src = fmt.Sprintf("def %s(*a): return ('%s',) + a\n%s = classmethod(%s)\n", fn, tag, fn, fn)
			case kind == 's':
				src = fmt.Sprintf("def %s(*a): return ('%s',) + a\n%s = staticmethod(%s)\n", fn, tag, fn, fn)
			default:
				panic("bad member kind")
			}
			if err := e.run(src); err != nil {
				panic(err)
			}
			dict[name] = e.mod.Globals[fn]
			delete(e.mod.Globals, fn)
		}
	}
	t, err := py.TypeNew(py.TypeType, py.Tuple{py.String(fmt.Sprintf("K%d", k)), bases, dict}, nil)
	if err != nil {
		return err
	}
	e.mod.Globals[fmt.Sprintf("K%d", k)] = t
	return nil
}

// a value written by an operation, as a Go object
func (e *c16Env) apiVal(v string) py.Object {
	delete(e.mod.Globals, "_w")
	if err := e.run("_w = " + c16Val(v)); err != nil {
		panic(err)
	}
	return e.mod.Globals["_w"]
}

func (e *c16Env) valName(o py.Object) string {
	switch x := o.(type) {
	case py.String:
		return string(x)
	case *py.Function:
		return x.Name
	case *py.ClassMethod:
		return "cm:" + x.Callable.(*py.Function).Name
	case *py.StaticMethod:
		return "sm:" + x.Callable.(*py.Function).Name
	}
	return "?" + o.Type().Name
}

// the module's LOG of hook calls
func (e *c16Env) logStr() string {
	l, ok := e.mod.Globals["LOG"].(*py.List)
	if !ok {
		panic("no LOG")
	}
	out := []string{}
	for _, it := range l.Items {
		t := it.(py.Tuple)
		out = append(out, fmt.Sprintf("%s(%s %s %s)", string(t[0].(py.String)), e.nameOf(t[1]), string(t[2].(py.String)), e.valName(t[3])))
	}
	return strings.Join(out, ";")
}

// name of a Python object of the case (class, instance, None) by identity
func (e *c16Env) nameOf(o py.Object) string {
	if o == py.None {
		return "None"
	}
	if o == py.Object(py.ObjectType) {
		return "O"
	}
	for k, v := range e.mod.Globals {
		if (k[0] == 'K' || k[0] == 'i') && v == o {
			return k
		}
	}
	return "?" + o.Type().Name
}

func c16Repr(o py.Object) string {
	switch o.(type) {
	case py.String:
		return "str"
	case *py.Function:
		return "fn"
	case *py.BoundMethod:
		return "bm"
	case *py.StaticMethod:
		return "sm"
	case *py.ClassMethod:
		return "cm"
	case py.Tuple:
		return "tup"
	}
	return o.Type().Name
}

// show the result of an attribute read: a plain value, or what calling it yields
func (e *c16Env) show(o py.Object) string {
	if s, ok := o.(py.String); ok {
		return "v:" + string(s)
	}
	if t, ok := o.(py.Tuple); ok && len(t) == 4 && t[0] == py.Object(py.String("hook")) {
		return fmt.Sprintf("hook:%s(%s %s)", string(t[1].(py.String)), e.nameOf(t[2]), string(t[3].(py.String)))
	}
	res, err := py.Call(o, nil, nil)
	if err != nil {
		return "uncallable:" + o.Type().Name
	}
	t, ok := res.(py.Tuple)
	if !ok || len(t) == 0 {
		return "?call"
	}
	args := []string{}
	for _, a := range t[1:] {
		args = append(args, e.nameOf(a))
	}
	return fmt.Sprintf("call:%s(%s)", string(t[0].(py.String)), strings.Join(args, " "))
}

func c16Val(v string) string {
	switch v[0] {
	case 'w':
		return "'" + v + "'"
	case 'g':
		return v
	case 'c':
		return "classmethod(g" + v[1:] + ")"
	case 't':
		return "staticmethod(g" + v[1:] + ")"
	}
	panic("bad value " + v)
}

func init() {
	handlers["C16"] = func(args []string) handler {
		ctx := py.NewContext(py.DefaultContextOpts())
		// sanity: the metatype and object dictionaries hold dunder names only (assumed by the model)
		for _, t := range []*py.Type{py.TypeType, py.ObjectType} {
			for k := range t.Dict {
				if !(strings.HasPrefix(k, "__") && strings.HasSuffix(k, "__")) {
					panic("C16: unexpected non-dunder name in " + t.Name + ".__dict__: " + k)
				}
			}
		}
		return func(line string) (string, string) {
			f := strings.Fields(line)
			if len(f) != 4 {
				panic("bad case " + line)
			}
			api := f[0] == "api"
			f = f[1:] // f[0] names the generator family
			mod, err := ctx.Store().NewModule(ctx, &py.ModuleImpl{Info: py.ModuleInfo{Name: "c16case"}})
			if err != nil {
				panic(err)
			}
			e := &c16Env{ctx: ctx, mod: mod}
			if err := e.run("LOG = []\ndef g0(*a): return ('g0',) + a\ndef g1(*a): return ('g1',) + a\ndef g2(*a): return ('g2',) + a\n"); err != nil {
				panic(err)
			}
			var v, r []string
			for k, decl := range strings.Split(f[0], ";") {
				name := fmt.Sprintf("K%d", k+1)
				var err error
				if api {
					err = e.apiClass(k+1, decl)
				} else {
					err = e.run(c16ClassSrc(k+1, decl))
				}
				if err != nil {
					v = append(v, name+"="+errClass(err))
					return strings.Join(v, ";") + "|", "-"
				}
				t, ok := mod.Globals[name].(*py.Type)
				if !ok {
					panic("class statement bound no type")
				}
				ms := []string{}
				for _, m := range t.Mro {
					ms = append(ms, e.nameOf(m))
				}
				v = append(v, name+"="+strings.Join(ms, "."))
			}
			if f[1] != "-" {
				for k, d := range f[1] {
					var err error
					if api {
						var o py.Object
						o, err = py.Call(mod.Globals["K"+string(d)], nil, nil)
						if err == nil {
							mod.Globals[fmt.Sprintf("i%d", k+1)] = o
						}
					} else {
						err = e.run(fmt.Sprintf("i%d = K%c()", k+1, d))
					}
					if err != nil {
						return strings.Join(v, ";") + "|inst:" + errClass(err), "-"
					}
				}
			}
			var ov []string
			if f[2] != "-" {
				for _, op := range strings.Split(f[2], ";") {
					body := op[1:]
					dot := strings.IndexByte(body, '.')
					obj, rest := c16ObjName(body[:dot]), body[dot+1:]
					switch op[0] {
					case 'g':
						delete(mod.Globals, "_v")
						var err error
						if api {
							var o py.Object
							o, err = py.GetAttrString(e.obj(obj), rest)
							if err == nil {
								mod.Globals["_v"] = o
							}
						} else {
							err = e.run("_v = " + obj + "." + rest)
						}
						if err != nil {
							ov = append(ov, errClass(err))
							r = append(r, "-")
						} else {
							ov = append(ov, e.show(mod.Globals["_v"]))
							r = append(r, c16Repr(mod.Globals["_v"]))
						}
					case 's':
						eq := strings.IndexByte(rest, '=')
						var err error
						if api {
							_, err = py.SetAttrString(e.obj(obj), rest[:eq], e.apiVal(rest[eq+1:]))
						} else {
							err = e.run(obj + "." + rest[:eq] + " = " + c16Val(rest[eq+1:]))
						}
						if err != nil {
							ov = append(ov, errClass(err))
						} else {
							ov = append(ov, "ok")
						}
					case 'd':
						var err error
						if api {
							err = py.DeleteAttrString(e.obj(obj), rest)
						} else {
							err = e.run("del " + obj + "." + rest)
						}
						if err != nil {
							ov = append(ov, errClass(err))
						} else {
							ov = append(ov, "ok")
						}
					case 'n':
						delete(mod.Globals, "_v")
						if err := e.run("_v = isinstance(" + obj + ", " + c16ObjName(rest) + ")"); err != nil {
							ov = append(ov, errClass(err))
						} else if b, ok := mod.Globals["_v"].(py.Bool); ok && bool(b) {
							ov = append(ov, "True")
						} else {
							ov = append(ov, "False")
						}
					case 'N':
						names := []string{}
						if rest != "-" {
							for _, a := range strings.Split(rest, ",") {
								names = append(names, c16ObjName(a))
							}
						}
						tup := "(" + strings.Join(names, ", ")
						if len(names) == 1 {
							tup += ","
						}
						tup += ")"
						delete(mod.Globals, "_v")
						if err := e.run("_v = isinstance(" + obj + ", " + tup + ")"); err != nil {
							ov = append(ov, errClass(err))
						} else if b, ok := mod.Globals["_v"].(py.Bool); ok && bool(b) {
							ov = append(ov, "True")
						} else {
							ov = append(ov, "False")
						}
					case 'U':
						if e.obj(obj).(*py.Type).IsSubtype(e.obj(c16ObjName(rest)).(*py.Type)) {
							ov = append(ov, "True")
						} else {
							ov = append(ov, "False")
						}
					case 'u':
						a := mod.Globals[obj]
						b := mod.Globals[c16ObjName(rest)]
						if obj == "object" {
							a = py.ObjectType
						}
						if rest == "K0" {
							b = py.ObjectType
						}
						if a.(*py.Type).IsSubtype(b.(*py.Type)) {
							ov = append(ov, "True")
						} else {
							ov = append(ov, "False")
						}
					default:
						panic("bad op " + op)
					}
				}
			}
			return strings.Join(v, ";") + "|" + strings.Join(ov, ";") + "|" + e.logStr(), strings.Join(r, ";")
		}
	}
}
