package main

// C16 harness: builds a class hierarchy by compiling and running Python `class`
// statements on the real interpreter, reads `Type.Mro`, then performs attribute
// reads / writes / deletes and isinstance tests as compiled Python statements.
//
// input line:  <family> <classes> <insts> <ops>      (family: generator family, ignored here)
//   classes : `;`-separated declarations of K1..Kn, each `<bases>/<members>`
//             bases   = digits (0 = object, d = K<d>) or `-` (no bases written)
//             members = sequence of 2-char pairs <name><kind> or `-`;
//                       kind v = plain value, f = function, c = classmethod, s = staticmethod
//   insts   : digits, instance i<k> (k = 1..) is created from class K<d>; or `-`
//   ops     : `;`-separated or `-`
//             g<obj>.<name>          read          (obj = K<d> | i<d>)
//             s<obj>.<name>=<val>    write         (val = w<d> plain value | g<d> function |
//                                                   c<d> classmethod(g<d>) | t<d> staticmethod(g<d>))
//             d<obj>.<name>          delete
//             n<inst>.<cls>          isinstance(inst, cls)
//             u<cls>.<cls>           Type.IsSubtype (Go API)
// output V:  K1=K1.O;K2=K2.K1.O|r1;r2;...     (a rejected class: `K3=E:TypeError`, then nothing else)
// output R:  Go representation of every read result

import (
	"fmt"
	"strings"

	"github.com/go-python/gpython/py"
	_ "github.com/go-python/gpython/stdlib"
)

type c16Env struct {
	ctx py.Context
	mod *py.Module
}

func (e *c16Env) run(src string) error {
	code, err := py.Compile(src+"\n", "<c16>", py.ExecMode, 0, true)
	if err != nil {
		return err
	}
	_, err = e.ctx.RunCode(code, e.mod.Globals, e.mod.Globals, nil)
	return err
}

func c16ObjName(s string) string {
	if s[0] == 'K' && s[1] == '0' {
		return "object"
	}
	return s
}

func c16ClassSrc(k int, decl string) string {
	parts := strings.SplitN(decl, "/", 2)
	var b strings.Builder
	fmt.Fprintf(&b, "class K%d", k)
	if parts[0] != "-" {
		names := []string{}
		for _, d := range parts[0] {
			if d == '0' {
				names = append(names, "object")
			} else {
				names = append(names, "K"+string(d))
			}
		}
		b.WriteString("(" + strings.Join(names, ", ") + ")")
	}
	b.WriteString(":\n")
	if parts[1] == "-" {
		b.WriteString("    pass\n")
		return b.String()
	}
	for i := 0; i+1 < len(parts[1]); i += 2 {
		name, kind := string(parts[1][i]), parts[1][i+1]
		tag := fmt.Sprintf("K%d.%s", k, name)
		switch kind {
		case 'v':
			fmt.Fprintf(&b, "    %s = '%s'\n", name, tag)
		case 'f':
			fmt.Fprintf(&b, "    def %s(*a): return ('%s',) + a\n", name, tag)
		case 'c':
			fmt.Fprintf(&b, "    @classmethod\n    def %s(*a): return ('%s',) + a\n", name, tag)
		case 's':
			fmt.Fprintf(&b, "    @staticmethod\n    def %s(*a): return ('%s',) + a\n", name, tag)
		default:
			panic("bad member kind")
		}
	}
	return b.String()
}

// name of a Python object of the case (class, instance, None) by identity
func (e *c16Env) nameOf(o py.Object) string {
	if o == py.None {
		return "None"
	}
	if o == py.Object(py.ObjectType) {
		return "O"
	}
	for k, v := range e.mod.Globals {
		if (k[0] == 'K' || k[0] == 'i') && v == o {
			return k
		}
	}
	return "?" + o.Type().Name
}

func c16Repr(o py.Object) string {
	switch o.(type) {
	case py.String:
		return "str"
	case *py.Function:
		return "fn"
	case *py.BoundMethod:
		return "bm"
	case *py.StaticMethod:
		return "sm"
	case *py.ClassMethod:
		return "cm"
	}
	return o.Type().Name
}

// show the result of an attribute read: a plain value, or what calling it yields
func (e *c16Env) show(o py.Object) string {
	if s, ok := o.(py.String); ok {
		return "v:" + string(s)
	}
	res, err := py.Call(o, nil, nil)
	if err != nil {
		return "uncallable:" + o.Type().Name
	}
	t, ok := res.(py.Tuple)
	if !ok || len(t) == 0 {
		return "?call"
	}
	args := []string{}
	for _, a := range t[1:] {
		args = append(args, e.nameOf(a))
	}
	return fmt.Sprintf("call:%s(%s)", string(t[0].(py.String)), strings.Join(args, " "))
}

func c16Val(v string) string {
	switch v[0] {
	case 'w':
		return "'" + v + "'"
	case 'g':
		return v
	case 'c':
		return "classmethod(g" + v[1:] + ")"
	case 't':
		return "staticmethod(g" + v[1:] + ")"
	}
	panic("bad value " + v)
}

func init() {
	handlers["C16"] = func(args []string) handler {
		ctx := py.NewContext(py.DefaultContextOpts())
		// sanity: the metatype and object dictionaries hold dunder names only (assumed by the model)
		for _, t := range []*py.Type{py.TypeType, py.ObjectType} {
			for k := range t.Dict {
				if !(strings.HasPrefix(k, "__") && strings.HasSuffix(k, "__")) {
					panic("C16: unexpected non-dunder name in " + t.Name + ".__dict__: " + k)
				}
			}
		}
		return func(line string) (string, string) {
			f := strings.Fields(line)
			if len(f) != 4 {
				panic("bad case " + line)
			}
			f = f[1:] // f[0] names the generator family
			mod, err := ctx.Store().NewModule(ctx, &py.ModuleImpl{Info: py.ModuleInfo{Name: "c16case"}})
			if err != nil {
				panic(err)
			}
			e := &c16Env{ctx: ctx, mod: mod}
			if err := e.run("def g0(*a): return ('g0',) + a\ndef g1(*a): return ('g1',) + a\ndef g2(*a): return ('g2',) + a\n"); err != nil {
				panic(err)
			}
			var v, r []string
			for k, decl := range strings.Split(f[0], ";") {
				name := fmt.Sprintf("K%d", k+1)
				if err := e.run(c16ClassSrc(k+1, decl)); err != nil {
					v = append(v, name+"="+errClass(err))
					return strings.Join(v, ";") + "|", "-"
				}
				t, ok := mod.Globals[name].(*py.Type)
				if !ok {
					panic("class statement bound no type")
				}
				ms := []string{}
				for _, m := range t.Mro {
					ms = append(ms, e.nameOf(m))
				}
				v = append(v, name+"="+strings.Join(ms, "."))
			}
			if f[1] != "-" {
				for k, d := range f[1] {
					if err := e.run(fmt.Sprintf("i%d = K%c()", k+1, d)); err != nil {
						return strings.Join(v, ";") + "|inst:" + errClass(err), "-"
					}
				}
			}
			var ov []string
			if f[2] != "-" {
				for _, op := range strings.Split(f[2], ";") {
					body := op[1:]
					dot := strings.IndexByte(body, '.')
					obj, rest := c16ObjName(body[:dot]), body[dot+1:]
					switch op[0] {
					case 'g':
						delete(mod.Globals, "_v")
						if err := e.run("_v = " + obj + "." + rest); err != nil {
							ov = append(ov, errClass(err))
							r = append(r, "-")
						} else {
							ov = append(ov, e.show(mod.Globals["_v"]))
							r = append(r, c16Repr(mod.Globals["_v"]))
						}
					case 's':
						eq := strings.IndexByte(rest, '=')
						if err := e.run(obj + "." + rest[:eq] + " = " + c16Val(rest[eq+1:])); err != nil {
							ov = append(ov, errClass(err))
						} else {
							ov = append(ov, "ok")
						}
					case 'd':
						if err := e.run("del " + obj + "." + rest); err != nil {
							ov = append(ov, errClass(err))
						} else {
							ov = append(ov, "ok")
						}
					case 'n':
						delete(mod.Globals, "_v")
						if err := e.run("_v = isinstance(" + obj + ", " + c16ObjName(rest) + ")"); err != nil {
							ov = append(ov, errClass(err))
						} else if b, ok := mod.Globals["_v"].(py.Bool); ok && bool(b) {
							ov = append(ov, "True")
						} else {
							ov = append(ov, "False")
						}
					case 'u':
						a := mod.Globals[obj]
						b := mod.Globals[c16ObjName(rest)]
						if obj == "object" {
							a = py.ObjectType
						}
						if rest == "K0" {
							b = py.ObjectType
						}
						if a.(*py.Type).IsSubtype(b.(*py.Type)) {
							ov = append(ov, "True")
						} else {
							ov = append(ov, "False")
						}
					default:
						panic("bad op " + op)
					}
				}
			}
			return strings.Join(v, ";") + "|" + strings.Join(ov, ";"), strings.Join(r, ";")
		}
	}
}
