package main

// C17 harness: one input line = one history over a pool of aliased containers,
//
//	<step> ␞ <step> ␞ ...          (steps separated by " ;; ")
//
// each step being a Python statement (possibly several lines, `\n`-escaped) or
// `=<expr>` (an observing expression).  The whole history is replayed as ONE Python
// program, compiled by the real compiler and run on the real VM in a stdlib context:
//
//	a = b = c = <nothing>; every step k is wrapped as
//	    try:
//	        <stmt>            |   R = <expr>
//	        OBS(R)            (Go builtin: canonical, order-normalised rendering of the result)
//	    except BaseException as e:
//	        ERR(e)            (Go builtin: E:<class>)
//	    DUMP(a, b, c)         (Go builtin: contents of the pool + identity classes + slice caps)
//
// V = the observations of every step joined by " | "; R = the capacities of the Go slices
// behind the list objects after every step (representation detail tied to the model only).
import (
	"fmt"
	"sort"
	"strconv"
	"strings"

	"github.com/go-python/gpython/compile"
	"github.com/go-python/gpython/py"
	_ "github.com/go-python/gpython/stdlib"
)

func c17Show(o py.Object) string {
	switch x := o.(type) {
	case nil:
		return "nil"
	case py.NoneType:
		return "None"
	case py.Bool:
		if x {
			return "True"
		}
		return "False"
	case py.Int:
		return strconv.FormatInt(int64(x), 10)
	case *py.BigInt:
		s, _ := x.M__repr__()
		return string(s.(py.String)) + "L"
	case py.Float:
		s := strconv.FormatFloat(float64(x), 'f', -1, 64)
		if !strings.ContainsAny(s, ".eInN") {
			s += ".0"
		}
		return s
	case py.String:
		return "'" + string(x) + "'"
	case py.Tuple:
		p := make([]string, len(x))
		for i, e := range x {
			p[i] = c17Show(e)
		}
		return "(" + strings.Join(p, ", ") + ")"
	case *py.List:
		p := make([]string, len(x.Items))
		for i, e := range x.Items {
			p[i] = c17Show(e)
		}
		return "[" + strings.Join(p, ", ") + "]"
	case py.StringDict:
		var p []string
		for k, v := range x {
			p = append(p, "'"+k+"': "+c17Show(v))
		}
		sort.Strings(p)
		return "{" + strings.Join(p, ", ") + "}"
	case *py.Set:
		var p []string
		it, _ := py.Iter(x)
		for {
			e, err := py.Next(it)
			if err != nil {
				break
			}
			p = append(p, c17Show(e))
		}
		sort.Strings(p)
		return "set(" + strings.Join(p, ", ") + ")"
	case *py.Iterator:
		return "<it>"
	}
	return fmt.Sprintf("?%T", o)
}

// identity of a container object (pointer of the list/set, map header of the dict)
func c17Same(a, b py.Object) bool {
	switch x := a.(type) {
	case *py.List:
		y, ok := b.(*py.List)
		return ok && x == y
	case *py.Set:
		y, ok := b.(*py.Set)
		return ok && x == y
	case py.StringDict:
		y, ok := b.(py.StringDict)
		return ok && fmt.Sprintf("%p", x) == fmt.Sprintf("%p", y)
	}
	return false
}

func c17Program(line string) string {
	var sb strings.Builder
	sb.WriteString("a = b = c = None\ni = j = iter(())\n")
	for _, st := range strings.Split(line, " ;; ") {
		st = strings.ReplaceAll(st, "\\n", "\n")
		body := st
		if strings.HasPrefix(st, "=") {
			body = "R = " + st[1:]
		} else {
			body = st + "\nR = OK"
		}
		sb.WriteString("try:\n")
		for _, l := range strings.Split(body, "\n") {
			sb.WriteString("    " + l + "\n")
		}
		sb.WriteString("    OBS(R)\nexcept BaseException as e:\n    ERR(e)\nDUMP(a, b, c)\n")
	}
	return sb.String()
}



func init() {
	handlers["C17"] = func(args []string) handler {
		ctx := py.NewContext(py.DefaultContextOpts())
		pre, err := ctx.Store().NewModule(ctx, &py.ModuleImpl{Info: py.ModuleInfo{FileDesc: "c17prelude"}})
		if err != nil {
			panic(err)
		}
		return func(line string) (v string, r string) {
			var out, caps []string
			var cur string
			okMark := py.String("\x00ok")
			g := pre.Globals.Copy()
			g["OK"] = okMark
			g["OBS"] = py.MustNewMethod("OBS", func(self py.Object, a py.Tuple) (py.Object, error) {
				if s, ok := a[0].(py.String); ok && s == okMark {
					cur = "ok"
				} else {
					cur = c17Show(a[0])
				}
				return py.None, nil
			}, 0, "")
			g["ERR"] = py.MustNewMethod("ERR", func(self py.Object, a py.Tuple) (py.Object, error) {
				switch e := a[0].(type) {
				case *py.Exception:
					cur = "E:" + e.Type().Name
				case *py.Type:
					cur = "E:" + e.Name
				default:
					cur = "E:?" + fmt.Sprintf("%T", a[0])
				}
				return py.None, nil
			}, 0, "")
			g["DUMP"] = py.MustNewMethod("DUMP", func(self py.Object, a py.Tuple) (py.Object, error) {
				var p, cp []string
				for k, o := range a {
					cls := k
					for m := 0; m < k; m++ {
						if c17Same(a[m], o) {
							cls = m
							break
						}
					}
					p = append(p, strconv.Itoa(cls)+":"+c17Show(o))
					if l, ok := o.(*py.List); ok {
						cp = append(cp, strconv.Itoa(cap(l.Items)))
					} else {
						cp = append(cp, "-")
					}
				}
				out = append(out, cur+" "+strings.Join(p, " "))
				caps = append(caps, strings.Join(cp, ","))
				cur = "?"
				return py.None, nil
			}, 0, "")
			defer func() {
				if e := recover(); e != nil {
					msg := strings.ReplaceAll(fmt.Sprint(e), "\n", " ")
					msg = strings.ReplaceAll(msg, "\t", " ")
					out = append(out, "PANIC:"+msg)
					v, r = strings.Join(out, " | "), "-"
				}
			}()
			src := c17Program(line)
			code, err := compile.Compile(src, "<c17>", py.ExecMode, 0, true)
			if err != nil {
				return "COMPILE:" + errClass(err), "-"
			}
			_, err = ctx.RunCode(code, g, g, nil)
			if err != nil {
				out = append(out, "UNCAUGHT:"+errClass(err))
			}
			return strings.Join(out, " | "), strings.Join(caps, " ")
		}
	}
}
