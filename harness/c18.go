package main

// C18 harness: compilation is a deterministic, side-effect-free function of its input.
//
// One input line is
//
//	P <src>   a Python program, compiled in mode "exec"   (newlines encoded as the two characters `\n`)
//	E <src>   an expression, mode "eval"
//	S <src>   one interactive statement, mode "single"
//	F k n     every .py file below the repository worktree ($VERIF_REPO, default /repo)
//	          whose index in the sorted list is ≡ k (mod n), mode "exec", file name = its relative path
//
// For every (source, file name, mode) the harness
//
//	(1) compiles it once: the DEEP STRUCTURAL DUMP of the code object (Code bytes, Consts
//	    recursively incl. nested code objects, Names, Varnames, Freevars, Cellvars, Cell2arg, Flags,
//	    Stacksize, Firstlineno, Lnotab, Argcount, Kwonlyargcount, Nlocals, Filename, Name – or the
//	    exception class and message when compilation fails) is the reference;
//	(2) compiles it `seq` (default 64) more times sequentially – Go randomises the iteration order
//	    of every `range` over a map afresh for each loop – every second time with a compilation of
//	    ANOTHER source in between (previous cases and a fixed pool);
//	(3) compiles it from `gor` (default 16) goroutines at once, `per` (default 4) times each, while
//	    the same goroutines also compile other sources;
//	(4) parses it once and compiles THE SAME TREE twice (compile.VerifCompileAst, hook H3):
//	    ast.Dump of the tree before/after and the two code objects must agree with (1).
//
// V = "deterministic", or "NONDET <phase>: <where the dumps differ>".
// R = the shape summary the Lean model predicts for generated programs: per code object (pre-order)
//
//	name[varnames|cellvars|freevars|names|consts|name-, const-, closure- and make-instructions]
//
// With the argument `conc` only (1) and (3) run (used by the -race build, where a race report of
// the Go race detector is the observation).
import (
	"encoding/hex"
	"encoding/json"
	"fmt"
	"math"
	"math/big"
	"os"
	"path/filepath"
	"sort"
	"strconv"
	"strings"
	"sync"

	"github.com/go-python/gpython/ast"
	"github.com/go-python/gpython/compile"
	"github.com/go-python/gpython/parser"
	"github.com/go-python/gpython/py"
	"github.com/go-python/gpython/vm"
)

type c18Stats struct {
	Cases         int `json:"cases"`
	Sources       int `json:"sources"`
	Compilations  int `json:"compilations"`
	Concurrent    int `json:"concurrent_compilations"`
	Interleaved   int `json:"interleaved_other_compilations"`
	SameTreeTwice int `json:"same_tree_compiled_twice"`
	CodeObjects   int `json:"code_objects_in_reference_dumps"`
	Errors        int `json:"sources_rejected_deterministically"`
	Files         int `json:"repository_py_files"`
	MaxCellFree   int `json:"max_cell_plus_free_names_in_one_code_object"`
	MultiCellFree int `json:"code_objects_with_2_or_more_cell_or_free_names"`
	Nondet        int `json:"nondeterministic_sources"`
}

var c18St c18Stats
var c18StMu sync.Mutex

func c18Const(b *strings.Builder, o py.Object, depth int) {
	switch x := o.(type) {
	case nil:
		b.WriteString("<nil>")
	case py.NoneType:
		b.WriteString("None")
	case py.Bool:
		if x {
			b.WriteString("True")
		} else {
			b.WriteString("False")
		}
	case py.Int:
		fmt.Fprintf(b, "i:%d", int64(x))
	case *py.BigInt:
		fmt.Fprintf(b, "I:%s", (*big.Int)(x).String())
	case py.Float:
		fmt.Fprintf(b, "f:%016x", math.Float64bits(float64(x)))
	case py.Complex:
		fmt.Fprintf(b, "c:%016x:%016x", math.Float64bits(real(complex128(x))), math.Float64bits(imag(complex128(x))))
	case py.String:
		fmt.Fprintf(b, "s:%q", string(x))
	case py.Bytes:
		fmt.Fprintf(b, "b:%s", hex.EncodeToString([]byte(x)))
	case py.Tuple:
		b.WriteString("(")
		for i, e := range x {
			if i > 0 {
				b.WriteString(",")
			}
			c18Const(b, e, depth+1)
		}
		b.WriteString(")")
	case *py.Code:
		c18Deep(b, x, depth+1)
	default:
		if o == py.Ellipsis {
			b.WriteString("Ellipsis")
			return
		}
		// no other type is expected among constants; name the type (no addresses)
		fmt.Fprintf(b, "?%T", o)
	}
}

func c18Strs(ss []string) string {
	q := make([]string, len(ss))
	for i, s := range ss {
		q[i] = strconv.Quote(s)
	}
	return "[" + strings.Join(q, ",") + "]"
}

// c18Deep: the deep structural dump
func c18Deep(b *strings.Builder, c *py.Code, depth int) {
	if depth > 200 {
		b.WriteString("<too deep>")
		return
	}
	fmt.Fprintf(b, "code{name=%q;file=%q;first=%d;argc=%d;kwonly=%d;nlocals=%d;stack=%d;flags=%#x;code=%s;lnotab=%s;names=%s;varnames=%s;free=%s;cell=%s;cell2arg=%s;consts=[",
		c.Name, c.Filename, c.Firstlineno, c.Argcount, c.Kwonlyargcount, c.Nlocals, c.Stacksize, c.Flags,
		hex.EncodeToString([]byte(c.Code)), hex.EncodeToString([]byte(c.Lnotab)),
		c18Strs(c.Names), c18Strs(c.Varnames), c18Strs(c.Freevars), c18Strs(c.Cellvars), hex.EncodeToString(c.Cell2arg))
	for i, k := range c.Consts {
		if i > 0 {
			b.WriteString(",")
		}
		c18Const(b, k, depth)
	}
	b.WriteString("]}")
}

var c18ShapeOps = map[vm.OpCode]string{
	vm.LOAD_CONST: "K", vm.LOAD_NAME: "LN", vm.STORE_NAME: "SN", vm.DELETE_NAME: "DN",
	vm.LOAD_GLOBAL: "LG", vm.STORE_GLOBAL: "SG", vm.DELETE_GLOBAL: "DG",
	vm.LOAD_FAST: "LF", vm.STORE_FAST: "SF", vm.DELETE_FAST: "DF",
	vm.LOAD_DEREF: "LD", vm.STORE_DEREF: "SD", vm.DELETE_DEREF: "DD", vm.LOAD_CLASSDEREF: "LCD",
	vm.LOAD_CLOSURE: "LC", vm.MAKE_FUNCTION: "MF", vm.MAKE_CLOSURE: "MC",
}

// c18Shape: the summary the Lean model predicts
func c18Shape(b *strings.Builder, c *py.Code, st *c18Stats) {
	st.CodeObjects++
	cf := len(c.Cellvars) + len(c.Freevars)
	if cf > st.MaxCellFree {
		st.MaxCellFree = cf
	}
	if cf >= 2 {
		st.MultiCellFree++
	}
	b.WriteString(c.Name)
	b.WriteString("[")
	b.WriteString(strings.Join(c.Varnames, ","))
	b.WriteString("|")
	b.WriteString(strings.Join(c.Cellvars, ","))
	b.WriteString("|")
	b.WriteString(strings.Join(c.Freevars, ","))
	b.WriteString("|")
	b.WriteString(strings.Join(c.Names, ","))
	b.WriteString("|")
	for i, k := range c.Consts {
		if i > 0 {
			b.WriteString(",")
		}
		switch x := k.(type) {
		case py.NoneType:
			b.WriteString("N")
		case py.Int:
			fmt.Fprintf(b, "I%d", int64(x))
		case py.String:
			b.WriteString("S" + string(x))
		case *py.Code:
			b.WriteString("C")
		default:
			fmt.Fprintf(b, "?%T", k)
		}
	}
	b.WriteString("|")
	code := []byte(c.Code)
	ext := 0
	first := true
	for pc := 0; pc < len(code); {
		op := vm.OpCode(code[pc])
		pc++
		arg := 0
		if op.HAS_ARG() {
			if pc+1 >= len(code) {
				b.WriteString(" TRUNCATED")
				break
			}
			arg = int(code[pc]) | int(code[pc+1])<<8 | ext
			pc += 2
			ext = 0
			if op == vm.EXTENDED_ARG {
				ext = arg << 16
				continue
			}
		}
		if m, ok := c18ShapeOps[op]; ok {
			if !first {
				b.WriteString(" ")
			}
			first = false
			fmt.Fprintf(b, "%s%d", m, arg)
		}
	}
	b.WriteString("]")
	for _, k := range c.Consts {
		if child, ok := k.(*py.Code); ok {
			b.WriteString(" ")
			c18Shape(b, child, st)
		}
	}
}

func c18ErrText(err error) string {
	msg := ""
	switch e := err.(type) {
	case *py.Exception:
		msg = fmt.Sprint(e.Args)
	case py.ExceptionInfo:
		if ex, ok := e.Value.(*py.Exception); ok {
			msg = fmt.Sprint(ex.Args)
		}
		if ex, ok := e.Value.(*py.Exception); ok && ex.Dict != nil {
			// SyntaxError position attributes
			keys := make([]string, 0, len(ex.Dict))
			for k := range ex.Dict {
				keys = append(keys, k)
			}
			sort.Strings(keys)
			for _, k := range keys {
				msg += fmt.Sprintf(";%s=%v", k, ex.Dict[k])
			}
		}
	case *py.ExceptionInfo:
		if ex, ok := e.Value.(*py.Exception); ok {
			msg = fmt.Sprint(ex.Args)
		}
	default:
		msg = err.Error()
	}
	msg = strings.ReplaceAll(strings.ReplaceAll(msg, "\n", "\\n"), "\t", " ")
	return errClass(err) + ":" + msg
}

// one compilation, fully dumped
func c18Compile(src, filename string, mode py.CompileMode) (dump string, code *py.Code) {
	var out string
	func() {
		defer func() {
			if r := recover(); r != nil {
				out = "PANIC:" + strings.ReplaceAll(fmt.Sprint(r), "\n", " ")
			}
		}()
		c, err := compile.Compile(src, filename, mode, 0, true)
		if err != nil {
			out = c18ErrText(err)
			return
		}
		var b strings.Builder
		c18Deep(&b, c, 0)
		out = b.String()
		code = c
	}()
	return out, code
}

// a compilation "in between": result not looked at
func c18Other(src string) {
	defer func() { _ = recover() }()
	_, _ = compile.Compile(src, "<other>", py.ExecMode, 0, true)
}

func c18Diff(a, b string) string {
	i := 0
	for i < len(a) && i < len(b) && a[i] == b[i] {
		i++
	}
	lo := i - 60
	if lo < 0 {
		lo = 0
	}
	cut := func(s string) string {
		hi := i + 60
		if hi > len(s) {
			hi = len(s)
		}
		if lo > len(s) {
			return ""
		}
		return s[lo:hi]
	}
	clean := func(s string) string {
		return strings.ReplaceAll(strings.ReplaceAll(s, "\t", " "), "\n", " ")
	}
	return fmt.Sprintf("at byte %d: «%s» vs «%s»", i, clean(cut(a)), clean(cut(b)))
}

// sources compiled "in between": they have many names, constants, cells and scopes of their own
var c18Noise = []string{
	"def f(a, b=1, *c, d=2, **e):\n    x = a\n    def g():\n        nonlocal x\n        return x + b + zz\n    return g\nclass K:\n    m = 1\n    def h(self):\n        return __class__\n",
	"import os, sys as s\nfrom m import (p, q as r)\nq = [i*j for i in range(3) for j in range(i) if i]\nw = {k: v for k, v in ()}\n",
	"def outer():\n    a = b = c = d = 1\n    def i1():\n        return a, b\n    def i2():\n        return c, d, a\n    return i1, i2\n",
	"x = 1.5; y = 'str'; z = b'by'; t = (1, 2.0, 'three', None, True, ...)\ntry:\n    pass\nexcept E as e:\n    pass\nfinally:\n    x += 1\n",
	"global_a = 1\ndef f():\n    global global_a\n    global_a += 1\n    a, *b = 1, 2, 3\n    with o as p, q as r:\n        yield p\n",
}

type c18Ring struct {
	buf []string
	pos int
}

func (r *c18Ring) add(s string) {
	if len(s) > 20000 {
		return
	}
	if len(r.buf) < 8 {
		r.buf = append(r.buf, s)
	} else {
		r.buf[r.pos%8] = s
	}
	r.pos++
}

func (r *c18Ring) pick(i int) string {
	n := len(c18Noise) + len(r.buf)
	j := i % n
	if j < len(c18Noise) {
		return c18Noise[j]
	}
	return r.buf[j-len(c18Noise)]
}

type c18Cfg struct {
	seq, gor, per int
	concOnly      bool
	ring          c18Ring
}

// c18Check runs phases (1)-(4) on one source
func (cfg *c18Cfg) check(src, filename string, mode py.CompileMode, st *c18Stats) (v string, ref *py.Code) {
	st.Sources++
	base, code := c18Compile(src, filename, mode)
	st.Compilations++
	if code == nil {
		st.Errors++
	}
	if strings.HasPrefix(base, "PANIC:") {
		return "NONDET reference: compile panicked: " + base, nil
	}
	if !cfg.concOnly {
		// (2) sequential, every second one interleaved with another compilation
		for i := 0; i < cfg.seq; i++ {
			if i%2 == 1 {
				other := cfg.ring.pick(i / 2)
				c18Other(other)
				st.Interleaved++
			}
			d, _ := c18Compile(src, filename, mode)
			st.Compilations++
			if d != base {
				return fmt.Sprintf("NONDET sequential run %d: %s", i+1, c18Diff(base, d)), code
			}
		}
	}
	// (3) concurrent
	var wg sync.WaitGroup
	res := make([]string, cfg.gor)
	for g := 0; g < cfg.gor; g++ {
		wg.Add(1)
		go func(g int) {
			defer wg.Done()
			for k := 0; k < cfg.per; k++ {
				if (g+k)%2 == 0 {
					c18Other(cfg.ring.pick(g + k))
				}
				d, _ := c18Compile(src, filename, mode)
				if d != base && res[g] == "" {
					res[g] = fmt.Sprintf("NONDET concurrent goroutine %d run %d: %s", g, k+1, c18Diff(base, d))
				}
			}
		}(g)
	}
	wg.Wait()
	st.Compilations += cfg.gor * cfg.per
	st.Concurrent += cfg.gor * cfg.per
	st.Interleaved += cfg.gor * cfg.per / 2
	for _, r := range res {
		if r != "" {
			return r, code
		}
	}
	if !cfg.concOnly {
		// (4) the same parsed tree compiled twice
		if r := c18SameTree(src, filename, mode, base, st); r != "" {
			return r, code
		}
	}
	return "deterministic", code
}

func c18SameTree(src, filename string, mode py.CompileMode, base string, st *c18Stats) (out string) {
	defer func() {
		if r := recover(); r != nil {
			out = "NONDET same-tree: panic " + strings.ReplaceAll(fmt.Sprint(r), "\n", " ")
		}
	}()
	tree, err := parser.Parse(strings.NewReader(src), filename, mode)
	if err != nil {
		// a source the parser rejects has no tree; the error itself was compared in (1)-(3)
		return ""
	}
	d0 := ast.Dump(tree)
	one := func() string {
		c, err := compile.VerifCompileAst(tree, filename, 0, true)
		if err != nil {
			return c18ErrText(err)
		}
		var b strings.Builder
		c18Deep(&b, c, 0)
		return b.String()
	}
	c1 := one()
	d1 := ast.Dump(tree)
	c2 := one()
	d2 := ast.Dump(tree)
	st.SameTreeTwice++
	st.Compilations += 2
	if c1 != base {
		return "NONDET same-tree: first compilation of the parsed tree differs from Compile(src): " + c18Diff(base, c1)
	}
	if c2 != c1 {
		return "NONDET same-tree: second compilation of the SAME tree differs (the compiler mutated its input): " + c18Diff(c1, c2)
	}
	if d1 != d0 || d2 != d0 {
		dd := d1
		if d1 == d0 {
			dd = d2
		}
		return "NONDET same-tree: ast.Dump of the tree changed by compiling it: " + c18Diff(d0, dd)
	}
	return ""
}

func c18Files(root string) []string {
	var files []string
	_ = filepath.Walk(root, func(path string, fi os.FileInfo, err error) error {
		if err != nil {
			return nil
		}
		if fi.IsDir() {
			if strings.HasPrefix(fi.Name(), ".") && path != root {
				return filepath.SkipDir
			}
			return nil
		}
		if strings.HasSuffix(path, ".py") {
			files = append(files, path)
		}
		return nil
	})
	sort.Strings(files)
	return files
}

func init() {
	handlers["C18"] = func(args []string) handler {
		cfg := &c18Cfg{seq: 64, gor: 16, per: 4}
		for _, a := range args {
			switch {
			case a == "conc":
				cfg.concOnly = true
			case strings.HasPrefix(a, "seq="):
				cfg.seq, _ = strconv.Atoi(a[4:])
			case strings.HasPrefix(a, "gor="):
				cfg.gor, _ = strconv.Atoi(a[4:])
			case strings.HasPrefix(a, "per="):
				cfg.per, _ = strconv.Atoi(a[4:])
			}
		}
		repo := os.Getenv("VERIF_REPO")
		if repo == "" {
			repo = "/repo"
		}
		statsPath := os.Getenv("C18_STATS")
		flush := func() {
			if statsPath == "" {
				return
			}
			c18StMu.Lock()
			defer c18StMu.Unlock()
			data, _ := json.Marshal(c18St)
			_ = os.WriteFile(fmt.Sprintf("%s.%d.json", statsPath, os.Getpid()), data, 0o644)
		}
		return func(line string) (string, string) {
			defer flush()
			c18St.Cases++
			if len(line) < 2 || line[1] != ' ' {
				return "BAD-INPUT", "-"
			}
			body := line[2:]
			switch line[0] {
			case 'P', 'E', 'S':
				mode := map[byte]py.CompileMode{'P': py.ExecMode, 'E': py.EvalMode, 'S': py.SingleMode}[line[0]]
				src := strings.ReplaceAll(body, `\n`, "\n")
				if line[0] != 'E' && !strings.HasSuffix(src, "\n") {
					src += "\n"
				}
				v, code := cfg.check(src, "<c18>", mode, &c18St)
				cfg.ring.add(src)
				if v != "deterministic" {
					c18St.Nondet++
				}
				r := "-"
				if code != nil {
					var b strings.Builder
					var dummy c18Stats
					c18Shape(&b, code, &dummy)
					c18St.CodeObjects += dummy.CodeObjects
					c18St.MultiCellFree += dummy.MultiCellFree
					if dummy.MaxCellFree > c18St.MaxCellFree {
						c18St.MaxCellFree = dummy.MaxCellFree
					}
					r = b.String()
				}
				return v, r
			case 'F':
				var k, n int
				if _, err := fmt.Sscanf(body, "%d %d", &k, &n); err != nil || n <= 0 {
					return "BAD-INPUT", "-"
				}
				files := c18Files(repo)
				if len(files) == 0 {
					return "NO-PY-FILES-UNDER " + repo, "-"
				}
				cnt := 0
				var bad []string
				for i, f := range files {
					if i%n != k {
						continue
					}
					data, err := os.ReadFile(f)
					if err != nil {
						continue
					}
					rel, _ := filepath.Rel(repo, f)
					cnt++
					c18St.Files++
					src := string(data)
					v, code := cfg.check(src, rel, py.ExecMode, &c18St)
					if code != nil {
						var b strings.Builder
						var dummy c18Stats
						c18Shape(&b, code, &dummy)
						c18St.CodeObjects += dummy.CodeObjects
						c18St.MultiCellFree += dummy.MultiCellFree
						if dummy.MaxCellFree > c18St.MaxCellFree {
							c18St.MaxCellFree = dummy.MaxCellFree
						}
					}
					cfg.ring.add(src)
					if v != "deterministic" {
						c18St.Nondet++
						bad = append(bad, rel+": "+v)
					}
				}
				if len(bad) > 0 {
					return strings.Join(bad, " || "), fmt.Sprintf("files=%d", cnt)
				}
				return "deterministic", fmt.Sprintf("files=%d", cnt)
			}
			return "BAD-INPUT", "-"
		}
	}
}
