package main

// C19 harness: one input line = one module graph (see lean/GPy/C19/Gen.lean).  The files are
// written into a fresh directory below the work directory given as first argument, the Go
// modules g0/g1 are (re-)registered with py.RegisterModule, the scripts run one after the
// other through py.RunFile in ONE fresh context whose sys.path is [root/d0, root/d1]; the
// builtins `ev(tag, globals())` and `ex(globals(), exc)` installed into that context record
// the execution log in the canonical text form of GPy.C19.renderRun.

import (
	"fmt"
	"os"
	"path/filepath"
	"reflect"
	"runtime"
	"sort"
	"strconv"
	"strings"

	"github.com/go-python/gpython/py"
	_ "github.com/go-python/gpython/stdlib"
)

type c19Run struct {
	ctx   py.Context
	root  string
	seen  map[uintptr]int
	keep  []py.StringDict // keeps every numbered namespace alive, so that no address is reused
	parts []string
}

func dictPtr(d py.StringDict) uintptr { return reflect.ValueOf(d).Pointer() }

func c19Hidden(k string) bool { return k == "__name__" || k == "__doc__" || k == "__package__" }

func (r *c19Run) modRef(g py.StringDict) string {
	name := "?"
	if s, ok := g["__name__"].(py.String); ok {
		name = string(s)
	}
	flag := "!"
	if m, err := r.ctx.GetModule(name); err == nil && dictPtr(m.Globals) == dictPtr(g) {
		flag = "="
	}
	p := dictPtr(g)
	n, ok := r.seen[p]
	if !ok {
		n = len(r.seen)
		r.seen[p] = n
		r.keep = append(r.keep, g)
	}
	return fmt.Sprintf("M%d:%s:%s", n, name, flag)
}

func (r *c19Run) shallow(v py.Object) string {
	switch x := v.(type) {
	case nil:
		return "NIL"
	case py.Int:
		return strconv.FormatInt(int64(x), 10)
	case *py.Module:
		return r.modRef(x.Globals)
	case *py.List:
		ss := []string{}
		for _, it := range x.Items {
			if s, ok := it.(py.String); ok {
				ss = append(ss, string(s))
			} else {
				ss = append(ss, "?")
			}
		}
		return "[" + strings.Join(ss, ",") + "]"
	case py.String:
		s := string(x)
		if strings.HasPrefix(s, r.root+"/") {
			s = s[len(r.root)+1:]
		}
		return "'" + s + "'"
	case py.NoneType:
		return "None"
	case *py.Method:
		return "fn"
	}
	return fmt.Sprintf("?%T", v)
}

func (r *c19Run) deep(v py.Object) string {
	if m, ok := v.(*py.Module); ok {
		ref := r.modRef(m.Globals)
		return ref + r.entries(m.Globals, r.shallow)
	}
	return r.shallow(v)
}

func (r *c19Run) entries(g py.StringDict, f func(py.Object) string) string {
	keys := []string{}
	for k := range g {
		if !c19Hidden(k) {
			keys = append(keys, k)
		}
	}
	sort.Strings(keys)
	parts := []string{}
	for _, k := range keys {
		parts = append(parts, k+"="+f(g[k]))
	}
	return "{" + strings.Join(parts, ",") + "}"
}

func c19Unescape(s string) string { return strings.ReplaceAll(s, "\\n", "\n") }

func c19GoModule(f []string) *py.ModuleImpl {
	impl := &py.ModuleImpl{Info: py.ModuleInfo{Name: f[1]}, Globals: py.StringDict{}}
	if f[2] != "" {
		for _, kv := range strings.Split(f[2], ",") {
			p := strings.SplitN(kv, "=", 2)
			n, _ := strconv.ParseInt(p[1], 10, 64)
			impl.Globals[p[0]] = py.Int(n)
		}
	}
	if f[3] != "" {
		for _, m := range strings.Split(f[3], ",") {
			impl.Methods = append(impl.Methods, py.MustNewMethod(m, func(self py.Object, args py.Tuple) (py.Object, error) {
				return py.None, nil
			}, 0, ""))
		}
	}
	if f[4] != "-" {
		impl.CodeSrc = c19Unescape(f[4])
	}
	return impl
}

var c19Candidates = []string{"__main__", "bad", "g0", "g1", "m0", "m1", "m2", "m3", "m4", "m5", "nosuch"}

// c19NewRun installs the logging builtins ev / ex into the context's own builtins module
func c19NewRun(ctx py.Context, root string) *c19Run {
	r := &c19Run{ctx: ctx, root: root, seen: map[uintptr]int{}}
	bi := ctx.Store().Builtins.Globals
	bi["ev"] = py.MustNewMethod("ev", func(self py.Object, args py.Tuple) (py.Object, error) {
		tag, g := args[0].(py.Int), args[1].(py.StringDict)
		ref := r.modRef(g)
		r.parts = append(r.parts, fmt.Sprintf("L%d@%s%s", int64(tag), ref, r.entries(g, r.deep)))
		return py.None, nil
	}, 0, "")
	bi["ex"] = py.MustNewMethod("ex", func(self py.Object, args py.Tuple) (py.Object, error) {
		g := args[0].(py.StringDict)
		name, _ := g["__name__"].(py.String)
		cls := "?"
		if e, ok := args[1].(*py.Exception); ok {
			cls = e.Type().Name
		}
		r.parts = append(r.parts, fmt.Sprintf("C@%s:%s", string(name), cls))
		return py.None, nil
	}, 0, "")
	return r
}

func c19Case(work string, line string) (string, string) {
	sp := strings.IndexByte(line, ' ')
	if sp < 0 {
		panic("bad case line")
	}
	if line[0] == 'H' || line[0] == 'M' {
		return c19Dyn(work, line[sp+1:])
	}
	// the directory tree root/{d0,d1,s} is private to this process (created once, empty between
	// cases): every file a case writes is removed again when the case ends
	root := work
	written := []string{}
	defer func() {
		for _, p := range written {
			os.Remove(p)
		}
	}()
	write := func(rel string, data string) {
		p := filepath.Join(root, rel)
		if err := os.WriteFile(p, []byte(data), 0o644); err != nil {
			panic(err)
		}
		written = append(written, p)
	}
	scripts := []string{}
	goSeen := map[string]bool{}
	for _, sec := range strings.Split(line[sp+1:], "|") {
		f := strings.Split(sec, ";")
		switch f[0] {
		case "G":
			py.RegisterModule(c19GoModule(f))
			goSeen[f[1]] = true
		case "F":
			write(f[1], c19Unescape(f[2]))
		case "X":
			write(f[1], "def (:\n")
		case "S":
			scripts = append(scripts, c19Unescape(f[1]))
		default:
			panic("bad section " + sec)
		}
	}
	if !goSeen["g0"] || !goSeen["g1"] {
		panic("every case must define the Go modules g0 and g1 (registrations are process-wide)")
	}
	ctx := py.NewContext(py.ContextOpts{SysArgs: []string{"c19"}, SysPaths: []string{filepath.Join(root, "d0"), filepath.Join(root, "d1")}})
	defer ctx.Close()
	r := c19NewRun(ctx, root)
	results := []string{}
	for i, src := range scripts {
		p := filepath.Join(root, "s", fmt.Sprintf("s%d.py", i))
		write(filepath.Join("s", fmt.Sprintf("s%d.py", i)), src)
		_, err := py.RunFile(ctx, p, py.CompileOpts{}, nil)
		if err != nil {
			results = append(results, errClass(err))
		} else {
			results = append(results, "ok")
		}
	}
	// final store
	storeVals := py.StringDict{}
	for _, n := range c19Candidates {
		if m, err := ctx.GetModule(n); err == nil {
			storeVals[n] = m
		}
	}
	out := strings.Join(r.parts, ";") + ";R:" + strings.Join(results, ",") + ";S" + r.entries(storeVals, r.deep)
	return out, ""
}

func init() {
	handlers["C19"] = func(args []string) handler {
		work := os.TempDir()
		if len(args) > 0 {
			work = args[0]
		}
		// the check shards cases over one process per core: keep each process to a few threads
		runtime.GOMAXPROCS(4)
		// one fresh directory tree per harness process (removed by the check when the run ends)
		if err := os.MkdirAll(work, 0o755); err != nil {
			panic(err)
		}
		work, err := os.MkdirTemp(work, fmt.Sprintf("p%d-", os.Getpid()))
		if err != nil {
			panic(err)
		}
		for _, d := range []string{"d0", "d1", "s", "cw"} {
			if err := os.Mkdir(filepath.Join(work, d), 0o755); err != nil {
				panic(err)
			}
		}
		// the working directory of the process is <root>/cw: what a relative sys.path entry falls back to
		if err := os.Chdir(filepath.Join(work, "cw")); err != nil {
			panic(err)
		}
		return func(line string) (string, string) { return c19Case(work, line) }
	}
}

// ---- histories (families H, M, HR): steps executed in order on one or two live contexts ----

func c19Ent(root, e string) string {
	switch e {
	case ".":
		return "'.'"
	case "#":
		return "7"
	}
	return strconv.Quote(filepath.Join(root, e))
}

func c19EntList(root, l string) string {
	if l == "" {
		return "[]"
	}
	parts := []string{}
	for _, e := range strings.Split(l, ",") {
		parts = append(parts, c19Ent(root, e))
	}
	return "[" + strings.Join(parts, ", ") + "]"
}

// c19Exec runs a statement in the context without creating a module (scratch globals)
func c19Exec(ctx py.Context, src string) error {
	code, err := py.Compile(src, "<pathop>", py.ExecMode, 0, true)
	if err != nil {
		return err
	}
	g := py.StringDict{}
	_, err = ctx.RunCode(code, g, g, nil)
	return err
}

func (r *c19Run) renderPath() string {
	out := []string{}
	l, ok := r.ctx.Store().MustGetModule("sys").Globals["path"].(*py.List)
	if !ok {
		return "P?"
	}
	for _, it := range l.Items {
		s, ok := it.(py.String)
		switch {
		case !ok:
			out = append(out, "#")
		case string(s) == ".":
			out = append(out, ".")
		case strings.HasPrefix(string(s), r.root+"/"):
			out = append(out, string(s)[len(r.root)+1:])
		default:
			out = append(out, "?"+string(s))
		}
	}
	return "P[" + strings.Join(out, ",") + "]"
}

func c19Dyn(root string, body string) (string, string) {
	written := map[string]bool{}
	defer func() {
		for p := range written {
			os.Remove(p)
		}
	}()
	write := func(rel string, data string) {
		p := filepath.Join(root, rel)
		if err := os.WriteFile(p, []byte(data), 0o644); err != nil {
			panic(err)
		}
		written[p] = true
	}
	secs := strings.Split(body, "|")
	goSeen := map[string]bool{}
	initial := []string{}
	k := 0
	for ; k < len(secs); k++ {
		f := strings.Split(secs[k], ";")
		done := false
		switch f[0] {
		case "G":
			py.RegisterModule(c19GoModule(f))
			goSeen[f[1]] = true
		case "I":
			initial = append(initial, f[2])
		case "F":
			write(f[1], c19Unescape(f[2]))
		case "X":
			write(f[1], "def (:\n")
		default:
			done = true
		}
		if done {
			break
		}
	}
	if !goSeen["g0"] || !goSeen["g1"] {
		panic("every case must define the Go modules g0 and g1 (registrations are process-wide)")
	}
	runs := []*c19Run{}
	results := [][]string{}
	for _, p := range initial {
		ctx := py.NewContext(py.ContextOpts{SysArgs: []string{"c19"}, SysPaths: []string{}})
		defer ctx.Close()
		if err := c19Exec(ctx, "import sys\nsys.path = "+c19EntList(root, p)+"\n"); err != nil {
			panic(err)
		}
		runs = append(runs, c19NewRun(ctx, root))
		results = append(results, []string{})
	}
	note := func(c int, err error) {
		if err != nil {
			results[c] = append(results[c], errClass(err))
		} else {
			results[c] = append(results[c], "ok")
		}
	}
	for i := 0; k+i < len(secs); i++ {
		f := strings.Split(secs[k+i], ";")
		switch f[0] {
		case "P":
			c, _ := strconv.Atoi(f[1])
			src := ""
			switch f[2] {
			case "append":
				src = "sys.path.append(" + c19Ent(root, f[3]) + ")"
			case "insert":
				src = "sys.path.insert(" + f[3] + ", " + c19Ent(root, f[4]) + ")"
			case "remove":
				src = "sys.path.remove(" + c19Ent(root, f[3]) + ")"
			case "clear":
				src = "sys.path.clear()"
			case "rebind":
				src = "sys.path = " + c19EntList(root, f[3])
			default:
				panic("bad path op " + secs[k+i])
			}
			note(c, c19Exec(runs[c].ctx, "import sys\n"+src+"\n"))
		case "W":
			write(f[1], c19Unescape(f[2]))
		case "WX":
			write(f[1], "def (:\n")
		case "D":
			os.Remove(filepath.Join(root, f[1]))
		case "R":
			c, _ := strconv.Atoi(f[1])
			rel := filepath.Join(f[2], fmt.Sprintf("s%d.py", i))
			p := filepath.Join(root, rel)
			write(rel, c19Unescape(f[3]))
			_, err := py.RunFile(runs[c].ctx, p, py.CompileOpts{}, nil)
			// the script file is not a module of the scenario
			os.Remove(p)
			note(c, err)
		default:
			panic("bad step " + secs[k+i])
		}
	}
	outs := []string{}
	for c, r := range runs {
		storeVals := py.StringDict{}
		for _, n := range c19Candidates {
			if m, err := r.ctx.GetModule(n); err == nil {
				storeVals[n] = m
			}
		}
		outs = append(outs, strings.Join(r.parts, ";")+";R:;S"+r.entries(storeVals, r.deep)+";O:"+strings.Join(results[c], ",")+";"+r.renderPath())
	}
	return strings.Join(outs, " || "), ""
}
