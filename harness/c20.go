package main

// C20: drive the real repl.REPL line by line through a recording repl.UI.
//
// Input forms (one per line):
//   S <session>   session = physical lines, each terminated by the escape `\n`; the zero-width
//                 escape `\s` closes one program item (statement / blank / comment).  Escapes:
//                 `\\` backslash, `\n` end of line, `\t` tab, `\s` end of item.
//   O <text>      classify py.Compile(text, "<stdin>", single) – the oracle of the Lean model:
//                 V = ok | inc (REPL would ask for more input) | syn (reported syntax error)
//
// V of a session: one record per physical line `prompt outs ns`, then `P:` the same statements
// executed in one piece each (py.Compile of the whole item text + RunCode in one module), then
// `F:` the whole program executed as a file (exec mode) – final namespace or E.
// R of a session: the REPL's unexported state after each line (continuation flag, len(previous)).

import (
	"bufio"
	"fmt"
	"os"
	"reflect"
	"sort"
	"strings"

	"github.com/go-python/gpython/py"
	"github.com/go-python/gpython/repl"
	_ "github.com/go-python/gpython/stdlib"
	"github.com/go-python/gpython/vm"
)

type c20UI struct {
	prompt string
	outs   []string
}

func (u *c20UI) SetPrompt(p string) { u.prompt = p }
func (u *c20UI) Print(s string)     { u.outs = append(u.outs, s) }

// stderr capture: os.Stderr is replaced by a pipe drained by a goroutine; `c20Flush` writes a
// sentinel and waits until it has been read, returning everything written before it.
const c20Sentinel = "\x00C20-END\x00\n"

var (
	c20ErrW    *os.File
	c20ErrCh   chan string
	c20RealErr *os.File
)

func c20InitCapture() {
	if c20ErrW != nil {
		return
	}
	r, w, err := os.Pipe()
	if err != nil {
		panic(err)
	}
	c20RealErr = os.Stderr
	c20ErrW = w
	c20ErrCh = make(chan string)
	os.Stderr = w
	go func() {
		br := bufio.NewReader(r)
		var sb strings.Builder
		for {
			line, err := br.ReadString('\n')
			if line == c20Sentinel {
				c20ErrCh <- sb.String()
				sb.Reset()
			} else {
				sb.WriteString(line)
			}
			if err != nil {
				return
			}
		}
	}()
}

func c20Flush() string {
	_, _ = c20ErrW.WriteString(c20Sentinel)
	return <-c20ErrCh
}

// class of the exception reported by a traceback dump (last non-empty line `Class: args`)
func c20TracebackClass(text string) string {
	lines := strings.Split(strings.TrimRight(text, "\n"), "\n")
	last := lines[len(lines)-1]
	if i := strings.IndexAny(last, ":("); i >= 0 {
		last = last[:i]
	}
	return strings.TrimSpace(last)
}

func c20Unescape(s string) (lines []string, items []string) {
	var cur, item strings.Builder
	for i := 0; i < len(s); i++ {
		c := s[i]
		if c != '\\' {
			cur.WriteByte(c)
			continue
		}
		i++
		if i >= len(s) {
			panic("bad escape")
		}
		switch s[i] {
		case '\\':
			cur.WriteByte('\\')
		case 't':
			cur.WriteByte('\t')
		case 'n':
			lines = append(lines, cur.String())
			item.WriteString(cur.String())
			item.WriteByte('\n')
			cur.Reset()
		case 's':
			items = append(items, item.String())
			item.Reset()
		default:
			panic("bad escape")
		}
	}
	if cur.Len() > 0 {
		panic("unterminated line")
	}
	if item.Len() > 0 {
		items = append(items, item.String())
	}
	return
}

func c20Repr(o py.Object) string {
	switch x := o.(type) {
	case *py.Function:
		return "<fn " + x.Name + ">"
	}
	r, err := py.ReprAsString(o)
	if err != nil {
		return "<repr failed>"
	}
	return r
}

// canonical namespace digest: user globals sorted by name
func c20NS(g py.StringDict, dropUnderscore bool) string {
	var ks []string
	for k := range g {
		if strings.HasPrefix(k, "__") {
			continue
		}
		if dropUnderscore && k == "_" {
			continue
		}
		ks = append(ks, k)
	}
	sort.Strings(ks)
	var sb strings.Builder
	sb.WriteByte('{')
	for i, k := range ks {
		if i > 0 {
			sb.WriteByte(',')
		}
		sb.WriteString(k)
		sb.WriteByte('=')
		sb.WriteString(c20Repr(g[k]))
	}
	sb.WriteByte('}')
	return sb.String()
}

func c20Prompt(p string) string {
	switch p {
	case repl.NormalPrompt:
		return ">"
	case repl.ContinuationPrompt:
		return "."
	}
	return "?" + p
}

// canonical output of a UI.Print call
func c20Out(s string) string {
	if strings.HasPrefix(s, "Compile error: ") {
		i := strings.LastIndex(s, "\n")
		cls := s[i+1:]
		if j := strings.Index(cls, ":"); j >= 0 {
			cls = cls[:j]
		}
		return "c:" + cls
	}
	return "o:" + s
}

func c20ErrClass(err error) string {
	switch e := err.(type) {
	case *py.Exception:
		return e.Type().Name
	case py.ExceptionInfo:
		if e.Type != nil {
			return e.Type.Name
		}
	case *py.ExceptionInfo:
		if e.Type != nil {
			return e.Type.Name
		}
	}
	return fmt.Sprintf("?%T", err)
}

func c20Classify(text string) (string, string) {
	_, err := py.Compile(text, "<stdin>", py.SingleMode, 0, true)
	if err == nil {
		return "ok", ""
	}
	msg := ""
	if exc, ok := err.(*py.Exception); ok {
		if args, ok := exc.Args.(py.Tuple); ok && len(args) > 0 {
			if s, ok := args[0].(py.String); ok {
				msg = string(s)
			}
		}
	}
	cls := c20ErrClass(err)
	if msg == "unexpected EOF while parsing" || msg == "EOF while scanning triple-quoted string literal" {
		return "inc", cls + ":" + msg
	}
	return "syn", cls + ":" + msg
}

// instruction budget of one session (hook H2): a statement the (possibly broken) REPL runs in a
// mutilated form must not hang the harness
const c20Budget = 20000

var c20Instr int

func c20Session(arg string) (string, string) {
	lines, items := c20Unescape(arg)
	c20Instr = 0
	vm.VerifInstrHook = func(frame *py.Frame, opcode vm.OpCode, a int32, pc int32) {
		c20Instr++
		if c20Instr > c20Budget {
			c20Instr = 0
			panic("C20 harness: instruction budget of the session exceeded")
		}
	}
	defer func() { vm.VerifInstrHook = nil }()
	var v, r []string

	// (1) the REPL, one physical line at a time
	ctx := py.NewContext(py.DefaultContextOpts())
	rp := repl.New(ctx)
	ui := &c20UI{}
	rp.SetUI(ui)
	rv := reflect.ValueOf(rp).Elem()
	prevNS := ""
	for _, line := range lines {
		ui.outs = nil
		err := rp.Run(line)
		errText := c20Flush()
		outs := []string{}
		for _, o := range ui.outs {
			outs = append(outs, c20Out(o))
		}
		if errText != "" {
			outs = append(outs, "r:"+c20TracebackClass(errText))
		}
		if err != nil {
			outs = append(outs, "x:"+c20ErrClass(err))
		}
		ns := c20NS(rp.Module.Globals, false)
		shown := ns
		if ns == prevNS {
			shown = "="
		}
		prevNS = ns
		v = append(v, c20Prompt(ui.prompt)+" ["+strings.Join(outs, " ")+"] "+shown)
		r = append(r, fmt.Sprintf("%v/%d", rv.FieldByName("continuation").Bool(), len(rv.FieldByName("previous").String())))
	}
	ctx.Close()

	// (2) each item executed in one piece, one persistent module
	ctx2 := py.NewContext(py.DefaultContextOpts())
	mod, err := ctx2.ModuleInit(&py.ModuleImpl{Info: py.ModuleInfo{FileDesc: "<stdin>"}})
	if err != nil {
		panic(err)
	}
	old := vm.PrintExpr
	var pouts []string
	vm.PrintExpr = func(s string) { pouts = append(pouts, "o:"+s) }
	for _, it := range items {
		if strings.TrimSpace(it) == "" || strings.TrimSpace(it)[0] == '#' {
			continue
		}
		code, err := py.Compile(it, "<stdin>", py.SingleMode, 0, true)
		if err != nil {
			pouts = append(pouts, "c:"+c20ErrClass(err))
			continue
		}
		_, err = ctx2.RunCode(code, mod.Globals, mod.Globals, nil)
		if err != nil {
			pouts = append(pouts, "r:"+c20ErrClass(err))
		}
	}
	vm.PrintExpr = old
	v = append(v, "P: ["+strings.Join(pouts, " ")+"] "+c20NS(mod.Globals, false))
	ctx2.Close()

	// (3) the whole program as a file
	ctx3 := py.NewContext(py.DefaultContextOpts())
	mod3, err := ctx3.ModuleInit(&py.ModuleImpl{Info: py.ModuleInfo{FileDesc: "<file>"}})
	if err != nil {
		panic(err)
	}
	f := "F: E"
	// nothing may be echoed when the program runs as a file: record PRINT_EXPR output instead of
	// letting it reach the harness's own stdout
	fileEchoes := 0
	vm.PrintExpr = func(s string) { fileEchoes++ }
	code, err := py.Compile(strings.Join(items, ""), "<file>", py.ExecMode, 0, true)
	if err == nil {
		_, err = ctx3.RunCode(code, mod3.Globals, mod3.Globals, nil)
		if err == nil {
			f = "F: " + c20NS(mod3.Globals, true)
		}
	}
	vm.PrintExpr = old
	if fileEchoes > 0 {
		f = fmt.Sprintf("F: ECHO(%d)", fileEchoes)
	}
	c20Flush()
	v = append(v, f)
	ctx3.Close()
	return strings.Join(v, "; "), strings.Join(r, " ")
}

func init() {
	handlers["C20"] = func(args []string) handler {
		c20InitCapture()
		return func(line string) (string, string) {
			if len(line) < 2 {
				panic("bad case")
			}
			switch line[0] {
			case 'S':
				return c20Session(line[2:])
			case 'O':
				ls, _ := c20Unescape(line[2:])
				return c20Classify(strings.Join(ls, "\n") + "\n")
			}
			panic("bad case " + line)
		}
	}
}
