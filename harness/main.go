// gpyh: correspondence harness.  `gpyh <Cxx> [args]` reads one case input per
// line on stdin and prints `V \t R` per line on stdout (V = property-level
// observable, R = representation detail compared only against the model).
package main

import (
	"bufio"
	"fmt"
	"os"
	"runtime/debug"
	"strings"
)

// handler evaluates one input line
type handler func(line string) (v string, r string)

var handlers = map[string]func(args []string) handler{}

// protoOut is the buffered protocol output; a handler's watchdog may Flush it
// before killing the process so that the results computed so far are not lost.
var protoOut *bufio.Writer

func safe(h handler, line string) (v, r string) {
	defer func() {
		if e := recover(); e != nil {
			msg := strings.ReplaceAll(fmt.Sprint(e), "\n", " ")
			msg = strings.ReplaceAll(msg, "\t", " ")
			v, r = "PANIC:"+msg, "-"
		}
	}()
	return h(line)
}

func main() {
	debug.SetGCPercent(400)
	if len(os.Args) < 2 {
		fmt.Fprintln(os.Stderr, "usage: gpyh <Cxx> [args] < cases")
		os.Exit(2)
	}
	mk, ok := handlers[os.Args[1]]
	if !ok {
		fmt.Fprintln(os.Stderr, "unknown property", os.Args[1])
		os.Exit(2)
	}
	h := mk(os.Args[2:])
	in := bufio.NewScanner(os.Stdin)
	in.Buffer(make([]byte, 1<<20), 1<<26)
	out := bufio.NewWriterSize(os.Stdout, 1<<20)
	protoOut = out
	defer out.Flush()
	for in.Scan() {
		v, r := safe(h, in.Text())
		out.WriteString(v)
		out.WriteByte('\t')
		out.WriteString(r)
		out.WriteByte('\n')
	}
}
