-- Root of the `GPy` library: imports every property-theorem module.
import GPy.C07.Props
import GPy.C15.Props
import GPy.C16.Props
import GPy.C05.Props
import GPy.C19.Props
import GPy.C03.Props
import GPy.C20.Props
import GPy.C06.Props
import GPy.C01.Props
import GPy.C04.Props
import GPy.C12.Props
import GPy.C13.Props
import GPy.C02.Props
import GPy.C14.Props
import GPy.C08.Props
import GPy.C09.Props
