/-
C01 — a concrete instance of `Prims` for the correspondence run: builtin values
(small ints, short strings, tuples, lists, str-keyed dicts, None, bools), the probe
function `ev`, the logging functions `f`, `g`, the probe containers `c1`, `c2`
(`__getitem__/__setitem__/__contains__` log) and probe objects `o1`, `o2`
(`__getattr__/__setattr__` log) of the harness prelude.

Everything here is Python's definition of the builtin operations restricted to the
part C01 may rely on (C07 proves the int part exact).  Operations whose result
this file does not want to vouch for (floats, bool arithmetic = known finding
C07-K01, tuple concatenation/ordering = C13/C17 territory, `%` formatting, `is` on
non-singletons, …) raise the pseudo exception `UNSPEC`; the generator then
emits the program as compile-only.  Core Lean only.
-/
import GPy.C01.Model
import GPy.C01.Ident
namespace GPy.C01

/-- identity of a tuple / bytes / list value: `oid` = the creation event the reference semantics
assigns (0 = unknown provenance: a literal constant), `hdr` = the Go slice header (tuple, bytes) or,
for a list, `hdr.base` = the address of the `*py.List` -/
structure Id where
  oid : Nat := 0
  hdr : Ident.Hdr := {}
deriving Inhabited

inductive Val
  | int (i : Int) | str (s : String) | none | bool (b : Bool)
  | tuple (vs : List Val) (i : Id) | list (vs : List Val) (i : Id)
  | bytes (bs : List Char) (i : Id)
  | dict (id : Nat)
  | fn (n : String) | cont (k : Nat) | obj (k : Nat)
  | slice (lo hi : Val)
  | slice3 (lo hi st : Val)
  | setv
  | code (name : String) (sg : Sig) (body : Expr)
  /-- a Python function object: name, parameters, default values, body -/
  | lam (name : String) (sg : Sig) (ds : List Val) (kds : List (String × Val)) (body : Expr)
deriving Inhabited

/-- world of the concrete runs -/
structure CW where
  log : List String := []                       -- rendered events, newest first
  vars : List (String × Val) := []
  heap : List (List (String × Val)) := []       -- dict objects (id = index from the end)
  bad : Nat := 0                                -- `ev(i, _)` raises ValueError when i = bad
  frames : List (List (String × Val)) := []     -- locals of the running function calls, innermost first
  next : Nat := 1                               -- allocation / creation-event counter

abbrev CM := M String CW

def CW.dictGet (w : CW) (id : Nat) : List (String × Val) :=
  (w.heap.reverse[id]?).getD []

def CW.dictPut (w : CW) (id : Nat) (d : List (String × Val)) : CW :=
  { w with heap := (w.heap.reverse.set id d).reverse }

def insertSorted (k : String) (v : Val) : List (String × Val) → List (String × Val)
  | [] => [(k, v)]
  | (k', v') :: r => if k == k' then (k, v) :: r else if k < k' then (k, v) :: (k', v') :: r
                     else (k', v') :: insertSorted k v r

partial def showV (w : CW) : Val → String
  | .int i => toString i
  | .str s => "'" ++ s ++ "'"
  | .none => "None"
  | .bool b => if b then "True" else "False"
  | .tuple vs _ => "(" ++ ",".intercalate (vs.map (showV w)) ++ ")"
  | .list vs _ => "[" ++ ",".intercalate (vs.map (showV w)) ++ "]"
  | .bytes bs _ => "b'" ++ String.ofList bs ++ "'"
  | .dict id => "{" ++ ",".intercalate ((w.dictGet id).map fun (k, v) =>
      (if k.startsWith "#" then (k.drop 1).toString else "'" ++ k ++ "'") ++ ":" ++ showV w v) ++ "}"
  | .fn n => "<fn " ++ n ++ ">"
  | .cont k => "<C" ++ toString k ++ ">"
  | .obj k => "<O" ++ toString k ++ ">"
  | .slice lo hi => "slice(" ++ showV w lo ++ "," ++ showV w hi ++ ")"
  | .slice3 lo hi .none => "slice(" ++ showV w lo ++ "," ++ showV w hi ++ ")"     -- as harness/c01.go prints it
  | .slice3 lo hi st => "slice(" ++ showV w lo ++ "," ++ showV w hi ++ "," ++ showV w st ++ ")"
  | .setv => "<set>"
  | .code _ _ _ => "<code>"
  | .lam n _ _ _ _ => "<fn " ++ n ++ ">"

def ok {α} (a : α) : CM α := fun w => .ok a w
def raise {α} (x : String) : CM α := fun w => .err x w
def unspec {α} : CM α := raise "UNSPEC"
/-- a tuple that is only rendered (log events): no identity -/
def tup (vs : List Val) : Val := .tuple vs default

/-- a fresh allocation number / creation event -/
def fresh : CM Nat := fun w => .ok w.next { w with next := w.next + 1 }

/-- `make(py.Tuple, n)` filled with `vs` (BUILD_TUPLE, Tuple `+` / `*`, stepped slices, the `*args` tuple) -/
def newTuple (vs : List Val) : CM Val :=
  M.bind fresh fun a => ok (.tuple vs { oid := a, hdr := Ident.Hdr.make a vs.length })
def newBytes (bs : List Char) : CM Val :=
  M.bind fresh fun a => ok (.bytes bs { oid := a, hdr := Ident.Hdr.make a bs.length })
/-- a new `*py.List` -/
def newList (vs : List Val) : CM Val :=
  M.bind fresh fun a => ok (.list vs { oid := a, hdr := { base := a } })

def logEv (v : Val) : CM Unit := fun w => .ok () { w with log := showV w v :: w.log }

def repeatList {α} (l : List α) : Nat → List α
  | 0 => []
  | n + 1 => l ++ repeatList l n

def repeatStr (s : String) : Nat → String
  | 0 => ""
  | n + 1 => s ++ repeatStr s n

def isSub (a b : List Char) : Bool :=
  (List.range (b.length + 1)).any fun i => (b.drop i).take a.length == a

/-- Python `==` on the value universe; `none` = not vouched for -/
partial def valEq : Val → Val → Option Bool
  | .int a, .int b => some (a == b)
  | .int a, .bool b => some (a == (if b then 1 else 0))
  | .bool a, .int b => some ((if a then 1 else 0) == b)
  | .bool a, .bool b => some (a == b)
  | .str a, .str b => some (a == b)
  | .none, .none => some true
  | .tuple a _, .tuple b _ => listEq a b
  | .list a _, .list b _ => listEq a b
  | .bytes a _, .bytes b _ => some (a == b)
  | .cont a, .cont b => some (a == b)
  | .obj a, .obj b => some (a == b)
  | .fn a, .fn b => some (a == b)
  | .dict _, _ => none | _, .dict _ => none
  | .setv, _ => none | _, .setv => none
  | .slice _ _, _ => none | _, .slice _ _ => none
  | .slice3 _ _ _, _ => none | _, .slice3 _ _ _ => none
  | .lam _ _ _ _ _, _ => none | _, .lam _ _ _ _ _ => none
  | .code _ _ _, _ => none | _, .code _ _ _ => none
  | _, _ => some false
where
  listEq : List Val → List Val → Option Bool
    | [], [] => some true
    | a :: as, b :: bs =>
        if as.length != bs.length then some false else
        match valEq a b with
        | some true => listEq as bs
        | r => r
    | _, _ => some false

def isBoolV : Val → Bool | .bool _ => true | _ => false

def pyBin (op : BinOp) (a b : Val) : CM Val :=
  if isBoolV a || isBoolV b then unspec else
  match op, a, b with
  | .add, .int x, .int y => ok (.int (x + y))
  | .sub, .int x, .int y => ok (.int (x - y))
  | .mul, .int x, .int y => ok (.int (x * y))
  | .floordiv, .int x, .int y => if y == 0 then raise "ZeroDivisionError" else ok (.int (Int.fdiv x y))
  | .mod, .int x, .int y => if y == 0 then raise "ZeroDivisionError" else ok (.int (Int.fmod x y))
  | .div, .int _, .int y => if y == 0 then raise "ZeroDivisionError" else unspec
  | .pow, .int x, .int y =>
      if y < 0 then unspec else if y > 12 || x > 1000 || x < -1000 then unspec
      else ok (.int (x ^ y.toNat))
  | .lshift, .int x, .int y =>
      if y < 0 then raise "ValueError" else if y > 64 then unspec else ok (.int (x * 2 ^ y.toNat))
  | .rshift, .int x, .int y =>
      if y < 0 then raise "ValueError" else if y > 64 then unspec else ok (.int (Int.fdiv x (2 ^ y.toNat)))
  | .bitand, .int x, .int y => ok (.int (iland x y))
  | .bitor, .int x, .int y => ok (.int (ilor x y))
  | .bitxor, .int x, .int y => ok (.int (ixor x y))
  | .add, .str x, .str y => ok (.str (x ++ y))
  | .mul, .str x, .int n => if n > 6 then unspec else ok (.str (repeatStr x n.toNat))
  | .mul, .int n, .str x => if n > 6 then unspec else ok (.str (repeatStr x n.toNat))
  | .mul, .tuple x _, .int n => if n > 6 then unspec else newTuple (repeatList x n.toNat)
  | .mul, .int n, .tuple x _ => if n > 6 then unspec else newTuple (repeatList x n.toNat)
  | .add, .tuple x _, .tuple y _ => newTuple (x ++ y)        -- Tuple.M__add__: make + copy, always a new tuple
  | .mul, .bytes x _, .int n => if n > 6 then unspec else newBytes (repeatList x n.toNat)
  | .mul, .int n, .bytes x _ => if n > 6 then unspec else newBytes (repeatList x n.toNat)
  | .add, .bytes x _, .bytes y _ => newBytes (x ++ y)
  | .mod, .bytes _ _, _ => unspec
  | .add, .list _ _, .list _ _ => unspec
  | .mul, .list _ _, .int _ => unspec
  | .mul, .int _, .list _ _ => unspec
  | .mod, .str _, _ => unspec                   -- % formatting
  | _, .dict _, _ => unspec | _, _, .dict _ => unspec
  | _, .setv, _ => unspec | _, _, .setv => unspec
  | _, _, _ => raise "TypeError"

def truthV (w : CW) : Val → Option Bool
  | .int i => some (i != 0)
  | .str s => some (s != "")
  | .none => some false
  | .bool b => some b
  | .tuple vs _ => some (!vs.isEmpty)
  | .list vs _ => some (!vs.isEmpty)
  | .bytes bs _ => some (!bs.isEmpty)
  | .dict id => some (!(w.dictGet id).isEmpty)
  | .setv => none
  | _ => some true

def pyTruth (v : Val) : CM Bool := fun w =>
  match truthV w v with
  | some b => .ok b w
  | none => .err "UNSPEC" w

def pyUn (op : UnOp) (a : Val) : CM Val :=
  match op, a with
  | .not, v => M.bind (pyTruth v) fun b => ok (.bool (!b))
  | _, .bool _ => unspec
  | .usub, .int x => ok (.int (-x))
  | .uadd, .int x => ok (.int x)
  | .invert, .int x => ok (.int (-x - 1))
  | _, .dict _ => unspec | _, .setv => unspec
  | _, _ => raise "TypeError"

def ofOpt (o : Option Bool) (f : Bool → Bool := id) : CM Val :=
  match o with
  | some b => ok (.bool (f b))
  | none => unspec

def containsV (x : Val) : List Val → Option Bool
  | [] => some false
  | v :: vs => match valEq x v with
    | some true => some true
    | some false => containsV x vs
    | none => none

def pyIn (x c : Val) : CM Bool :=
  match c with
  | .tuple vs _ | .list vs _ => match containsV x vs with | some b => ok b | none => unspec
  | .bytes _ _ => unspec
  | .str s => match x with
    | .str t => ok (isSub t.toList s.toList)
    | _ => raise "TypeError"
  | .cont k => M.bind (logEv (tup [.str "in", .int k, x])) fun _ => ok (k == 1)
  | .dict _ => unspec | .setv => unspec
  | _ => raise "TypeError"

/-- py.Int holds an int64; anything larger is a `*py.BigInt` (pointer identity: not modelled) -/
def fitsInt64 (i : Int) : Bool := -9223372036854775808 ≤ i && i ≤ 9223372036854775807

def fnAddr : String → Option Nat
  | "ev" => some 1 | "f" => some 2 | "g" => some 3 | "h" => some 4 | _ => none

/-- how gpython represents the value, as far as `objectIs` can see (`none`: not modelled) -/
def repOf : Val → Option Ident.Rep
  | .int i => if fitsInt64 i then some (.int i) else none
  | .str s => some (.str s) | .none => some .none | .bool b => some (.bool b)
  | .tuple _ i => some (.slice .tuple i.hdr)
  | .bytes _ i => some (.slice .bytes i.hdr)
  | .list _ i => some (.ptr .list i.hdr.base)
  | .dict id => some (.map .stringDict id)
  | .cont k => some (.ptr (.inst k) k)
  | .obj k => some (.ptr (.inst (10 + k)) k)
  | .fn n => (fnAddr n).map fun a => .ptr .func a
  | _ => none

/-- the object as the language reference sees it: creation event, type, mutability, value (rendered) -/
def pobjOf (w : CW) : Val → Option (Ident.PObj String)
  | .int i => some ⟨0, .int, false, toString i⟩
  | .str s => some ⟨0, .str, false, s⟩
  | .none => some ⟨4000001, .none, false, ""⟩                       -- the singletons None, True, False
  | .bool b => some ⟨if b then 4000002 else 4000003, .bool, false, toString b⟩
  | .tuple vs i => some ⟨i.oid, .tuple, false, showV w (.tuple vs i)⟩
  | .bytes bs i => some ⟨i.oid, .bytes, false, String.ofList bs⟩
  | .list _ i => some ⟨i.oid, .list, true, ""⟩
  | .dict id => some ⟨2000000 + id, .stringDict, true, ""⟩
  | .cont k => some ⟨3000000 + k, .inst k, true, ""⟩
  | .obj k => some ⟨3000100 + k, .inst (10 + k), true, ""⟩
  | .fn n => (fnAddr n).map fun a => ⟨3000200 + a, .func, true, ""⟩
  | _ => none

/-- `a is b`.  `strict = true` (model): vm/eval.go `objectIs` on the representations;
`strict = false` (reference): `Ident.specIs`; where the reference leaves the answer to the
implementation (two immutable objects of separate creation events with equal type and value)
the implementation's answer is taken. -/
def pyIs (strict : Bool) (a b : Val) : CM Bool := fun w =>
  match repOf a, repOf b, pobjOf w a, pobjOf w b with
  | some ra, some rb, some pa, some pb =>
      let m := Ident.objectIs ra rb
      if strict then .ok m w else .ok ((Ident.specIs pa pb).getD m) w
  | _, _, _, _ => .err "UNSPEC" w

def pyCmp (strict : Bool) (op : CmpOp) (a b : Val) : CM Val :=
  match op with
  | .eq => ofOpt (valEq a b)
  | .ne => ofOpt (valEq a b) (!·)
  | .is => M.bind (pyIs strict a b) fun r => ok (.bool r)
  | .isNot => M.bind (pyIs strict a b) fun r => ok (.bool (!r))
  | .in_ => M.bind (pyIn a b) fun r => ok (.bool r)
  | .notIn => M.bind (pyIn a b) fun r => ok (.bool (!r))
  | _ =>
      let ord (lt eq : Bool) : CM Val := ok (.bool (match op with
        | .lt => lt | .le => lt || eq | .gt => !(lt || eq) | _ => !lt))
      match a, b with
      | .int x, .int y => ord (x < y) (x == y)
      | .str x, .str y => ord (x < y) (x == y)
      | .bool _, _ => unspec | _, .bool _ => unspec
      | .tuple _ _, .tuple _ _ => unspec | .list _ _, .list _ _ => unspec | .bytes _ _, .bytes _ _ => unspec
      | .dict _, _ => unspec | _, .dict _ => unspec | .setv, _ => unspec | _, .setv => unspec
      | _, _ => raise "TypeError"

def normIdx (i : Int) (n : Nat) : Option Nat :=
  let j := if i < 0 then i + n else i
  if j < 0 || j ≥ n then none else some j.toNat

def sliceBound (v : Val) (dflt : Int) (n : Nat) : Option Int :=
  match v with
  | .none => some dflt
  | .int i => some (let j := if i < 0 then i + n else i; if j < 0 then 0 else if j > n then n else j)
  | _ => none

/-- `Slice.GetIndices` for step 1 followed by the callers' `if stop < start { stop = start }`:
the bounds of the Go slice expression `s[start:stop]` -/
def sliceStartStop (n : Nat) (lo hi : Val) : Option (Nat × Nat) :=
  match sliceBound lo 0 n, sliceBound hi n n with
  | some a, some b => some (a.toNat, if b < a then a.toNat else b.toNat)
  | _, _ => none

def sliceList {α} (l : List α) (lo hi : Val) : Option (List α) :=
  match sliceStartStop l.length lo hi with
  | some (a, b) => some ((l.drop a).take (b - a))
  | none => none

/-- py/tuple.go `M__getitem__`, step 1: `return t[start:stop]` – a sub-slice of the same backing
array; for the reference a tuple that is a new creation event -/
def subTuple (vs : List Val) (i : Id) (a b : Nat) : CM Val :=
  M.bind fresh fun o => ok (.tuple ((vs.drop a).take (b - a)) { oid := o, hdr := i.hdr.slice a b })
/-- py/bytes.go `M__getitem__`, step 1 -/
def subBytes (bs : List Char) (i : Id) (a b : Nat) : CM Val :=
  M.bind fresh fun o => ok (.bytes ((bs.drop a).take (b - a)) { oid := o, hdr := i.hdr.slice a b })

def stepIsOne : Val → Bool
  | .none => true | .int 1 => true | _ => false

/-- PySlice_GetIndicesEx + the index walk: `some (some idxs)`, `some none` = ValueError (step 0),
`none` = TypeError (a bound that is neither None nor an int) -/
def slice3Idx (n : Nat) (lo hi st : Val) : Option (Option (List Nat)) :=
  let asInt : Val → Option (Option Int)
    | .none => some none | .int i => some (some i) | _ => none
  -- PySlice_GetIndicesEx looks at the step first (TypeError, then "slice step cannot be zero"),
  -- then at start and stop
  match asInt st with
  | none => none
  | some st =>
  let step := st.getD 1
  if step == 0 then some none else
  match asInt lo, asInt hi with
  | some lo, some hi =>
    let n' : Int := n
    let clamp (i : Int) : Int :=
      let i := if i < 0 then i + n' else i
      if i < 0 then (if step < 0 then -1 else 0) else if i ≥ n' then (if step < 0 then n' - 1 else n') else i
    let start := match lo with | none => if step < 0 then n' - 1 else 0 | some i => clamp i
    let stop := match hi with | none => if step < 0 then -1 else n' | some i => clamp i
    let cnt : Nat :=
      if step > 0 then (if start < stop then ((stop - start - 1) / step + 1).toNat else 0)
      else (if stop < start then ((start - stop - 1) / (-step) + 1).toNat else 0)
    some (some ((List.range cnt).map fun (k : Nat) => (start + Int.ofNat k * step).toNat))
  | _, _ => none

def hasBool3 (a b c : Val) : Bool := isBoolV a || isBoolV b || isBoolV c

/-- `sub a b` is used when the step is 1 (the implementation then takes the sub-slice path) -/
def slice3Of {α} (l : List α) (dflt : α) (lo hi st : Val) (mk : List α → CM Val)
    (sub : Option (Nat → Nat → CM Val) := none) : CM Val :=
  if hasBool3 lo hi st then unspec else
  match slice3Idx l.length lo hi st with
  | none => raise "TypeError"
  | some none => raise "ValueError"
  | some (some idxs) =>
    match sub, stepIsOne st, sliceStartStop l.length lo hi with
    | some f, true, some (a, b) => f a b
    | _, _, _ => mk (idxs.map fun i => l.getD i dflt)

def pyGetItem (c k : Val) : CM Val :=
  match c, k with
  | .cont n, k => M.bind (logEv (tup [.str "gi", .int n, k])) fun _ => ok (.int (100 * n))
  | .tuple vs i, .slice3 lo hi st => slice3Of vs .none lo hi st newTuple (some (subTuple vs i))
  | .bytes bs i, .slice3 lo hi st => slice3Of bs 'x' lo hi st newBytes (some (subBytes bs i))
  | .list vs _, .slice3 lo hi st => slice3Of vs .none lo hi st newList
  | .str s, .slice3 lo hi st => slice3Of s.toList 'x' lo hi st (fun cs => ok (.str (String.ofList cs)))
  | .tuple vs _, .int i => match normIdx i vs.length with
    | some j => ok (vs.getD j .none) | none => raise "IndexError"
  | .list vs _, .int i => match normIdx i vs.length with
    | some j => ok (vs.getD j .none) | none => raise "IndexError"
  | .bytes bs _, .int i => match normIdx i bs.length with
    | some j => ok (.int (bs.getD j 'x').toNat) | none => raise "IndexError"
  | .str s, .int i => match normIdx i s.length with
    | some j => ok (.str (String.singleton (s.toList.getD j 'x'))) | none => raise "IndexError"
  | .tuple vs i, .slice lo hi => match sliceStartStop vs.length lo hi with
    | some (a, b) => subTuple vs i a b | none => unspec
  | .bytes bs i, .slice lo hi => match sliceStartStop bs.length lo hi with
    | some (a, b) => subBytes bs i a b | none => unspec
  | .list vs _, .slice lo hi => match sliceList vs lo hi with | some r => newList r | none => unspec
  | .str s, .slice lo hi => match sliceList s.toList lo hi with
    | some r => ok (.str (String.ofList r)) | none => unspec
  | .tuple _ _, .bool _ => unspec | .list _ _, .bool _ => unspec | .str _, .bool _ => unspec
  | .bytes _ _, .bool _ => unspec
  | .tuple _ _, _ => raise "TypeError" | .list _ _, _ => raise "TypeError" | .str _, _ => raise "TypeError"
  | .bytes _ _, _ => raise "TypeError"
  | .dict id, .str k => fun w => match (w.dictGet id).lookup k with
    | some v => .ok v w | none => .err "KeyError" w
  | .dict _, _ => unspec
  | .setv, _ => unspec | .fn _, _ => unspec | .lam _ _ _ _ _, _ => unspec | .code _ _ _, _ => unspec
  | _, _ => raise "TypeError"

def pyDelItem (c k : Val) : CM Unit :=
  match c with
  | .cont n => logEv (tup [.str "di", .int n, k])
  | .list _ _ => unspec | .dict _ => unspec           -- in-place mutation of builtin containers: not modelled
  | .setv => unspec | .fn _ => unspec | .lam _ _ _ _ _ => unspec | .code _ _ _ => unspec | .obj _ => unspec
  | _ => raise "TypeError"

def pyDelAttr (o : Val) (n : String) : CM Unit :=
  match o with
  | .obj k => logEv (tup [.str "da", .int k, .str n])
  | .cont _ => unspec | .fn _ => unspec | .lam _ _ _ _ _ => unspec | .code _ _ _ => unspec | .dict _ => unspec
  | _ => raise "AttributeError"

def pySetItem (c k v : Val) : CM Unit :=
  match c with
  | .cont n => logEv (tup [.str "si", .int n, k, v])
  | .list _ _ => unspec | .dict _ => unspec
  | .setv => unspec | .fn _ => unspec | .lam _ _ _ _ _ => unspec | .code _ _ _ => unspec
  | _ => raise "TypeError"

def pyGetAttr (o : Val) (n : String) : CM Val :=
  match o with
  | .obj k => M.bind (logEv (tup [.str "ga", .int k, .str n])) fun _ => ok (.int (1000 * k + n.length))
  | .fn _ => unspec | .lam _ _ _ _ _ => unspec | .code _ _ _ => unspec | .slice _ _ => unspec
  | .slice3 _ _ _ => unspec
  | .dict _ => unspec                      -- C16 territory: gpython lets attributes be set on a dict
  | _ => raise "AttributeError"

def pySetAttr (o : Val) (n : String) (v : Val) : CM Unit :=
  match o with
  | .obj k => logEv (tup [.str "sa", .int k, .str n, v])
  | .cont _ => unspec | .fn _ => unspec | .lam _ _ _ _ _ => unspec | .code _ _ _ => unspec
  | .dict _ => unspec                      -- `{}.p = 1` succeeds in gpython (AttributeError in Python): C16 territory
  | _ => raise "AttributeError"

/-- Python's binding of call arguments to the parameters of a function (language reference
6.3.4): positional arguments, surplus into `*vararg`, keywords by name, surplus into
`**kwarg`, then defaults; every mismatch is a TypeError.  Yields the function's locals. -/
def bindArgs (sg : Sig) (ds : List Val) (kds : List (String × Val)) (args : List Val)
    (kwargs : List (String × Val)) : CM (List (String × Val)) := fun w =>
  let npos := sg.pos.length
  let extra := args.drop npos
  if !extra.isEmpty && sg.vararg.isNone then .err "TypeError" w else
  let env0 : List (String × Val) := sg.pos.zip args
  -- keywords
  let step (acc : Option (List (String × Val) × List (String × Val))) (kv : String × Val) :=
    match acc with
    | none => none
    | some (env, kwd) =>
      if sg.pos.contains kv.1 || sg.kwonly.contains kv.1 then
        if (env.lookup kv.1).isSome then none else some (env ++ [kv], kwd)
      else if sg.kwarg.isSome then some (env, insertSorted kv.1 kv.2 kwd)
      else none
  match kwargs.foldl step (some (env0, [])) with
  | none => .err "TypeError" w
  | some (env, kwd) =>
    let nd := ds.length
    -- positional parameters without a value take their default
    let fill (acc : Option (List (String × Val))) (ip : Nat × String) :=
      match acc with
      | none => none
      | some env =>
        if (env.lookup ip.2).isSome then some env
        else if ip.1 + nd ≥ npos then
          match ds[ip.1 + nd - npos]? with
          | some v => some (env ++ [(ip.2, v)])
          | none => none
        else none
    match ((List.range npos).zip sg.pos).foldl fill (some env) with
    | none => .err "TypeError" w
    | some env =>
      let fillK (acc : Option (List (String × Val))) (n : String) :=
        match acc with
        | none => none
        | some env =>
          if (env.lookup n).isSome then some env
          else match kds.lookup n with
            | some v => some (env ++ [(n, v)])
            | none => none
      match sg.kwonly.foldl fillK (some env) with
      | none => .err "TypeError" w
      | some env =>
        -- `u := make(py.Tuple, len(args)-n)`: the `*args` tuple is a fresh copy
        let env := match sg.vararg with
          | some n => env ++ [(n, .tuple extra { oid := w.next, hdr := Ident.Hdr.make w.next extra.length })]
          | none => env
        let w := { w with next := w.next + 1 }
        match sg.kwarg with
        | some n =>
            let id := w.heap.length
            .ok (env ++ [(n, .dict id)]) { w with heap := kwd :: w.heap }
        | none => .ok env w

/-- the items of the `*` argument -/
def starItems : Option Val → CM (List Val)
  | none => ok []
  | some (.tuple vs _) => ok vs
  | some (.list vs _) => ok vs
  | some (.bytes bs _) => ok (bs.map fun c => .int c.toNat)
  | some (.str s) => ok (s.toList.map fun c => .str (String.singleton c))
  | some (.dict _) => unspec | some .setv => unspec | some (.cont _) => unspec | some (.obj _) => unspec
  | some _ => raise "TypeError"

/-- the items of the `**` argument -/
def dstarItems : Option Val → CM (List (String × Val))
  | none => ok []
  | some (.dict id) => fun w =>
      let d := w.dictGet id
      if d.any (fun kv => kv.1.startsWith "#") then .err "TypeError" w else .ok d w
  | some .setv => unspec | some (.obj _) => unspec
  | some _ => raise "TypeError"

def kwName : Val × Val → String × Val
  | (.str s, v) => (s, v)
  | (_, v) => ("?", v)

def hasDup : List (String × Val) → Bool
  | [] => false
  | (k, _) :: r => (r.lookup k).isSome || hasDup r

/-- how a function object created by `lambda` / `def` is run: supplied by `mkCPd` (reference:
`evalE` on the body; model: the model VM on the body's code object) -/
abbrev LamRunner := String → Sig → Expr → List (String × Val) → CM Val

/-- every call: merge `*` / `**` into the arguments (TypeError on a non-iterable, a
non-mapping, a repeated keyword), then the callee's behaviour -/
def pyCallEx (runLam : LamRunner) (f : Val) (args : List Val) (kws : List (Val × Val))
    (star dstar : Option Val) : CM Val :=
  M.bind (dstarItems dstar) fun dk =>
  M.bind (starItems star) fun sa =>
  let args := args ++ sa
  let kwargs := kws.map kwName ++ dk
  if hasDup kwargs then raise "TypeError" else
  match f with
  | .fn "ev" =>
      M.bind (bindArgs { pos := ["i", "v"] } [] [] args kwargs) fun env =>
      match env.lookup "i", env.lookup "v" with
      | some (.int i), some v =>
          M.bind (logEv (.int i)) fun _ => fun w => if w.bad == i.toNat then .err "ValueError" w else .ok v w
      | _, _ => unspec
  | .fn "h" =>
      -- def h(*a, **k): log.append(('h', a, k)); return ('h', a, k)
      M.bind (bindArgs { vararg := some "a", kwarg := some "k" } [] [] args kwargs) fun env =>
      match env.lookup "a", env.lookup "k" with
      | some a, some k =>
          M.bind (newTuple [.str "h", a, k]) fun r =>
          M.bind (logEv r) fun _ => ok r
      | _, _ => unspec
  | .fn n =>
      -- def f(*a): log.append(('f', a)); return ('f', a)
      if !kwargs.isEmpty then raise "TypeError" else
      M.bind (newTuple args) fun a => M.bind (newTuple [.str n, a]) fun r =>
      M.bind (logEv r) fun _ => ok r
  | .lam name sg ds kds body =>
      M.bind (bindArgs sg ds kds args kwargs) fun env => runLam name sg body env
  | .code _ _ _ => unspec
  | _ => raise "TypeError"

def hashable : Val → Bool
  | .int _ | .str _ | .none => true
  | _ => false

def pyUnpack (n : Nat) (v : Val) : CM (List Val) :=
  let chk (vs : List Val) : CM (List Val) := if vs.length == n then ok vs else raise "ValueError"
  match v with
  | .tuple vs _ => chk vs
  | .list vs _ => chk vs
  | .bytes bs _ => chk (bs.map fun c => .int c.toNat)
  | .str s => chk (s.toList.map fun c => .str (String.singleton c))
  | .dict _ => unspec | .setv => unspec | .cont _ => unspec
  | _ => raise "TypeError"

/-- `before, *middle, after = v` -/
def pyUnpackEx (b a : Nat) (v : Val) : CM (List Val) :=
  let chk (vs : List Val) : CM (List Val) :=
    if vs.length < b + a then raise "ValueError"
    else M.bind (newList ((vs.drop b).take (vs.length - b - a))) fun m =>
      ok (vs.take b ++ [m] ++ vs.drop (vs.length - a))
  match v with
  | .tuple vs _ => chk vs
  | .list vs _ => chk vs
  | .bytes bs _ => chk (bs.map fun c => .int c.toNat)
  | .str s => chk (s.toList.map fun c => .str (String.singleton c))
  | .dict _ => unspec | .setv => unspec | .cont _ => unspec
  | _ => raise "TypeError"

/-- allocation number of a bytes constant: a function of its content (equal constants of a code
object are one constant), disjoint from the run-time allocation numbers -/
def constBase (s : String) : Nat := s.toList.foldl (fun acc c => acc * 257 + c.toNat + 1) 1000000007

def constV : Const → Val
  | .int i => .int i | .str s => .str s | .none => .none | .true => .bool true | .false => .bool false
  -- parser/lexer.go: `py.Bytes(buf.Bytes())` – a header into the lexer's bytes.Buffer (capacity 64 for
  -- a short literal, so cap > len); compile.go `Const` shares equal constants of one code object
  | .bytes s => .bytes s.toList { oid := 0, hdr := { base := constBase s, poff := 0, len := s.length, cap := 64 } }

/-- `strict = true`: the dict primitive of the implementation (py.StringDict: a non-str key
raises KeyError – known finding C01-K01); `strict = false`: Python's dict (int keys are kept,
encoded as "#<n>" in the association list) -/
def mkCPwith (strict : Bool) (runLam : LamRunner) : Prims Val String CW where
  const := constV
  loadName n := fun w => match w.vars.lookup n with
    | some v => .ok v w | none => .err "NameError" w
  storeName n v := fun w => .ok () { w with vars := (n, v) :: w.vars.filter (·.1 != n) }
  binop := pyBin
  inplace op a b := match a with | .list _ _ => unspec | _ => pyBin op a b
  unop := pyUn
  compare := pyCmp strict
  truth := pyTruth
  getitem := pyGetItem
  setitem := pySetItem
  getattr := pyGetAttr
  setattr := pySetAttr
  call f args := pyCallEx runLam f args [] none none
  mkTuple vs := newTuple vs
  mkList vs := newList vs
  mkSet vs := if vs.all hashable then ok .setv else unspec
  mkSlice lo hi := ok (.slice lo hi)
  mkSlice3 lo hi st := ok (.slice3 lo hi st)
  newDict := fun w => .ok (.dict w.heap.length) { w with heap := [] :: w.heap }
  dictSet d k v := match d, k with
    | .dict id, .str s => fun w => .ok () (w.dictPut id (insertSorted s v (w.dictGet id)))
    | .dict id, .int i =>
        if strict then raise "KeyError"
        else fun w => .ok () (w.dictPut id (insertSorted ("#" ++ toString i) v (w.dictGet id)))
    | _, _ => unspec
  codeObj name sg body := .code name sg body
  mkFunction c _ ds kds := match c with
    | .code name sg body => ok (.lam name sg ds (kds.map kwName) body)
    | _ => unspec
  unpack := pyUnpack
  unpackEx := pyUnpackEx
  callEx := pyCallEx runLam
  delName n := fun w => match w.vars.lookup n with
    | some _ => .ok () { w with vars := w.vars.filter (·.1 != n) }
    | none => .err "NameError" w
  delitem := pyDelItem
  delattr := pyDelAttr
  loadFast n := fun w => match w.frames with
    | fr :: _ => (match fr.lookup n with | some v => .ok v w | none => .err "UnboundLocalError" w)
    | [] => .err "UNSPEC" w
  loadGlobal n := fun w => match w.vars.lookup n with
    | some v => .ok v w | none => .err "NameError" w

/-- run a function body in a new frame with the locals `env`; the frame is popped on return
and on exception.  `viaVM = false` (reference): `evalE` of the body with names resolved as
parameter / global; `viaVM = true` (model): the model VM on the function's code object. -/
def runLamWith (viaVM : Bool) (P' : Prims Val String CW) : LamRunner := fun name sg body env w =>
  let w1 := { w with frames := env :: w.frames }
  let pop (w : CW) : CW := { w with frames := w.frames.tail }
  if viaVM then
    let code := compBody name sg body
    match run P' code (4 * code.length + 16) 0 [] w1 with
    | .ret v w2 => .ok v (pop w2)
    | .exc x w2 => .err x (pop w2)
    | _ => .err "MODEL-FAULT" (pop w1)
  else
    match evalE (P'.inFunction sg.names) body w1 with
    | .ok v w2 => .ok v (pop w2)
    | .err x w2 => .err x (pop w2)

/-- primitives with function calls nested at most `d` deep (deeper: UNSPEC) -/
def mkCPd (strict viaVM : Bool) : Nat → Prims Val String CW
  | 0 => mkCPwith strict (fun _ _ _ _ => unspec)
  | d + 1 => mkCPwith strict (runLamWith viaVM (mkCPd strict viaVM d))

/-- model side: the implementation's primitives; function bodies run on the model VM -/
def CP : Prims Val String CW := mkCPd true true 5
/-- spec side: Python's primitives; function bodies by the reference semantics -/
def CPspec : Prims Val String CW := mkCPd false false 5

/-- the namespace the harness prelude sets up -/
def initW (bad : Nat) : CW :=
  { bad := bad,
    vars := [("ev", .fn "ev"), ("f", .fn "f"), ("g", .fn "g"), ("h", .fn "h"),
             ("c1", .cont 1), ("c2", .cont 2), ("o1", .obj 1), ("o2", .obj 2),
             ("x", .int 5), ("y", .int 7), ("z", .str "ab")] }

def shownVars : List String := ["r", "x", "y", "z", "u", "v"]

def renderW (w : CW) (x : String) : String :=
  let vs := shownVars.filterMap fun n => (w.vars.lookup n).map fun v => n ++ "=" ++ showV w v
  "L:" ++ ";".intercalate w.log.reverse ++ " V:" ++ ",".intercalate vs ++ " X:" ++ x

end GPy.C01
