/-
C01 — operator dispatch of py/arithmetic.go (generated from py/gen.go) as a small
separate model, against Python's binary-operator protocol (data model §3.3.8,
`binary_op1` / `do_richcompare`).

An operand is abstracted to what the protocol looks at: its type, and for each
special method whether the Go value implements the interface (`I__add__` …) and
what the call yields: a value, `NotImplemented`, or an exception.
-/
import GPy.Common.Basic
namespace GPy.C01.Dispatch

/-- outcome of one special-method call -/
inductive MRes (R E : Type)
  | notImpl | val (r : R) | err (e : E)

/-- outcome of the whole operation -/
inductive DRes (R E : Type)
  | val (r : R) | err (e : E) | typeError
deriving DecidableEq

variable {R E : Type}

/-! ### model: `py.Add(a, b)` and its 11 siblings (one template in gen.go) -/

/-- `aFwd` = `a.(I__op__)` present? then the result of `A.M__op__(b)`;
`bRefl` = `b.(I__rop__)`, `B.M__rop__(a)`; `sameTy` = `a.Type() == b.Type()` -/
def binop (aFwd bRefl : Option (MRes R E)) (sameTy : Bool) : DRes R E :=
  -- if A, ok := a.(I__add__); ok { res, err := A.M__add__(b); if err != nil {return nil, err}; if res != NotImplemented {return res, nil} }
  match aFwd with
  | some (.err e) => .err e
  | some (.val r) => .val r
  | _ =>
    -- if a.Type() != b.Type() { if B, ok := b.(I__radd__); ok { … } }
    if !sameTy then
      match bRefl with
      | some (.err e) => .err e
      | some (.val r) => .val r
      | _ => .typeError
    else .typeError

/-- `py.IAdd(a, b)`: `a.__iadd__(b)` if implemented, else `Add(a, b)` -/
def inplace (aIop aFwd bRefl : Option (MRes R E)) (sameTy : Bool) : DRes R E :=
  match aIop with
  | some (.err e) => .err e
  | some (.val r) => .val r
  | _ => binop aFwd bRefl sameTy

/-- `py.Lt/Le/Gt/Ge(a, b)`: `a.__op__(b)`, then `b.__swapped__(a)` (whatever the types) -/
def richcmp (aFwd bSwap : Option (MRes R E)) : DRes R E :=
  match aFwd with
  | some (.err e) => .err e
  | some (.val r) => .val r
  | _ =>
    match bSwap with
    | some (.err e) => .err e
    | some (.val r) => .val r
    | _ => .typeError

/-- `py.Eq(a, b)`: as above, then `False` if the types differ, else TypeError -/
def eq (aFwd bSwap : Option (MRes R E)) (sameTy : Bool) (false_ : R) : DRes R E :=
  match richcmp aFwd bSwap with
  | .typeError => if !sameTy then .val false_ else .typeError
  | r => r

/-! ### spec: Python's protocol as "first candidate that is implemented wins" -/

def firstImplemented : List (Option (MRes R E)) → DRes R E
  | [] => .typeError
  | none :: r => firstImplemented r
  | some .notImpl :: r => firstImplemented r
  | some (.val v) :: _ => .val v
  | some (.err e) :: _ => .err e

/-- candidates of `a op b`.  `subPrio`: type(b) is a proper subclass of type(a) that
overrides the reflected method – then the reflected method is tried first. -/
def specBinop (subPrio : Bool) (aFwd bRefl : Option (MRes R E)) (sameTy : Bool) : DRes R E :=
  firstImplemented (if subPrio then [bRefl, aFwd] else if sameTy then [aFwd] else [aFwd, bRefl])

def specInplace (subPrio : Bool) (aIop aFwd bRefl : Option (MRes R E)) (sameTy : Bool) : DRes R E :=
  match firstImplemented [aIop] with
  | .typeError => specBinop subPrio aFwd bRefl sameTy
  | r => r

def specRichcmp (subPrio : Bool) (aFwd bSwap : Option (MRes R E)) : DRes R E :=
  firstImplemented (if subPrio then [bSwap, aFwd] else [aFwd, bSwap])

/-- `==` never raises TypeError: the last resort is identity -/
def specEq (subPrio : Bool) (aFwd bSwap : Option (MRes R E)) (identical : Bool) (true_ false_ : R) : DRes R E :=
  match specRichcmp subPrio aFwd bSwap with
  | .typeError => .val (if identical then true_ else false_)
  | r => r

end GPy.C01.Dispatch
