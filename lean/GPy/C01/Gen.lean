/-
C01 case generator.  A case = a small program (list of `Stmt`) rendered to Python
source WITHOUT redundant parentheses (so the real parser must rebuild the
intended grouping), the position at which the probe `ev` raises (0 = never),
and three expectations computed here:
  model R = `compProg` listing (compile tie, instruction for instruction),
  model V = `run` of the model VM on that listing with the concrete `CP`,
  spec  V = `execProg` (reference semantics) with the same `CP`.
-/
import GPy.C01.Concrete
namespace GPy.C01

/-! ## rendering to Python source -/

def BinOp.sym : BinOp → String
  | .add => "+" | .sub => "-" | .mul => "*" | .div => "/" | .mod => "%" | .pow => "**"
  | .lshift => "<<" | .rshift => ">>" | .bitor => "|" | .bitxor => "^" | .bitand => "&" | .floordiv => "//"

def BinOp.prec : BinOp → Nat
  | .bitor => 7 | .bitxor => 8 | .bitand => 9 | .lshift | .rshift => 10
  | .add | .sub => 11 | .mul | .div | .mod | .floordiv => 12 | .pow => 14

def BinOp.opname : BinOp → String
  | .add => "ADD" | .sub => "SUBTRACT" | .mul => "MULTIPLY" | .div => "TRUE_DIVIDE" | .mod => "MODULO"
  | .pow => "POWER" | .lshift => "LSHIFT" | .rshift => "RSHIFT" | .bitor => "OR" | .bitxor => "XOR"
  | .bitand => "AND" | .floordiv => "FLOOR_DIVIDE"

def UnOp.sym : UnOp → String
  | .invert => "~" | .not => "not " | .uadd => "+" | .usub => "-"

def UnOp.opname : UnOp → String
  | .invert => "UNARY_INVERT" | .not => "UNARY_NOT" | .uadd => "UNARY_POSITIVE" | .usub => "UNARY_NEGATIVE"

def CmpOp.sym : CmpOp → String
  | .eq => "==" | .ne => "!=" | .lt => "<" | .le => "<=" | .gt => ">" | .ge => ">="
  | .is => "is" | .isNot => "is not" | .in_ => "in" | .notIn => "not in"

/-- vm.PyCmp_* -/
def CmpOp.code : CmpOp → Nat
  | .lt => 0 | .le => 1 | .eq => 2 | .ne => 3 | .gt => 4 | .ge => 5
  | .in_ => 6 | .notIn => 7 | .is => 8 | .isNot => 9

def Const.src : Const → String
  | .int i => toString i | .str s => "'" ++ s ++ "'" | .none => "None" | .true => "True" | .false => "False"

def paren (need : Bool) (s : String) : String := if need then "(" ++ s ++ ")" else s

/-- precedence level of the outermost form (grammar.y cascade: test=2 … atom=17) -/
def prec : Expr → Nat
  | .lambda0 _ => 1
  | .ifexp _ _ _ => 2
  | .boolop isOr _ _ => if isOr then 3 else 4
  | .unop .not _ => 5
  | .compare _ _ => 6
  | .binop op _ _ => op.prec
  | .unop _ _ => 13
  | .atom _ _ | .subscript _ _ | .slice2 _ _ _ | .attr _ _ | .call _ _ => 16
  | .const (.int i) => if i < 0 then 13 else 17
  | _ => 17

def isNum : Expr → Bool
  | .const (.int _) => true
  | _ => false

mutual
/-- source text of `e` in a context that accepts precedence ≥ `p` without parentheses -/
partial def src (p : Nat) (e : Expr) : String :=
  paren (prec e < p) <| match e with
  | .atom i c => s!"ev({i}, {c.src})"
  | .const c => c.src
  | .name n => n
  | .binop .pow a b => src 15 a ++ " ** " ++ src 13 b
  | .binop op a b => src op.prec a ++ " " ++ op.sym ++ " " ++ src (op.prec + 1) b
  | .unop .not a => "not " ++ src 5 a
  | .unop op a => op.sym ++ src 13 a
  | .boolop isOr a rest =>
      let q := if isOr then 4 else 5
      (if isOr then " or " else " and ").intercalate (src q a :: rest.toList.map (src q))
  | .compare a rest => src 7 a ++ srcTail rest
  | .ifexp t b o => src 3 b ++ " if " ++ src 3 t ++ " else " ++ src 2 o
  | .subscript a i => src 16 a ++ "[" ++ src 0 i ++ "]"
  | .slice2 a lo hi => src 16 a ++ "[" ++ src 2 lo ++ ":" ++ src 2 hi ++ "]"
  | .attr a n => (if isNum a then "(" ++ src 0 a ++ ")" else src 16 a) ++ "." ++ n   -- `1.p` would lex as a float
  | .call f args => src 16 f ++ "(" ++ ", ".intercalate (args.toList.map (src 2)) ++ ")"
  | .tuple es => match es.toList with
    | [e] => "(" ++ src 2 e ++ ",)"
    | l => "(" ++ ", ".intercalate (l.map (src 2)) ++ ")"
  | .list es => "[" ++ ", ".intercalate (es.toList.map (src 2)) ++ "]"
  | .set es => "{" ++ ", ".intercalate (es.toList.map (src 2)) ++ "}"
  | .dict kvs => "{" ++ ", ".intercalate (srcKVs kvs) ++ "}"
  | .lambda0 b => "lambda: " ++ src 2 b
partial def srcTail : CmpTail → String
  | .one op e => " " ++ op.sym ++ " " ++ src 7 e
  | .more op e rest => " " ++ op.sym ++ " " ++ src 7 e ++ srcTail rest
partial def srcKVs : KVs → List String
  | .nil => []
  | .cons k v rest => (src 2 k ++ ": " ++ src 2 v) :: srcKVs rest
end

mutual
partial def srcT : Target → String
  | .name n => n
  | .subscr a i => src 16 a ++ "[" ++ src 0 i ++ "]"
  | .attr a n => (if isNum a then "(" ++ src 0 a ++ ")" else src 16 a) ++ "." ++ n
  | .tuple ts => match srcTs ts with
    | [t] => "(" ++ t ++ ",)"
    | l => "(" ++ ", ".intercalate l ++ ")"
partial def srcTs : Targets → List String
  | .nil => []
  | .cons t ts => srcT t :: srcTs ts
end

def Targets.toList : Targets → List Target
  | .nil => []
  | .cons t ts => t :: ts.toList

def srcS : Stmt → String
  | .assign t more v => " = ".intercalate ((t :: more.toList).map srcT) ++ " = " ++ src 2 v
  | .aug t op v =>
      let ts := match t with
        | .name n => n
        | .subscr a i => src 16 a ++ "[" ++ src 0 i ++ "]"
        | .attr a n => (if isNum a then "(" ++ src 0 a ++ ")" else src 16 a) ++ "." ++ n
      ts ++ " " ++ op.sym ++ "= " ++ src 2 v
  | .expr e => src 2 e

def srcProg (ss : List Stmt) : String := "\\n".intercalate (ss.map srcS)

/-! ## listing of the model byte code (format of harness/c01.go `c01Dis`) -/

def Instr.show : Instr → String
  | .LOAD_CONST c => s!"LOAD_CONST({c.src})"
  | .LOAD_CODE _ => "LOAD_CONST(<code>)"
  | .LOAD_NAME n => s!"LOAD_NAME({n})"
  | .STORE_NAME n => s!"STORE_NAME({n})"
  | .BINARY op => "BINARY_" ++ op.opname
  | .INPLACE op => "INPLACE_" ++ op.opname
  | .UNARY op => op.opname
  | .COMPARE_OP op => s!"COMPARE_OP({op.code})"
  | .JUMP_IF_FALSE_OR_POP t => s!"JUMP_IF_FALSE_OR_POP({t})"
  | .JUMP_IF_TRUE_OR_POP t => s!"JUMP_IF_TRUE_OR_POP({t})"
  | .POP_JUMP_IF_FALSE t => s!"POP_JUMP_IF_FALSE({t})"
  | .JUMP_FORWARD t => s!"JUMP_FORWARD({t})"
  | .POP_TOP => "POP_TOP" | .DUP_TOP => "DUP_TOP" | .DUP_TOP_TWO => "DUP_TOP_TWO"
  | .ROT_TWO => "ROT_TWO" | .ROT_THREE => "ROT_THREE"
  | .BINARY_SUBSCR => "BINARY_SUBSCR" | .STORE_SUBSCR => "STORE_SUBSCR"
  | .LOAD_ATTR n => s!"LOAD_ATTR({n})" | .STORE_ATTR n => s!"STORE_ATTR({n})"
  | .CALL_FUNCTION n => s!"CALL_FUNCTION({n})"
  | .BUILD_TUPLE n => s!"BUILD_TUPLE({n})" | .BUILD_LIST n => s!"BUILD_LIST({n})"
  | .BUILD_SET n => s!"BUILD_SET({n})" | .BUILD_SLICE n => s!"BUILD_SLICE({n})"
  | .BUILD_MAP n => s!"BUILD_MAP({n})" | .STORE_MAP => "STORE_MAP"
  | .MAKE_FUNCTION n => s!"MAKE_FUNCTION({n})"
  | .UNPACK_SEQUENCE n => s!"UNPACK_SEQUENCE({n})"
  | .RETURN_VALUE => "RETURN_VALUE"

def listing (code : List Instr) : String := " ".intercalate (code.map Instr.show)

/-! ## one case -/

def specRun (ss : List Stmt) (bad : Nat) : String × Bool :=
  match execProg CPspec ss (initW bad) with
  | .ok _ w => (renderW w "-", false)
  | .err x w => (renderW w x, x == "UNSPEC")

def modelRun (ss : List Stmt) (bad : Nat) : String :=
  let code := compProg ss
  match run CP code (4 * code.length + 16) 0 [] (initW bad) with
  | .ret _ w => renderW w "-"
  | .exc x w => renderW w x
  | .fell _ _ => "MODEL-FELL-OFF"
  | .fault => "MODEL-FAULT"
  | .fuel => "MODEL-FUEL"

mutual
def atomsE : Expr → Nat
  | .atom _ _ => 1
  | .const _ | .name _ => 0
  | .binop _ a b => atomsE a + atomsE b
  | .unop _ a => atomsE a
  | .boolop _ a r => atomsE a + atomsEs r
  | .compare a r => atomsE a + atomsTail r
  | .ifexp t b o => atomsE t + atomsE b + atomsE o
  | .subscript a i => atomsE a + atomsE i
  | .slice2 a l h => atomsE a + atomsE l + atomsE h
  | .attr a _ => atomsE a
  | .call f a => atomsE f + atomsEs a
  | .tuple es | .list es | .set es => atomsEs es
  | .dict kvs => atomsKVs kvs
  | .lambda0 b => atomsE b
def atomsEs : Exprs → Nat
  | .nil => 0
  | .cons e es => atomsE e + atomsEs es
def atomsTail : CmpTail → Nat
  | .one _ e => atomsE e
  | .more _ e r => atomsE e + atomsTail r
def atomsKVs : KVs → Nat
  | .nil => 0
  | .cons k v r => atomsE k + atomsE v + atomsKVs r
end

def countLog (v : String) : Nat :=
  -- number of events in "L:a;b;c V:..."
  match (v.splitOn " V:") with
  | l :: _ => if l == "L:" then 0 else (l.splitOn ";").length
  | [] => 0

/-- emit one program.  family = distribution key -/
def mkCase (family : String) (ss : List Stmt) (bad : Nat) : Case :=
  let (sv, unspecified) := specRun ss bad
  let mv := modelRun ss bad
  let lst := listing (compProg ss)
  let mode := if unspecified then "C" else "R"
  let input := s!"{family} {mode} {bad} {srcProg ss}"
  let nev := countLog sv
  let tags := (if nev ≥ 2 then ["nt"] else []) ++ (if !unspecified && mv != sv then ["kf=C01-K01"] else [])
    ++ (if unspecified then ["unspec"] else [])
    ++ (if !unspecified && sv.endsWith "X:-" == false then ["exc"] else [])
  if unspecified then
    { input := input, modelV := "-", modelR := lst, specV := "-", tags := tags }
  else
    { input := input, modelV := mv, modelR := lst, specV := sv, tags := tags }

/-! ## shapes with numbered probes -/

/-- renumber the atoms of an expression in SOURCE order with positions from `n`,
giving atom number `j` the payload `pay j` -/
structure Num where
  next : Nat
  pay : Nat → Const

mutual
partial def numE (st : Num) : Expr → Expr × Num
  | .atom _ _ => (.atom st.next (st.pay st.next), { st with next := st.next + 1 })
  | .binop op a b => let (a, st) := numE st a; let (b, st) := numE st b; (.binop op a b, st)
  | .unop op a => let (a, st) := numE st a; (.unop op a, st)
  | .boolop o a r => let (a, st) := numE st a; let (r, st) := numEs st r; (.boolop o a r, st)
  | .compare a r => let (a, st) := numE st a; let (r, st) := numTail st r; (.compare a r, st)
  | .ifexp t b o =>
      -- source order: body, test, orelse
      let (b, st) := numE st b; let (t, st) := numE st t; let (o, st) := numE st o; (.ifexp t b o, st)
  | .subscript a i => let (a, st) := numE st a; let (i, st) := numE st i; (.subscript a i, st)
  | .slice2 a l h =>
      let (a, st) := numE st a; let (l, st) := numE st l; let (h, st) := numE st h; (.slice2 a l h, st)
  | .attr a n => let (a, st) := numE st a; (.attr a n, st)
  | .call f a => let (f, st) := numE st f; let (a, st) := numEs st a; (.call f a, st)
  | .tuple es => let (es, st) := numEs st es; (.tuple es, st)
  | .list es => let (es, st) := numEs st es; (.list es, st)
  | .set es => let (es, st) := numEs st es; (.set es, st)
  | .dict kvs => let (kvs, st) := numKVs st kvs; (.dict kvs, st)
  | .lambda0 b => let (b, st) := numE st b; (.lambda0 b, st)
  | e => (e, st)
partial def numEs (st : Num) : Exprs → Exprs × Num
  | .nil => (.nil, st)
  | .cons e es => let (e, st) := numE st e; let (es, st) := numEs st es; (.cons e es, st)
partial def numTail (st : Num) : CmpTail → CmpTail × Num
  | .one op e => let (e, st) := numE st e; (.one op e, st)
  | .more op e r => let (e, st) := numE st e; let (r, st) := numTail st r; (.more op e r, st)
partial def numKVs (st : Num) : KVs → KVs × Num
  | .nil => (.nil, st)
  | .cons k v r =>
      let (k, st) := numE st k; let (v, st) := numE st v; let (r, st) := numKVs st r; (.cons k v r, st)
end

mutual
partial def numT (st : Num) : Target → Target × Num
  | .subscr a i => let (a, st) := numE st a; let (i, st) := numE st i; (.subscr a i, st)
  | .attr a n => let (a, st) := numE st a; (.attr a n, st)
  | .tuple ts => let (ts, st) := numTs st ts; (.tuple ts, st)
  | t => (t, st)
partial def numTs (st : Num) : Targets → Targets × Num
  | .nil => (.nil, st)
  | .cons t ts => let (t, st) := numT st t; let (ts, st) := numTs st ts; (.cons t ts, st)
end

def numS (st : Num) : Stmt → Stmt × Num
  | .assign t more v =>
      let (t, st) := numT st t; let (more, st) := numTs st more; let (v, st) := numE st v
      (.assign t more v, st)
  | .aug t op v =>
      let (t, st) := match t with
        | .name n => (AugTarget.name n, st)
        | .subscr a i => let (a, st) := numE st a; let (i, st) := numE st i; (.subscr a i, st)
        | .attr a n => let (a, st) := numE st a; (.attr a n, st)
      let (v, st) := numE st v
      (.aug t op v, st)
  | .expr e => let (e, st) := numE st e; (.expr e, st)

def numProg (pay : Nat → Const) (ss : List Stmt) : List Stmt × Nat :=
  let (out, st) := ss.foldl (fun (acc : List Stmt × Num) s =>
    let (s', st) := numS acc.2 s; (acc.1 ++ [s'], st)) ([], { next := 1, pay := pay })
  (out, st.next - 1)

/-- distinct small primes: every grouping / operand role gives a different int -/
def primes : Array Int := #[2, 3, 5, 7, 11, 13, 17, 19, 23, 29, 31, 37, 41, 43, 47, 53, 59, 61, 67, 71]

def payPrimes (j : Nat) : Const := .int (primes[(j - 1) % primes.size]!)

/-- payload pattern `k`: like primes but with falsy / string / None values mixed in -/
def payMix (k : Nat) (j : Nat) : Const :=
  let h := (k * 7919 + j * 104729 + k * j * 31) % 11
  match h with
  | 0 => .int 0 | 1 => .str "" | 2 => .none | 3 => .str "ab" | 4 => .int 1 | 5 => .false | 6 => .true
  | _ => payPrimes (j + k)

def A : Expr := .atom 0 .none     -- placeholder probe, numbered later

def emit (family : String) (ss : List Stmt) (pay : Nat → Const) (bad : Nat) : IO Unit :=
  let (p, _) := numProg pay ss
  IO.println (mkCase family p bad).line

/-- primes run, plus `extra` mixed-payload runs, plus raising probes at every position
(if `allBad`) or at one seed-chosen position -/
def emitAll (family : String) (ss : List Stmt) (seed : Nat) (extra : Nat) (allBad : Bool) : IO Unit := do
  let (_, n) := numProg payPrimes ss
  emit family ss payPrimes 0
  for k in [0:extra] do
    emit family ss (payMix (seed * 13 + k + n)) 0
  if n > 0 then
    if allBad then
      for b in [1:n+1] do emit family ss payPrimes b
    else
      emit family ss (payMix (seed + 3)) (1 + (seed * 7 + n * 3 + (srcProg ss).length) % n)

def rAssign (e : Expr) : List Stmt := [.assign (.name "r") .nil e]

/-! ## alphabets -/

def allBin : List BinOp := [.add, .sub, .mul, .div, .mod, .pow, .lshift, .rshift, .bitor, .bitxor, .bitand, .floordiv]
def allCmp : List CmpOp := [.eq, .ne, .lt, .le, .gt, .ge, .is, .isNot, .in_, .notIn]
def allUn : List UnOp := [.invert, .not, .uadd, .usub]

def es (l : List Expr) : Exprs := Exprs.ofList l

/-- depth-1 forms over the given operands (every constructor of the fragment) -/
def forms1 (a b c : Expr) (bins : List BinOp) (cmps : List CmpOp) (uns : List UnOp) : List Expr :=
  bins.map (fun op => .binop op a b)
  ++ uns.map (fun op => .unop op a)
  ++ [.boolop false a (es [b]), .boolop true a (es [b]),
      .boolop false a (es [b, c]), .boolop true a (es [b, c])]
  ++ cmps.map (fun op => .compare a (.one op b))
  ++ [.compare a (.more .lt b (.one .lt c)), .compare a (.more .eq b (.one .ne c)),
      .compare a (.more .ge b (.one .in_ c))]
  ++ [.ifexp a b c,
      .subscript (.name "c1") a, .subscript a b, .slice2 (.name "c2") a b,
      .attr (.name "o1") "p", .attr a "qq",
      .call (.name "f") (es [a, b]), .call (.name "g") (es [a]), .call (.name "f") (es []), .call a (es [b]),
      .tuple (es [a, b]), .tuple (es [a]), .list (es [a, b]), .set (es [a, b]),
      .dict (.cons (.const (.str "k")) a (.cons (.const (.str "l")) b .nil)),
      .dict (.cons a b .nil),
      .lambda0 a]

/-- reduced inner alphabet for exhaustive depth 2 -/
def inner (a b c : Expr) : List Expr :=
  [a,
   .binop .sub a b, .binop .pow a b, .binop .mul a b,
   .unop .usub a, .unop .not a,
   .boolop false a (es [b]), .boolop true a (es [b]),
   .compare a (.one .lt b), .compare a (.more .lt b (.one .eq c)),
   .ifexp a b c,
   .subscript (.name "c1") a, .attr (.name "o2") "p",
   .call (.name "f") (es [a, b]), .tuple (es [a, b])]

def innerSmall (a b : Expr) : List Expr :=
  [a, .binop .sub a b, .unop .not a, .boolop true a (es [b]), .compare a (.more .lt b (.one .lt a)),
   .ifexp a b a, .call (.name "f") (es [a])]

/-! ## families -/

/-- E1/E2: all expression trees of depth ≤ 2 (outer form: every constructor and operator;
inner forms: reduced alphabet) -/
def genExprs (tier : String) (seed : Nat) : IO Unit := do
  let thorough := tier == "thorough"
  for e in forms1 A A A allBin allCmp allUn do
    emitAll "E1" (rAssign e) seed 4 true
    emitAll "E1" [.expr e] seed 0 false
  let inn := inner A A A
  let innS := innerSmall A A
  -- outer forms with two operand slots
  let outer2 : List (Expr → Expr → Expr) :=
    (if thorough then allBin else [.add, .sub, .mul, .floordiv, .pow, .lshift, .bitand, .bitor]).map (fun op a b => Expr.binop op a b)
    ++ [fun a b => .boolop false a (es [b]), fun a b => .boolop true a (es [b])]
    ++ (if thorough then allCmp else [.eq, .lt, .ge, .in_, .isNot]).map (fun op a b => Expr.compare a (.one op b))
    ++ [fun a b => .subscript a b, fun a b => .call a (es [b]), fun a b => .call (.name "f") (es [a, b]),
        fun a b => .tuple (es [a, b]), fun a b => .list (es [a, b]),
        fun a b => .dict (.cons a b .nil), fun a b => .slice2 (.name "c1") a b]
  for o in outer2 do
    for x in inn do
      for y in inn do
        emitAll "E2" (rAssign (o x y)) seed (if thorough then 2 else 1) thorough
  let outer1 : List (Expr → Expr) :=
    allUn.map (fun op a => Expr.unop op a)
    ++ [fun a => .attr a "p", fun a => .subscript (.name "c2") a, fun a => .call (.name "g") (es [a]),
        fun a => .tuple (es [a]), fun a => .lambda0 a, fun a => .call a (es [])]
  for o in outer1 do
    for x in inn do
      emitAll "E2" (rAssign (o x)) seed 2 true
  -- three operand slots
  let outer3 : List (Expr → Expr → Expr → Expr) :=
    [fun a b c => .ifexp a b c,
     fun a b c => .boolop false a (es [b, c]), fun a b c => .boolop true a (es [b, c]),
     fun a b c => .compare a (.more .lt b (.one .lt c)), fun a b c => .compare a (.more .eq b (.one .ge c)),
     fun a b c => .slice2 a b c, fun a b c => .call a (es [b, c])]
  for o in outer3 do
    for x in (if thorough then inn else innS) do
      for y in (if thorough then inn else innS) do
        for z in (if thorough then inn else innS) do
          emitAll "E2" (rAssign (o x y z)) seed 1 false

/-- P2/P3: every pair and triple of infix operators, both / all five groupings; the text
is rendered without redundant parentheses, so for each operator sequence exactly one
grouping is the bare text `a op b op c` -/
inductive Infix
  | bin (op : BinOp) | cmp (op : CmpOp) | band | bor
deriving Inhabited

def Infix.mk : Infix → Expr → Expr → Expr
  | .bin op, a, b => .binop op a b
  | .cmp op, a, b => .compare a (.one op b)
  | .band, a, b => .boolop false a (es [b])
  | .bor, a, b => .boolop true a (es [b])

def allInfix : List Infix := allBin.map .bin ++ allCmp.map .cmp ++ [.band, .bor]

def genPrec (tier : String) (seed : Nat) : IO Unit := do
  let ops := allInfix
  for o1 in ops do
    for o2 in ops do
      emitAll "P2" (rAssign (o2.mk (o1.mk A A) A)) seed 1 false
      emitAll "P2" (rAssign (o1.mk A (o2.mk A A))) seed 1 false
  -- chains written as chains (n-ary BoolOp, comparison chains) mixed with the others
  for o in ops do
    emitAll "P2" (rAssign (o.mk (.compare A (.more .lt A (.one .le A))) A)) seed 1 false
    emitAll "P2" (rAssign (o.mk A (.boolop true A (es [A, A])))) seed 1 false
    emitAll "P2" (rAssign (.ifexp (o.mk A A) (o.mk A A) (o.mk A A))) seed 1 false
    emitAll "P2" (rAssign (o.mk (.ifexp A A A) A)) seed 0 false
    emitAll "P2" (rAssign (o.mk A (.lambda0 A))) seed 0 false
    for u in allUn do
      emitAll "P2" (rAssign (.unop u (o.mk A A))) seed 1 false
      emitAll "P2" (rAssign (o.mk (.unop u A) A)) seed 1 false
      emitAll "P2" (rAssign (o.mk A (.unop u A))) seed 1 false
  for u in allUn do
    for v in allUn do
      emitAll "P2" (rAssign (.unop u (.unop v A))) seed 1 false
  -- triples: 5 groupings
  let mut r : Rng := ⟨(seed * 2654435761 + 12345).toUInt64⟩
  let triple (o1 o2 o3 : Infix) : List Expr :=
    [o3.mk (o2.mk (o1.mk A A) A) A, o3.mk (o1.mk A (o2.mk A A)) A, o2.mk (o1.mk A A) (o3.mk A A),
     o1.mk A (o3.mk (o2.mk A A) A), o1.mk A (o2.mk A (o3.mk A A))]
  if tier == "thorough" then
    for o1 in ops do
      for o2 in ops do
        for o3 in ops do
          for e in triple o1 o2 o3 do
            emit "P3" (rAssign e) payPrimes 0
  else
    let arr := ops.toArray
    for _ in [0:1500] do
      let (r1, o1) := r.pick arr
      let (r2, o2) := r1.pick arr
      let (r3, o3) := r2.pick arr
      r := r3
      for e in triple o1 o2 o3 do
        emit "P3" (rAssign e) payPrimes 0

/-- S: assignment and augmented assignment forms -/
def genStmts (tier : String) (seed : Nat) : IO Unit := do
  let tgts : List Target :=
    [.name "x", .subscr (.name "c1") A, .subscr A A, .attr (.name "o1") "p", .attr A "qq",
     .tuple (.cons (.name "x") (.cons (.name "y") .nil)),
     .tuple (.cons (.subscr (.name "c2") A) (.cons (.attr (.name "o2") "p") .nil)),
     .tuple (.cons (.name "u") (.cons (.tuple (.cons (.name "v") (.cons (.subscr (.name "c1") A) .nil))) .nil)),
     .subscr (.subscript (.name "c1") A) (.binop .add A A)]
  let vals : List Expr :=
    [A, .tuple (es [A, A]), .call (.name "f") (es [A, A]), .list (es [A, .tuple (es [A, A])]),
     .binop .mul A A, .const (.str "ab"), .tuple (es [A, A, A]), .boolop true A (es [A])]
  for t in tgts do
    for v in vals do
      emitAll "S1" [.assign t .nil v] seed 1 true
  for t1 in tgts do
    for t2 in tgts do
      for v in vals do
        emitAll "S2" [.assign t1 (.cons t2 .nil) v] seed 0 false
  for t1 in tgts.take 5 do
    for t2 in tgts.take 6 do
      for t3 in tgts.take 7 do
        emitAll "S3" [.assign t1 (.cons t2 (.cons t3 .nil)) (.tuple (es [A, A]))] seed 0 false
  -- augmented assignment: every operator × every target kind
  let augT : List AugTarget :=
    [.name "x", .name "z", .name "nosuch", .subscr (.name "c1") A, .subscr A A, .attr (.name "o1") "p",
     .attr A "p", .subscr (.subscript (.name "c2") A) (.binop .sub A A),
     .attr (.call (.name "f") (es [A])) "p", .subscr (.name "c1") (.tuple (es [A, A]))]
  let augV : List Expr := [A, .binop .sub A A, .boolop false A (es [A]), .call (.name "g") (es [A]),
     .ifexp A A A, .compare A (.more .lt A (.one .lt A))]
  for t in augT do
    for op in allBin do
      for v in augV do
        emitAll "A1" [.aug t op v] seed 1 (tier == "thorough")
  -- sequences: a later statement observes an earlier store
  for op in [BinOp.add, .sub, .mul] do
    emitAll "Q" [.assign (.name "x") (.cons (.name "y") .nil) A, .aug (.name "x") op A,
                 .assign (.name "r") .nil (.tuple (es [.name "x", .name "y", .binop op (.name "x") A]))] seed 2 true
    emitAll "Q" [.aug (.name "x") op (.name "y"), .aug (.name "y") op (.name "x"),
                 .expr (.call (.name "f") (es [.name "x", .name "y"]))] seed 0 false

/-! ## seeded random deeper trees -/

partial def randE (r : Rng) (depth : Nat) : Rng × Expr :=
  if depth == 0 then
    let (r, k) := r.nat 12
    (r, match k with
      | 0 => .name "x" | 1 => .name "c1" | 2 => .name "o1" | 3 => .const (.int 4) | 4 => .const (.str "ab")
      | 5 => .const .none | _ => A)
  else
    let (r, k) := r.nat 22
    let sub (r : Rng) := randE r (depth - 1)
    match k with
    | 0 | 1 | 2 =>
      let (r, op) := r.pick allBin.toArray
      let (r, a) := sub r; let (r, b) := sub r; (r, .binop op a b)
    | 3 => let (r, op) := r.pick allUn.toArray; let (r, a) := sub r; (r, .unop op a)
    | 4 | 5 =>
      let (r, o) := r.nat 2; let (r, n) := r.nat 3
      let (r, a) := sub r; let (r, b) := sub r; let (r, c) := sub r; let (r, d) := sub r
      (r, .boolop (o == 1) a (es ([b, c, d].take (n + 1))))
    | 6 | 7 | 8 =>
      let (r, o1) := r.pick allCmp.toArray; let (r, o2) := r.pick allCmp.toArray
      let (r, o3) := r.pick allCmp.toArray; let (r, n) := r.nat 3
      let (r, a) := sub r; let (r, b) := sub r; let (r, c) := sub r; let (r, d) := sub r
      (r, .compare a (match n with
        | 0 => .one o1 b | 1 => .more o1 b (.one o2 c) | _ => .more o1 b (.more o2 c (.one o3 d))))
    | 9 | 10 => let (r, a) := sub r; let (r, b) := sub r; let (r, c) := sub r; (r, .ifexp a b c)
    | 11 => let (r, a) := sub r; let (r, b) := sub r; (r, .subscript a b)
    | 12 => let (r, a) := sub r; let (r, b) := sub r; let (r, c) := sub r; (r, .slice2 a b c)
    | 13 => let (r, a) := sub r; let (r, n) := r.pick #["p", "qq"]; (r, .attr a n)
    | 14 | 15 =>
      let (r, n) := r.nat 4; let (r, fk) := r.nat 3
      let (r, a) := sub r; let (r, b) := sub r; let (r, c) := sub r; let (r, g) := sub r
      (r, .call (match fk with | 0 => .name "f" | 1 => .name "g" | _ => g) (es ([a, b, c].take n)))
    | 16 => let (r, n) := r.nat 4; let (r, a) := sub r; let (r, b) := sub r; let (r, c) := sub r
            (r, .tuple (es ([a, b, c].take n)))
    | 17 => let (r, n) := r.nat 3; let (r, a) := sub r; let (r, b) := sub r; (r, .list (es ([a, b].take n)))
    | 18 => let (r, a) := sub r; let (r, b) := sub r; (r, .set (es [a, b]))
    | 19 => let (r, a) := sub r; let (r, b) := sub r; let (r, c) := sub r; let (r, d) := sub r
            (r, .dict (.cons a b (.cons c d .nil)))
    | 20 => let (r, a) := sub r; (r, .lambda0 a)
    | _ => sub r

instance : Inhabited Target := ⟨.name "x"⟩
instance : Inhabited Stmt := ⟨.expr (.const .none)⟩

partial def randT (r : Rng) (depth : Nat) : Rng × Target :=
  let (r, k) := r.nat (if depth == 0 then 4 else 6)
  match k with
  | 0 => let (r, n) := r.pick #["x", "y", "u", "v", "r"]; (r, .name n)
  | 1 | 2 => let (r, a) := randE r 1; let (r, i) := randE r 1; (r, .subscr a i)
  | 3 => let (r, a) := randE r 1; (r, .attr a "p")
  | _ =>
    let (r, t1) := randT r (depth - 1); let (r, t2) := randT r (depth - 1)
    let (r, n) := r.nat 2
    (r, .tuple (if n == 0 then .cons t1 (.cons t2 .nil) else .cons t1 (.cons t2 (.cons (.name "v") .nil))))

partial def randS (r : Rng) (depth : Nat) : Rng × Stmt :=
  let (r, k) := r.nat 5
  match k with
  | 0 | 1 =>
    let (r, n) := r.nat 3
    let (r, t1) := randT r 1; let (r, t2) := randT r 1; let (r, t3) := randT r 1
    let (r, v) := randE r depth
    (r, .assign t1 (Targets.ofList ([t2, t3].take n)) v)
  | 2 | 3 =>
    let (r, op) := r.pick allBin.toArray
    let (r, tk) := r.nat 3
    let (r, a) := randE r 1; let (r, i) := randE r 1
    let (r, v) := randE r depth
    (r, .aug (match tk with | 0 => .name "x" | 1 => .subscr a i | _ => .attr a "p") op v)
  | _ => let (r, e) := randE r depth; (r, .expr e)

def genRandom (tier : String) (seed : Nat) : IO Unit := do
  let mut r : Rng := ⟨(seed * 6364136223846793005 + 1442695040888963407).toUInt64⟩
  let n := if tier == "thorough" then 120000 else 6000
  for i in [0:n] do
    let (r1, d) := r.nat 2
    let (r2, k) := r1.nat 3
    let (r3, s1) := randS r2 (3 + d)
    let (r4, s2) := randS r3 2
    let (r5, mix) := r4.nat 4
    let (r6, b) := r5.nat 8
    r := r6
    let ss := if k == 0 then [s1, s2] else [s1]
    let (_, na) := numProg payPrimes ss
    let pay := if mix == 0 then payPrimes else payMix (seed + i)
    emit "R" ss pay (if b < 2 && na > 0 then 1 + (i % na) else 0)

def genMain (tier : String) (seed : Nat) : IO Unit := do
  genExprs tier seed
  genPrec tier seed
  genStmts tier seed
  genRandom tier seed

end GPy.C01
