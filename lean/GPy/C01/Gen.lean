/-
C01 case generator.  A case = a small program (list of `Stmt`) rendered to Python
source WITHOUT redundant parentheses (so the real parser must rebuild the
intended grouping), the position at which the probe `ev` raises (0 = never),
and three expectations computed here:
  model R = `compProg` listing (compile tie, instruction for instruction),
  model V = `run` of the model VM on that listing with the concrete `CP`,
  spec  V = `execProg` (reference semantics) with the same `CP`.
-/
import GPy.C01.Concrete
namespace GPy.C01

/-! ## rendering to Python source -/

def BinOp.sym : BinOp → String
  | .add => "+" | .sub => "-" | .mul => "*" | .div => "/" | .mod => "%" | .pow => "**"
  | .lshift => "<<" | .rshift => ">>" | .bitor => "|" | .bitxor => "^" | .bitand => "&" | .floordiv => "//"

def BinOp.prec : BinOp → Nat
  | .bitor => 7 | .bitxor => 8 | .bitand => 9 | .lshift | .rshift => 10
  | .add | .sub => 11 | .mul | .div | .mod | .floordiv => 12 | .pow => 14

def BinOp.opname : BinOp → String
  | .add => "ADD" | .sub => "SUBTRACT" | .mul => "MULTIPLY" | .div => "TRUE_DIVIDE" | .mod => "MODULO"
  | .pow => "POWER" | .lshift => "LSHIFT" | .rshift => "RSHIFT" | .bitor => "OR" | .bitxor => "XOR"
  | .bitand => "AND" | .floordiv => "FLOOR_DIVIDE"

def UnOp.sym : UnOp → String
  | .invert => "~" | .not => "not " | .uadd => "+" | .usub => "-"

def UnOp.opname : UnOp → String
  | .invert => "UNARY_INVERT" | .not => "UNARY_NOT" | .uadd => "UNARY_POSITIVE" | .usub => "UNARY_NEGATIVE"

def CmpOp.sym : CmpOp → String
  | .eq => "==" | .ne => "!=" | .lt => "<" | .le => "<=" | .gt => ">" | .ge => ">="
  | .is => "is" | .isNot => "is not" | .in_ => "in" | .notIn => "not in"

/-- vm.PyCmp_* -/
def CmpOp.code : CmpOp → Nat
  | .lt => 0 | .le => 1 | .eq => 2 | .ne => 3 | .gt => 4 | .ge => 5
  | .in_ => 6 | .notIn => 7 | .is => 8 | .isNot => 9

def Const.src : Const → String
  | .int i => toString i | .str s => "'" ++ s ++ "'" | .none => "None" | .true => "True" | .false => "False"
  | .bytes s => "b'" ++ s ++ "'"

def paren (need : Bool) (s : String) : String := if need then "(" ++ s ++ ")" else s

/-- precedence level of the outermost form (grammar.y cascade: test=2 … atom=17) -/
def prec : Expr → Nat
  | .lambda _ _ _ _ => 1
  | .ifexp _ _ _ => 2
  | .boolop isOr _ _ => if isOr then 3 else 4
  | .unop .not _ => 5
  | .compare _ _ => 6
  | .binop op _ _ => op.prec
  | .unop _ _ => 13
  | .atom _ _ | .subscript _ _ | .slice2 _ _ _ | .attr _ _ | .call _ _ | .callx _ _ _ _ _ => 16
  | .const (.int i) => if i < 0 then 13 else 17
  | _ => 17

def isNum : Expr → Bool
  | .const (.int _) => true
  | _ => false

mutual
/-- source text of `e` in a context that accepts precedence ≥ `p` without parentheses -/
partial def src (p : Nat) (e : Expr) : String :=
  paren (prec e < p) <| match e with
  | .atom i c => s!"ev({i}, {c.src})"
  | .const c => c.src
  | .name n => n
  | .binop .pow a b => src 15 a ++ " ** " ++ src 13 b
  | .binop op a b => src op.prec a ++ " " ++ op.sym ++ " " ++ src (op.prec + 1) b
  | .unop .not a => "not " ++ src 5 a
  | .unop op a => op.sym ++ src 13 a
  | .boolop isOr a rest =>
      let q := if isOr then 4 else 5
      (if isOr then " or " else " and ").intercalate (src q a :: rest.toList.map (src q))
  | .compare a rest => src 7 a ++ srcTail rest
  | .ifexp t b o => src 3 b ++ " if " ++ src 3 t ++ " else " ++ src 2 o
  | .subscript a i => src 16 a ++ "[" ++ srcIdx i ++ "]"
  | .slice2 a lo hi => src 16 a ++ "[" ++ src 2 lo ++ ":" ++ src 2 hi ++ "]"
  | .attr a n => (if isNum a then "(" ++ src 0 a ++ ")" else src 16 a) ++ "." ++ n   -- `1.p` would lex as a float
  | .call f args => src 16 f ++ "(" ++ ", ".intercalate (args.toList.map (src 2)) ++ ")"
  | .tuple es => match es.toList with
    | [e] => "(" ++ src 2 e ++ ",)"
    | l => "(" ++ ", ".intercalate (l.map (src 2)) ++ ")"
  | .list es => "[" ++ ", ".intercalate (es.toList.map (src 2)) ++ "]"
  | .set es => "{" ++ ", ".intercalate (es.toList.map (src 2)) ++ "}"
  | .dict kvs => "{" ++ ", ".intercalate (srcKVs kvs) ++ "}"
  | .lambda sg ds kds b =>
      let ps := srcParams sg ds kds
      (if ps == "" then "lambda: " else "lambda " ++ ps ++ ": ") ++ src 2 b
  | .slice3 lo hi st => "<slice " ++ srcIdx (.slice3 lo hi st) ++ ">"      -- only valid as a subscript index
  | .callx f args kws star dstar =>
      let pos := args.toList.map (src 2)
      let kw := kws.toList.map fun (n, e) => n ++ "=" ++ src 2 e
      let st := match star with | .some e => ["*" ++ src 2 e] | .none => []
      let ds := match dstar with | .some e => ["**" ++ src 2 e] | .none => []
      -- Python 3.4 allows `*s` before the keyword arguments; evaluation order is unchanged
      let mid := if kws.length % 2 == 1 then st ++ kw else kw ++ st
      src 16 f ++ "(" ++ ", ".intercalate (pos ++ mid ++ ds) ++ ")"
/-- a subscript index: a 3-bound slice is written `lo:hi:st`, an omitted bound is `None` -/
partial def srcIdx : Expr → String
  | .slice3 lo hi st =>
      let b (e : Expr) : String := match e with | .const .none => "" | e => src 2 e
      b lo ++ ":" ++ b hi ++ ":" ++ src 2 st
  -- an extended slice `a[i, lo:hi:st, …]` (ast.ExtSlice): the tuple of its dimensions, written without parentheses
  | .tuple es =>
      let l := es.toList
      if l.any (fun e => match e with | .slice3 _ _ _ => true | _ => false) then
        match l with
        | [e] => srcIdx e ++ ","
        | l => ", ".intercalate (l.map fun e => match e with | .slice3 _ _ _ => srcIdx e | e => src 2 e)
      else src 0 (.tuple es)
  | i => src 0 i
/-- parameter list with defaults: the defaults belong to the LAST positional parameters -/
partial def srcParams (sg : Sig) (ds : Exprs) (kds : KWs) : String :=
  let dl := ds.toList
  let np := sg.pos.length
  let pos := (List.range np).zip sg.pos |>.map fun (i, n) =>
    if i + dl.length ≥ np then
      match dl[i + dl.length - np]? with
      | some e => n ++ "=" ++ src 2 e
      | none => n
    else n
  let star := match sg.vararg with
    | some n => ["*" ++ n]
    | none => if sg.kwonly.isEmpty then [] else ["*"]
  let kwo := sg.kwonly.map fun n =>
    match kds.toList.lookup n with
    | some e => n ++ "=" ++ src 2 e
    | none => n
  let kw := match sg.kwarg with | some n => ["**" ++ n] | none => []
  ", ".intercalate (pos ++ star ++ kwo ++ kw)
partial def srcTail : CmpTail → String
  | .one op e => " " ++ op.sym ++ " " ++ src 7 e
  | .more op e rest => " " ++ op.sym ++ " " ++ src 7 e ++ srcTail rest
partial def srcKVs : KVs → List String
  | .nil => []
  | .cons k v rest => (src 2 k ++ ": " ++ src 2 v) :: srcKVs rest
end

mutual
partial def srcT : Target → String
  | .name n => n
  | .subscr a i => src 16 a ++ "[" ++ srcIdx i ++ "]"
  | .attr a n => (if isNum a then "(" ++ src 0 a ++ ")" else src 16 a) ++ "." ++ n
  | .tuple ts => match srcTs ts with
    | [t] => "(" ++ t ++ ",)"
    | l => "(" ++ ", ".intercalate l ++ ")"
  | .star b t a => match srcTs b ++ ["*" ++ srcT t] ++ srcTs a with
    | [t] => "(" ++ t ++ ",)"
    | l => "(" ++ ", ".intercalate l ++ ")"
partial def srcTs : Targets → List String
  | .nil => []
  | .cons t ts => srcT t :: srcTs ts
end

mutual
partial def srcD : DelTarget → String
  | .name n => n
  | .subscr a i => src 16 a ++ "[" ++ srcIdx i ++ "]"
  | .attr a n => (if isNum a then "(" ++ src 0 a ++ ")" else src 16 a) ++ "." ++ n
  | .tuple ts => match srcDs ts with
    | [t] => "(" ++ t ++ ",)"
    | l => "(" ++ ", ".intercalate l ++ ")"
partial def srcDs : DelTargets → List String
  | .nil => []
  | .cons t ts => srcD t :: srcDs ts
end

def Targets.toList : Targets → List Target
  | .nil => []
  | .cons t ts => t :: ts.toList

def srcS : Stmt → String
  | .assign t more v => " = ".intercalate ((t :: more.toList).map srcT) ++ " = " ++ src 2 v
  | .aug t op v =>
      let ts := match t with
        | .name n => n
        | .subscr a i => src 16 a ++ "[" ++ srcIdx i ++ "]"
        | .attr a n => (if isNum a then "(" ++ src 0 a ++ ")" else src 16 a) ++ "." ++ n
      ts ++ " " ++ op.sym ++ "= " ++ src 2 v
  | .expr e => src 2 e
  | .del ts => "del " ++ ", ".intercalate (srcDs ts)
  | .funcdef name sg ds kds body => "def " ++ name ++ "(" ++ srcParams sg ds kds ++ "): return " ++ src 2 body

def srcProg (ss : List Stmt) : String := "\\n".intercalate (ss.map srcS)

/-! ## listing of the model byte code (format of harness/c01.go `c01Dis`) -/

def sigShow (sg : Sig) : String :=
  "[" ++ ",".intercalate sg.pos ++ ";" ++ ",".intercalate sg.kwonly ++ ";"
    ++ (match sg.vararg with | some n => "*" ++ n | none => "-") ++ ";"
    ++ (match sg.kwarg with | some n => "**" ++ n | none => "-") ++ "]"

mutual
partial def Instr.show : Instr → String
  | .LOAD_CONST c => s!"LOAD_CONST({c.src})"
  | .LOAD_CODE name sg body => "LOAD_CONST(<code " ++ sigShow sg ++ ": " ++ listing (compBody name sg body) ++ ">)"
  | .LOAD_NAME n => s!"LOAD_NAME({n})"
  | .STORE_NAME n => s!"STORE_NAME({n})"
  | .DELETE_NAME n => s!"DELETE_NAME({n})"
  | .LOAD_FAST n => s!"LOAD_FAST({n})"
  | .LOAD_GLOBAL n => s!"LOAD_GLOBAL({n})"
  | .BINARY op => "BINARY_" ++ op.opname
  | .INPLACE op => "INPLACE_" ++ op.opname
  | .UNARY op => op.opname
  | .COMPARE_OP op => s!"COMPARE_OP({op.code})"
  | .JUMP_IF_FALSE_OR_POP t => s!"JUMP_IF_FALSE_OR_POP({t})"
  | .JUMP_IF_TRUE_OR_POP t => s!"JUMP_IF_TRUE_OR_POP({t})"
  | .POP_JUMP_IF_FALSE t => s!"POP_JUMP_IF_FALSE({t})"
  | .JUMP_FORWARD t => s!"JUMP_FORWARD({t})"
  | .POP_TOP => "POP_TOP" | .DUP_TOP => "DUP_TOP" | .DUP_TOP_TWO => "DUP_TOP_TWO"
  | .ROT_TWO => "ROT_TWO" | .ROT_THREE => "ROT_THREE"
  | .BINARY_SUBSCR => "BINARY_SUBSCR" | .STORE_SUBSCR => "STORE_SUBSCR" | .DELETE_SUBSCR => "DELETE_SUBSCR"
  | .LOAD_ATTR n => s!"LOAD_ATTR({n})" | .STORE_ATTR n => s!"STORE_ATTR({n})"
  | .DELETE_ATTR n => s!"DELETE_ATTR({n})"
  | .CALL_FUNCTION n => s!"CALL_FUNCTION({n})"
  | .CALL_FUNCTION_EX na nk st ds =>
      (match st, ds with
        | false, false => "CALL_FUNCTION" | true, false => "CALL_FUNCTION_VAR"
        | false, true => "CALL_FUNCTION_KW" | true, true => "CALL_FUNCTION_VAR_KW") ++ s!"({na + 256 * nk})"
  | .BUILD_TUPLE n => s!"BUILD_TUPLE({n})" | .BUILD_LIST n => s!"BUILD_LIST({n})"
  | .BUILD_SET n => s!"BUILD_SET({n})" | .BUILD_SLICE n => s!"BUILD_SLICE({n})"
  | .BUILD_MAP n => s!"BUILD_MAP({n})" | .STORE_MAP => "STORE_MAP"
  | .MAKE_FUNCTION np nk => s!"MAKE_FUNCTION({np + 256 * nk})"
  | .UNPACK_SEQUENCE n => s!"UNPACK_SEQUENCE({n})"
  | .UNPACK_EX b a => s!"UNPACK_EX({b + 256 * a})"
  | .RETURN_VALUE => "RETURN_VALUE"
partial def listing (code : List Instr) : String := " ".intercalate (code.map Instr.show)
end

/-! ## one case -/

def specRun (ss : List Stmt) (bad : Nat) : String × Bool :=
  match execProg CPspec ss (initW bad) with
  | .ok _ w => (renderW w "-", false)
  | .err x w => (renderW w x, x == "UNSPEC")

def modelRun (ss : List Stmt) (bad : Nat) : String :=
  let code := compProg ss
  match run CP code (4 * code.length + 16) 0 [] (initW bad) with
  | .ret _ w => renderW w "-"
  | .exc x w => renderW w x
  | .fell _ _ => "MODEL-FELL-OFF"
  | .fault => "MODEL-FAULT"
  | .fuel => "MODEL-FUEL"

mutual
def atomsE : Expr → Nat
  | .atom _ _ => 1
  | .const _ | .name _ => 0
  | .binop _ a b => atomsE a + atomsE b
  | .unop _ a => atomsE a
  | .boolop _ a r => atomsE a + atomsEs r
  | .compare a r => atomsE a + atomsTail r
  | .ifexp t b o => atomsE t + atomsE b + atomsE o
  | .subscript a i => atomsE a + atomsE i
  | .slice2 a l h => atomsE a + atomsE l + atomsE h
  | .attr a _ => atomsE a
  | .call f a => atomsE f + atomsEs a
  | .tuple es | .list es | .set es => atomsEs es
  | .dict kvs => atomsKVs kvs
  | .lambda _ ds kds b => atomsEs ds + atomsKWs kds + atomsE b
  | .slice3 l h st => atomsE l + atomsE h + atomsE st
  | .callx f a k st ds => atomsE f + atomsEs a + atomsKWs k + atomsOpt st + atomsOpt ds
def atomsEs : Exprs → Nat
  | .nil => 0
  | .cons e es => atomsE e + atomsEs es
def atomsTail : CmpTail → Nat
  | .one _ e => atomsE e
  | .more _ e r => atomsE e + atomsTail r
def atomsKVs : KVs → Nat
  | .nil => 0
  | .cons k v r => atomsE k + atomsE v + atomsKVs r
def atomsKWs : KWs → Nat
  | .nil => 0
  | .cons _ e r => atomsE e + atomsKWs r
def atomsOpt : OptE → Nat
  | .none => 0
  | .some e => atomsE e
end

def countLog (v : String) : Nat :=
  -- number of events in "L:a;b;c V:..."
  match (v.splitOn " V:") with
  | l :: _ => if l == "L:" then 0 else (l.splitOn ";").length
  | [] => 0

/-- emit one program.  family = distribution key -/
def mkCase (family : String) (ss : List Stmt) (bad : Nat) (forceNt : Bool := false) : Case :=
  let (sv, unspecified) := specRun ss bad
  let mv := modelRun ss bad
  let lst := listing (compProg ss)
  let mode := if unspecified then "C" else "R"
  let input := s!"{family} {mode} {bad} {srcProg ss}"
  let nev := countLog sv
  -- the known finding C01-K01 (dict display with a non-str key) shows as KeyError on the model side only;
  -- any OTHER difference between model and reference is left untagged and surfaces as a VIOLATION
  let tags := (if nev ≥ 2 || forceNt then ["nt"] else []) ++ (if !unspecified && mv != sv && mv.endsWith "X:KeyError" then ["kf=C01-K01"] else [])
    ++ (if unspecified then ["unspec"] else [])
    ++ (if !unspecified && sv.endsWith "X:-" == false then ["exc"] else [])
  if unspecified then
    { input := input, modelV := "-", modelR := lst, specV := "-", tags := tags }
  else
    { input := input, modelV := mv, modelR := lst, specV := sv, tags := tags }

/-! ## shapes with numbered probes -/

/-- renumber the atoms of an expression in SOURCE order with positions from `n`,
giving atom number `j` the payload `pay j` -/
structure Num where
  next : Nat
  pay : Nat → Const

mutual
partial def numE (st : Num) : Expr → Expr × Num
  | .atom _ _ => (.atom st.next (st.pay st.next), { st with next := st.next + 1 })
  | .binop op a b => let (a, st) := numE st a; let (b, st) := numE st b; (.binop op a b, st)
  | .unop op a => let (a, st) := numE st a; (.unop op a, st)
  | .boolop o a r => let (a, st) := numE st a; let (r, st) := numEs st r; (.boolop o a r, st)
  | .compare a r => let (a, st) := numE st a; let (r, st) := numTail st r; (.compare a r, st)
  | .ifexp t b o =>
      -- source order: body, test, orelse
      let (b, st) := numE st b; let (t, st) := numE st t; let (o, st) := numE st o; (.ifexp t b o, st)
  | .subscript a i => let (a, st) := numE st a; let (i, st) := numE st i; (.subscript a i, st)
  | .slice2 a l h =>
      let (a, st) := numE st a; let (l, st) := numE st l; let (h, st) := numE st h; (.slice2 a l h, st)
  | .attr a n => let (a, st) := numE st a; (.attr a n, st)
  | .call f a => let (f, st) := numE st f; let (a, st) := numEs st a; (.call f a, st)
  | .tuple es => let (es, st) := numEs st es; (.tuple es, st)
  | .list es => let (es, st) := numEs st es; (.list es, st)
  | .set es => let (es, st) := numEs st es; (.set es, st)
  | .dict kvs => let (kvs, st) := numKVs st kvs; (.dict kvs, st)
  | .lambda sg ds kds b =>
      let (ds, st) := numEs st ds; let (kds, st) := numKWs st kds; let (b, st) := numE st b
      (.lambda sg ds kds b, st)
  | .slice3 l h s3 =>
      let (l, st) := numE st l; let (h, st) := numE st h; let (s3, st) := numE st s3; (.slice3 l h s3, st)
  | .callx f a k sa da =>
      let (f, st) := numE st f; let (a, st) := numEs st a; let (k, st) := numKWs st k
      let (sa, st) := numOpt st sa; let (da, st) := numOpt st da
      (.callx f a k sa da, st)
  | e => (e, st)
partial def numEs (st : Num) : Exprs → Exprs × Num
  | .nil => (.nil, st)
  | .cons e es => let (e, st) := numE st e; let (es, st) := numEs st es; (.cons e es, st)
partial def numTail (st : Num) : CmpTail → CmpTail × Num
  | .one op e => let (e, st) := numE st e; (.one op e, st)
  | .more op e r => let (e, st) := numE st e; let (r, st) := numTail st r; (.more op e r, st)
partial def numKVs (st : Num) : KVs → KVs × Num
  | .nil => (.nil, st)
  | .cons k v r =>
      let (k, st) := numE st k; let (v, st) := numE st v; let (r, st) := numKVs st r; (.cons k v r, st)
partial def numKWs (st : Num) : KWs → KWs × Num
  | .nil => (.nil, st)
  | .cons n e r => let (e, st) := numE st e; let (r, st) := numKWs st r; (.cons n e r, st)
partial def numOpt (st : Num) : OptE → OptE × Num
  | .none => (.none, st)
  | .some e => let (e, st) := numE st e; (.some e, st)
end

mutual
partial def numT (st : Num) : Target → Target × Num
  | .subscr a i => let (a, st) := numE st a; let (i, st) := numE st i; (.subscr a i, st)
  | .attr a n => let (a, st) := numE st a; (.attr a n, st)
  | .tuple ts => let (ts, st) := numTs st ts; (.tuple ts, st)
  | .star b t a =>
      let (b, st) := numTs st b; let (t, st) := numT st t; let (a, st) := numTs st a; (.star b t a, st)
  | t => (t, st)
partial def numTs (st : Num) : Targets → Targets × Num
  | .nil => (.nil, st)
  | .cons t ts => let (t, st) := numT st t; let (ts, st) := numTs st ts; (.cons t ts, st)
end

mutual
partial def numD (st : Num) : DelTarget → DelTarget × Num
  | .subscr a i => let (a, st) := numE st a; let (i, st) := numE st i; (.subscr a i, st)
  | .attr a n => let (a, st) := numE st a; (.attr a n, st)
  | .tuple ts => let (ts, st) := numDs st ts; (.tuple ts, st)
  | t => (t, st)
partial def numDs (st : Num) : DelTargets → DelTargets × Num
  | .nil => (.nil, st)
  | .cons t ts => let (t, st) := numD st t; let (ts, st) := numDs st ts; (.cons t ts, st)
end

def numS (st : Num) : Stmt → Stmt × Num
  | .assign t more v =>
      let (t, st) := numT st t; let (more, st) := numTs st more; let (v, st) := numE st v
      (.assign t more v, st)
  | .aug t op v =>
      let (t, st) := match t with
        | .name n => (AugTarget.name n, st)
        | .subscr a i => let (a, st) := numE st a; let (i, st) := numE st i; (.subscr a i, st)
        | .attr a n => let (a, st) := numE st a; (.attr a n, st)
      let (v, st) := numE st v
      (.aug t op v, st)
  | .expr e => let (e, st) := numE st e; (.expr e, st)
  | .del ts => let (ts, st) := numDs st ts; (.del ts, st)
  | .funcdef name sg ds kds b =>
      let (ds, st) := numEs st ds; let (kds, st) := numKWs st kds; let (b, st) := numE st b
      (.funcdef name sg ds kds b, st)

def numProg (pay : Nat → Const) (ss : List Stmt) : List Stmt × Nat :=
  let (out, st) := ss.foldl (fun (acc : List Stmt × Num) s =>
    let (s', st) := numS acc.2 s; (acc.1 ++ [s'], st)) ([], { next := 1, pay := pay })
  (out, st.next - 1)

/-- distinct small primes: every grouping / operand role gives a different int -/
def primes : Array Int := #[2, 3, 5, 7, 11, 13, 17, 19, 23, 29, 31, 37, 41, 43, 47, 53, 59, 61, 67, 71]

def payPrimes (j : Nat) : Const := .int (primes[(j - 1) % primes.size]!)

/-- payload pattern `k`: like primes but with falsy / string / None values mixed in -/
def payMix (k : Nat) (j : Nat) : Const :=
  let h := (k * 7919 + j * 104729 + k * j * 31) % 11
  match h with
  | 0 => .int 0 | 1 => .str "" | 2 => .none | 3 => .str "ab" | 4 => .int 1 | 5 => .false | 6 => .true
  | _ => payPrimes (j + k)

def A : Expr := .atom 0 .none     -- placeholder probe, numbered later

def emit (family : String) (ss : List Stmt) (pay : Nat → Const) (bad : Nat) : IO Unit :=
  let (p, _) := numProg pay ss
  IO.println (mkCase family p bad).line

/-- primes run, plus `extra` mixed-payload runs, plus raising probes at every position
(if `allBad`) or at one seed-chosen position -/
def emitAll (family : String) (ss : List Stmt) (seed : Nat) (extra : Nat) (allBad : Bool) : IO Unit := do
  let (_, n) := numProg payPrimes ss
  emit family ss payPrimes 0
  for k in [0:extra] do
    emit family ss (payMix (seed * 13 + k + n)) 0
  if n > 0 then
    if allBad then
      for b in [1:n+1] do emit family ss payPrimes b
    else
      emit family ss (payMix (seed + 3)) (1 + (seed * 7 + n * 3 + (srcProg ss).length) % n)

def rAssign (e : Expr) : List Stmt := [.assign (.name "r") .nil e]

/-! ## alphabets -/

def allBin : List BinOp := [.add, .sub, .mul, .div, .mod, .pow, .lshift, .rshift, .bitor, .bitxor, .bitand, .floordiv]
def allCmp : List CmpOp := [.eq, .ne, .lt, .le, .gt, .ge, .is, .isNot, .in_, .notIn]
def allUn : List UnOp := [.invert, .not, .uadd, .usub]

def es (l : List Expr) : Exprs := Exprs.ofList l

/-- depth-1 forms over the given operands (every constructor of the fragment) -/
def forms1 (a b c : Expr) (bins : List BinOp) (cmps : List CmpOp) (uns : List UnOp) : List Expr :=
  bins.map (fun op => .binop op a b)
  ++ uns.map (fun op => .unop op a)
  ++ [.boolop false a (es [b]), .boolop true a (es [b]),
      .boolop false a (es [b, c]), .boolop true a (es [b, c])]
  ++ cmps.map (fun op => .compare a (.one op b))
  ++ [.compare a (.more .lt b (.one .lt c)), .compare a (.more .eq b (.one .ne c)),
      .compare a (.more .ge b (.one .in_ c))]
  ++ [.ifexp a b c,
      .subscript (.name "c1") a, .subscript a b, .slice2 (.name "c2") a b,
      .attr (.name "o1") "p", .attr a "qq",
      .call (.name "f") (es [a, b]), .call (.name "g") (es [a]), .call (.name "f") (es []), .call a (es [b]),
      .tuple (es [a, b]), .tuple (es [a]), .list (es [a, b]), .set (es [a, b]),
      .dict (.cons (.const (.str "k")) a (.cons (.const (.str "l")) b .nil)),
      .dict (.cons a b .nil),
      .lambda0 a]

/-- reduced inner alphabet for exhaustive depth 2 -/
def inner (a b c : Expr) : List Expr :=
  [a,
   .binop .sub a b, .binop .pow a b, .binop .mul a b,
   .unop .usub a, .unop .not a,
   .boolop false a (es [b]), .boolop true a (es [b]),
   .compare a (.one .lt b), .compare a (.more .lt b (.one .eq c)),
   .ifexp a b c,
   .subscript (.name "c1") a, .attr (.name "o2") "p",
   .call (.name "f") (es [a, b]), .tuple (es [a, b])]

def innerSmall (a b : Expr) : List Expr :=
  [a, .binop .sub a b, .unop .not a, .boolop true a (es [b]), .compare a (.more .lt b (.one .lt a)),
   .ifexp a b a, .call (.name "f") (es [a])]

/-! ## families -/

/-- E1/E2: all expression trees of depth ≤ 2 (outer form: every constructor and operator;
inner forms: reduced alphabet) -/
def genExprs (tier : String) (seed : Nat) : IO Unit := do
  let thorough := tier == "thorough"
  for e in forms1 A A A allBin allCmp allUn do
    emitAll "E1" (rAssign e) seed 4 true
    emitAll "E1" [.expr e] seed 0 false
  let inn := inner A A A
  let innS := innerSmall A A
  -- outer forms with two operand slots
  let outer2 : List (Expr → Expr → Expr) :=
    (if thorough then allBin else [.add, .sub, .mul, .floordiv, .pow, .lshift, .bitand, .bitor]).map (fun op a b => Expr.binop op a b)
    ++ [fun a b => .boolop false a (es [b]), fun a b => .boolop true a (es [b])]
    ++ (if thorough then allCmp else [.eq, .lt, .ge, .in_, .isNot]).map (fun op a b => Expr.compare a (.one op b))
    ++ [fun a b => .subscript a b, fun a b => .call a (es [b]), fun a b => .call (.name "f") (es [a, b]),
        fun a b => .tuple (es [a, b]), fun a b => .list (es [a, b]),
        fun a b => .dict (.cons a b .nil), fun a b => .slice2 (.name "c1") a b]
  for o in outer2 do
    for x in inn do
      for y in inn do
        emitAll "E2" (rAssign (o x y)) seed (if thorough then 2 else 1) thorough
  let outer1 : List (Expr → Expr) :=
    allUn.map (fun op a => Expr.unop op a)
    ++ [fun a => .attr a "p", fun a => .subscript (.name "c2") a, fun a => .call (.name "g") (es [a]),
        fun a => .tuple (es [a]), fun a => .lambda0 a, fun a => .call a (es [])]
  for o in outer1 do
    for x in inn do
      emitAll "E2" (rAssign (o x)) seed 2 true
  -- three operand slots
  let outer3 : List (Expr → Expr → Expr → Expr) :=
    [fun a b c => .ifexp a b c,
     fun a b c => .boolop false a (es [b, c]), fun a b c => .boolop true a (es [b, c]),
     fun a b c => .compare a (.more .lt b (.one .lt c)), fun a b c => .compare a (.more .eq b (.one .ge c)),
     fun a b c => .slice2 a b c, fun a b c => .call a (es [b, c])]
  for o in outer3 do
    for x in (if thorough then inn else innS) do
      for y in (if thorough then inn else innS) do
        for z in (if thorough then inn else innS) do
          emitAll "E2" (rAssign (o x y z)) seed 1 false

/-- P2/P3: every pair and triple of infix operators, both / all five groupings; the text
is rendered without redundant parentheses, so for each operator sequence exactly one
grouping is the bare text `a op b op c` -/
inductive Infix
  | bin (op : BinOp) | cmp (op : CmpOp) | band | bor
deriving Inhabited

def Infix.mk : Infix → Expr → Expr → Expr
  | .bin op, a, b => .binop op a b
  | .cmp op, a, b => .compare a (.one op b)
  | .band, a, b => .boolop false a (es [b])
  | .bor, a, b => .boolop true a (es [b])

def allInfix : List Infix := allBin.map .bin ++ allCmp.map .cmp ++ [.band, .bor]

def genPrec (tier : String) (seed : Nat) : IO Unit := do
  let ops := allInfix
  for o1 in ops do
    for o2 in ops do
      emitAll "P2" (rAssign (o2.mk (o1.mk A A) A)) seed 1 false
      emitAll "P2" (rAssign (o1.mk A (o2.mk A A))) seed 1 false
  -- chains written as chains (n-ary BoolOp, comparison chains) mixed with the others
  for o in ops do
    emitAll "P2" (rAssign (o.mk (.compare A (.more .lt A (.one .le A))) A)) seed 1 false
    emitAll "P2" (rAssign (o.mk A (.boolop true A (es [A, A])))) seed 1 false
    emitAll "P2" (rAssign (.ifexp (o.mk A A) (o.mk A A) (o.mk A A))) seed 1 false
    emitAll "P2" (rAssign (o.mk (.ifexp A A A) A)) seed 0 false
    emitAll "P2" (rAssign (o.mk A (.lambda0 A))) seed 0 false
    for u in allUn do
      emitAll "P2" (rAssign (.unop u (o.mk A A))) seed 1 false
      emitAll "P2" (rAssign (o.mk (.unop u A) A)) seed 1 false
      emitAll "P2" (rAssign (o.mk A (.unop u A))) seed 1 false
  for u in allUn do
    for v in allUn do
      emitAll "P2" (rAssign (.unop u (.unop v A))) seed 1 false
  -- triples: 5 groupings
  let mut r : Rng := ⟨(seed * 2654435761 + 12345).toUInt64⟩
  let triple (o1 o2 o3 : Infix) : List Expr :=
    [o3.mk (o2.mk (o1.mk A A) A) A, o3.mk (o1.mk A (o2.mk A A)) A, o2.mk (o1.mk A A) (o3.mk A A),
     o1.mk A (o3.mk (o2.mk A A) A), o1.mk A (o2.mk A (o3.mk A A))]
  if tier == "thorough" then
    for o1 in ops do
      for o2 in ops do
        for o3 in ops do
          for e in triple o1 o2 o3 do
            emit "P3" (rAssign e) payPrimes 0
  else
    let arr := ops.toArray
    for _ in [0:1500] do
      let (r1, o1) := r.pick arr
      let (r2, o2) := r1.pick arr
      let (r3, o3) := r2.pick arr
      r := r3
      for e in triple o1 o2 o3 do
        emit "P3" (rAssign e) payPrimes 0

/-- S: assignment and augmented assignment forms -/
def genStmts (tier : String) (seed : Nat) : IO Unit := do
  let tgts : List Target :=
    [.name "x", .subscr (.name "c1") A, .subscr A A, .attr (.name "o1") "p", .attr A "qq",
     .tuple (.cons (.name "x") (.cons (.name "y") .nil)),
     .tuple (.cons (.subscr (.name "c2") A) (.cons (.attr (.name "o2") "p") .nil)),
     .tuple (.cons (.name "u") (.cons (.tuple (.cons (.name "v") (.cons (.subscr (.name "c1") A) .nil))) .nil)),
     .subscr (.subscript (.name "c1") A) (.binop .add A A)]
  let vals : List Expr :=
    [A, .tuple (es [A, A]), .call (.name "f") (es [A, A]), .list (es [A, .tuple (es [A, A])]),
     .binop .mul A A, .const (.str "ab"), .tuple (es [A, A, A]), .boolop true A (es [A])]
  for t in tgts do
    for v in vals do
      emitAll "S1" [.assign t .nil v] seed 1 true
  for t1 in tgts do
    for t2 in tgts do
      for v in vals do
        emitAll "S2" [.assign t1 (.cons t2 .nil) v] seed 0 false
  for t1 in tgts.take 5 do
    for t2 in tgts.take 6 do
      for t3 in tgts.take 7 do
        emitAll "S3" [.assign t1 (.cons t2 (.cons t3 .nil)) (.tuple (es [A, A]))] seed 0 false
  -- augmented assignment: every operator × every target kind
  let augT : List AugTarget :=
    [.name "x", .name "z", .name "nosuch", .subscr (.name "c1") A, .subscr A A, .attr (.name "o1") "p",
     .attr A "p", .subscr (.subscript (.name "c2") A) (.binop .sub A A),
     .attr (.call (.name "f") (es [A])) "p", .subscr (.name "c1") (.tuple (es [A, A]))]
  let augV : List Expr := [A, .binop .sub A A, .boolop false A (es [A]), .call (.name "g") (es [A]),
     .ifexp A A A, .compare A (.more .lt A (.one .lt A))]
  for t in augT do
    for op in allBin do
      for v in augV do
        emitAll "A1" [.aug t op v] seed 1 (tier == "thorough")
  -- sequences: a later statement observes an earlier store
  for op in [BinOp.add, .sub, .mul] do
    emitAll "Q" [.assign (.name "x") (.cons (.name "y") .nil) A, .aug (.name "x") op A,
                 .assign (.name "r") .nil (.tuple (es [.name "x", .name "y", .binop op (.name "x") A]))] seed 2 true
    emitAll "Q" [.aug (.name "x") op (.name "y"), .aug (.name "y") op (.name "x"),
                 .expr (.call (.name "f") (es [.name "x", .name "y"]))] seed 0 false

/-! ## second round: function definitions with defaults, general calls, starred targets,
3-bound slices, `del`, function bodies evaluated when called -/

def kws (l : List (String × Expr)) : KWs := KWs.ofList l
def tgs (l : List Target) : Targets := Targets.ofList l

def DelTargets.ofList : List DelTarget → DelTargets
  | [] => .nil
  | t :: ts => .cons t (DelTargets.ofList ts)

def nm (n : String) : Expr := .name n

/-- signatures with their default expressions (all probes) and a body that returns every parameter -/
instance : Inhabited Exprs := ⟨.nil⟩
instance : Inhabited KWs := ⟨.nil⟩

def lamSigs : List (Sig × Exprs × KWs) :=
  [ ({ pos := ["a"] }, es [A], .nil),
    ({ pos := ["a"], kwonly := ["k"] }, es [A], kws [("k", A)]),                    -- `lambda a=…, *, k=…`
    ({ pos := ["a", "b"] }, es [A, A], .nil),
    ({ pos := ["a", "b"] }, es [A], .nil),
    ({ kwonly := ["k", "m"] }, .nil, kws [("k", A), ("m", A)]),
    ({ pos := ["a", "b"], kwonly := ["k", "m"] }, es [A, A], kws [("k", A), ("m", A)]),
    ({ pos := ["a"], vararg := some "c", kwonly := ["k"] }, es [A], kws [("k", A)]),
    ({ pos := ["a", "b", "d"], vararg := some "c", kwonly := ["k", "m", "n"], kwarg := some "kw" },
      es [A, A], kws [("k", A), ("n", A)]),
    ({ pos := ["a"], kwarg := some "kw" }, es [A], .nil),
    ({ vararg := some "c", kwonly := ["k"] }, .nil, kws [("k", A)]),
    ({ pos := ["a", "b"], kwonly := ["k"] }, es [.binop .sub A A, .boolop true A (es [A])],
      kws [("k", .ifexp A A A)]),
    ({ pos := ["a"], kwonly := ["k"] }, es [.lambda { pos := ["b"], kwonly := ["m"] } (es [A]) (kws [("m", A)]) (nm "b")],
      kws [("k", .call (.name "g") (es [A]))]) ]

def bodyOf (sg : Sig) : Expr := .tuple (es (sg.names.map nm))

/-- argument lists to call a function with -/
def callShapes : List (Exprs × KWs × OptE × OptE) :=
  [ (.nil, .nil, .none, .none),
    (es [A], .nil, .none, .none),
    (es [A, A], .nil, .none, .none),
    (es [A], kws [("k", A)], .none, .none),
    (.nil, kws [("k", A), ("a", A)], .none, .none),
    (es [A, A, A], kws [("m", A)], .none, .none),
    (es [A], kws [("m", A), ("zz", A)], .none, .none),
    (es [A], .nil, .some (.tuple (es [A, A])), .none),
    (.nil, .nil, .some A, .none),
    (es [A], kws [("k", A)], .some (.list (es [A])), .none),
    (.nil, .nil, .none, .some (.dict (.cons (.const (.str "k")) A .nil))),
    (es [A], kws [("m", A)], .none, .some (.dict (.cons (.const (.str "b")) A (.cons (.const (.str "n")) A .nil)))),
    (es [A], kws [("k", A)], .some (.tuple (es [A])), .some (.dict (.cons (.const (.str "k")) A .nil))),
    (es [A, A], kws [("m", A), ("k", A)], .some (.tuple (es [A, A])), .some (.dict (.cons (.const (.str "w")) A .nil))),
    (.nil, .nil, .some (.tuple (es [A])), .some A) ]

def mkCallx (f : Expr) (sh : Exprs × KWs × OptE × OptE) : Expr := .callx f sh.1 sh.2.1 sh.2.2.1 sh.2.2.2

/-- L: lambda / def with positional and keyword-only defaults: created, created inside a larger
expression, called (body evaluated at call time, after all arguments) -/
def genLambda (tier : String) (seed : Nat) : IO Unit := do
  let thorough := tier == "thorough"
  for (sg, ds, kds) in lamSigs do
    let lam := Expr.lambda sg ds kds (bodyOf sg)
    let lamP := Expr.lambda sg ds kds (.tuple (es [A, bodyOf sg]))      -- a probe in the body
    emitAll "L1" (rAssign lam) seed 2 true
    emitAll "L1" [.expr lam] seed 0 false
    emitAll "L1" (rAssign (.tuple (es [A, lam, A]))) seed 1 true
    emitAll "L1" (rAssign (.binop .add A (.call (.name "g") (es [lamP, A])))) seed 0 true
    emitAll "L1" (rAssign (.boolop true A (es [lam]))) seed 2 false
    emitAll "L1" [.funcdef "k" sg ds kds (bodyOf sg)] seed 1 true
    for sh in callShapes do
      emitAll "L2" (rAssign (mkCallx lamP sh)) seed (if thorough then 2 else 0) thorough
      emitAll "L2" [.funcdef "k" sg ds kds (.tuple (es [A, bodyOf sg])), .assign (.name "r") .nil (mkCallx (.name "k") sh)]
        seed 0 false
  -- bodies: every depth-1 form, evaluated when called; parameters are locals, other names globals
  let sg2 : Sig := { pos := ["a", "b"], kwonly := ["k"] }
  -- (a nested lambda capturing a parameter would need a closure: outside the fragment)
  for body in (forms1 (nm "a") (nm "b") (nm "k") allBin allCmp allUn).filter (fun b => ((src 0 b).splitOn "lambda").length == 1)
      ++ forms1 A (nm "a") A [.sub, .pow] [.lt, .in_] [.not] ++ [nm "x", .tuple (es [nm "x", nm "a", A])] do
    emitAll "L3" (rAssign (.callx (.lambda sg2 (es [A]) (kws [("k", A)]) body) (es [A]) .nil .none .none)) seed 1 false
    emitAll "L3" (rAssign (.call (.lambda0 body) .nil)) seed 0 false
  -- the function object is made once, its defaults are evaluated once, the body at every call
  for (sg, ds, kds) in lamSigs.take 4 do
    emitAll "L4" [.assign (.name "u") .nil (.lambda sg ds kds (.tuple (es [A, bodyOf sg]))),
                  .assign (.name "r") .nil (.tuple (es [.call (nm "u") (es [A]), .call (nm "u") (es [A])]))] seed 1 true

/-- K: calls with keyword, `*` and `**` arguments to the logging functions of the prelude -/
def genCalls (tier : String) (seed : Nat) : IO Unit := do
  let thorough := tier == "thorough"
  let fs : List Expr := [nm "h", nm "f", nm "ev", nm "c1", A, .attr (nm "o1") "p"]
  let stars : List OptE := [.none, .some (.tuple (es [A, A])), .some A, .some (.list .nil), .some (.call (nm "g") (es [A]))]
  let dstars : List OptE := [.none, .some (.dict (.cons (.const (.str "w")) A .nil)), .some A, .some (.dict .nil),
    .some (.dict (.cons (.const (.str "q")) A (.cons (.const (.str "w")) A .nil)))]
  let poss : List Exprs := [.nil, es [A], es [A, .binop .sub A A]]
  let kwss : List KWs := [.nil, kws [("q", A)], kws [("q", A), ("p", .ifexp A A A)], kws [("i", A), ("v", A)]]
  for f in fs do
    for a in poss do
      for k in kwss do
        for st in stars do
          for ds in dstars do
            if (k.length > 0 || st.isSome || ds.isSome) && (thorough || f matches .name "h" || (a.length + k.length + (if st.isSome then 1 else 0) + (if ds.isSome then 1 else 0)) ≤ 3) then
              emitAll "K1" (rAssign (.callx f a k st ds)) seed (if thorough then 1 else 0) (f matches .name "h")
  -- inside larger expressions: the call's own operands stay between their neighbours
  for sh in callShapes do
    emitAll "K2" (rAssign (.binop .sub A (.binop .mul (mkCallx (nm "h") sh) A))) seed 0 false
    emitAll "K2" (rAssign (.tuple (es [A, .subscript (mkCallx (nm "h") sh) A, A]))) seed 0 false
    emitAll "K2" [.assign (.subscr (nm "c1") (mkCallx (nm "h") sh)) .nil A] seed 0 false
    emitAll "K2" [.aug (.subscr (nm "c1") A) .add (mkCallx (nm "h") sh)] seed 0 false

/-- U: starred assignment targets (UNPACK_EX) -/
def genStar (_tier : String) (seed : Nat) : IO Unit := do
  let stars : List Target :=
    [.star (tgs [.name "x"]) (.name "y") (tgs [.name "u"]),
     .star .nil (.name "y") .nil,
     .star .nil (.name "x") (tgs [.name "y"]),
     .star (tgs [.name "x", .name "y"]) (.name "u") .nil,
     .star (tgs [.subscr (nm "c1") A]) (.attr (nm "o1") "p") (tgs [.subscr A A]),
     .star (tgs [.name "x"]) (.subscr (nm "c2") A) (tgs [.name "u", .attr A "p"]),
     .star (tgs [.tuple (tgs [.name "x", .name "y"])]) (.name "u") (tgs [.star .nil (.name "v") (tgs [.subscr (nm "c1") A])]),
     .tuple (tgs [.name "x", .star (tgs [.subscr (nm "c1") A]) (.name "y") .nil])]
  let vals : List Expr :=
    [.tuple (es [A, A, A]), .tuple (es [A, A, A, A, A]), .list (es [A, A]), .tuple (es [A]), .tuple .nil,
     A, .const (.str "abcd"), .call (nm "f") (es [A, A]),
     .tuple (es [.tuple (es [A, A]), A, .tuple (es [A, A, A])]), .tuple (es [A, .tuple (es [A, A, A])])]
  for t in stars do
    for v in vals do
      emitAll "U1" [.assign t .nil v] seed 1 true
      emitAll "U1" [.assign (.name "r") (tgs [t, .subscr (nm "c2") A]) v] seed 0 false

/-- X: 3-bound slices in load, store, augmented and del context -/
def genSlice3 (_tier : String) (seed : Nat) : IO Unit := do
  let none_ : Expr := .const .none
  let sls : List Expr :=
    [.slice3 A A A, .slice3 none_ A A, .slice3 A none_ A, .slice3 none_ none_ A, .slice3 A A none_,
     .slice3 (.binop .sub A A) (.boolop true A (es [A])) (.unop .usub A)]
  let bases : List Expr := [nm "c1", A, .tuple (es [A, A, A, A, A]), .const (.str "abcdefg"), .list (es [A, A, A, A])]
  for sl in sls do
    for b in bases do
      emitAll "X1" (rAssign (.subscript b sl)) seed 3 true
    emitAll "X1" [.assign (.subscr (nm "c1") sl) .nil A] seed 1 true
    emitAll "X1" [.assign (.subscr A sl) (tgs [.name "x"]) A] seed 1 false
    emitAll "X1" [.aug (.subscr (nm "c2") sl) .add A] seed 1 true
    emitAll "X1" [.del (.ofList [.subscr (nm "c1") sl])] seed 1 true
  -- payloads chosen so that the builtin slicing itself is exercised (steps -2..3, bounds in and out of range)
  for lo in [-7, -2, 0, 1, 3, 9] do
    for hi in [-7, -1, 0, 2, 5, 9] do
      for st in [-2, -1, 1, 2, 3, 0] do
        -- a negative literal is `-<n>` (UNARY_NEGATIVE) in the source, so build it that way
        let lit (i : Nat) (v : Int) : Expr := if v < 0 then .unop .usub (.atom i (.int (-v))) else .atom i (.int v)
        let e := Expr.subscript (.const (.str "abcdef")) (.slice3 (lit 1 lo) (lit 2 hi) (lit 3 st))
        IO.println (mkCase "X2" (rAssign e) 0).line

/-- X3: extended slices `a[i, lo:hi:st]` (ast.ExtSlice: the dimensions left to right, BUILD_SLICE per slice
dimension, BUILD_TUPLE) in load, store, augmented and del context -/
def genExtSlice (_tier : String) (seed : Nat) : IO Unit := do
  let none_ : Expr := .const .none
  let dims : List Expr := [A, .slice3 A A A, .slice3 none_ A none_, .slice3 A none_ A, .binop .sub A A]
  let idxs : List Expr :=
    (dims.flatMap fun d1 => dims.map fun d2 => Expr.tuple (es [d1, d2]))
    ++ [.tuple (es [.slice3 A A A]), .tuple (es [A, .slice3 A A A, A]), .tuple (es [.slice3 A A A, .slice3 A A A, .slice3 none_ none_ A]),
        .tuple (es [.boolop true A (es [A]), .slice3 (.ifexp A A A) A A])]
  for ix in idxs do
    emitAll "X3" (rAssign (.subscript (nm "c1") ix)) seed 1 true
    emitAll "X3" (rAssign (.subscript A ix)) seed 1 false
    emitAll "X3" [.assign (.subscr (nm "c2") ix) (tgs [.name "x"]) A] seed 1 true
    emitAll "X3" [.aug (.subscr (nm "c1") ix) .add A] seed 1 true
    emitAll "X3" [.del (.ofList [.subscr (nm "c2") ix])] seed 0 true
    emitAll "X3" (rAssign (.subscript (.tuple (es [A, A, A])) ix)) seed 0 false

/-- DL: `del` -/
def genDel (_tier : String) (seed : Nat) : IO Unit := do
  let ds : List DelTarget :=
    [.name "x", .name "nosuch", .subscr (nm "c1") A, .subscr A A, .attr (nm "o1") "p", .attr A "qq",
     .subscr (.subscript (nm "c2") A) (.binop .add A A), .attr (.call (nm "f") (es [A])) "p",
     .tuple (.ofList [.name "x", .subscr (nm "c2") A]), .tuple (.ofList [.tuple (.ofList [.attr (nm "o2") "p"]), .name "y"])]
  for d in ds do
    emitAll "DL" [.del (.ofList [d])] seed 1 true
    for d2 in ds do
      emitAll "DL" [.del (.ofList [d, d2])] seed 0 false
      emitAll "DL" [.del (.ofList [d]), .assign (.name "r") .nil (.tuple (es [A, nm "y"])), .del (.ofList [d2])] seed 0 false


/-! ## third round: the VALUE of comparison forms over operands derived from one object
(identity `is` / `is not`, `==` / `!=`, `in` / `not in`) -/

def ci (i : Int) : Expr := if i < 0 then .unop .usub (.const (.int (-i))) else .const (.int i)

def bnd : Option Int → Expr
  | none => .const .none
  | some i => ci i

/-- `t[a:b]`; an omitted bound is written `None` (same byte code as the empty bound) -/
def sl (t : Expr) (a b : Option Int) : Expr := .slice2 t (bnd a) (bnd b)
/-- `t[a:b:s]` -/
def sl3 (t : Expr) (a b : Option Int) (s : Int) : Expr := .subscript t (.slice3 (bnd a) (bnd b) (ci s))

inductive IKind | tuple | bytes | list | str
deriving DecidableEq, Inhabited

/-- the object of kind `k` with `n` elements (a display / literal) -/
def IKind.lit (k : IKind) (n : Nat) : Expr :=
  match k with
  | .tuple => .tuple (es ([ci 1, ci 2, ci 3].take n))
  | .list => .list (es ([ci 1, ci 2, ci 3].take n))
  | .bytes => .const (.bytes ("abc".take n).toString)
  | .str => .const (.str ("abc".take n).toString)

/-- the empty object of the kind, written out -/
def IKind.empty (k : IKind) : Expr := k.lit 0

def sN (n : Nat) : Option Int := some (Int.ofNat n)

def allSlices (t : Expr) (n : Nat) : List Expr :=
  (List.range (n + 1)).flatMap fun a => (List.range (n + 1)).map fun b => sl t (sN a) (sN b)

def tE : Expr := nm "t"
def uE : Expr := nm "u"

/-- `t = <object>; u = t; r = e` -/
def iProg (k : IKind) (n : Nat) (e : Expr) : List Stmt :=
  [.assign (.name "t") .nil (k.lit n), .assign (.name "u") .nil tE, .assign (.name "r") .nil e]

/-- the four value comparisons of one operand pair -/
def cmp4 (x y : Expr) : Expr :=
  .tuple (es [.compare x (.one .is y), .compare x (.one .isNot y), .compare x (.one .eq y), .compare x (.one .ne y)])

def emitI (family : String) (ss : List Stmt) : IO Unit :=
  IO.println (mkCase family ss 0 true).line

/-- ways to derive a value from the object bound to `t` (alias `u`) without going through a slice only:
aliasing, whole and partial slices, slices of slices, stepped slices, concatenation, repetition,
a fresh display, star-args, argument passing, container round trip, short-circuit / conditional results -/
def derivations (k : IKind) (n : Nat) : List Expr :=
  let t := tE
  [t, uE, sl t none none, sl t (some 0) (sN n), sl t none (some 1), sl t (some 1) none,
   .binop .add t (sl t (some 0) (some 0)), .binop .add (sl t (some 0) (some 0)) t,
   .binop .mul t (ci 1), .binop .mul t (ci 0), .binop .add (sl t (some 0) (some 1)) (sl t (some 1) none),
   sl3 t none none 1, sl3 t none none 2, sl3 t none none (-1), sl3 t (some 0) (some 1) 1,
   sl (sl t (some 0) (some 2)) (some 0) (some 1), sl (sl t (some 1) none) (some 1) none,
   sl (sl t (some 1) none) (some 0) (some 0), sl t (sN n) (sN n), sl t (some 0) (some 0),
   k.lit n, k.empty,
   .callx (.lambda { vararg := some "a" } .nil .nil (nm "a")) .nil .nil (.some t) .none,
   .call (.lambda { pos := ["a"] } .nil .nil (nm "a")) (es [t]),
   .subscript (.tuple (es [t])) (ci 0), .subscript (.list (es [t, uE])) (ci 1),
   .ifexp (ci 1) t uE, .boolop true t (es [uE]), .boolop false t (es [uE])]

def genIdentity (tier : String) (_seed : Nat) : IO Unit := do
  let thorough := tier == "thorough"
  let kinds : List IKind := [.tuple, .bytes, .list, .str]
  -- I1: both operands slices of one object: all (start, stop) pairs over lengths 0..3
  for k in kinds do
    for n in [0, 1, 2, 3] do
      let ys := [tE, uE, sl tE none none] ++ allSlices tE n
      for x in allSlices tE n do
        for y in ys do
          emitI "I1" (iProg k n (cmp4 x y))
      -- negative and out-of-range bounds
      for (a, b) in [(some (-1), none), (none, some (-1)), (some (-5), some 9), (some 2, some 1), (some 9, none)] do
        for y in [tE, sl tE (some 0) (some (Int.ofNat n - 1)), sl tE (some (Int.ofNat n - 1)) (sN n)] do
          emitI "I1" (iProg k n (cmp4 (sl tE a b) y))
          emitI "I1" (iProg k n (cmp4 y (sl tE a b)))
  -- I2: every comparison position (chained, under not / and / or / conditional expression)
  for (k, n) in [(IKind.tuple, 3), (.tuple, 2), (.bytes, 3), (.bytes, 1), (.list, 2), (.str, 2)] do
    let t := tE
    let xs := [sl t (some 0) (some 1), sl t (some 0) (some 2), sl t (some 0) (sN n), sl t (some 1) (sN n),
               sl t none none, sl t (some 0) (some 0), sl t (sN n) (sN n), t]
    let ys := [t, uE, sl t (some 0) (some 2), sl t (some 1) (sN n), sl t none (some 0)]
    let zs := [t, sl t (some 0) (some 2)]
    for x in (if thorough then xs else xs.take 6) do
      for y in (if thorough then ys else ys.take 4) do
        for op in [CmpOp.is, .isNot, .eq] do
          for z in zs do
            for op2 in [CmpOp.is, .eq] do
              emitI "I2" (iProg k n (.compare x (.more op y (.one op2 z))))
        emitI "I2" (iProg k n (.compare x (.more .is y (.more .is uE (.one .isNot (sl t (some 0) (some 1)))))))
        for op in [CmpOp.is, .isNot, .eq, .in_] do
          let c : Expr := if op == .in_ then .compare x (.one op (.tuple (es [y, ci 5]))) else .compare x (.one op y)
          emitI "I2" (iProg k n (.unop .not c))
          emitI "I2" (iProg k n (.boolop false c (es [.const (.str "a")])))
          emitI "I2" (iProg k n (.boolop true c (es [.const (.str "b")])))
          emitI "I2" (iProg k n (.boolop false (.const (.str "c")) (es [c, .compare y (.one op x)])))
          emitI "I2" (iProg k n (.ifexp c (ci 1) (ci 0)))
          emitI "I2" (iProg k n (.tuple (es [c, .compare x (.one .notIn (.list (es [y])))])))
  -- I3: both operands derived from one object by aliasing / slicing / concatenation / repetition / star-args …
  for (k, ns) in [(IKind.tuple, [0, 1, 2, 3]), (.bytes, [0, 1, 2, 3]), (.list, [0, 2]), (.str, [0, 2])] do
    for n in ns do
      let ds := derivations k n
      for x in ds do
        for y in ds do
          emitI "I3" (iProg k n (cmp4 x y))
  -- I4: inside a function: the `*args` tuple (a fresh copy per call), parameters as locals
  for n in [0, 1, 2, 3] do
    let a := nm "a"
    let xs := [a, sl a none none] ++ allSlices a n
    let ys := [a, sl a none none, sl a (some 0) (sN n), sl a (some 1) none, sl a none (some 1), sl a (some 0) (some 0)]
    for x in xs do
      for y in ys do
        emitI "I4" [.funcdef "k" { vararg := some "a" } .nil .nil (cmp4 x y),
                    .assign (.name "t") .nil (IKind.tuple.lit n),
                    .assign (.name "r") .nil (.callx (nm "k") .nil .nil (.some tE) .none)]
    -- the same function called twice: two `*args` tuples
    emitI "I4" [.funcdef "k" { vararg := some "a" } .nil .nil a,
                .assign (.name "t") .nil (IKind.tuple.lit n),
                .assign (.name "r") .nil (cmp4 (.callx (nm "k") .nil .nil (.some tE) .none) (.callx (nm "k") .nil .nil (.some tE) .none))]
    emitI "I4" [.funcdef "k" { pos := ["a", "b"] } .nil .nil (cmp4 a (nm "b")),
                .assign (.name "t") .nil (IKind.tuple.lit n),
                .assign (.name "r") .nil (.tuple (es [.call (nm "k") (es [tE, tE]), .call (nm "k") (es [tE, sl tE none none]),
                                                     .call (nm "k") (es [sl tE (some 0) (some 1), tE])]))]
  -- I5: ints, strs, singletons (values of a comparable Go type: identity is equality of the value)
  let scal : List Expr :=
    [nm "x", nm "y", ci 5, ci 7, .binop .add (ci 2) (ci 3), .binop .sub (ci 12) (ci 5), .binop .mul (nm "x") (ci 1),
     ci 0, ci 1, .const .true, .const .false, .const .none, nm "z", .const (.str "ab"), .const (.str "a"),
     .binop .add (.const (.str "a")) (.const (.str "b")), sl (.const (.str "abc")) (some 0) (some 2),
     .binop .mul (nm "z") (ci 1), .const (.str ""), sl (nm "z") (some 0) (some 0), nm "c1", nm "c2", nm "o1", nm "f", nm "g",
     .tuple .nil, .list .nil, .dict .nil,
     .const (.bytes ""), .binop .mul (.const (.bytes "a")) (ci 0), .binop .mul (.tuple (es [ci 1])) (ci 0), .const (.bytes "ab")]
  for x in scal do
    for y in scal do
      emitI "I5" (rAssign (cmp4 x y))
      emitI "I5" [.assign (.name "u") (tgs [.name "v"]) x, .assign (.name "r") .nil (.tuple (es [cmp4 (nm "u") (nm "v"), cmp4 (nm "u") y]))]

/-! ## seeded random deeper trees -/

/-- `ext = false`: the forms of the first round (the R family is unchanged);
`ext = true` (R2): also function definitions with defaults, general calls, 3-bound slices -/
partial def randE (r : Rng) (depth : Nat) (ext : Bool := false) : Rng × Expr :=
  if depth == 0 then
    let (r, k) := r.nat 12
    (r, match k with
      | 0 => .name "x" | 1 => .name "c1" | 2 => .name "o1" | 3 => .const (.int 4) | 4 => .const (.str "ab")
      | 5 => .const .none | _ => A)
  else
    let (r, k) := r.nat (if ext then 32 else 22)
    let sub (r : Rng) := randE r (depth - 1) ext
    match k with
    | 0 | 1 | 2 =>
      let (r, op) := r.pick allBin.toArray
      let (r, a) := sub r; let (r, b) := sub r; (r, .binop op a b)
    | 3 => let (r, op) := r.pick allUn.toArray; let (r, a) := sub r; (r, .unop op a)
    | 4 | 5 =>
      let (r, o) := r.nat 2; let (r, n) := r.nat 3
      let (r, a) := sub r; let (r, b) := sub r; let (r, c) := sub r; let (r, d) := sub r
      (r, .boolop (o == 1) a (es ([b, c, d].take (n + 1))))
    | 6 | 7 | 8 =>
      let (r, o1) := r.pick allCmp.toArray; let (r, o2) := r.pick allCmp.toArray
      let (r, o3) := r.pick allCmp.toArray; let (r, n) := r.nat 3
      let (r, a) := sub r; let (r, b) := sub r; let (r, c) := sub r; let (r, d) := sub r
      (r, .compare a (match n with
        | 0 => .one o1 b | 1 => .more o1 b (.one o2 c) | _ => .more o1 b (.more o2 c (.one o3 d))))
    | 9 | 10 => let (r, a) := sub r; let (r, b) := sub r; let (r, c) := sub r; (r, .ifexp a b c)
    | 11 => let (r, a) := sub r; let (r, b) := sub r; (r, .subscript a b)
    | 12 => let (r, a) := sub r; let (r, b) := sub r; let (r, c) := sub r; (r, .slice2 a b c)
    | 13 => let (r, a) := sub r; let (r, n) := r.pick #["p", "qq"]; (r, .attr a n)
    | 14 | 15 =>
      let (r, n) := r.nat 4; let (r, fk) := r.nat 3
      let (r, a) := sub r; let (r, b) := sub r; let (r, c) := sub r; let (r, g) := sub r
      (r, .call (match fk with | 0 => .name "f" | 1 => .name "g" | _ => g) (es ([a, b, c].take n)))
    | 16 => let (r, n) := r.nat 4; let (r, a) := sub r; let (r, b) := sub r; let (r, c) := sub r
            (r, .tuple (es ([a, b, c].take n)))
    | 17 => let (r, n) := r.nat 3; let (r, a) := sub r; let (r, b) := sub r; (r, .list (es ([a, b].take n)))
    | 18 => let (r, a) := sub r; let (r, b) := sub r; (r, .set (es [a, b]))
    | 19 => let (r, a) := sub r; let (r, b) := sub r; let (r, c) := sub r; let (r, d) := sub r
            (r, .dict (.cons a b (.cons c d .nil)))
    | 20 => let (r, a) := sub r; (r, .lambda0 a)
    | 21 => sub r
    | 22 | 23 | 24 =>
      -- a function definition: signature from `lamSigs`, defaults replaced by random trees
      let (r, (sg, ds, kds)) := r.pick lamSigs.toArray
      let (r, d1) := sub r; let (r, d2) := sub r; let (r, d3) := sub r; let (r, d4) := sub r
      let (r, body) := sub r
      let ds' := es ([d1, d2].take ds.length)
      let kds' := kws ((kds.toList.map (·.1)).zip [d3, d4])
      (r, .lambda sg ds' kds' (.tuple (es [body, bodyOf sg])))
    | 25 | 26 | 27 | 28 =>
      let (r, fk) := r.nat 5
      let (r, g) := sub r
      let (r, na) := r.nat 3; let (r, nk) := r.nat 3; let (r, hs) := r.nat 3; let (r, hd) := r.nat 3
      let (r, a1) := sub r; let (r, a2) := sub r; let (r, k1) := sub r; let (r, k2) := sub r
      let (r, sa) := sub r; let (r, da) := sub r
      let (r, kn) := r.pick #["k", "q", "a", "m"]
      let f := match fk with | 0 => nm "f" | 1 | 2 => nm "h" | _ => g
      (r, .callx f (es ([a1, a2].take na)) (kws ([(kn, k1), ("w", k2)].take nk))
            (match hs with | 0 => .some (.tuple (es [sa])) | 1 => .some sa | _ => .none)
            (match hd with | 0 => .some (.dict (.cons (.const (.str "z")) da .nil)) | 1 => .some da | _ => .none))
    | _ =>
      let (r, a) := sub r; let (r, l) := sub r; let (r, h) := sub r; let (r, st) := sub r
      (r, .subscript a (.slice3 l h st))

instance : Inhabited Target := ⟨.name "x"⟩
instance : Inhabited DelTarget := ⟨.name "x"⟩
instance : Inhabited Stmt := ⟨.expr (.const .none)⟩

partial def randT (r : Rng) (depth : Nat) (ext : Bool := false) : Rng × Target :=
  let (r, k) := r.nat (if depth == 0 then 4 else if ext then 9 else 6)
  match k with
  | 0 => let (r, n) := r.pick #["x", "y", "u", "v", "r"]; (r, .name n)
  | 1 | 2 => let (r, a) := randE r 1; let (r, i) := randE r 1; (r, .subscr a i)
  | 3 => let (r, a) := randE r 1; (r, .attr a "p")
  | 4 | 5 =>
    let (r, t1) := randT r (depth - 1) ext; let (r, t2) := randT r (depth - 1) ext
    let (r, n) := r.nat 2
    (r, .tuple (if n == 0 then .cons t1 (.cons t2 .nil) else .cons t1 (.cons t2 (.cons (.name "v") .nil))))
  | _ =>
    let (r, t1) := randT r (depth - 1) ext; let (r, t2) := randT r (depth - 1) ext
    let (r, t3) := randT r (depth - 1) ext
    let (r, nb) := r.nat 2; let (r, na) := r.nat 2
    (r, .star (tgs ([t1].take nb)) t2 (tgs ([t3].take na)))

partial def randS (r : Rng) (depth : Nat) : Rng × Stmt :=
  let (r, k) := r.nat 5
  match k with
  | 0 | 1 =>
    let (r, n) := r.nat 3
    let (r, t1) := randT r 1; let (r, t2) := randT r 1; let (r, t3) := randT r 1
    let (r, v) := randE r depth
    (r, .assign t1 (Targets.ofList ([t2, t3].take n)) v)
  | 2 | 3 =>
    let (r, op) := r.pick allBin.toArray
    let (r, tk) := r.nat 3
    let (r, a) := randE r 1; let (r, i) := randE r 1
    let (r, v) := randE r depth
    (r, .aug (match tk with | 0 => .name "x" | 1 => .subscr a i | _ => .attr a "p") op v)
  | _ => let (r, e) := randE r depth; (r, .expr e)

partial def randD (r : Rng) (depth : Nat) : Rng × DelTarget :=
  let (r, k) := r.nat (if depth == 0 then 4 else 5)
  match k with
  | 0 => let (r, n) := r.pick #["x", "y", "u", "nosuch"]; (r, .name n)
  | 1 | 2 => let (r, a) := randE r 1 true; let (r, i) := randE r 1 true; (r, .subscr a i)
  | 3 => let (r, a) := randE r 1 true; (r, .attr a "p")
  | _ => let (r, t1) := randD r (depth - 1); let (r, t2) := randD r (depth - 1)
         (r, .tuple (.ofList [t1, t2]))

/-- statements of the second round -/
partial def randS2 (r : Rng) (depth : Nat) : Rng × Stmt :=
  let (r, k) := r.nat 8
  match k with
  | 0 | 1 | 2 =>
    let (r, n) := r.nat 2
    let (r, t1) := randT r 2 true; let (r, t2) := randT r 1 true
    let (r, v) := randE r depth true
    (r, .assign t1 (Targets.ofList ([t2].take n)) v)
  | 3 =>
    let (r, op) := r.pick allBin.toArray
    let (r, a) := randE r 1 true; let (r, l) := randE r 1 true; let (r, h) := randE r 1 true
    let (r, st) := randE r 1 true; let (r, v) := randE r depth true
    (r, .aug (.subscr a (.slice3 l h st)) op v)
  | 4 => let (r, d1) := randD r 1; let (r, d2) := randD r 1; let (r, n) := r.nat 2
         (r, .del (.ofList ([d1, d2].take (n + 1))))
  | 5 =>
    let (r, (sg, ds, kds)) := r.pick lamSigs.toArray
    let (r, d1) := randE r 2 true; let (r, d2) := randE r 2 true; let (r, d3) := randE r 2 true
    let (r, d4) := randE r 2 true; let (r, body) := randE r depth true
    (r, .funcdef "k" sg (es ([d1, d2].take ds.length)) (kws ((kds.toList.map (·.1)).zip [d3, d4]))
          (.tuple (es [body, bodyOf sg])))
  | _ => let (r, e) := randE r depth true; (r, .expr e)

def genRandom2 (tier : String) (seed : Nat) : IO Unit := do
  let mut r : Rng := ⟨(seed * 2862933555777941757 + 3037000493).toUInt64⟩
  let n := if tier == "thorough" then 60000 else 4000
  for i in [0:n] do
    let (r1, d) := r.nat 2
    let (r2, k) := r1.nat 3
    let (r3, s1) := randS2 r2 (2 + d)
    let (r4, s2) := randS2 r3 2
    let (r5, mix) := r4.nat 4
    let (r6, b) := r5.nat 8
    r := r6
    let ss := if k == 0 then [s1, s2] else [s1]
    let (_, na) := numProg payPrimes ss
    let pay := if mix == 0 then payPrimes else payMix (seed + i)
    -- a bare string as the first statement is the module docstring (STORE_NAME __doc__): not in the fragment
    let isDoc := match ss with | (.expr (.const (.str _))) :: _ => true | _ => false
    if !isDoc then
      emit "R2" ss pay (if b < 2 && na > 0 then 1 + (i % na) else 0)

def genRandom (tier : String) (seed : Nat) : IO Unit := do
  let mut r : Rng := ⟨(seed * 6364136223846793005 + 1442695040888963407).toUInt64⟩
  let n := if tier == "thorough" then 120000 else 6000
  for i in [0:n] do
    let (r1, d) := r.nat 2
    let (r2, k) := r1.nat 3
    let (r3, s1) := randS r2 (3 + d)
    let (r4, s2) := randS r3 2
    let (r5, mix) := r4.nat 4
    let (r6, b) := r5.nat 8
    r := r6
    let ss := if k == 0 then [s1, s2] else [s1]
    let (_, na) := numProg payPrimes ss
    let pay := if mix == 0 then payPrimes else payMix (seed + i)
    emit "R" ss pay (if b < 2 && na > 0 then 1 + (i % na) else 0)

def genMain (tier : String) (seed : Nat) : IO Unit := do
  genExprs tier seed
  genPrec tier seed
  genStmts tier seed
  genRandom tier seed
  genLambda tier seed
  genCalls tier seed
  genStar tier seed
  genSlice3 tier seed
  genDel tier seed
  genRandom2 tier seed
  genIdentity tier seed
  genExtSlice tier seed

end GPy.C01
