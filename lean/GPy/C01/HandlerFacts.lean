/-
C01 — the rows of vm/eval.go's opcode handlers that `Model.exec` was transliterated from (goal: tie the
opcode-handler part of the model to the source by more than the correspondence run).

`expected` is HAND-MAINTAINED: it records, per handler, the value-stack operations and py calls in
source order (locals renamed v1, v2, … in binding order) as they were when the model was written /
last re-validated.  `Generated.stackOps` is REGENERATED from the working tree by extract/stackops on
every run.  Props.lean proves `Generated.stackOps = expected` by `decide`, and reads the facts the
model relies on off the regenerated table.  A reordering of pops or a swap of operand roles in a
handler changes its row and breaks the proof obligation even if no generated program tells the
difference; after such a change the model is re-validated against the new handler and the row updated.
Core Lean only.
-/
namespace GPy.C01.HandlerFacts

def expected : List (String × List String) := [
  ("do_POP_TOP", ["vm.DROPN(1)", "return(nil)"]),
  ("do_ROT_TWO", ["v1=vm.TOP()", "v2=vm.SECOND()", "vm.SET_TOP(v2)", "vm.SET_SECOND(v1)", "return(nil)"]),
  ("do_ROT_THREE", ["v1=vm.TOP()", "v2=vm.SECOND()", "v3=vm.THIRD()", "vm.SET_TOP(v2)", "vm.SET_SECOND(v3)", "vm.SET_THIRD(v1)", "return(nil)"]),
  ("do_DUP_TOP", ["vm.PUSH(vm.TOP())", "return(nil)"]),
  ("do_DUP_TOP_TWO", ["v1=vm.TOP()", "v2=vm.SECOND()", "vm.PUSH(v2)", "vm.PUSH(v1)", "return(nil)"]),
  ("do_UNARY_POSITIVE", ["return vm.setTopAndCheckErr(py.Pos(vm.TOP()))"]),
  ("do_UNARY_NEGATIVE", ["return vm.setTopAndCheckErr(py.Neg(vm.TOP()))"]),
  ("do_UNARY_NOT", ["return vm.setTopAndCheckErr(py.Not(vm.TOP()))"]),
  ("do_UNARY_INVERT", ["return vm.setTopAndCheckErr(py.Invert(vm.TOP()))"]),
  ("do_BINARY_POWER", ["v1=vm.POP()", "v2=vm.TOP()", "return vm.setTopAndCheckErr(py.Pow(v2, v1, py.None))"]),
  ("do_BINARY_MULTIPLY", ["v1=vm.POP()", "v2=vm.TOP()", "return vm.setTopAndCheckErr(py.Mul(v2, v1))"]),
  ("do_BINARY_FLOOR_DIVIDE", ["v1=vm.POP()", "v2=vm.TOP()", "return vm.setTopAndCheckErr(py.FloorDiv(v2, v1))"]),
  ("do_BINARY_TRUE_DIVIDE", ["v1=vm.POP()", "v2=vm.TOP()", "return vm.setTopAndCheckErr(py.TrueDiv(v2, v1))"]),
  ("do_BINARY_MODULO", ["v1=vm.POP()", "v2=vm.TOP()", "return vm.setTopAndCheckErr(py.Mod(v2, v1))"]),
  ("do_BINARY_ADD", ["v1=vm.POP()", "v2=vm.TOP()", "return vm.setTopAndCheckErr(py.Add(v2, v1))"]),
  ("do_BINARY_SUBTRACT", ["v1=vm.POP()", "v2=vm.TOP()", "return vm.setTopAndCheckErr(py.Sub(v2, v1))"]),
  ("do_BINARY_SUBSCR", ["v1=vm.POP()", "v2=vm.TOP()", "return vm.setTopAndCheckErr(py.GetItem(v2, v1))"]),
  ("do_BINARY_LSHIFT", ["v1=vm.POP()", "v2=vm.TOP()", "return vm.setTopAndCheckErr(py.Lshift(v2, v1))"]),
  ("do_BINARY_RSHIFT", ["v1=vm.POP()", "v2=vm.TOP()", "return vm.setTopAndCheckErr(py.Rshift(v2, v1))"]),
  ("do_BINARY_AND", ["v1=vm.POP()", "v2=vm.TOP()", "return vm.setTopAndCheckErr(py.And(v2, v1))"]),
  ("do_BINARY_XOR", ["v1=vm.POP()", "v2=vm.TOP()", "return vm.setTopAndCheckErr(py.Xor(v2, v1))"]),
  ("do_BINARY_OR", ["v1=vm.POP()", "v2=vm.TOP()", "return vm.setTopAndCheckErr(py.Or(v2, v1))"]),
  ("do_INPLACE_POWER", ["v1=vm.POP()", "v2=vm.TOP()", "return vm.setTopAndCheckErr(py.IPow(v2, v1, py.None))"]),
  ("do_INPLACE_MULTIPLY", ["v1=vm.POP()", "v2=vm.TOP()", "return vm.setTopAndCheckErr(py.IMul(v2, v1))"]),
  ("do_INPLACE_FLOOR_DIVIDE", ["v1=vm.POP()", "v2=vm.TOP()", "return vm.setTopAndCheckErr(py.IFloorDiv(v2, v1))"]),
  ("do_INPLACE_TRUE_DIVIDE", ["v1=vm.POP()", "v2=vm.TOP()", "return vm.setTopAndCheckErr(py.ITrueDiv(v2, v1))"]),
  ("do_INPLACE_MODULO", ["v1=vm.POP()", "v2=vm.TOP()", "return vm.setTopAndCheckErr(py.Mod(v2, v1))"]),
  ("do_INPLACE_ADD", ["v1=vm.POP()", "v2=vm.TOP()", "return vm.setTopAndCheckErr(py.IAdd(v2, v1))"]),
  ("do_INPLACE_SUBTRACT", ["v1=vm.POP()", "v2=vm.TOP()", "return vm.setTopAndCheckErr(py.ISub(v2, v1))"]),
  ("do_INPLACE_LSHIFT", ["v1=vm.POP()", "v2=vm.TOP()", "return vm.setTopAndCheckErr(py.ILshift(v2, v1))"]),
  ("do_INPLACE_RSHIFT", ["v1=vm.POP()", "v2=vm.TOP()", "return vm.setTopAndCheckErr(py.IRshift(v2, v1))"]),
  ("do_INPLACE_AND", ["v1=vm.POP()", "v2=vm.TOP()", "return vm.setTopAndCheckErr(py.IAnd(v2, v1))"]),
  ("do_INPLACE_XOR", ["v1=vm.POP()", "v2=vm.TOP()", "return vm.setTopAndCheckErr(py.IXor(v2, v1))"]),
  ("do_INPLACE_OR", ["v1=vm.POP()", "v2=vm.TOP()", "return vm.setTopAndCheckErr(py.IOr(v2, v1))"]),
  ("do_STORE_SUBSCR", ["v1=vm.TOP()", "v2=vm.SECOND()", "v3=vm.THIRD()", "vm.DROPN(3)", "_,err=py.SetItem(v2, v1, v3)", "if(err != nil)", "return(err)", "fi", "return(nil)"]),
  ("do_DELETE_SUBSCR", ["v1=vm.TOP()", "v2=vm.SECOND()", "vm.DROPN(2)", "_,err=py.DelItem(v2, v1)", "if(err != nil)", "return(err)", "fi", "return(nil)"]),
  ("do_UNPACK_EX", ["v1=int(counts & 0xFF)", "v2=int(counts >> 8)", "v3=1 + v1 + v2", "v4=vm.POP()", "v5=vm.STACK_LEVEL()", "vm.EXTEND(make([]py.Object, v3))", "return unpack_iterable(vm, v4, v1, v2, v5+v3)"]),
  ("do_RETURN_VALUE", ["vm.retval=vm.POP()", "vm.frame.Yielded=false", "vm.why=whyReturn", "return(nil)"]),
  ("do_STORE_NAME", ["if(debugging)", "fi", "vm.frame.Locals[vm.frame.Code.Names[namei]]=vm.POP()", "return(nil)"]),
  ("do_DELETE_NAME", ["v1=vm.frame.Code.Names[namei]", "_,v2=vm.frame.Locals[v1]", "if(!v2)", "return py.ExceptionNewf(py.NameError, nameErrorMsg, v1)", "else", "fi", "return(nil)"]),
  ("do_UNPACK_SEQUENCE", ["v1=vm.POP()", "v2=int(count)", "v3,v4=v1.(py.Tuple)", "if(v4 && len(v3) == v2)", "vm.EXTEND_REVERSED(v3)", "else", "v5,v4=v1.(*py.List)", "if(v4 && v5.Len() == v2)", "vm.EXTEND_REVERSED(v5.Items)", "else", "v6=vm.STACK_LEVEL()", "vm.EXTEND(make([]py.Object, v2))", "return unpack_iterable(vm, v1, v2, -1, v6+v2)", "fi", "fi", "return(nil)"]),
  ("do_STORE_ATTR", ["v1=vm.frame.Code.Names[namei]", "v2=vm.TOP()", "v3=vm.SECOND()", "vm.DROPN(2)", "_,err=py.SetAttrString(v2, v1, v3)", "if(err != nil)", "return(err)", "fi", "return(nil)"]),
  ("do_DELETE_ATTR", ["return py.DeleteAttrString(vm.POP(), vm.frame.Code.Names[namei])"]),
  ("do_LOAD_CONST", ["vm.PUSH(vm.frame.Code.Consts[consti])", "return(nil)"]),
  ("do_LOAD_NAME", ["v1=vm.frame.Code.Names[namei]", "if(debugging)", "fi", "v2,v3=vm.frame.Lookup(v1)", "if(!v3)", "return py.ExceptionNewf(py.NameError, nameErrorMsg, v1)", "else", "vm.PUSH(v2)", "fi", "return(nil)"]),
  ("do_BUILD_TUPLE", ["v1=make(py.Tuple, count)", "vm.DROPN(int(count))", "vm.PUSH(v1)", "return(nil)"]),
  ("do_BUILD_SET", ["v1=vm.frame.Stack[len(vm.frame.Stack)-int(count):]", "err=py.Unhashable(v1...)", "if(err != nil)", "return(err)", "fi", "v2=py.NewSetFromItems(v1)", "vm.DROPN(int(count))", "vm.PUSH(v2)", "return(nil)"]),
  ("do_BUILD_LIST", ["v1=py.NewListFromItems(vm.frame.Stack[len(vm.frame.Stack)-int(count):])", "vm.DROPN(int(count))", "vm.PUSH(v1)", "return(nil)"]),
  ("do_BUILD_MAP", ["vm.PUSH(py.NewStringDictSized(int(count)))", "return(nil)"]),
  ("do_LOAD_ATTR", ["return vm.setTopAndCheckErr(py.GetAttrString(vm.TOP(), vm.frame.Code.Names[namei]))"]),
  ("do_COMPARE_OP", ["v1=vm.POP()", "v2=vm.TOP()", "switch(opname)", "case(PyCmp_LT)", "v3,err=py.Lt(v2, v1)", "case(PyCmp_LE)", "v3,err=py.Le(v2, v1)", "case(PyCmp_EQ)", "v3,err=py.Eq(v2, v1)", "case(PyCmp_NE)", "v3,err=py.Ne(v2, v1)", "case(PyCmp_GT)", "v3,err=py.Gt(v2, v1)", "case(PyCmp_GE)", "v3,err=py.Ge(v2, v1)", "case(PyCmp_IN)", "v4,err=py.SequenceContains(v1, v2)", "v3=py.NewBool(v4)", "case(PyCmp_NOT_IN)", "v4,err=py.SequenceContains(v1, v2)", "v3=py.NewBool(!v4)", "case(PyCmp_IS)", "v3=py.NewBool(objectIs(v2, v1))", "case(PyCmp_IS_NOT)", "v3=py.NewBool(!objectIs(v2, v1))", "case(PyCmp_EXC_MATCH)", "v5,v6=v1.(py.Tuple)", "if(v6)", "range(v5)", "if(!py.ExceptionClassCheck(exc))", "return py.ExceptionNewf(py.TypeError, cannotCatchMsg, exc.Type().Name)", "fi", "end", "else", "if(!py.ExceptionClassCheck(v1))", "return py.ExceptionNewf(py.TypeError, cannotCatchMsg, v1.Type().Name)", "fi", "fi", "v3=py.NewBool(py.ExceptionGivenMatches(v2, v1))", "default", "panic(fmt.Sprintf(\"vm: Unknown COMPARE_OP %v\", opname))", "end", "if(err != nil)", "return(err)", "fi", "vm.SET_TOP(v3)", "return(nil)"]),
  ("do_JUMP_FORWARD", ["vm.frame.Lasti=delta", "return(nil)"]),
  ("do_POP_JUMP_IF_TRUE", ["v1,err=py.MakeBool(vm.POP())", "if(err != nil)", "return(err)", "fi", "if(v1.(py.Bool))", "vm.frame.Lasti=target", "fi", "return(nil)"]),
  ("do_POP_JUMP_IF_FALSE", ["v1,err=py.MakeBool(vm.POP())", "if(err != nil)", "return(err)", "fi", "if(!v1.(py.Bool))", "vm.frame.Lasti=target", "fi", "return(nil)"]),
  ("do_JUMP_IF_TRUE_OR_POP", ["v1,err=py.MakeBool(vm.TOP())", "if(err != nil)", "return(err)", "fi", "if(v1.(py.Bool))", "vm.frame.Lasti=target", "else", "vm.DROP()", "fi", "return(nil)"]),
  ("do_JUMP_IF_FALSE_OR_POP", ["v1,err=py.MakeBool(vm.TOP())", "if(err != nil)", "return(err)", "fi", "if(!v1.(py.Bool))", "vm.frame.Lasti=target", "else", "vm.DROP()", "fi", "return(nil)"]),
  ("do_LOAD_GLOBAL", ["v1=vm.frame.Code.Names[namei]", "if(debugging)", "fi", "v2,v3=vm.frame.LookupGlobal(v1)", "if(!v3)", "return py.ExceptionNewf(py.NameError, nameErrorMsg, v1)", "else", "vm.PUSH(v2)", "fi", "return(nil)"]),
  ("do_STORE_MAP", ["v1=vm.TOP()", "v2=vm.SECOND()", "v3=vm.THIRD()", "vm.DROPN(2)", "v4,err=py.DictCheckExact(v3)", "if(err != nil)", "return(err)", "fi", "_,err=v4.M__setitem__(v1, v2)", "return(err)"]),
  ("do_LOAD_FAST", ["v1=vm.frame.LocalVars[var_num]", "if(v1 != nil)", "vm.PUSH(v1)", "else", "v2=vm.frame.Code.Varnames[var_num]", "return py.ExceptionNewf(py.UnboundLocalError, unboundLocalErrorMsg, v2)", "fi", "return(nil)"]),
  ("do_STORE_FAST", ["vm.frame.LocalVars[var_num]=vm.POP()", "return(nil)"]),
  ("do_CALL_FUNCTION", ["return vm.Call(argc, nil, nil)"]),
  ("do_MAKE_FUNCTION", ["_make_function(vm, argc, MAKE_FUNCTION)", "return(nil)"]),
  ("do_BUILD_SLICE", ["switch(argc)", "case(2)", "v1=py.None", "case(3)", "v1=vm.POP()", "default", "panic(\"vm: Bad value for argc in BUILD_SLICE\")", "end", "v2=vm.POP()", "v3=vm.TOP()", "v4=py.NewSlice(v3, v2, v1)", "vm.SET_TOP(v4)", "return(nil)"]),
  ("do_CALL_FUNCTION_VAR", ["v1=vm.POP()", "return vm.Call(argc, v1, nil)"]),
  ("do_CALL_FUNCTION_KW", ["v1=vm.POP()", "return vm.Call(argc, nil, v1)"]),
  ("do_CALL_FUNCTION_VAR_KW", ["v1=vm.POP()", "v2=vm.POP()", "return vm.Call(argc, v2, v1)"]),
  ("_make_function", ["v1=argc & 0xff", "v2=(argc >> 8) & 0xff", "v3=(argc >> 16) & 0x7fff", "v4=vm.POP()", "v5=vm.POP()", "v6=py.NewFunction(vm.context, v5.(*py.Code), vm.frame.Globals, string(v4.(py.String)))", "if(opcode == MAKE_CLOSURE)", "v6.Closure=vm.POP()", "fi", "if(v3 > 0)", "v7=vm.POP()", "v8=py.NewStringDict()", "v9=int32(len(v7))", "if(v3 != v9+1)", "panic(\"vm: v3 wrong - corrupt bytecode?\")", "fi", "for(;v9 > 0;)", "v9--", "v10=v7[v9]", "v11=vm.POP()", "v8[string(v10.(py.String))]=v11", "end", "v6.Annotations=v8", "fi", "if(v2 > 0)", "v12=py.NewStringDict()", "for(v2--;v2 >= 0;v2--)", "v13=vm.POP()", "v14=vm.POP()", "v12[string(v14.(py.String))]=v13", "end", "v6.KwDefaults=v12", "fi", "if(v1 > 0)", "v12=make(py.Tuple, v1)", "for(v1--;v1 >= 0;v1--)", "v12[v1]=vm.POP()", "end", "v6.Defaults=v12", "fi", "vm.PUSH(v6)"]),
  ("Vm.Call", ["v1=int(argc & 0xFF)", "v2=int((argc >> 8) & 0xFF)", "v3=vm.frame.Stack[p:q]", "v4=py.Tuple(vm.frame.Stack[p:q])", "v5=vm.frame.Stack[p]", "vm.frame.Stack=vm.frame.Stack[:p]", "v6=\"%s%s got multiple values for keyword argument '%s'\"", "if(len(v3) > 0)", "if(len(v3)%2 != 0)", "panic(\"vm: Odd length v3\")", "fi", "v7=py.NewStringDict()", "for(i := 0;i < len(v3);i += 2)", "v8,v9=v3[i].(py.String)", "if(!v9)", "return py.ExceptionNewf(py.TypeError, \"keywords must be strings\")", "fi", "v10=string(v8)", "v11=v3[i+1]", "_,v9=v7[v10]", "if(v9)", "return py.ExceptionNewf(py.TypeError, v6, EvalGetFuncName(v5), EvalGetFuncDesc(v5), v10)", "fi", "v7[v10]=v11", "end", "fi", "if(starKwargs != nil)", "if(v7 == nil)", "v7=py.NewStringDict()", "fi", "v12,v9=starKwargs.(py.StringDict)", "if(!v9)", "return py.ExceptionNewf(py.TypeError, \"%s%s argument after ** must be a mapping, not %s\", EvalGetFuncName(v5), EvalGetFuncDesc(v5), starKwargs.Type().Name)", "fi", "range(v12)", "_,v9=v7[v10]", "if(v9)", "return py.ExceptionNewf(py.TypeError, v6, EvalGetFuncName(v5), EvalGetFuncDesc(v5), v10)", "fi", "v7[v10]=v11", "end", "fi", "if(starArgs != nil)", "v4=append([]py.Object(nil), v4...)", "err=py.Iterate(starArgs, func(item py.Object) bool { v4 = append(v4, item) return false })", "if(err != nil)", "return(err)", "fi", "fi", "v13,err=callInternal(v5, v4, v7, vm.frame)", "if(err != nil)", "return(err)", "fi", "vm.PUSH(v13)", "return(nil)"]),
  ("unpack_iterable", ["v1,err=py.Iter(v)", "if(err != nil)", "return(err)", "fi", "v2=0", "for(v2 = 0;v2 < argcnt;v2++)", "v3,err=py.Next(v1)", "if(err != nil)", "if(!py.IsException(py.StopIteration, err))", "return(err)", "fi", "return py.ExceptionNewf(py.ValueError, \"need more than %d value(s) to unpack\", v2)", "fi", "sp--", "vm.frame.Stack[sp]=v3", "end", "if(argcntafter == -1)", "_,v4=py.Next(v1)", "if(v4 != nil)", "if(!py.IsException(py.StopIteration, v4))", "return(v4)", "fi", "return(nil)", "fi", "return py.ExceptionNewf(py.ValueError, \"too many values to unpack (expected %d)\", argcnt)", "fi", "v5,err=py.SequenceList(v1)", "if(err != nil)", "return(err)", "fi", "sp--", "vm.frame.Stack[sp]=v5", "v2++", "v6=v5.Len()", "if(v6 < argcntafter)", "return py.ExceptionNewf(py.ValueError, \"need more than %d values to unpack\", argcnt+v6)", "fi", "for(j := argcntafter;j > 0;j--)", "sp--", "vm.frame.Stack[sp],err=v5.M__getitem__(py.Int(v6 - j))", "if(err != nil)", "return(err)", "fi", "end", "return(nil)"]),
  ("Vm.setTopAndCheckErr", ["if(err == nil)", "vm.SET_TOP(obj)", "fi", "return(err)"]),
  ("Vm.POP", ["v1=vm.frame.Stack[len(vm.frame.Stack)-1]", "vm.frame.Stack=vm.frame.Stack[:len(vm.frame.Stack)-1]", "return(v1)"]),
  ("Vm.PUSH", ["vm.frame.Stack=append(vm.frame.Stack, obj)"]),
  ("Vm.TOP", ["return(vm.frame.Stack[len(vm.frame.Stack)-1])"]),
  ("Vm.SECOND", ["return(vm.frame.Stack[len(vm.frame.Stack)-2])"]),
  ("Vm.THIRD", ["return(vm.frame.Stack[len(vm.frame.Stack)-3])"]),
  ("Vm.SET_TOP", ["vm.frame.Stack[len(vm.frame.Stack)-1]=v"]),
  ("Vm.SET_SECOND", ["vm.frame.Stack[len(vm.frame.Stack)-2]=v"]),
  ("Vm.SET_THIRD", ["vm.frame.Stack[len(vm.frame.Stack)-3]=v"]),
  ("Vm.DROP", ["vm.frame.Stack=vm.frame.Stack[:len(vm.frame.Stack)-1]"]),
  ("Vm.DROPN", ["vm.frame.Stack=vm.frame.Stack[:len(vm.frame.Stack)-n]"]),
  ("Vm.EXTEND", ["vm.frame.Stack=append(vm.frame.Stack, items...)"]),
  ("Vm.EXTEND_REVERSED", ["v1=len(vm.frame.Stack)", "vm.frame.Stack=append(vm.frame.Stack, items...)", "py.Tuple(vm.frame.Stack[v1:])"]),
  ("Vm.STACK_LEVEL", ["return(len(vm.frame.Stack))"])
]


/-- the handlers of the binary and in-place operators and of BINARY_SUBSCR -/
def binaryHandlers : List String :=
  ["POWER", "MULTIPLY", "FLOOR_DIVIDE", "TRUE_DIVIDE", "MODULO", "ADD", "SUBTRACT", "LSHIFT", "RSHIFT", "AND", "XOR", "OR"].flatMap
    (fun n => ["do_BINARY_" ++ n, "do_INPLACE_" ++ n]) ++ ["do_BINARY_SUBSCR"]

/-- `b := POP; a := TOP; setTopAndCheckErr(py.F(a, b …))`: right operand on top, the result replaces the
left operand (what `exec (.BINARY op)`, `(.INPLACE op)`, `.BINARY_SUBSCR` assume) -/
def binaryShape (row : List String) : Bool :=
  match row with
  | ["v1=vm.POP()", "v2=vm.TOP()", r] =>
      r.startsWith "return vm.setTopAndCheckErr(py." && (r.endsWith "(v2, v1))" || r.endsWith "(v2, v1, py.None))")
  | _ => false

def rowOf (t : List (String × List String)) (h : String) : List String := (t.lookup h).getD ["ABSENT"]

end GPy.C01.HandlerFacts
