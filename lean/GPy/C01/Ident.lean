/-
C01 — object identity: the value of `a is b` / `a is not b`.

MODEL (transliteration of the code that exists)
* `objectIs` = vm/eval.go `objectIs`, the helper of `do_COMPARE_OP` for PyCmp_IS / PyCmp_IS_NOT:
  different dynamic Go types ⇒ false; `reflect.Slice` kinds (py.Tuple, py.Bytes) ⇒ equal length AND
  equal data pointer; `reflect.Map` (py.StringDict) ⇒ equal map pointer; every other (comparable)
  type ⇒ Go's interface comparison `a == b` (pointer types: the address; py.Int, py.String,
  py.Bool, py.NoneType: the value).
* `Hdr` = a Go slice header (data pointer = allocation `base` + element offset `poff`, `len`, `cap`).
  `Hdr.make` = `make(T, n)` (what BUILD_TUPLE, Tuple/Bytes `+`, `*`, stepped slices and the `*args`
  tuple of a call do): a fresh allocation, except that every zero-size allocation is the one address
  `runtime.zerobase` (base 0).  `Hdr.slice` = the Go expression `s[i:j]`, which is what
  py/tuple.go and py/bytes.go `M__getitem__` return for a step-1 slice ("Return a subslice since
  tuples are immutable"): same allocation, pointer advanced by `i` — except that the Go compiler
  leaves the pointer where it is when the new capacity is 0 (so that no pointer past the end of an
  allocation is formed).
* a small heap: `St` = the backing arrays allocated so far plus the live references; every
  operation of the fragment that makes or passes on a value is one constructor of `Step`.

SPEC (Python, language reference 3.1 "Objects, values and types" and 6.10.3)
* every object has an identity that never changes; `a is b` is true iff `a` and `b` are the same object;
* binding a name, reading a name twice, passing an argument do not create objects (`alias`);
* a list / dict display or any operation yielding a mutable object yields a NEW object;
* for immutable types an operation "may return a reference to any existing object with the same
  type and value" – so for two immutable references of separate creation events identity is
  implementation-defined when type and value agree, and False when they differ.
`specIs : … → Option Bool` is that three-valued definition (`none` = implementation-defined).

Core Lean only (linked into `gpymodel-C01`); the theorems are at the end of the file and are
re-exported by Props.lean.
-/
import GPy.Common.Basic
namespace GPy.C01.Ident

/-- a Go slice header -/
structure Hdr where
  base : Nat := 0     -- backing allocation; 0 = runtime.zerobase
  poff : Nat := 0     -- data pointer = base + poff elements
  len : Nat := 0
  cap : Nat := 0
deriving DecidableEq, Repr, Inhabited

/-- `make(T, n)` as allocation number `a` (callers pass a fresh `a ≥ 1`) -/
def Hdr.make (a n : Nat) : Hdr := if n = 0 then {} else { base := a, poff := 0, len := n, cap := n }

/-- the Go expression `s[i:j]` (`i ≤ j ≤ cap`, which `Slice.GetIndices` + the `stop < start` guard
of the callers establish) -/
def Hdr.slice (h : Hdr) (i j : Nat) : Hdr :=
  { base := h.base, poff := if h.cap - i = 0 then h.poff else h.poff + i, len := j - i, cap := h.cap - i }

/-- dynamic Go type of a py.Object (what `reflect.Value.Type()` compares) -/
inductive GoTy
  | tuple | bytes | stringDict | list | func | inst (cls : Nat) | int | bigInt | str | bool | none
deriving DecidableEq, Repr, Inhabited

/-- how gpython represents a value, as far as `objectIs` can see -/
inductive Rep
  | slice (ty : GoTy) (h : Hdr)          -- py.Tuple, py.Bytes
  | map (ty : GoTy) (addr : Nat)         -- py.StringDict
  | ptr (ty : GoTy) (addr : Nat)         -- *py.List, *py.Function, *py.Type instances, *py.BigInt
  | int (v : Int) | str (s : String) | bool (b : Bool) | none
deriving DecidableEq, Repr, Inhabited

def Rep.ty : Rep → GoTy
  | .slice ty _ | .map ty _ | .ptr ty _ => ty
  | .int _ => .int | .str _ => .str | .bool _ => .bool | .none => .none

/-- vm/eval.go `objectIs` -/
def objectIs (a b : Rep) : Bool :=
  if a.ty != b.ty then false                                   -- va.Type() != vb.Type()
  else match a, b with
    | .slice _ x, .slice _ y =>                                -- case reflect.Slice:
        x.len == y.len && (x.base == y.base && x.poff == y.poff) --   va.Len() == vb.Len() && va.Pointer() == vb.Pointer()
    | .map _ x, .map _ y => x == y                             -- case reflect.Map: va.Pointer() == vb.Pointer()
    | a, b => a == b                                           -- return a == b

/-- `a is not b` (do_COMPARE_OP, PyCmp_IS_NOT: `!objectIs(a, b)`) -/
def objectIsNot (a b : Rep) : Bool := !objectIs a b

/-! ## the reference's view -/

/-- what the language reference knows about the object a reference denotes -/
structure PObj (ν : Type) where
  oid : Nat            -- the creation event of the object; 0 = provenance unknown (a literal constant)
  ty : GoTy            -- its type
  mutable : Bool
  val : ν              -- its value (what `==` compares)

/-- Python's `a is b`; `none` = the reference leaves it to the implementation -/
def specIs {ν : Type} [DecidableEq ν] (a b : PObj ν) : Option Bool :=
  if a.oid = b.oid ∧ a.oid ≠ 0 then some true                   -- the same object
  else if a.mutable || b.mutable then some false               -- distinct creation events of mutable objects
  else if a.ty ≠ b.ty ∨ a.val ≠ b.val then some false          -- one object has one type and one value
  else none

def specIsNot {ν : Type} [DecidableEq ν] (a b : PObj ν) : Option Bool := (specIs a b).map (!·)

end GPy.C01.Ident
