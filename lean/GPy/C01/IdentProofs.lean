/-
C01 — identity: the heap of backing arrays, the operations of the fragment that create or pass on
values, the invariant, and the theorems `is_spec`, `is_implies_eq`, `is_not_spec`.
Core Lean only.
-/
import GPy.C01.Ident
namespace GPy.C01.Ident

/-- the value of an object as `==` sees it: the items of a tuple / the bytes of a bytes object, the
scalar itself, or nothing that matters here (mutable objects) -/
inductive PVal (α : Type)
  | seq (xs : List α)
  | scalar (r : Rep)
  | opaque
deriving DecidableEq

/-- a live reference: the implementation's representation and the reference's view of the object -/
structure Ref (α : Type) where
  rep : Rep
  obj : PObj (PVal α)

/-- the heap: contents of the backing arrays by allocation number (immutable once filled: tuples and
bytes are never written after construction), the allocation / creation-event counter, the live references -/
structure St (α : Type) where
  arr : Nat → List α
  next : Nat
  live : List (Ref α)

def St.init {α : Type} : St α := { arr := fun _ => [], next := 1, live := [] }

def Rep.isScalar : Rep → Bool
  | .int _ | .str _ | .bool _ | .none => true
  | _ => false

/-- the operations of the fragment that yield a value -/
inductive Op (α : Type)
  /-- `make` + fill: BUILD_TUPLE, a bytes result, Tuple/Bytes `+` and `*`, a stepped slice, the `*args` tuple -/
  | mkSeq (ty : GoTy) (xs : List α)
  /-- the step-1 slice `live[k][i:j]` (py/tuple.go, py/bytes.go `M__getitem__`: a sub-slice) -/
  | slice (k i j : Nat)
  /-- binding a name, reading a name again, passing an argument, DUP_TOP, `x or y`, `t[:]` on a list element … -/
  | alias (k : Nat)
  /-- a new mutable object held by pointer (`isMap = false`: list, function, instance) or a new dict -/
  | mkBox (isMap : Bool) (ty : GoTy)
  /-- a value of a comparable Go type (py.Int, py.String, py.Bool, py.NoneType) -/
  | scalar (r : Rep)

def St.push {α : Type} (s : St α) (r : Ref α) : St α := { s with live := r :: s.live, next := s.next + 1 }

def apply {α : Type} (s : St α) : Op α → St α
  | .mkSeq ty xs =>
      { arr := fun b => if b = s.next then xs else s.arr b, next := s.next + 1,
        live := ⟨.slice ty (Hdr.make s.next xs.length), ⟨s.next, ty, false, .seq xs⟩⟩ :: s.live }
  | .slice k i j =>
      match s.live[k]? with
      | some ⟨.slice ty h, ⟨_, _, _, .seq xs⟩⟩ =>
          if i ≤ j ∧ j ≤ h.len then
            s.push ⟨.slice ty (h.slice i j), ⟨s.next, ty, false, .seq ((xs.drop i).take (j - i))⟩⟩
          else s
      | _ => s
  | .alias k =>
      match s.live[k]? with
      | some r => { s with live := r :: s.live }
      | none => s
  | .mkBox isMap ty =>
      s.push ⟨if isMap then .map ty s.next else .ptr ty s.next, ⟨s.next, ty, true, .opaque⟩⟩
  | .scalar r =>
      if r.isScalar then { s with live := ⟨r, ⟨0, r.ty, false, .scalar r⟩⟩ :: s.live } else s

/-- states reachable by the operations -/
def run {α : Type} (ops : List (Op α)) : St α := ops.foldl apply St.init

/-- header `h` denotes the window `xs` of the backing array `A` -/
def Window {α : Type} (A : List α) (h : Hdr) (xs : List α) : Prop :=
  h.cap ≤ A.length ∧ h.len ≤ h.cap ∧ xs = (A.drop (A.length - h.cap)).take h.len ∧
  (h.cap ≠ 0 → h.poff = A.length - h.cap)

def RefOk {α : Type} (s : St α) (r : Ref α) : Prop :=
  r.obj.oid < s.next ∧ r.obj.ty = r.rep.ty ∧
  match r.rep with
  | .slice _ h => r.obj.mutable = false ∧ r.obj.oid ≠ 0 ∧ h.base < s.next ∧
      ∃ xs, r.obj.val = .seq xs ∧ Window (s.arr h.base) h xs
  | .map _ a => r.obj.mutable = true ∧ r.obj.oid = a ∧ a ≠ 0
  | .ptr _ a => r.obj.mutable = true ∧ r.obj.oid = a ∧ a ≠ 0
  | sc => r.obj.mutable = false ∧ r.obj.oid = 0 ∧ r.obj.val = .scalar sc

structure Inv {α : Type} (s : St α) : Prop where
  zero : s.arr 0 = []
  pos : 0 < s.next
  ok : ∀ r ∈ s.live, RefOk s r
  /-- one creation event, one object: references with the same (known) creation event are copies of one reference -/
  same : ∀ r1 ∈ s.live, ∀ r2 ∈ s.live, r1.obj.oid = r2.obj.oid → r1.obj.oid ≠ 0 → r1 = r2

/-! ### facts about `objectIs` -/

theorem objectIs_refl (a : Rep) : objectIs a a = true := by
  cases a <;> simp [objectIs, Rep.ty]

theorem objectIs_ty {a b : Rep} (h : objectIs a b = true) : a.ty = b.ty := by
  unfold objectIs at h
  by_cases e : a.ty = b.ty
  · exact e
  · simp [e] at h

theorem objectIs_map {ty a} {b : Rep} (h : objectIs (.map ty a) b = true) : b = .map ty a := by
  cases b <;> simp_all [objectIs, Rep.ty]

theorem objectIs_map' {ty a} {b : Rep} (h : objectIs b (.map ty a) = true) : b = .map ty a := by
  cases b <;> simp_all [objectIs, Rep.ty]

theorem objectIs_ptr {ty a} {b : Rep} (h : objectIs (.ptr ty a) b = true) : b = .ptr ty a := by
  cases b <;> simp_all [objectIs, Rep.ty]

theorem objectIs_ptr' {ty a} {b : Rep} (h : objectIs b (.ptr ty a) = true) : b = .ptr ty a := by
  cases b <;> simp_all [objectIs, Rep.ty]

theorem objectIs_scalar {a b : Rep} (ha : a.isScalar = true) (h : objectIs a b = true) : b = a := by
  cases a <;> cases b <;> simp_all [objectIs, Rep.ty, Rep.isScalar]

theorem objectIs_scalar' {a b : Rep} (hb : b.isScalar = true) (h : objectIs a b = true) : a = b := by
  cases a <;> cases b <;> simp_all [objectIs, Rep.ty, Rep.isScalar]

theorem objectIs_slice {ty1 ty2 h1 h2} (h : objectIs (.slice ty1 h1) (.slice ty2 h2) = true) :
    ty1 = ty2 ∧ h1.len = h2.len ∧ h1.base = h2.base ∧ h1.poff = h2.poff := by
  simp [objectIs, Rep.ty] at h
  exact ⟨h.1, h.2.1, h.2.2.1, h.2.2.2⟩

/-- two windows of one array with the same data pointer and the same length hold the same items -/
theorem window_eq {α : Type} {A : List α} {h1 h2 : Hdr} {xs ys : List α}
    (w1 : Window A h1 xs) (w2 : Window A h2 ys) (hl : h1.len = h2.len) (hp : h1.poff = h2.poff) :
    xs = ys := by
  obtain ⟨c1, l1, e1, p1⟩ := w1
  obtain ⟨c2, l2, e2, p2⟩ := w2
  by_cases z : h1.len = 0
  · have z2 : h2.len = 0 := by omega
    rw [e1, e2, z, z2]; simp
  · have n1 : h1.cap ≠ 0 := by omega
    have n2 : h2.cap ≠ 0 := by omega
    have q1 := p1 n1
    have q2 := p2 n2
    have : h1.cap = h2.cap := by omega
    rw [e1, e2, this, hl]


/-! ### the theorems, for every state that satisfies the invariant -/

/-- `is_implies_eq`: what `objectIs` calls identical has one type and one value -/
theorem is_implies_eq_inv {α : Type} {s : St α} (I : Inv s) {a b : Ref α} (ha : a ∈ s.live) (hb : b ∈ s.live)
    (h : objectIs a.rep b.rep = true) : a.obj.ty = b.obj.ty ∧ a.obj.val = b.obj.val ∧ a.obj.mutable = b.obj.mutable := by
  have oa := I.ok a ha
  have ob := I.ok b hb
  obtain ⟨_, ta, ma⟩ := oa
  obtain ⟨_, tb, mb⟩ := ob
  have ht := objectIs_ty h
  refine ⟨by rw [ta, tb, ht], ?_⟩
  cases ra : a.rep with
  | slice ty1 h1 =>
    cases rb : b.rep with
    | slice ty2 h2 =>
      rw [ra, rb] at h
      obtain ⟨_, hl, hbase, hp⟩ := objectIs_slice h
      simp only [ra] at ma
      simp only [rb] at mb
      obtain ⟨m1, _, _, xs, v1, w1⟩ := ma
      obtain ⟨m2, _, _, ys, v2, w2⟩ := mb
      rw [hbase] at w1
      exact ⟨by rw [v1, v2, window_eq w1 w2 hl hp], by rw [m1, m2]⟩
    | _ => rw [ra, rb] at h; simp [objectIs, Rep.ty] at h
  | map ty1 a1 =>
    rw [ra] at h
    have rb := objectIs_map h
    simp only [ra] at ma
    simp only [rb] at mb
    have e : a.obj.oid = b.obj.oid := by rw [ma.2.1, mb.2.1]
    have := I.same a ha b hb e (by rw [ma.2.1]; exact ma.2.2)
    subst this
    exact ⟨rfl, rfl⟩
  | ptr ty1 a1 =>
    rw [ra] at h
    have rb := objectIs_ptr h
    simp only [ra] at ma
    simp only [rb] at mb
    have e : a.obj.oid = b.obj.oid := by rw [ma.2.1, mb.2.1]
    have := I.same a ha b hb e (by rw [ma.2.1]; exact ma.2.2)
    subst this
    exact ⟨rfl, rfl⟩
  | int v =>
    rw [ra] at h
    have rb := objectIs_scalar (by rfl) h
    simp only [ra] at ma
    simp only [rb] at mb
    exact ⟨by rw [ma.2.2, mb.2.2], by rw [ma.1, mb.1]⟩
  | str v =>
    rw [ra] at h
    have rb := objectIs_scalar (by rfl) h
    simp only [ra] at ma
    simp only [rb] at mb
    exact ⟨by rw [ma.2.2, mb.2.2], by rw [ma.1, mb.1]⟩
  | bool v =>
    rw [ra] at h
    have rb := objectIs_scalar (by rfl) h
    simp only [ra] at ma
    simp only [rb] at mb
    exact ⟨by rw [ma.2.2, mb.2.2], by rw [ma.1, mb.1]⟩
  | none =>
    rw [ra] at h
    have rb := objectIs_scalar (by rfl) h
    simp only [ra] at ma
    simp only [rb] at mb
    exact ⟨by rw [ma.2.2, mb.2.2], by rw [ma.1, mb.1]⟩

/-- a mutable object is held by pointer, and its address is its creation event -/
theorem mutable_rep {α : Type} {s : St α} (I : Inv s) {a : Ref α} (ha : a ∈ s.live) (hm : a.obj.mutable = true) :
    (∃ ty, a.rep = .map ty a.obj.oid ∨ a.rep = .ptr ty a.obj.oid) ∧ a.obj.oid ≠ 0 := by
  obtain ⟨_, _, ma⟩ := I.ok a ha
  cases ra : a.rep with
  | slice ty h => simp only [ra] at ma; rw [ma.1] at hm; cases hm
  | map ty x => simp only [ra] at ma; exact ⟨⟨ty, Or.inl (by rw [ma.2.1])⟩, by rw [ma.2.1]; exact ma.2.2⟩
  | ptr ty x => simp only [ra] at ma; exact ⟨⟨ty, Or.inr (by rw [ma.2.1])⟩, by rw [ma.2.1]; exact ma.2.2⟩
  | int v => simp only [ra] at ma; rw [ma.1] at hm; cases hm
  | str v => simp only [ra] at ma; rw [ma.1] at hm; cases hm
  | bool v => simp only [ra] at ma; rw [ma.1] at hm; cases hm
  | none => simp only [ra] at ma; rw [ma.1] at hm; cases hm

/-- `is_spec`: wherever the reference defines the value of `a is b`, `objectIs` yields it -/
theorem is_spec_inv {α : Type} [DecidableEq α] {s : St α} (I : Inv s) {a b : Ref α}
    (ha : a ∈ s.live) (hb : b ∈ s.live) {v : Bool} (hs : specIs a.obj b.obj = some v) :
    objectIs a.rep b.rep = v := by
  unfold specIs at hs
  split at hs
  · -- the same object
    rename_i h
    cases hs
    have := I.same a ha b hb h.1 h.2
    subst this
    exact objectIs_refl _
  · rename_i hne
    split at hs
    · -- a mutable object is only identical to itself
      rename_i hm
      cases hs
      cases hx : objectIs a.rep b.rep with
      | false => rfl
      | true =>
        exfalso
        obtain ⟨_, _, em⟩ := is_implies_eq_inv I ha hb hx
        have hma : a.obj.mutable = true := by
          cases h1 : a.obj.mutable with
          | true => rfl
          | false => rw [h1] at em; rw [h1, ← em] at hm; cases hm
        have hmb : b.obj.mutable = true := by rw [← em]; exact hma
        obtain ⟨⟨ty1, r1⟩, n1⟩ := mutable_rep I ha hma
        obtain ⟨⟨ty2, r2⟩, _⟩ := mutable_rep I hb hmb
        apply hne
        refine ⟨?_, n1⟩
        rcases r1 with r1 | r1 <;> rcases r2 with r2 | r2 <;> rw [r1, r2] at hx
        · have := objectIs_map hx; injection this with _ h2; exact h2.symm
        · have := objectIs_map hx; cases this
        · have := objectIs_ptr hx; cases this
        · have := objectIs_ptr hx; injection this with _ h2; exact h2.symm
    · split at hs
      · -- different type or value: not one object
        rename_i hd
        cases hs
        cases hx : objectIs a.rep b.rep with
        | false => rfl
        | true =>
          exfalso
          obtain ⟨e1, e2, _⟩ := is_implies_eq_inv I ha hb hx
          rcases hd with hd | hd
          · exact hd e1
          · exact hd e2
      · cases hs

/-- `is not` is the negation, in the model and in the reference -/
theorem is_not_spec_inv {α : Type} [DecidableEq α] {s : St α} (I : Inv s) {a b : Ref α}
    (ha : a ∈ s.live) (hb : b ∈ s.live) {v : Bool} (hs : specIsNot a.obj b.obj = some v) :
    objectIsNot a.rep b.rep = v := by
  unfold specIsNot at hs
  cases h : specIs a.obj b.obj with
  | none => rw [h] at hs; cases hs
  | some u =>
    rw [h] at hs
    cases hs
    unfold objectIsNot
    rw [is_spec_inv I ha hb h]


/-! ### the invariant holds in every reachable state -/

theorem RefOk.mono {α : Type} {s s' : St α} {r : Ref α} (h : RefOk s r) (hn : s.next ≤ s'.next)
    (ha : ∀ b, b < s.next → s'.arr b = s.arr b) : RefOk s' r := by
  obtain ⟨h1, h2, h3⟩ := h
  refine ⟨by omega, h2, ?_⟩
  cases hr : r.rep with
  | slice ty h =>
    simp only [hr] at h3 ⊢
    obtain ⟨m, o, b, xs, v, w⟩ := h3
    exact ⟨m, o, by omega, xs, v, by rw [ha _ b]; exact w⟩
  | map ty a => simp only [hr] at h3 ⊢; exact h3
  | ptr ty a => simp only [hr] at h3 ⊢; exact h3
  | int v => simp only [hr] at h3 ⊢; exact h3
  | str v => simp only [hr] at h3 ⊢; exact h3
  | bool v => simp only [hr] at h3 ⊢; exact h3
  | none => simp only [hr] at h3 ⊢; exact h3

theorem inv_init {α : Type} : Inv (St.init : St α) :=
  ⟨rfl, by simp [St.init], (by intro r hr; cases hr), (by intro r hr; cases hr)⟩

/-- pushing a reference with a fresh creation event -/
theorem inv_push_fresh {α : Type} {s : St α} (I : Inv s) (r : Ref α) (arr' : Nat → List α)
    (ha : ∀ b, b < s.next → arr' b = s.arr b)
    (hoid : r.obj.oid = s.next) (hok : RefOk { arr := arr', next := s.next + 1, live := r :: s.live } r) :
    Inv { arr := arr', next := s.next + 1, live := r :: s.live } := by
  refine ⟨(by show arr' 0 = []; rw [ha 0 I.pos]; exact I.zero), by simp, ?_, ?_⟩
  · intro x hx
    cases hx with
    | head => exact hok
    | tail _ hx => exact (I.ok x hx).mono (by simp) ha
  · intro r1 h1 r2 h2 e ne
    cases h1 with
    | head =>
      cases h2 with
      | head => rfl
      | tail _ h2 => have := (I.ok r2 h2).1; omega
    | tail _ h1 =>
      cases h2 with
      | head => have := (I.ok r1 h1).1; omega
      | tail _ h2 => exact I.same r1 h1 r2 h2 e ne

theorem window_make {α : Type} (A : Nat → List α) (a : Nat) (xs : List α) (hz : A 0 = []) (ha : A a = xs) :
    Window (A (Hdr.make a xs.length).base) (Hdr.make a xs.length) xs := by
  unfold Hdr.make
  by_cases z : xs.length = 0
  · have : xs = [] := List.eq_nil_of_length_eq_zero z
    subst this
    simp [Window, hz]
  · simp only [z, if_false, ha]
    refine ⟨Nat.le_refl _, Nat.le_refl _, ?_, ?_⟩
    · simp
    · intro _; show (0 : Nat) = xs.length - xs.length; omega

theorem window_slice {α : Type} {A : List α} {h : Hdr} {xs : List α} (w : Window A h xs) {i j : Nat}
    (hij : i ≤ j) (hj : j ≤ h.len) : Window A (h.slice i j) ((xs.drop i).take (j - i)) := by
  obtain ⟨c, l, e, p⟩ := w
  refine ⟨?_, ?_, ?_, ?_⟩
  · show h.cap - i ≤ A.length
    omega
  · show j - i ≤ h.cap - i
    omega
  · show (xs.drop i).take (j - i) = (A.drop (A.length - (h.cap - i))).take (j - i)
    rw [e, List.drop_take, List.take_take, List.drop_drop]
    have e1 : A.length - h.cap + i = A.length - (h.cap - i) := by omega
    have e2 : min (j - i) (h.len - i) = j - i := by omega
    rw [e2]
    congr 2 <;> omega
  · intro hc
    have hc' : h.cap - i ≠ 0 := hc
    show (if h.cap - i = 0 then h.poff else h.poff + i) = A.length - (h.cap - i)
    rw [if_neg hc']
    have := p (by omega)
    omega

theorem inv_apply {α : Type} {s : St α} (I : Inv s) (op : Op α) : Inv (apply s op) := by
  cases op with
  | mkSeq ty xs =>
    apply inv_push_fresh I _ _ (by intro b hb; have : b ≠ s.next := by omega
                                   simp [this]) rfl
    refine ⟨by simp, rfl, ?_⟩
    refine ⟨rfl, by have := I.pos; simp; omega, ?_, xs, rfl, ?_⟩
    · unfold Hdr.make; split <;> simp <;> exact I.pos
    · apply window_make
      · have : (0 : Nat) ≠ s.next := by have := I.pos; omega
        simp [this, I.zero]
      · simp
  | slice k i j =>
    simp only [apply]
    split
    · rename_i ty h o1 o2 o3 xs hk
      split
      · rename_i hc
        have hm := List.mem_of_getElem? hk
        obtain ⟨_, _, ok⟩ := I.ok _ hm
        simp only at ok
        obtain ⟨_, _, hb, ys, hv, w⟩ := ok
        have : ys = xs := by injection hv with hv; exact hv.symm
        subst this
        apply inv_push_fresh I _ _ (fun _ _ => rfl) rfl
        refine ⟨by simp, rfl, ?_⟩
        refine ⟨rfl, by have := I.pos; simp; omega, ?_, _, rfl, window_slice w hc.1 hc.2⟩
        show h.base < s.next + 1
        omega
      · exact I
    · exact I
  | alias k =>
    simp only [apply]
    split
    · rename_i r hk
      have hm := List.mem_of_getElem? hk
      refine ⟨I.zero, I.pos, ?_, ?_⟩
      · intro x hx
        cases hx with
        | head => exact I.ok _ hm
        | tail _ hx => exact I.ok x hx
      · intro r1 h1 r2 h2
        have m1 : r1 ∈ s.live := by cases h1 with | head => exact hm | tail _ h => exact h
        have m2 : r2 ∈ s.live := by cases h2 with | head => exact hm | tail _ h => exact h
        exact I.same r1 m1 r2 m2
    · exact I
  | mkBox isMap ty =>
    apply inv_push_fresh I _ _ (fun _ _ => rfl) rfl
    have := I.pos
    cases isMap
    · exact ⟨by simp, rfl, rfl, rfl, by omega⟩
    · exact ⟨by simp, rfl, rfl, rfl, by omega⟩
  | scalar r =>
    simp only [apply]
    split
    · rename_i hs
      refine ⟨I.zero, I.pos, ?_, ?_⟩
      · intro x hx
        cases hx with
        | head =>
          refine ⟨I.pos, rfl, ?_⟩
          cases r <;> simp [Rep.isScalar] at hs <;> exact ⟨rfl, rfl, rfl⟩
        | tail _ hx => exact I.ok x hx
      · intro r1 h1 r2 h2 e ne
        cases h1 with
        | head => exact absurd rfl ne
        | tail _ h1 =>
          cases h2 with
          | head => exact absurd e ne
          | tail _ h2 => exact I.same r1 h1 r2 h2 e ne
    · exact I

theorem inv_run {α : Type} (ops : List (Op α)) : Inv (run ops) := by
  unfold run
  suffices ∀ (s : St α), Inv s → Inv (ops.foldl apply s) from this _ inv_init
  induction ops with
  | nil => intro s I; exact I
  | cons op ops ih => intro s I; exact ih _ (inv_apply I op)

end GPy.C01.Ident
