/-
C01 — model of the implementation: `compE`/`compS` transliterate
compile/compile.go (`Expr`, `Stmt(*ast.Assign, *ast.AugAssign, *ast.ExprStmt)`,
`*ast.Delete`, `*ast.FunctionDef`), `compileFunc`, `makeClosure` (no free variables),
`tupleOrList`, `subscript`, `slice`, `buildSlice`, `callHelper`, `NameOp` at
module level and in function scope) and `exec`/`run` transliterate vm/eval.go (`do_*` for the opcodes
the fragment uses, the fetch loop of `RunFrame`).

Jump targets: compile.go emits `Label`s that the assembler resolves to byte
offsets; here every compile function takes the index `pc` of its first
instruction and emits *instruction indices* (the harness converts the real byte
offsets, relative for JUMP_FORWARD, to instruction indices).  Core Lean only.
-/
import GPy.C01.Spec
namespace GPy.C01

inductive Instr
  | LOAD_CONST (c : Const)
  | LOAD_CODE (name : String) (sg : Sig) (body : Expr)   -- LOAD_CONST <code object of a lambda / def>
  | LOAD_NAME (n : String)
  | STORE_NAME (n : String)
  | DELETE_NAME (n : String)
  | LOAD_FAST (n : String)                  -- function scope: a parameter
  | LOAD_GLOBAL (n : String)                -- function scope: any other name
  | BINARY (op : BinOp)                     -- BINARY_ADD …
  | INPLACE (op : BinOp)                    -- INPLACE_ADD …
  | UNARY (op : UnOp)                       -- UNARY_NEGATIVE …
  | COMPARE_OP (op : CmpOp)
  | JUMP_IF_FALSE_OR_POP (t : Nat)
  | JUMP_IF_TRUE_OR_POP (t : Nat)
  | POP_JUMP_IF_FALSE (t : Nat)
  | JUMP_FORWARD (t : Nat)
  | POP_TOP | DUP_TOP | DUP_TOP_TWO | ROT_TWO | ROT_THREE
  | BINARY_SUBSCR | STORE_SUBSCR | DELETE_SUBSCR
  | LOAD_ATTR (n : String) | STORE_ATTR (n : String) | DELETE_ATTR (n : String)
  | CALL_FUNCTION (n : Nat)
  /-- CALL_FUNCTION / _VAR / _KW / _VAR_KW with operand `na + (nk << 8)` -/
  | CALL_FUNCTION_EX (na nk : Nat) (star dstar : Bool)
  | BUILD_TUPLE (n : Nat) | BUILD_LIST (n : Nat) | BUILD_SET (n : Nat)
  | BUILD_SLICE (n : Nat)
  | BUILD_MAP (n : Nat) | STORE_MAP
  | MAKE_FUNCTION (np nk : Nat)              -- operand `np + (nk << 8)`
  | UNPACK_SEQUENCE (n : Nat)
  | UNPACK_EX (before after : Nat)           -- operand `before + (after << 8)`
  | RETURN_VALUE

/-! ## compile.go -/

mutual
/-- number of instructions `Expr()` emits -/
def size : Expr → Nat
  | .atom _ _ => 4
  | .const _ => 1
  | .name _ => 1
  | .binop _ a b => size a + size b + 1
  | .unop _ a => size a + 1
  | .boolop _ a rest => size a + sizeBool rest
  | .compare a (.one _ e) => size a + size e + 1
  | .compare a (.more op e rest) => size a + sizeTail (.more op e rest) + 3
  | .ifexp t b o => size t + 1 + size b + 1 + size o
  | .subscript a i => size a + size i + 1
  | .slice2 a lo hi => size a + size lo + size hi + 2
  | .attr a _ => size a + 1
  | .call f args => size f + sizes args + 1
  | .tuple es => sizes es + 1
  | .list es => sizes es + 1
  | .set es => sizes es + 1
  | .dict kvs => 1 + sizeKVs kvs
  | .lambda _ ds kds _ => sizes ds + sizeKWs kds + 3
  | .slice3 lo hi st => size lo + size hi + size st + 1
  | .callx f args kws star dstar => size f + sizes args + sizeKWs kws + sizeOpt star + sizeOpt dstar + 1
def sizes : Exprs → Nat
  | .nil => 0
  | .cons e es => size e + sizes es
def sizeBool : Exprs → Nat
  | .nil => 0
  | .cons e es => 1 + size e + sizeBool es
def sizeTail : CmpTail → Nat
  | .one _ e => size e + 1
  | .more _ e rest => size e + 4 + sizeTail rest
def sizeKVs : KVs → Nat
  | .nil => 0
  | .cons k v rest => size v + size k + 1 + sizeKVs rest
def sizeKWs : KWs → Nat
  | .nil => 0
  | .cons _ e rest => 1 + size e + sizeKWs rest
def sizeOpt : OptE → Nat
  | .none => 0
  | .some e => size e
end

mutual
/-- `compiler.Expr` (Load context); `pc` = index of the first emitted instruction -/
def compE : Expr → Nat → List Instr
  | .atom i c, _ =>
      -- ast.Call{Func: Name ev, Args: [Num i, <literal c>]}
      [.LOAD_NAME "ev", .LOAD_CONST (.int i), .LOAD_CONST c, .CALL_FUNCTION 2]
  | .const c, _ => [.LOAD_CONST c]
  | .name n, _ => [.LOAD_NAME n]
  | .binop op a b, pc => compE a pc ++ compE b (pc + size a) ++ [.BINARY op]
  | .unop op a, pc => compE a pc ++ [.UNARY op]
  | .boolop isOr a rest, pc =>
      -- label := new(Label); for i, e := range Values { Expr(e); if i != last { Jump(op, label) } }; Label(label)
      let label := pc + size a + sizeBool rest
      compE a pc ++ compBool isOr rest (pc + size a) label
  | .compare a (.one op e), pc =>
      compE a pc ++ compE e (pc + size a) ++ [.COMPARE_OP op]
  | .compare a (.more op e rest), pc =>
      -- … if len(Ops) > 1 { Jump(JUMP_FORWARD, endLabel); Label(label); ROT_TWO; POP_TOP; Label(endLabel) }
      let label := pc + size a + sizeTail (.more op e rest) + 1
      compE a pc ++ compTail (.more op e rest) (pc + size a) label
        ++ [.JUMP_FORWARD (label + 2), .ROT_TWO, .POP_TOP]
  | .ifexp t b o, pc =>
      let elseL := pc + size t + 1 + size b + 1
      compE t pc ++ [.POP_JUMP_IF_FALSE elseL] ++ compE b (pc + size t + 1)
        ++ [.JUMP_FORWARD (elseL + size o)] ++ compE o elseL
  | .subscript a i, pc => compE a pc ++ compE i (pc + size a) ++ [.BINARY_SUBSCR]
  | .slice2 a lo hi, pc =>
      compE a pc ++ compE lo (pc + size a) ++ compE hi (pc + size a + size lo)
        ++ [.BUILD_SLICE 2, .BINARY_SUBSCR]
  | .attr a n, pc => compE a pc ++ [.LOAD_ATTR n]
  | .call f args, pc =>
      compE f pc ++ compEs args (pc + size f) ++ [.CALL_FUNCTION args.length]
  | .tuple es, pc => compEs es pc ++ [.BUILD_TUPLE es.length]
  | .list es, pc => compEs es pc ++ [.BUILD_LIST es.length]
  | .set es, pc => compEs es pc ++ [.BUILD_SET es.length]
  | .dict kvs, pc => [.BUILD_MAP kvs.length] ++ compKVs kvs (pc + 1)
  | .lambda sg ds kds body, pc =>
      -- compileFunc: Exprs(Args.Defaults); for each kw-only default { LoadConst(name); Expr(default) };
      -- makeClosure: LoadConst(code); LoadConst(qualname); MAKE_FUNCTION posdefaults + kwdefaults<<8
      compEs ds pc ++ compKWs kds (pc + sizes ds)
        ++ [.LOAD_CODE "<lambda>" sg body, .LOAD_CONST (.str "<lambda>"), .MAKE_FUNCTION ds.length kds.length]
  | .slice3 lo hi st, pc =>
      -- buildSlice: Expr(Lower); Expr(Upper); Expr(Step); BUILD_SLICE 3
      compE lo pc ++ compE hi (pc + size lo) ++ compE st (pc + size lo + size hi) ++ [.BUILD_SLICE 3]
  | .callx f args kws star dstar, pc =>
      -- Expr(Func); callHelper: Args; for kw { LoadConst(kw.Arg); Expr(kw.Value) }; Starargs; Kwargs; op
      compE f pc ++ compEs args (pc + size f) ++ compKWs kws (pc + size f + sizes args)
        ++ compOpt star (pc + size f + sizes args + sizeKWs kws)
        ++ compOpt dstar (pc + size f + sizes args + sizeKWs kws + sizeOpt star)
        ++ [.CALL_FUNCTION_EX args.length kws.length star.isSome dstar.isSome]
/-- `compiler.Exprs` -/
def compEs : Exprs → Nat → List Instr
  | .nil, _ => []
  | .cons e es, pc => compE e pc ++ compEs es (pc + size e)
/-- the part of the BoolOp loop after the first operand -/
def compBool (isOr : Bool) : Exprs → Nat → Nat → List Instr
  | .nil, _, _ => []
  | .cons e es, pc, label =>
      (if isOr then Instr.JUMP_IF_TRUE_OR_POP label else Instr.JUMP_IF_FALSE_OR_POP label)
        :: (compE e (pc + 1) ++ compBool isOr es (pc + 1 + size e) label)
/-- the Compare loop: `Expr(comparator); if !last {DUP_TOP; ROT_THREE}; COMPARE_OP; if !last {JUMP_IF_FALSE_OR_POP label}` -/
def compTail : CmpTail → Nat → Nat → List Instr
  | .one op e, pc, _ => compE e pc ++ [.COMPARE_OP op]
  | .more op e rest, pc, label =>
      compE e pc ++ [.DUP_TOP, .ROT_THREE, .COMPARE_OP op, .JUMP_IF_FALSE_OR_POP label]
        ++ compTail rest (pc + size e + 4) label
/-- ast.Dict loop: `Expr(Values[i]); Expr(Keys[i]); STORE_MAP` -/
def compKVs : KVs → Nat → List Instr
  | .nil, _ => []
  | .cons k v rest, pc =>
      compE v pc ++ compE k (pc + size v) ++ [.STORE_MAP] ++ compKVs rest (pc + size v + size k + 1)
/-- `LoadConst(py.String(name)); Expr(value)` per pair -/
def compKWs : KWs → Nat → List Instr
  | .nil, _ => []
  | .cons n e rest, pc => .LOAD_CONST (.str n) :: (compE e (pc + 1) ++ compKWs rest (pc + 1 + size e))
def compOpt : OptE → Nat → List Instr
  | .none, _ => []
  | .some e, pc => compE e pc
end

mutual
def sizeT : Target → Nat
  | .name _ => 1
  | .subscr a i => size a + size i + 1
  | .attr a _ => size a + 1
  | .tuple ts => 1 + sizeTs ts
  | .star b t a => 1 + sizeTs b + sizeT t + sizeTs a
def sizeTs : Targets → Nat
  | .nil => 0
  | .cons t ts => sizeT t + sizeTs ts
end

mutual
/-- `compiler.Expr` in Store context -/
def compT : Target → Nat → List Instr
  | .name n, _ => [.STORE_NAME n]
  | .subscr a i, pc => compE a pc ++ compE i (pc + size a) ++ [.STORE_SUBSCR]
  | .attr a n, pc => compE a pc ++ [.STORE_ATTR n]
  | .tuple ts, pc => .UNPACK_SEQUENCE ts.length :: compTs ts (pc + 1)
  | .star b t a, pc =>
      -- tupleOrList(Store): UNPACK_EX i + (n-i-1)<<8; elts[i] = starred.Value; Exprs(elts)
      .UNPACK_EX b.length a.length
        :: (compTs b (pc + 1) ++ compT t (pc + 1 + sizeTs b) ++ compTs a (pc + 1 + sizeTs b + sizeT t))
def compTs : Targets → Nat → List Instr
  | .nil, _ => []
  | .cons t ts, pc => compT t pc ++ compTs ts (pc + sizeT t)
end

mutual
def sizeD : DelTarget → Nat
  | .name _ => 1
  | .subscr a i => size a + size i + 1
  | .attr a _ => size a + 1
  | .tuple ts => sizeDs ts
def sizeDs : DelTargets → Nat
  | .nil => 0
  | .cons t ts => sizeD t + sizeDs ts
end

mutual
/-- `compiler.Expr` in Del context (`case *ast.Delete: c.Exprs(node.Targets)`); a tuple in
Del context emits just its elements -/
def compD : DelTarget → Nat → List Instr
  | .name n, _ => [.DELETE_NAME n]
  | .subscr a i, pc => compE a pc ++ compE i (pc + size a) ++ [.DELETE_SUBSCR]
  | .attr a n, pc => compE a pc ++ [.DELETE_ATTR n]
  | .tuple ts, pc => compDs ts pc
def compDs : DelTargets → Nat → List Instr
  | .nil, _ => []
  | .cons t ts, pc => compD t pc ++ compDs ts (pc + sizeD t)
end

/-- `for i, target := range Targets { if i != len-1 { DUP_TOP }; Expr(target) }` over the
non-empty target list `t :: more` -/
def sizeTargets : Target → Targets → Nat
  | t, .nil => sizeT t
  | t, .cons t' more => 1 + sizeT t + sizeTargets t' more

def compTargets : Target → Targets → Nat → List Instr
  | t, .nil, pc => compT t pc
  | t, .cons t' more, pc => .DUP_TOP :: (compT t (pc + 1) ++ compTargets t' more (pc + 1 + sizeT t))

def sizeS : Stmt → Nat
  | .assign t more value => size value + sizeTargets t more
  | .aug (.name _) _ value => 1 + size value + 2
  | .aug (.subscr a i) _ value => size a + size i + 2 + size value + 3
  | .aug (.attr a _) _ value => size a + 2 + size value + 3
  | .expr (.const (.int _)) => 0
  | .expr (.const (.str _)) => 0
  | .expr e => size e + 1
  | .del ts => sizeDs ts
  | .funcdef _ _ ds kds _ => sizes ds + sizeKWs kds + 4

/-- `compiler.Stmt` for Assign, AugAssign (AugLoad / AugStore contexts), ExprStmt -/
def compS : Stmt → Nat → List Instr
  | .assign t more value, pc => compE value pc ++ compTargets t more (pc + size value)
  | .aug (.name n) op value, pc =>
      -- NameOp(AugLoad) = LOAD_NAME; Expr(Value); INPLACE_op; NameOp(AugStore) = STORE_NAME
      [.LOAD_NAME n] ++ compE value (pc + 1) ++ [.INPLACE op, .STORE_NAME n]
  | .aug (.subscr a i) op value, pc =>
      -- AugLoad: Expr(Value); slice: Expr(index); DUP_TOP_TWO; BINARY_SUBSCR.  AugStore: ROT_THREE; STORE_SUBSCR
      compE a pc ++ compE i (pc + size a) ++ [.DUP_TOP_TWO, .BINARY_SUBSCR]
        ++ compE value (pc + size a + size i + 2) ++ [.INPLACE op, .ROT_THREE, .STORE_SUBSCR]
  | .aug (.attr a n) op value, pc =>
      -- AugLoad: Expr(Value); DUP_TOP; LOAD_ATTR.  AugStore: ROT_TWO; STORE_ATTR
      compE a pc ++ [.DUP_TOP, .LOAD_ATTR n] ++ compE value (pc + size a + 2)
        ++ [.INPLACE op, .ROT_TWO, .STORE_ATTR n]
  | .expr (.const (.int _)), _ => []          -- case *ast.Num: (nothing emitted)
  | .expr (.const (.str _)), _ => []          -- case *ast.Str:
  | .expr e, pc => compE e pc ++ [.POP_TOP]
  | .del ts, pc => compDs ts pc
  | .funcdef name sg ds kds body, pc =>
      -- compileFunc(...); NameOp(name, Store)
      compEs ds pc ++ compKWs kds (pc + sizes ds)
        ++ [.LOAD_CODE name sg body, .LOAD_CONST (.str name), .MAKE_FUNCTION ds.length kds.length,
            .STORE_NAME name]

/-! ### code objects of functions

The body of a lambda / def is compiled by the same `Expr` in a FunctionBlock scope:
`NameOp` then emits LOAD_FAST for a parameter (ScopeLocal) and LOAD_GLOBAL for any
other name (ScopeGlobalImplicit) where the module scope emits LOAD_NAME.  (Bodies in
which a nested function captures a parameter – LOAD_CLOSURE / LOAD_DEREF – are outside
the fragment.) -/

/-- `NameOp` in function scope -/
def resolve (ps : List String) : Instr → Instr
  | .LOAD_NAME n => if ps.contains n then .LOAD_FAST n else .LOAD_GLOBAL n
  | i => i

/-- the code of `lambda sg: body` (`Expr(body)`; value on the stack ⇒ `RETURN_VALUE` appended)
and of `def name(sg): return body` (`Expr(body); RETURN_VALUE`; compileAst appends nothing
because the code `EndsWithReturn`) -/
def compBody (_name : String) (sg : Sig) (body : Expr) : List Instr :=
  (compE body 0).map (resolve sg.names) ++ [.RETURN_VALUE]

def sizeProg : List Stmt → Nat
  | [] => 0
  | s :: ss => sizeS s + sizeProg ss

def compStmts : List Stmt → Nat → List Instr
  | [], _ => []
  | s :: ss, pc => compS s pc ++ compStmts ss (pc + sizeS s)

/-- a module body: the statements, then `LOAD_CONST None; RETURN_VALUE` -/
def compProg (ss : List Stmt) : List Instr :=
  compStmts ss 0 ++ [.LOAD_CONST .none, .RETURN_VALUE]

/-! ## vm/eval.go -/

/-- what one instruction does -/
inductive Outcome (V X W : Type)
  | next (pc : Nat) (s : List V) (w : W)     -- continue at `pc`
  | raise (x : X) (w : W)                    -- vm.why = whyException (no handler in the fragment)
  | ret (v : V) (w : W)                      -- RETURN_VALUE
  | fault                                     -- Go run-time panic: stack underflow / bad operand

section
variable {V X W : Type} (P : Prims V X W)

/-- push the result of a primitive or raise: `vm.setTopAndCheckErr` after the POPs -/
@[inline] def push (pc : Nat) (s : List V) (r : Res X W V) : Outcome V X W :=
  match r with
  | .ok v w => .next (pc + 1) (v :: s) w
  | .err x w => .raise x w

@[inline] def done (pc : Nat) (s : List V) (r : Res X W Unit) : Outcome V X W :=
  match r with
  | .ok _ w => .next (pc + 1) s w
  | .err x w => .raise x w

/-- `[k1, v1, k2, v2, …]` ↦ `[(k1, v1), (k2, v2), …]` (the name/value pairs below a
MAKE_FUNCTION / CALL_FUNCTION, deepest first) -/
def pairs : List V → List (V × V)
  | k :: v :: r => (k, v) :: pairs r
  | _ => []

/-- `if flag { x := POP() }` -/
def popIf (flag : Bool) (s : List V) : Option (Option V × List V) :=
  if flag then
    match s with
    | v :: s' => some (some v, s')
    | [] => none
  else some (none, s)

/-- the `do_*` functions; the stack is a list with TOS first -/
def exec (i : Instr) (pc : Nat) (s : List V) (w : W) : Outcome V X W :=
  match i, s with
  | .LOAD_CONST c, s => .next (pc + 1) (P.const c :: s) w
  | .LOAD_CODE nm sg b, s => .next (pc + 1) (P.codeObj nm sg b :: s) w
  | .LOAD_NAME n, s => push pc s (P.loadName n w)
  | .LOAD_FAST n, s => push pc s (P.loadFast n w)
  | .LOAD_GLOBAL n, s => push pc s (P.loadGlobal n w)
  | .STORE_NAME n, v :: s => done pc s (P.storeName n v w)
  | .DELETE_NAME n, s => done pc s (P.delName n w)
  -- b := vm.POP(); a := vm.TOP(); setTopAndCheckErr(py.Op(a, b))
  | .BINARY op, b :: a :: s => push pc s (P.binop op a b w)
  | .INPLACE op, b :: a :: s => push pc s (P.inplace op a b w)
  | .UNARY op, a :: s => push pc s (P.unop op a w)
  | .COMPARE_OP op, b :: a :: s => push pc s (P.compare op a b w)
  | .JUMP_IF_FALSE_OR_POP t, v :: s =>
      match P.truth v w with
      | .ok b w' => if !b then .next t (v :: s) w' else .next (pc + 1) s w'
      | .err x w' => .raise x w'
  | .JUMP_IF_TRUE_OR_POP t, v :: s =>
      match P.truth v w with
      | .ok b w' => if b then .next t (v :: s) w' else .next (pc + 1) s w'
      | .err x w' => .raise x w'
  | .POP_JUMP_IF_FALSE t, v :: s =>
      match P.truth v w with
      | .ok b w' => if !b then .next t s w' else .next (pc + 1) s w'
      | .err x w' => .raise x w'
  | .JUMP_FORWARD t, s => .next t s w
  | .POP_TOP, _ :: s => .next (pc + 1) s w
  | .DUP_TOP, v :: s => .next (pc + 1) (v :: v :: s) w
  | .DUP_TOP_TWO, top :: second :: s => .next (pc + 1) (top :: second :: top :: second :: s) w
  | .ROT_TWO, top :: second :: s => .next (pc + 1) (second :: top :: s) w
  | .ROT_THREE, top :: second :: third :: s => .next (pc + 1) (second :: third :: top :: s) w
  | .BINARY_SUBSCR, b :: a :: s => push pc s (P.getitem a b w)
  -- w := TOP; v := SECOND; u := THIRD; v[w] = u
  | .STORE_SUBSCR, k :: c :: u :: s => done pc s (P.setitem c k u w)
  -- sub := TOP; container := SECOND; DROPN(2); del container[sub]
  | .DELETE_SUBSCR, k :: c :: s => done pc s (P.delitem c k w)
  | .DELETE_ATTR n, o :: s => done pc s (P.delattr o n w)
  | .LOAD_ATTR n, a :: s => push pc s (P.getattr a n w)
  -- v := TOP; u := SECOND; v.name = u
  | .STORE_ATTR n, o :: u :: s => done pc s (P.setattr o n u w)
  -- Vm.Call: args := Stack[p:q] (deepest first), fn := Stack[p-1]
  | .CALL_FUNCTION n, s =>
      if n + 1 ≤ s.length then
        match s.drop n with
        | f :: rest => push pc rest (P.call f (s.take n).reverse w)
        | [] => .fault
      else .fault
  -- do_CALL_FUNCTION_VAR_KW: kwargs := POP; args := POP; Vm.Call: kwargsTuple := Stack[len-2*nk:],
  -- args := the na below, fn below them
  | .CALL_FUNCTION_EX na nk st ds, s =>
      match popIf ds s with
      | none => .fault
      | some (dv, s1) =>
        match popIf st s1 with
        | none => .fault
        | some (sv, s2) =>
          if 2 * nk + na + 1 ≤ s2.length then
            match (s2.drop (2 * nk)).drop na with
            | f :: rest =>
                push pc rest (P.callEx f ((s2.drop (2 * nk)).take na).reverse
                  (pairs (s2.take (2 * nk)).reverse) sv dv w)
            | [] => .fault
          else .fault
  | .BUILD_TUPLE n, s =>
      if n ≤ s.length then push pc (s.drop n) (P.mkTuple (s.take n).reverse w) else .fault
  | .BUILD_LIST n, s =>
      if n ≤ s.length then push pc (s.drop n) (P.mkList (s.take n).reverse w) else .fault
  | .BUILD_SET n, s =>
      if n ≤ s.length then push pc (s.drop n) (P.mkSet (s.take n).reverse w) else .fault
  -- argc = 2: stop := POP; start := TOP
  | .BUILD_SLICE 2, stop :: start :: s => push pc s (P.mkSlice start stop w)
  -- argc = 3: step := POP; stop := POP; start := TOP   (any other argc: Go panic)
  | .BUILD_SLICE 3, step :: stop :: start :: s => push pc s (P.mkSlice3 start stop step w)
  | .BUILD_MAP _, s => push pc s (P.newDict w)
  -- key := TOP; value := SECOND; dict := THIRD; DROPN(2)
  | .STORE_MAP, k :: v :: d :: s => done pc (d :: s) (P.dictSet d k v w)
  -- _make_function: qualname := POP; code := POP; kwdefaults times { v := POP; key := POP };
  -- posdefaults times { defs[i] = POP } (last default on top)
  | .MAKE_FUNCTION np nk, q :: c :: s =>
      if 2 * nk + np ≤ s.length then
        push pc ((s.drop (2 * nk)).drop np)
          (P.mkFunction c q ((s.drop (2 * nk)).take np).reverse (pairs (s.take (2 * nk)).reverse) w)
      else .fault
  -- it := POP; EXTEND_REVERSED(items)
  | .UNPACK_SEQUENCE n, v :: s =>
      match P.unpack n v w with
      | .ok vs w' => .next (pc + 1) (vs ++ s) w'
      | .err x w' => .raise x w'
  -- seq := POP; unpack_iterable writes the items so that the first is on top
  | .UNPACK_EX b a, v :: s =>
      match P.unpackEx b a v w with
      | .ok vs w' => .next (pc + 1) (vs ++ s) w'
      | .err x w' => .raise x w'
  | .RETURN_VALUE, v :: _ => .ret v w
  | _, _ => .fault

/-- final result of running a frame -/
inductive Final (V X W : Type)
  | ret (v : V) (w : W)
  | exc (x : X) (w : W)
  | fell (s : List V) (w : W)     -- ran off the end of the code (never for a compiled module)
  | fault
  | fuel

/-- the fetch/dispatch loop of `RunFrame` (no block stack in the fragment: an
exception ends the frame) -/
def run (code : List Instr) : Nat → Nat → List V → W → Final V X W
  | 0, _, _, _ => .fuel
  | fuel + 1, pc, s, w =>
      match code[pc]? with
      | none => .fell s w
      | some i =>
          match exec P i pc s w with
          | .next pc' s' w' => run code fuel pc' s' w'
          | .raise x w' => .exc x w'
          | .ret v w' => .ret v w'
          | .fault => .fault

end

end GPy.C01
