/-
C01 — model of the implementation: `compE`/`compS` transliterate
compile/compile.go (`Expr`, `Stmt(*ast.Assign, *ast.AugAssign, *ast.ExprStmt)`,
`tupleOrList`, `subscript`, `slice`, `buildSlice`, `callHelper`, `NameOp` at
module level) and `exec`/`run` transliterate vm/eval.go (`do_*` for the opcodes
the fragment uses, the fetch loop of `RunFrame`).

Jump targets: compile.go emits `Label`s that the assembler resolves to byte
offsets; here every compile function takes the index `pc` of its first
instruction and emits *instruction indices* (the harness converts the real byte
offsets, relative for JUMP_FORWARD, to instruction indices).  Core Lean only.
-/
import GPy.C01.Spec
namespace GPy.C01

inductive Instr
  | LOAD_CONST (c : Const)
  | LOAD_CODE (body : Expr)                 -- LOAD_CONST <code object of a lambda>
  | LOAD_NAME (n : String)
  | STORE_NAME (n : String)
  | BINARY (op : BinOp)                     -- BINARY_ADD …
  | INPLACE (op : BinOp)                    -- INPLACE_ADD …
  | UNARY (op : UnOp)                       -- UNARY_NEGATIVE …
  | COMPARE_OP (op : CmpOp)
  | JUMP_IF_FALSE_OR_POP (t : Nat)
  | JUMP_IF_TRUE_OR_POP (t : Nat)
  | POP_JUMP_IF_FALSE (t : Nat)
  | JUMP_FORWARD (t : Nat)
  | POP_TOP | DUP_TOP | DUP_TOP_TWO | ROT_TWO | ROT_THREE
  | BINARY_SUBSCR | STORE_SUBSCR
  | LOAD_ATTR (n : String) | STORE_ATTR (n : String)
  | CALL_FUNCTION (n : Nat)
  | BUILD_TUPLE (n : Nat) | BUILD_LIST (n : Nat) | BUILD_SET (n : Nat)
  | BUILD_SLICE (n : Nat)
  | BUILD_MAP (n : Nat) | STORE_MAP
  | MAKE_FUNCTION (n : Nat)
  | UNPACK_SEQUENCE (n : Nat)
  | RETURN_VALUE

/-! ## compile.go -/

mutual
/-- number of instructions `Expr()` emits -/
def size : Expr → Nat
  | .atom _ _ => 4
  | .const _ => 1
  | .name _ => 1
  | .binop _ a b => size a + size b + 1
  | .unop _ a => size a + 1
  | .boolop _ a rest => size a + sizeBool rest
  | .compare a (.one _ e) => size a + size e + 1
  | .compare a (.more op e rest) => size a + sizeTail (.more op e rest) + 3
  | .ifexp t b o => size t + 1 + size b + 1 + size o
  | .subscript a i => size a + size i + 1
  | .slice2 a lo hi => size a + size lo + size hi + 2
  | .attr a _ => size a + 1
  | .call f args => size f + sizes args + 1
  | .tuple es => sizes es + 1
  | .list es => sizes es + 1
  | .set es => sizes es + 1
  | .dict kvs => 1 + sizeKVs kvs
  | .lambda0 _ => 3
def sizes : Exprs → Nat
  | .nil => 0
  | .cons e es => size e + sizes es
def sizeBool : Exprs → Nat
  | .nil => 0
  | .cons e es => 1 + size e + sizeBool es
def sizeTail : CmpTail → Nat
  | .one _ e => size e + 1
  | .more _ e rest => size e + 4 + sizeTail rest
def sizeKVs : KVs → Nat
  | .nil => 0
  | .cons k v rest => size v + size k + 1 + sizeKVs rest
end

mutual
/-- `compiler.Expr` (Load context); `pc` = index of the first emitted instruction -/
def compE : Expr → Nat → List Instr
  | .atom i c, _ =>
      -- ast.Call{Func: Name ev, Args: [Num i, <literal c>]}
      [.LOAD_NAME "ev", .LOAD_CONST (.int i), .LOAD_CONST c, .CALL_FUNCTION 2]
  | .const c, _ => [.LOAD_CONST c]
  | .name n, _ => [.LOAD_NAME n]
  | .binop op a b, pc => compE a pc ++ compE b (pc + size a) ++ [.BINARY op]
  | .unop op a, pc => compE a pc ++ [.UNARY op]
  | .boolop isOr a rest, pc =>
      -- label := new(Label); for i, e := range Values { Expr(e); if i != last { Jump(op, label) } }; Label(label)
      let label := pc + size a + sizeBool rest
      compE a pc ++ compBool isOr rest (pc + size a) label
  | .compare a (.one op e), pc =>
      compE a pc ++ compE e (pc + size a) ++ [.COMPARE_OP op]
  | .compare a (.more op e rest), pc =>
      -- … if len(Ops) > 1 { Jump(JUMP_FORWARD, endLabel); Label(label); ROT_TWO; POP_TOP; Label(endLabel) }
      let label := pc + size a + sizeTail (.more op e rest) + 1
      compE a pc ++ compTail (.more op e rest) (pc + size a) label
        ++ [.JUMP_FORWARD (label + 2), .ROT_TWO, .POP_TOP]
  | .ifexp t b o, pc =>
      let elseL := pc + size t + 1 + size b + 1
      compE t pc ++ [.POP_JUMP_IF_FALSE elseL] ++ compE b (pc + size t + 1)
        ++ [.JUMP_FORWARD (elseL + size o)] ++ compE o elseL
  | .subscript a i, pc => compE a pc ++ compE i (pc + size a) ++ [.BINARY_SUBSCR]
  | .slice2 a lo hi, pc =>
      compE a pc ++ compE lo (pc + size a) ++ compE hi (pc + size a + size lo)
        ++ [.BUILD_SLICE 2, .BINARY_SUBSCR]
  | .attr a n, pc => compE a pc ++ [.LOAD_ATTR n]
  | .call f args, pc =>
      compE f pc ++ compEs args (pc + size f) ++ [.CALL_FUNCTION args.length]
  | .tuple es, pc => compEs es pc ++ [.BUILD_TUPLE es.length]
  | .list es, pc => compEs es pc ++ [.BUILD_LIST es.length]
  | .set es, pc => compEs es pc ++ [.BUILD_SET es.length]
  | .dict kvs, pc => [.BUILD_MAP kvs.length] ++ compKVs kvs (pc + 1)
  | .lambda0 body, _ => [.LOAD_CODE body, .LOAD_CONST (.str "<lambda>"), .MAKE_FUNCTION 0]
/-- `compiler.Exprs` -/
def compEs : Exprs → Nat → List Instr
  | .nil, _ => []
  | .cons e es, pc => compE e pc ++ compEs es (pc + size e)
/-- the part of the BoolOp loop after the first operand -/
def compBool (isOr : Bool) : Exprs → Nat → Nat → List Instr
  | .nil, _, _ => []
  | .cons e es, pc, label =>
      (if isOr then Instr.JUMP_IF_TRUE_OR_POP label else Instr.JUMP_IF_FALSE_OR_POP label)
        :: (compE e (pc + 1) ++ compBool isOr es (pc + 1 + size e) label)
/-- the Compare loop: `Expr(comparator); if !last {DUP_TOP; ROT_THREE}; COMPARE_OP; if !last {JUMP_IF_FALSE_OR_POP label}` -/
def compTail : CmpTail → Nat → Nat → List Instr
  | .one op e, pc, _ => compE e pc ++ [.COMPARE_OP op]
  | .more op e rest, pc, label =>
      compE e pc ++ [.DUP_TOP, .ROT_THREE, .COMPARE_OP op, .JUMP_IF_FALSE_OR_POP label]
        ++ compTail rest (pc + size e + 4) label
/-- ast.Dict loop: `Expr(Values[i]); Expr(Keys[i]); STORE_MAP` -/
def compKVs : KVs → Nat → List Instr
  | .nil, _ => []
  | .cons k v rest, pc =>
      compE v pc ++ compE k (pc + size v) ++ [.STORE_MAP] ++ compKVs rest (pc + size v + size k + 1)
end

mutual
def sizeT : Target → Nat
  | .name _ => 1
  | .subscr a i => size a + size i + 1
  | .attr a _ => size a + 1
  | .tuple ts => 1 + sizeTs ts
def sizeTs : Targets → Nat
  | .nil => 0
  | .cons t ts => sizeT t + sizeTs ts
end

mutual
/-- `compiler.Expr` in Store context -/
def compT : Target → Nat → List Instr
  | .name n, _ => [.STORE_NAME n]
  | .subscr a i, pc => compE a pc ++ compE i (pc + size a) ++ [.STORE_SUBSCR]
  | .attr a n, pc => compE a pc ++ [.STORE_ATTR n]
  | .tuple ts, pc => .UNPACK_SEQUENCE ts.length :: compTs ts (pc + 1)
def compTs : Targets → Nat → List Instr
  | .nil, _ => []
  | .cons t ts, pc => compT t pc ++ compTs ts (pc + sizeT t)
end

/-- `for i, target := range Targets { if i != len-1 { DUP_TOP }; Expr(target) }` over the
non-empty target list `t :: more` -/
def sizeTargets : Target → Targets → Nat
  | t, .nil => sizeT t
  | t, .cons t' more => 1 + sizeT t + sizeTargets t' more

def compTargets : Target → Targets → Nat → List Instr
  | t, .nil, pc => compT t pc
  | t, .cons t' more, pc => .DUP_TOP :: (compT t (pc + 1) ++ compTargets t' more (pc + 1 + sizeT t))

def sizeS : Stmt → Nat
  | .assign t more value => size value + sizeTargets t more
  | .aug (.name _) _ value => 1 + size value + 2
  | .aug (.subscr a i) _ value => size a + size i + 2 + size value + 3
  | .aug (.attr a _) _ value => size a + 2 + size value + 3
  | .expr (.const (.int _)) => 0
  | .expr (.const (.str _)) => 0
  | .expr e => size e + 1

/-- `compiler.Stmt` for Assign, AugAssign (AugLoad / AugStore contexts), ExprStmt -/
def compS : Stmt → Nat → List Instr
  | .assign t more value, pc => compE value pc ++ compTargets t more (pc + size value)
  | .aug (.name n) op value, pc =>
      -- NameOp(AugLoad) = LOAD_NAME; Expr(Value); INPLACE_op; NameOp(AugStore) = STORE_NAME
      [.LOAD_NAME n] ++ compE value (pc + 1) ++ [.INPLACE op, .STORE_NAME n]
  | .aug (.subscr a i) op value, pc =>
      -- AugLoad: Expr(Value); slice: Expr(index); DUP_TOP_TWO; BINARY_SUBSCR.  AugStore: ROT_THREE; STORE_SUBSCR
      compE a pc ++ compE i (pc + size a) ++ [.DUP_TOP_TWO, .BINARY_SUBSCR]
        ++ compE value (pc + size a + size i + 2) ++ [.INPLACE op, .ROT_THREE, .STORE_SUBSCR]
  | .aug (.attr a n) op value, pc =>
      -- AugLoad: Expr(Value); DUP_TOP; LOAD_ATTR.  AugStore: ROT_TWO; STORE_ATTR
      compE a pc ++ [.DUP_TOP, .LOAD_ATTR n] ++ compE value (pc + size a + 2)
        ++ [.INPLACE op, .ROT_TWO, .STORE_ATTR n]
  | .expr (.const (.int _)), _ => []          -- case *ast.Num: (nothing emitted)
  | .expr (.const (.str _)), _ => []          -- case *ast.Str:
  | .expr e, pc => compE e pc ++ [.POP_TOP]

def sizeProg : List Stmt → Nat
  | [] => 0
  | s :: ss => sizeS s + sizeProg ss

def compStmts : List Stmt → Nat → List Instr
  | [], _ => []
  | s :: ss, pc => compS s pc ++ compStmts ss (pc + sizeS s)

/-- a module body: the statements, then `LOAD_CONST None; RETURN_VALUE` -/
def compProg (ss : List Stmt) : List Instr :=
  compStmts ss 0 ++ [.LOAD_CONST .none, .RETURN_VALUE]

/-! ## vm/eval.go -/

/-- what one instruction does -/
inductive Outcome (V X W : Type)
  | next (pc : Nat) (s : List V) (w : W)     -- continue at `pc`
  | raise (x : X) (w : W)                    -- vm.why = whyException (no handler in the fragment)
  | ret (v : V) (w : W)                      -- RETURN_VALUE
  | fault                                     -- Go run-time panic: stack underflow / bad operand

section
variable {V X W : Type} (P : Prims V X W)

/-- push the result of a primitive or raise: `vm.setTopAndCheckErr` after the POPs -/
@[inline] def push (pc : Nat) (s : List V) (r : Res X W V) : Outcome V X W :=
  match r with
  | .ok v w => .next (pc + 1) (v :: s) w
  | .err x w => .raise x w

@[inline] def done (pc : Nat) (s : List V) (r : Res X W Unit) : Outcome V X W :=
  match r with
  | .ok _ w => .next (pc + 1) s w
  | .err x w => .raise x w

/-- the `do_*` functions; the stack is a list with TOS first -/
def exec (i : Instr) (pc : Nat) (s : List V) (w : W) : Outcome V X W :=
  match i, s with
  | .LOAD_CONST c, s => .next (pc + 1) (P.const c :: s) w
  | .LOAD_CODE b, s => .next (pc + 1) (P.codeObj b :: s) w
  | .LOAD_NAME n, s => push pc s (P.loadName n w)
  | .STORE_NAME n, v :: s => done pc s (P.storeName n v w)
  -- b := vm.POP(); a := vm.TOP(); setTopAndCheckErr(py.Op(a, b))
  | .BINARY op, b :: a :: s => push pc s (P.binop op a b w)
  | .INPLACE op, b :: a :: s => push pc s (P.inplace op a b w)
  | .UNARY op, a :: s => push pc s (P.unop op a w)
  | .COMPARE_OP op, b :: a :: s => push pc s (P.compare op a b w)
  | .JUMP_IF_FALSE_OR_POP t, v :: s =>
      match P.truth v w with
      | .ok b w' => if !b then .next t (v :: s) w' else .next (pc + 1) s w'
      | .err x w' => .raise x w'
  | .JUMP_IF_TRUE_OR_POP t, v :: s =>
      match P.truth v w with
      | .ok b w' => if b then .next t (v :: s) w' else .next (pc + 1) s w'
      | .err x w' => .raise x w'
  | .POP_JUMP_IF_FALSE t, v :: s =>
      match P.truth v w with
      | .ok b w' => if !b then .next t s w' else .next (pc + 1) s w'
      | .err x w' => .raise x w'
  | .JUMP_FORWARD t, s => .next t s w
  | .POP_TOP, _ :: s => .next (pc + 1) s w
  | .DUP_TOP, v :: s => .next (pc + 1) (v :: v :: s) w
  | .DUP_TOP_TWO, top :: second :: s => .next (pc + 1) (top :: second :: top :: second :: s) w
  | .ROT_TWO, top :: second :: s => .next (pc + 1) (second :: top :: s) w
  | .ROT_THREE, top :: second :: third :: s => .next (pc + 1) (second :: third :: top :: s) w
  | .BINARY_SUBSCR, b :: a :: s => push pc s (P.getitem a b w)
  -- w := TOP; v := SECOND; u := THIRD; v[w] = u
  | .STORE_SUBSCR, k :: c :: u :: s => done pc s (P.setitem c k u w)
  | .LOAD_ATTR n, a :: s => push pc s (P.getattr a n w)
  -- v := TOP; u := SECOND; v.name = u
  | .STORE_ATTR n, o :: u :: s => done pc s (P.setattr o n u w)
  -- Vm.Call: args := Stack[p:q] (deepest first), fn := Stack[p-1]
  | .CALL_FUNCTION n, s =>
      if n + 1 ≤ s.length then
        match s.drop n with
        | f :: rest => push pc rest (P.call f (s.take n).reverse w)
        | [] => .fault
      else .fault
  | .BUILD_TUPLE n, s =>
      if n ≤ s.length then push pc (s.drop n) (P.mkTuple (s.take n).reverse w) else .fault
  | .BUILD_LIST n, s =>
      if n ≤ s.length then push pc (s.drop n) (P.mkList (s.take n).reverse w) else .fault
  | .BUILD_SET n, s =>
      if n ≤ s.length then push pc (s.drop n) (P.mkSet (s.take n).reverse w) else .fault
  -- argc = 2: stop := POP; start := TOP
  | .BUILD_SLICE _, stop :: start :: s => push pc s (P.mkSlice start stop w)
  | .BUILD_MAP _, s => push pc s (P.newDict w)
  -- key := TOP; value := SECOND; dict := THIRD; DROPN(2)
  | .STORE_MAP, k :: v :: d :: s => done pc (d :: s) (P.dictSet d k v w)
  -- qualname := POP; code := POP
  | .MAKE_FUNCTION _, q :: c :: s => push pc s (P.mkFunction c q w)
  -- it := POP; EXTEND_REVERSED(items)
  | .UNPACK_SEQUENCE n, v :: s =>
      match P.unpack n v w with
      | .ok vs w' => .next (pc + 1) (vs ++ s) w'
      | .err x w' => .raise x w'
  | .RETURN_VALUE, v :: _ => .ret v w
  | _, _ => .fault

/-- final result of running a frame -/
inductive Final (V X W : Type)
  | ret (v : V) (w : W)
  | exc (x : X) (w : W)
  | fell (s : List V) (w : W)     -- ran off the end of the code (never for a compiled module)
  | fault
  | fuel

/-- the fetch/dispatch loop of `RunFrame` (no block stack in the fragment: an
exception ends the frame) -/
def run (code : List Instr) : Nat → Nat → List V → W → Final V X W
  | 0, _, _, _ => .fuel
  | fuel + 1, pc, s, w =>
      match code[pc]? with
      | none => .fell s w
      | some i =>
          match exec P i pc s w with
          | .next pc' s' w' => run code fuel pc' s' w'
          | .raise x w' => .exc x w'
          | .ret v w' => .ret v w'
          | .fault => .fault

end

end GPy.C01
