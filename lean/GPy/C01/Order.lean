/-
C01 — evaluation order of probes, stated on the reference semantics for every
`Prims` that keeps a log: the probes of an expression are logged in the order the
language reference defines, none twice.
-/
import GPy.C01.Spec
namespace GPy.C01

mutual
/-- probe positions of `e` in the reference's evaluation order (if nothing is cut off):
operands left to right, test before the branches of a conditional, callee before
arguments, dict values before their keys, nothing from a lambda body -/
def order : Expr → List Nat
  | .atom i _ => [i]
  | .const _ => []
  | .name _ => []
  | .binop _ a b => order a ++ order b
  | .unop _ a => order a
  | .boolop _ a r => order a ++ orders r
  | .compare a r => order a ++ orderTail r
  | .ifexp t b o => order t ++ (order b ++ order o)
  | .subscript a i => order a ++ order i
  | .slice2 a l h => order a ++ (order l ++ order h)
  | .attr a _ => order a
  | .call f args => order f ++ orders args
  | .tuple es => orders es
  | .list es => orders es
  | .set es => orders es
  | .dict kvs => orderKVs kvs
  | .lambda _ ds kds _ => orders ds ++ orderKWs kds     -- defaults at definition time; nothing from the body
  | .slice3 l h st => order l ++ (order h ++ order st)
  | .callx f args kws star dstar =>
      order f ++ (orders args ++ (orderKWs kws ++ (orderOpt star ++ orderOpt dstar)))
def orders : Exprs → List Nat
  | .nil => []
  | .cons e es => order e ++ orders es
def orderTail : CmpTail → List Nat
  | .one _ e => order e
  | .more _ e r => order e ++ orderTail r
def orderKVs : KVs → List Nat
  | .nil => []
  | .cons k v r => order v ++ (order k ++ orderKVs r)
def orderKWs : KWs → List Nat
  | .nil => []
  | .cons _ e r => order e ++ orderKWs r
def orderOpt : OptE → List Nat
  | .none => []
  | .some e => order e
end

mutual
/-- no general call node (probes `atom` are allowed: they are the logging operands) -/
def NoCall : Expr → Prop
  | .atom _ _ => True
  | .const _ => True
  | .name _ => True
  | .binop _ a b => NoCall a ∧ NoCall b
  | .unop _ a => NoCall a
  | .boolop _ a r => NoCall a ∧ NoCalls r
  | .compare a r => NoCall a ∧ NoCallTail r
  | .ifexp t b o => NoCall t ∧ NoCall b ∧ NoCall o
  | .subscript a i => NoCall a ∧ NoCall i
  | .slice2 a l h => NoCall a ∧ NoCall l ∧ NoCall h
  | .attr a _ => NoCall a
  | .call _ _ => False
  | .tuple es => NoCalls es
  | .list es => NoCalls es
  | .set es => NoCalls es
  | .dict kvs => NoCallKVs kvs
  | .lambda _ ds kds _ => NoCalls ds ∧ NoCallKWs kds
  | .slice3 l h st => NoCall l ∧ NoCall h ∧ NoCall st
  | .callx _ _ _ _ _ => False
def NoCalls : Exprs → Prop
  | .nil => True
  | .cons e es => NoCall e ∧ NoCalls es
def NoCallTail : CmpTail → Prop
  | .one _ e => NoCall e
  | .more _ e r => NoCall e ∧ NoCallTail r
def NoCallKVs : KVs → Prop
  | .nil => True
  | .cons k v r => NoCall k ∧ NoCall v ∧ NoCallKVs r
def NoCallKWs : KWs → Prop
  | .nil => True
  | .cons _ e r => NoCall e ∧ NoCallKWs r
end

def Res.world {X W α : Type} : Res X W α → W
  | .ok _ w => w
  | .err _ w => w

section
variable {V X W : Type} (P : Prims V X W) (logOf : W → List Nat)

/-- the log discipline of probe programs: a probe appends its position (whether it
returns or raises); every other primitive leaves the probe log alone -/
structure LogDiscipline : Prop where
  atom : ∀ i c w, logOf (P.atom i c w).world = logOf w ++ [i]
  loadName : ∀ n w, logOf (P.loadName n w).world = logOf w
  binop : ∀ op a b w, logOf (P.binop op a b w).world = logOf w
  unop : ∀ op a w, logOf (P.unop op a w).world = logOf w
  compare : ∀ op a b w, logOf (P.compare op a b w).world = logOf w
  truth : ∀ a w, logOf (P.truth a w).world = logOf w
  getitem : ∀ a b w, logOf (P.getitem a b w).world = logOf w
  getattr : ∀ a n w, logOf (P.getattr a n w).world = logOf w
  mkTuple : ∀ vs w, logOf (P.mkTuple vs w).world = logOf w
  mkList : ∀ vs w, logOf (P.mkList vs w).world = logOf w
  mkSet : ∀ vs w, logOf (P.mkSet vs w).world = logOf w
  mkSlice : ∀ a b w, logOf (P.mkSlice a b w).world = logOf w
  newDict : ∀ w, logOf (P.newDict w).world = logOf w
  dictSet : ∀ d k v w, logOf (P.dictSet d k v w).world = logOf w
  mkSlice3 : ∀ a b c w, logOf (P.mkSlice3 a b c w).world = logOf w
  mkFunction : ∀ c q ds kds w, logOf (P.mkFunction c q ds kds w).world = logOf w

/-- the computation extends the log by a sub-sequence of `o` -/
def Ext {α : Type} (r : Res X W α) (w : W) (o : List Nat) : Prop :=
  ∃ l, logOf r.world = logOf w ++ l ∧ l.Sublist o

variable {logOf}

theorem Ext.quiet {α : Type} {r : Res X W α} {w : W} (h : logOf r.world = logOf w) (o : List Nat) :
    Ext logOf r w o := ⟨[], by simp [h], List.nil_sublist o⟩

theorem Ext.mono {α : Type} {r : Res X W α} {w : W} {o o' : List Nat} (h : Ext logOf r w o)
    (hs : o.Sublist o') : Ext logOf r w o' := by
  obtain ⟨l, h1, h2⟩ := h
  exact ⟨l, h1, h2.trans hs⟩

theorem Ext.bind {α β : Type} {m : M X W α} {f : α → M X W β} {w : W} {o1 o2 : List Nat}
    (h1 : Ext logOf (m w) w o1)
    (h2 : ∀ a w1, m w = .ok a w1 → Ext logOf (f a w1) w1 o2) :
    Ext logOf (M.bind m f w) w (o1 ++ o2) := by
  unfold M.bind
  cases hm : m w with
  | err x w1 =>
    rw [hm] at h1
    obtain ⟨l, e, s⟩ := h1
    exact ⟨l, e, s.trans (List.sublist_append_left o1 o2)⟩
  | ok a w1 =>
    rw [hm] at h1
    obtain ⟨l1, e1, s1⟩ := h1
    obtain ⟨l2, e2, s2⟩ := h2 a w1 hm
    simp only [Res.world] at e1
    exact ⟨l1 ++ l2, by simp only []; rw [e2, e1, List.append_assoc], List.Sublist.append s1 s2⟩

theorem Ext.pure {α : Type} (a : α) (w : W) (o : List Nat) :
    Ext logOf (M.pure (X := X) a w) w o := Ext.quiet rfl o

variable (hL : LogDiscipline P logOf)
include hL

mutual
theorem extE (e : Expr) (w : W) (hn : NoCall e) : Ext logOf (evalE P e w) w (order e) := by
  cases e with
  | atom i c =>
    simp only [evalE, order]
    exact ⟨[i], hL.atom i c w, List.Sublist.refl _⟩
  | const c => simp only [evalE, order]; exact Ext.pure _ _ _
  | name n => simp only [evalE, order]; exact Ext.quiet (hL.loadName n w) _
  | binop op a b =>
    simp only [NoCall] at hn
    simp only [evalE, order]
    refine Ext.bind (extE a w hn.1) fun va w1 _ => ?_
    refine Ext.mono (Ext.bind (extE b w1 hn.2) fun vb w2 _ => Ext.quiet (hL.binop op va vb w2) [])
      (by simp)
  | unop op a =>
    simp only [NoCall] at hn
    simp only [evalE, order]
    exact Ext.mono (Ext.bind (extE a w hn) fun va w1 _ => Ext.quiet (hL.unop op va w1) []) (by simp)
  | boolop isOr a r =>
    simp only [NoCall] at hn
    simp only [evalE, order]
    exact Ext.bind (extE a w hn.1) fun va w1 _ => extBool isOr va r w1 hn.2
  | compare a r =>
    simp only [NoCall] at hn
    simp only [evalE, order]
    exact Ext.bind (extE a w hn.1) fun va w1 _ => extTail va r w1 hn.2
  | ifexp t b o =>
    simp only [NoCall] at hn
    simp only [evalE, order]
    refine Ext.bind (extE t w hn.1) fun vt w1 _ => ?_
    refine Ext.mono (Ext.bind (o1 := []) (o2 := order b ++ order o) (Ext.quiet (hL.truth vt w1) []) fun c w2 _ => ?_) (by simp)
    cases c with
    | true => exact Ext.mono (extE b w2 hn.2.1) (List.sublist_append_left _ _)
    | false => exact Ext.mono (extE o w2 hn.2.2) (List.sublist_append_right _ _)
  | subscript a i =>
    simp only [NoCall] at hn
    simp only [evalE, order]
    refine Ext.bind (extE a w hn.1) fun va w1 _ => ?_
    exact Ext.mono (Ext.bind (extE i w1 hn.2) fun vi w2 _ => Ext.quiet (hL.getitem va vi w2) [])
      (by simp)
  | slice2 a l h =>
    simp only [NoCall] at hn
    simp only [evalE, order]
    refine Ext.bind (extE a w hn.1) fun va w1 _ => ?_
    refine Ext.bind (extE l w1 hn.2.1) fun vl w2 _ => ?_
    refine Ext.mono (Ext.bind (extE h w2 hn.2.2) fun vh w3 _ =>
      Ext.bind (o1 := []) (o2 := []) (Ext.quiet (hL.mkSlice vl vh w3) []) fun sl w4 _ =>
        Ext.quiet (hL.getitem va sl w4) []) (by simp)
  | attr a n =>
    simp only [NoCall] at hn
    simp only [evalE, order]
    exact Ext.mono (Ext.bind (extE a w hn) fun va w1 _ => Ext.quiet (hL.getattr va n w1) []) (by simp)
  | call f args => simp only [NoCall] at hn
  | tuple es =>
    simp only [NoCall] at hn
    simp only [evalE, order]
    exact Ext.mono (Ext.bind (extEs es w hn) fun vs w1 _ => Ext.quiet (hL.mkTuple vs w1) []) (by simp)
  | list es =>
    simp only [NoCall] at hn
    simp only [evalE, order]
    exact Ext.mono (Ext.bind (extEs es w hn) fun vs w1 _ => Ext.quiet (hL.mkList vs w1) []) (by simp)
  | set es =>
    simp only [NoCall] at hn
    simp only [evalE, order]
    exact Ext.mono (Ext.bind (extEs es w hn) fun vs w1 _ => Ext.quiet (hL.mkSet vs w1) []) (by simp)
  | dict kvs =>
    simp only [NoCall] at hn
    simp only [evalE, order]
    exact Ext.mono (Ext.bind (o1 := []) (Ext.quiet (hL.newDict w) []) fun d w1 _ => extKVs d kvs w1 hn)
      (by simp)
  | lambda sg ds kds b =>
    simp only [NoCall] at hn
    simp only [evalE, order]
    refine Ext.bind (extEs ds w hn.1) fun dvs w1 _ => ?_
    exact Ext.mono (Ext.bind (extKWs kds w1 hn.2) fun kvs w2 _ =>
      Ext.quiet (hL.mkFunction _ _ dvs kvs w2) []) (by simp)
  | slice3 l h st =>
    simp only [NoCall] at hn
    simp only [evalE, order]
    refine Ext.bind (extE l w hn.1) fun vl w1 _ => ?_
    refine Ext.bind (extE h w1 hn.2.1) fun vh w2 _ => ?_
    exact Ext.mono (Ext.bind (extE st w2 hn.2.2) fun vs w3 _ =>
      Ext.quiet (hL.mkSlice3 vl vh vs w3) []) (by simp)
  | callx f args kws star dstar => simp only [NoCall] at hn
theorem extEs (es : Exprs) (w : W) (hn : NoCalls es) : Ext logOf (evalEs P es w) w (orders es) := by
  cases es with
  | nil => simp only [evalEs, orders]; exact Ext.pure _ _ _
  | cons e es =>
    simp only [NoCalls] at hn
    simp only [evalEs, orders]
    refine Ext.bind (extE e w hn.1) fun v w1 _ => ?_
    exact Ext.mono (Ext.bind (extEs es w1 hn.2) fun vs w2 _ => Ext.pure _ _ []) (by simp)
theorem extBool (isOr : Bool) (v : V) (r : Exprs) (w : W) (hn : NoCalls r) :
    Ext logOf (evalBool P isOr v r w) w (orders r) := by
  cases r with
  | nil => simp only [evalBool, orders]; exact Ext.pure _ _ _
  | cons e es =>
    simp only [NoCalls] at hn
    simp only [evalBool, orders]
    refine Ext.mono (Ext.bind (o1 := []) (o2 := order e ++ orders es) (Ext.quiet (hL.truth v w) []) fun c w1 _ => ?_) (by simp)
    by_cases hc : (c == isOr) = true
    · simp only [hc, if_true]; exact Ext.pure _ _ _
    · simp only [hc]
      exact Ext.bind (extE e w1 hn.1) fun v' w2 _ => extBool isOr v' es w2 hn.2
theorem extTail (l : V) (t : CmpTail) (w : W) (hn : NoCallTail t) :
    Ext logOf (evalCmp P l t w) w (orderTail t) := by
  cases t with
  | one op e =>
    simp only [NoCallTail] at hn
    simp only [evalCmp, orderTail]
    exact Ext.mono (Ext.bind (extE e w hn) fun r w1 _ => Ext.quiet (hL.compare op l r w1) []) (by simp)
  | more op e rest =>
    simp only [NoCallTail] at hn
    simp only [evalCmp, orderTail]
    refine Ext.bind (extE e w hn.1) fun r w1 _ => ?_
    refine Ext.mono (Ext.bind (o1 := []) (o2 := [] ++ orderTail rest) (Ext.quiet (hL.compare op l r w1) []) fun c w2 _ =>
      Ext.bind (o1 := []) (o2 := orderTail rest) (Ext.quiet (hL.truth c w2) []) fun t w3 _ => ?_) (by simp)
    cases t with
    | true => exact extTail r rest w3 hn.2
    | false => exact Ext.pure _ _ _
theorem extKVs (d : V) (kvs : KVs) (w : W) (hn : NoCallKVs kvs) :
    Ext logOf (evalKVs P d kvs w) w (orderKVs kvs) := by
  cases kvs with
  | nil => simp only [evalKVs, orderKVs]; exact Ext.pure _ _ _
  | cons k v rest =>
    simp only [NoCallKVs] at hn
    simp only [evalKVs, orderKVs]
    refine Ext.bind (extE v w hn.2.1) fun vv w1 _ => ?_
    refine Ext.bind (extE k w1 hn.1) fun vk w2 _ => ?_
    exact Ext.mono (Ext.bind (o1 := []) (Ext.quiet (hL.dictSet d vk vv w2) []) fun _ w3 _ =>
      extKVs d rest w3 hn.2.2) (by simp)
theorem extKWs (kws : KWs) (w : W) (hn : NoCallKWs kws) :
    Ext logOf (evalKWs P kws w) w (orderKWs kws) := by
  cases kws with
  | nil => simp only [evalKWs, orderKWs]; exact Ext.pure _ _ _
  | cons n e rest =>
    simp only [NoCallKWs] at hn
    simp only [evalKWs, orderKWs]
    refine Ext.bind (extE e w hn.1) fun v w1 _ => ?_
    exact Ext.mono (Ext.bind (extKWs rest w1 hn.2) fun r w2 _ => Ext.pure _ _ []) (by simp)
end

end

end GPy.C01
