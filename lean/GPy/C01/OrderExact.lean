/-
C01 — exactly-once for straight-line trees: without short-circuit forms, conditionals
and general calls nothing can be cut off except by an exception, so a successful
evaluation logs exactly `order e` and a failing one a prefix of it.
-/
import GPy.C01.Order
namespace GPy.C01

mutual
/-- straight-line trees: no short-circuit form, no conditional, no general call -/
def Straight : Expr → Prop
  | .atom _ _ => True
  | .const _ => True
  | .name _ => True
  | .binop _ a b => Straight a ∧ Straight b
  | .unop _ a => Straight a
  | .boolop _ _ _ => False
  | .compare a (.one _ e) => Straight a ∧ Straight e
  | .compare _ (.more _ _ _) => False
  | .ifexp _ _ _ => False
  | .subscript a i => Straight a ∧ Straight i
  | .slice2 a l h => Straight a ∧ Straight l ∧ Straight h
  | .attr a _ => Straight a
  | .call _ _ => False
  | .tuple es => Straights es
  | .list es => Straights es
  | .set es => Straights es
  | .dict kvs => StraightKVs kvs
  | .lambda _ ds kds _ => Straights ds ∧ StraightKWs kds
  | .slice3 l h st => Straight l ∧ Straight h ∧ Straight st
  | .callx _ _ _ _ _ => False
def Straights : Exprs → Prop
  | .nil => True
  | .cons e es => Straight e ∧ Straights es
def StraightKVs : KVs → Prop
  | .nil => True
  | .cons k v r => Straight k ∧ Straight v ∧ StraightKVs r
def StraightKWs : KWs → Prop
  | .nil => True
  | .cons _ e r => Straight e ∧ StraightKWs r
end

section
variable {V X W : Type} (P : Prims V X W) (logOf : W → List Nat)

/-- success: the log grew by exactly `o`; exception: by a prefix of `o` -/
def ExtX {α : Type} (r : Res X W α) (w : W) (o : List Nat) : Prop :=
  match r with
  | .ok _ w' => logOf w' = logOf w ++ o
  | .err _ w' => ∃ l, logOf w' = logOf w ++ l ∧ l <+: o

variable {logOf}

theorem ExtX.quiet {α : Type} {r : Res X W α} {w : W} (h : logOf r.world = logOf w) :
    ExtX logOf r w [] := by
  cases r with
  | ok a w' => simpa [ExtX, Res.world] using h
  | err x w' => exact ⟨[], by simpa [Res.world] using h, List.prefix_refl _⟩

theorem ExtX.cast {α : Type} {r : Res X W α} {w : W} {o o' : List Nat} (h : ExtX logOf r w o)
    (e : o = o') : ExtX logOf r w o' := e ▸ h

theorem ExtX.bind {α β : Type} {m : M X W α} {f : α → M X W β} {w : W} {o1 o2 : List Nat}
    (h1 : ExtX logOf (m w) w o1)
    (h2 : ∀ a w1, m w = .ok a w1 → ExtX logOf (f a w1) w1 o2) :
    ExtX logOf (M.bind m f w) w (o1 ++ o2) := by
  unfold M.bind
  cases hm : m w with
  | err x w1 =>
    rw [hm] at h1
    obtain ⟨l, e, s⟩ := h1
    exact ⟨l, e, s.trans (List.prefix_append o1 o2)⟩
  | ok a w1 =>
    rw [hm] at h1
    have h2' := h2 a w1 hm
    simp only [ExtX] at h1
    show ExtX logOf (f a w1) w (o1 ++ o2)
    cases hf : f a w1 with
    | ok b w2 =>
      rw [hf] at h2'; simp only [ExtX] at h2' ⊢
      rw [h2', h1, List.append_assoc]
    | err x w2 =>
      rw [hf] at h2'
      obtain ⟨l, e, s⟩ := h2'
      exact ⟨o1 ++ l, by rw [e, h1, List.append_assoc], (List.prefix_append_right_inj o1).mpr s⟩

theorem ExtX.pure {α : Type} (a : α) (w : W) : ExtX logOf (M.pure (X := X) a w) w [] :=
  ExtX.quiet rfl

variable (hL : LogDiscipline P logOf)
include hL

mutual
theorem extXE (e : Expr) (w : W) (hn : Straight e) : ExtX logOf (evalE P e w) w (order e) := by
  cases e with
  | atom i c =>
    simp only [evalE, order]
    have h := hL.atom i c w
    cases hr : P.atom i c w with
    | ok v w' => rw [hr] at h; exact h
    | err x w' => rw [hr] at h; exact ⟨[i], h, List.prefix_refl _⟩
  | const c => simp only [evalE, order]; exact ExtX.pure _ _
  | name n => simp only [evalE, order]; exact ExtX.quiet (hL.loadName n w)
  | binop op a b =>
    simp only [Straight] at hn
    simp only [evalE, order]
    refine ExtX.bind (extXE a w hn.1) fun va w1 _ => ?_
    exact ExtX.cast (ExtX.bind (extXE b w1 hn.2) fun vb w2 _ => ExtX.quiet (hL.binop op va vb w2))
      (by simp)
  | unop op a =>
    simp only [Straight] at hn
    simp only [evalE, order]
    exact ExtX.cast (ExtX.bind (extXE a w hn) fun va w1 _ => ExtX.quiet (hL.unop op va w1)) (by simp)
  | boolop isOr a r => simp only [Straight] at hn
  | compare a r =>
    cases r with
    | one op e =>
      simp only [Straight] at hn
      simp only [evalE, evalCmp, order, orderTail]
      refine ExtX.bind (extXE a w hn.1) fun va w1 _ => ?_
      exact ExtX.cast (ExtX.bind (extXE e w1 hn.2) fun vb w2 _ => ExtX.quiet (hL.compare op va vb w2))
        (by simp)
    | more op e rest => simp only [Straight] at hn
  | ifexp t b o => simp only [Straight] at hn
  | subscript a i =>
    simp only [Straight] at hn
    simp only [evalE, order]
    refine ExtX.bind (extXE a w hn.1) fun va w1 _ => ?_
    exact ExtX.cast (ExtX.bind (extXE i w1 hn.2) fun vi w2 _ => ExtX.quiet (hL.getitem va vi w2))
      (by simp)
  | slice2 a l h =>
    simp only [Straight] at hn
    simp only [evalE, order]
    refine ExtX.bind (extXE a w hn.1) fun va w1 _ => ?_
    refine ExtX.bind (extXE l w1 hn.2.1) fun vl w2 _ => ?_
    exact ExtX.cast (ExtX.bind (extXE h w2 hn.2.2) fun vh w3 _ =>
      ExtX.bind (o1 := []) (o2 := []) (ExtX.quiet (hL.mkSlice vl vh w3)) fun sl w4 _ =>
        ExtX.quiet (hL.getitem va sl w4)) (by simp)
  | attr a n =>
    simp only [Straight] at hn
    simp only [evalE, order]
    exact ExtX.cast (ExtX.bind (extXE a w hn) fun va w1 _ => ExtX.quiet (hL.getattr va n w1)) (by simp)
  | call f args => simp only [Straight] at hn
  | tuple es =>
    simp only [Straight] at hn
    simp only [evalE, order]
    exact ExtX.cast (ExtX.bind (extXEs es w hn) fun vs w1 _ => ExtX.quiet (hL.mkTuple vs w1)) (by simp)
  | list es =>
    simp only [Straight] at hn
    simp only [evalE, order]
    exact ExtX.cast (ExtX.bind (extXEs es w hn) fun vs w1 _ => ExtX.quiet (hL.mkList vs w1)) (by simp)
  | set es =>
    simp only [Straight] at hn
    simp only [evalE, order]
    exact ExtX.cast (ExtX.bind (extXEs es w hn) fun vs w1 _ => ExtX.quiet (hL.mkSet vs w1)) (by simp)
  | dict kvs =>
    simp only [Straight] at hn
    simp only [evalE, order]
    exact ExtX.cast (ExtX.bind (o1 := []) (ExtX.quiet (hL.newDict w)) fun d w1 _ => extXKVs d kvs w1 hn)
      (by simp)
  | lambda sg ds kds b =>
    simp only [Straight] at hn
    simp only [evalE, order]
    refine ExtX.bind (extXEs ds w hn.1) fun dvs w1 _ => ?_
    exact ExtX.cast (ExtX.bind (extXKWs kds w1 hn.2) fun kvs w2 _ =>
      ExtX.quiet (hL.mkFunction _ _ dvs kvs w2)) (by simp)
  | slice3 l h st =>
    simp only [Straight] at hn
    simp only [evalE, order]
    refine ExtX.bind (extXE l w hn.1) fun vl w1 _ => ?_
    refine ExtX.bind (extXE h w1 hn.2.1) fun vh w2 _ => ?_
    exact ExtX.cast (ExtX.bind (extXE st w2 hn.2.2) fun vs w3 _ =>
      ExtX.quiet (hL.mkSlice3 vl vh vs w3)) (by simp)
  | callx f args kws star dstar => simp only [Straight] at hn
theorem extXEs (es : Exprs) (w : W) (hn : Straights es) :
    ExtX logOf (evalEs P es w) w (orders es) := by
  cases es with
  | nil => simp only [evalEs, orders]; exact ExtX.pure _ _
  | cons e es =>
    simp only [Straights] at hn
    simp only [evalEs, orders]
    refine ExtX.bind (extXE e w hn.1) fun v w1 _ => ?_
    exact ExtX.cast (ExtX.bind (extXEs es w1 hn.2) fun vs w2 _ => ExtX.pure _ _) (by simp)
theorem extXKVs (d : V) (kvs : KVs) (w : W) (hn : StraightKVs kvs) :
    ExtX logOf (evalKVs P d kvs w) w (orderKVs kvs) := by
  cases kvs with
  | nil => simp only [evalKVs, orderKVs]; exact ExtX.pure _ _
  | cons k v rest =>
    simp only [StraightKVs] at hn
    simp only [evalKVs, orderKVs]
    refine ExtX.bind (extXE v w hn.2.1) fun vv w1 _ => ?_
    refine ExtX.bind (extXE k w1 hn.1) fun vk w2 _ => ?_
    exact ExtX.cast (ExtX.bind (o1 := []) (ExtX.quiet (hL.dictSet d vk vv w2)) fun _ w3 _ =>
      extXKVs d rest w3 hn.2.2) (by simp)
theorem extXKWs (kws : KWs) (w : W) (hn : StraightKWs kws) :
    ExtX logOf (evalKWs P kws w) w (orderKWs kws) := by
  cases kws with
  | nil => simp only [evalKWs, orderKWs]; exact ExtX.pure _ _
  | cons n e rest =>
    simp only [StraightKWs] at hn
    simp only [evalKWs, orderKWs]
    refine ExtX.bind (extXE e w hn.1) fun v w1 _ => ?_
    exact ExtX.cast (ExtX.bind (extXKWs rest w1 hn.2) fun r w2 _ => ExtX.pure _ _) (by simp)
end

end
end GPy.C01
